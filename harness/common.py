"""Shared infrastructure of the checks: the real gotranx in-process, execution of generated
code (NumPy in-process, 50-digit shim, C through gcc + ctypes), run context, evidence,
replays and known findings."""
from __future__ import annotations

import ctypes
import hashlib
import json
import logging
import math
import os
import random
import shutil
import subprocess
import sys
import tempfile
import time
import types
import warnings
from pathlib import Path

VERIF = Path(__file__).resolve().parent.parent
REPO = Path(os.environ.get("GOTRANX_REPO", "/repo"))

# always the working tree under /repo, whatever is installed in the venv
sys.path.insert(0, str(REPO / "src"))
warnings.simplefilter("ignore")

import structlog  # noqa: E402

structlog.configure(wrapper_class=structlog.make_filtering_bound_logger(logging.CRITICAL))

import mpmath  # noqa: E402
import numpy as np  # noqa: E402
from mpmath import mpf  # noqa: E402

import gotranx  # noqa: E402
from gotranx.cli import gotran2c, gotran2py  # noqa: E402
from gotranx.codegen.c import Format as CFormat  # noqa: E402
from gotranx.codegen.python import Format as PyFormat  # noqa: E402
from gotranx.load import ode_from_string  # noqa: E402
from gotranx.schemes import Scheme  # noqa: E402

assert Path(gotranx.__file__).resolve().is_relative_to(REPO.resolve()), gotranx.__file__
# gotranx/__init__ configures INFO logging and sympy re-enables its deprecation warnings on import
structlog.configure(wrapper_class=structlog.make_filtering_bound_logger(logging.CRITICAL))
warnings.filterwarnings("ignore")


def load(text: str, name: str = "ode"):
    return ode_from_string(text, name=name)


def py_code(ode, backend="numpy", **kw) -> str:
    kw.setdefault("format", PyFormat.none)
    return gotran2py.get_code(ode, backend=gotran2py.Backend(backend), **kw)


def c_code(ode, **kw) -> str:
    kw.setdefault("format", CFormat.none)
    return gotran2c.get_code(ode, **kw)


def exec_module(code: str, name: str = "genmod"):
    m = types.ModuleType(name)
    m.__dict__["__source__"] = code
    exec(compile(code, f"<{name}>", "exec"), m.__dict__)
    return m


# ---------------------------------------------------------------- 50-digit shim of `numpy`
class Vec(list):
    @property
    def shape(self):
        return (len(self),)


def _mp1(f):
    def g(x):
        from . import sexp
        return sexp.hp_fn(f, mpf(x))
    return g


class _Reduce:
    def __init__(self, both):
        self.both = both

    def __call__(self, a, b):
        return (bool(a) and bool(b)) if self.both else (bool(a) or bool(b))

    def reduce(self, seq):
        seq = list(seq)
        return all(bool(x) for x in seq) if self.both else any(bool(x) for x in seq)


def make_shim():
    """a module object standing in for `numpy` that computes with 50-digit reals"""
    from . import sexp
    sh = types.ModuleType("numpy_hp_shim")
    sh.float64 = float
    sh.pi = +mpmath.mp.pi
    sh.e = mpmath.e
    sh.zeros_like = lambda a, dtype=None: Vec([mpf(0)] * len(a))
    sh.zeros = lambda shape: Vec([mpf(0)] * (shape if isinstance(shape, int) else shape[0]))
    sh.array = lambda seq, dtype=None: Vec([mpf(x) if not isinstance(x, (bool,)) else mpf(int(x)) for x in seq])
    for py, f in (("exp", "exp"), ("log", "log"), ("sqrt", "sqrt"), ("sin", "sin"), ("cos", "cos"), ("tan", "tan"),
                  ("arcsin", "asin"), ("arccos", "acos"), ("arctan", "atan"), ("asin", "asin"), ("acos", "acos"),
                  ("atan", "atan"), ("abs", "abs"), ("fabs", "abs"), ("absolute", "abs"),
                  ("floor", "floor"), ("sign", "sign")):
        setattr(sh, py, _mp1(f))
    sh.where = lambda c, a, b: a if bool(c) else b
    sh.logical_and = _Reduce(True)
    sh.logical_or = _Reduce(False)
    sh.logical_not = lambda a: not bool(a)
    sh.copysign = lambda a, b: abs(mpf(a)) if mpf(b) >= 0 else -abs(mpf(a))
    sh.mod = lambda a, b: sexp.hp_mod(mpf(a), mpf(b))
    sh.power = lambda a, b: sexp.hp_pow(mpf(a), mpf(b))
    return sh


class _MP(mpmath.mpf):
    """mpf with IEEE-like division and power (no exceptions)"""


def exec_module_hp(code: str, name: str = "genmod_hp"):
    """run NumPy/JAX module text against the 50-digit shim"""
    lines = []
    for ln in code.splitlines():
        s = ln.strip()
        if s in ("import numpy", "import jax", "import jax.numpy as numpy") or s.startswith("jax.config.update"):
            continue
        if s == "@jax.jit":
            continue
        lines.append(ln)
    m = types.ModuleType(name)
    m.__dict__["numpy"] = make_shim()
    exec(compile("\n".join(lines), f"<{name}>", "exec"), m.__dict__)
    return m


def hp_call(fn, *args):
    """call a shim-module function; arithmetic exceptions become NaN results"""
    try:
        return fn(*args)
    except ZeroDivisionError:
        return None
    except (ValueError, OverflowError, TypeError):
        return None
    except (AttributeError, NameError, IndexError, KeyError):
        # the generated code uses something the shim does not provide (or is broken in a way of its own):
        # no 50-digit confirmation is available, the float64 disagreement stands
        return None


# ---------------------------------------------------------------- C
_CC = shutil.which("gcc") or shutil.which("cc")


class CModule:
    def __init__(self, code: str, workdir: Path, tag: str, flags=("-O1",)):
        self.code = code
        src = workdir / f"{tag}.c"
        so = workdir / f"{tag}.so"
        src.write_text(code)
        p = subprocess.run([_CC, "-shared", "-fPIC", "-Wall", *flags, "-o", str(so), str(src), "-lm"],
                           capture_output=True, text=True)
        self.compile_log = p.stderr
        self.ok = p.returncode == 0
        self.lib = ctypes.CDLL(str(so)) if self.ok else None
        if self.lib is not None:
            for f in ("state_index", "parameter_index", "monitor_index"):
                if hasattr(self.lib, f):
                    getattr(self.lib, f).restype = ctypes.c_int
                    getattr(self.lib, f).argtypes = [ctypes.c_char_p]

    def const(self, name):
        return ctypes.c_int.in_dll(self.lib, name).value

    def index(self, fn, name: str) -> int:
        return getattr(self.lib, fn)(name.encode())

    def call(self, fn: str, order: str, n_out: int, **kw):
        """order: letters s t p d -> positional arguments, then the output array"""
        f = getattr(self.lib, fn)
        args = []
        keep = []
        for ch in order:
            if ch in "sp":
                arr = np.ascontiguousarray(kw["states" if ch == "s" else "parameters"], dtype=np.float64)
                keep.append(arr)
                args.append(arr.ctypes.data_as(ctypes.POINTER(ctypes.c_double)))
            elif ch == "t":
                args.append(ctypes.c_double(kw["t"]))
            elif ch == "d":
                args.append(ctypes.c_double(kw["dt"]))
        out = np.full(max(n_out, 1) + 4, 1234.5)
        args.append(out.ctypes.data_as(ctypes.POINTER(ctypes.c_double)))
        f.restype = None
        f(*args)
        return out[:n_out], out[n_out:]

    def init(self, fn: str, n: int):
        f = getattr(self.lib, fn)
        out = np.full(max(n, 1) + 4, 1234.5)
        f.restype = None
        f(out.ctypes.data_as(ctypes.POINTER(ctypes.c_double)))
        return out[:n], out[n:]


# ---------------------------------------------------------------- context, evidence, findings
class Violation:
    def __init__(self, key: str, what: str, data: dict):
        self.key = key
        self.what = what
        self.data = data


class Ctx:
    def __init__(self, pid: str, tier: str, seed: int):
        self.pid = pid
        self.tier = tier
        self.seed = seed
        self.rng = random.Random(f"{pid}-{seed}")
        self.t0 = time.time()
        self.stats: dict = {}
        self.samples: list = []
        self.hashes: set = set()
        self.nontrivial: set = set()
        self.evaluations = 0
        self.violations: list[Violation] = []
        self.broken: list[dict] = []          # broken obligations / correspondences
        self.assumptions: list[str] = []
        self.tmp = Path(tempfile.mkdtemp(prefix=f"gxverif-{pid}-"))
        self.driver = None
        self.obligations: list[dict] = []
        self.notes: list[str] = []
        self.budget_scale = 1.0

    @property
    def thorough(self):
        return self.tier == "thorough"

    def n(self, quick: int, thorough: int) -> int:
        return max(1, int((thorough if self.thorough else quick) * self.budget_scale))

    def count(self, key: str, k: int = 1):
        self.stats[key] = self.stats.get(key, 0) + k

    def case(self, text: str, nontrivial: bool, sample=None):
        self.evaluations += 1
        h = hashlib.sha1(text.encode()).hexdigest()[:16]
        self.hashes.add(h)
        if nontrivial:
            self.nontrivial.add(h)
        if sample is not None and len(self.samples) < 4:
            self.samples.append(sample)

    def violate(self, key: str, what: str, **data):
        self.violations.append(Violation(key, what, data))

    def broke(self, kind: str, name: str, detail: str = ""):
        self.broken.append({"kind": kind, "name": name, "detail": detail})

    def lean(self):
        if self.driver is None:
            from . import leandrv
            self.driver = leandrv.Driver()
        return self.driver

    def elapsed(self):
        return time.time() - self.t0

    def cleanup(self):
        if self.driver is not None:
            self.driver.close()
        shutil.rmtree(self.tmp, ignore_errors=True)


class CaseTimeout(BaseException):
    pass


class time_limit:
    """wall-clock limit for one case (sympy's simplify / limit and mpmath powers can take forever).
    On expiry the Lean driver is restarted, because a request may be in flight."""

    def __init__(self, ctx: "Ctx", seconds: int):
        self.ctx = ctx
        self.seconds = seconds

    def _handler(self, signum, frame):
        raise CaseTimeout()

    def __enter__(self):
        import signal
        self.old = signal.signal(signal.SIGALRM, self._handler)
        signal.setitimer(signal.ITIMER_REAL, self.seconds, 0.5)  # re-fires until it gets through
        return self

    def __exit__(self, et, ev, tb):
        import signal
        signal.setitimer(signal.ITIMER_REAL, 0)
        signal.signal(signal.SIGALRM, self.old)
        if et is CaseTimeout:
            self.ctx.count("case_timeouts")
            if self.ctx.driver is not None:
                try:
                    self.ctx.driver.p.kill()
                except Exception:
                    pass
                self.ctx.driver = None
            return True
        return False


def load_known():
    p = VERIF / "known_findings.json"
    if not p.exists():
        return []
    return json.loads(p.read_text())


def write_replay(pid: str, seed: int, n: int, payload: dict) -> Path:
    d = VERIF / "replays"
    d.mkdir(parents=True, exist_ok=True)
    p = d / f"{pid}-{seed}-{n}.json"
    p.write_text(json.dumps(payload, indent=1, default=str))
    return p


def write_evidence(ctx: Ctx, level: str, coverage: dict, violations: int):
    d = Path(os.environ.get("VERIF_EVIDENCE_DIR") or (VERIF / "evidence"))
    d.mkdir(parents=True, exist_ok=True)
    ev = {
        "property_id": ctx.pid,
        "tier": ctx.tier,
        "seed": ctx.seed,
        "level": level,
        "coverage": coverage,
        "assumptions": ctx.assumptions,
        "wall_s": round(ctx.elapsed(), 2),
        "violations": violations,
    }
    (d / f"{ctx.pid}.json").write_text(json.dumps(ev, indent=1, default=str))


def fbits(x: float) -> str:
    import struct
    return str(struct.unpack("<Q", struct.pack("<d", float(x)))[0])


def from_bits(s: str) -> float:
    import struct
    return struct.unpack("<d", struct.pack("<Q", int(s)))[0]


def finite(x) -> bool:
    try:
        return math.isfinite(float(x))
    except Exception:
        return False
