"""Regenerate `lean/GotranxModel/Generated/Params.lean` from /repo's current source.

Only `ast` / text processing of the working tree: nothing of gotranx is imported here.
The output is deterministic and insensitive to comments, docstrings and formatting.
Each item is consumed by a theorem in `GotranxProofs/Pins.lean` (re-checked by `lake build`
on every run) and/or by the `Impl` layer of the model.
"""
from __future__ import annotations

import ast
import os
import re
from pathlib import Path

VERIF = Path(__file__).resolve().parent.parent
REPO = Path(os.environ.get("GOTRANX_REPO", "/repo"))
SRC = REPO / "src" / "gotranx"
OUT = VERIF / "lean" / "GotranxModel" / "Generated" / "Params.lean"


def lstr(s: str) -> str:
    return '"' + s.replace("\\", "\\\\").replace('"', '\\"').replace("\n", "\\n") + '"'


def llist(xs) -> str:
    return "[" + ", ".join(xs) + "]"


def lpairs(d) -> str:
    return llist(f"({lstr(k)}, {lstr(v)})" for k, v in d)


# ---------------------------------------------------------------- grammar
def grammar_rules(text: str):
    """rule name -> normalised body, terminals -> body; `%ignore` list"""
    rules, terms, ignores = {}, {}, []
    cur = None
    for raw in text.splitlines():
        line = raw.rstrip()
        if not line.strip() or line.strip().startswith("//"):
            continue
        if line.startswith("%ignore"):
            ignores.append(line.split()[1])
            cur = None
            continue
        if line.startswith("%import"):
            cur = None
            continue
        m = re.match(r"^([?!]*)([A-Za-z_][A-Za-z_0-9]*)\s*:\s*(.*)$", line)
        if m and not line[0].isspace():
            cur = m.group(2)
            body = m.group(3)
            (terms if cur.isupper() else rules)[cur] = body
            continue
        if cur is not None and line[0].isspace():
            tgt = terms if cur.isupper() else rules
            tgt[cur] = tgt[cur] + " " + line.strip()
    norm = lambda s: " ".join(s.split())  # noqa: E731
    return {k: norm(v) for k, v in rules.items()}, {k: norm(v) for k, v in terms.items()}, ignores


# ---------------------------------------------------------------- python helpers
def parse(path: Path) -> ast.Module:
    return ast.parse(path.read_text())


def find_func(tree: ast.AST, name: str) -> ast.FunctionDef:
    for n in ast.walk(tree):
        if isinstance(n, ast.FunctionDef) and n.name == name:
            return n
    raise KeyError(name)


def find_class(tree: ast.AST, name: str) -> ast.ClassDef:
    for n in ast.walk(tree):
        if isinstance(n, ast.ClassDef) and n.name == name:
            return n
    raise KeyError(name)


def enum_members(cls: ast.ClassDef):
    out = []
    for st in cls.body:
        if isinstance(st, ast.Assign) and len(st.targets) == 1 and isinstance(st.targets[0], ast.Name) and isinstance(st.value, ast.Constant):
            out.append((st.targets[0].id, str(st.value.value)))
    return out


def scheme_aliases(tree):
    """alias -> function name, from the if/elif chain of `get_scheme`"""
    fn = find_func(tree, "get_scheme")
    out = []
    for n in ast.walk(fn):
        if isinstance(n, ast.If) and isinstance(n.test, ast.Compare) and isinstance(n.test.ops[0], ast.In):
            names = [c.value for c in n.test.comparators[0].elts if isinstance(c, ast.Constant)]
            target = None
            for st in n.body:
                if isinstance(st, ast.Assign) and isinstance(st.value, ast.Name):
                    target = st.value.id
            for a in names:
                out.append((a, target or "?"))
    return out


def default_of(fn: ast.FunctionDef, arg: str):
    args = fn.args.args
    defaults = fn.args.defaults
    off = len(args) - len(defaults)
    for i, a in enumerate(args):
        if a.arg == arg and i >= off:
            return ast.unparse(defaults[i - off])
    for a, d in zip(fn.args.kwonlyargs, fn.args.kw_defaults):
        if a.arg == arg and d is not None:
            return ast.unparse(d)
    raise KeyError(arg)


def dict_literal(fn: ast.AST, var: str):
    for n in ast.walk(fn):
        if isinstance(n, ast.Assign) and len(n.targets) == 1 and isinstance(n.targets[0], ast.Name) and n.targets[0].id == var and isinstance(n.value, ast.Dict):
            out = []
            for k, v in zip(n.value.keys, n.value.values):
                out.append((ast.literal_eval(k), ast.unparse(v)))
            return out
    raise KeyError(var)


def call_keywords(fn: ast.AST, callee_suffix: str):
    """keyword -> source of the value for the first call whose function text ends with the suffix"""
    for n in ast.walk(fn):
        if isinstance(n, ast.Call) and ast.unparse(n.func).endswith(callee_suffix):
            return [(k.arg, ast.unparse(k.value)) for k in n.keywords if k.arg]
    raise KeyError(callee_suffix)


def method_info(cls: ast.ClassDef, name: str):
    """what `CodeGenerator.<name>` passes on: remove_unused of the state unpacking and of the
    sort, and the shape expression of `values`"""
    fn = find_func(cls, name)
    info = {}
    for n in ast.walk(fn):
        if isinstance(n, ast.Call):
            f = ast.unparse(n.func)
            if f.endswith("_state_assignments"):
                for k in n.keywords:
                    if k.arg == "remove_unused":
                        info["states_remove_unused"] = ast.unparse(k.value)
            if f.endswith("sorted_assignments"):
                for k in n.keywords:
                    if k.arg == "remove_unused":
                        info["sort_remove_unused"] = ast.unparse(k.value)
            if f.endswith("template.method"):
                for k in n.keywords:
                    if k.arg in ("num_return_values", "name", "values_type"):
                        info["method_" + k.arg] = ast.unparse(k.value)
    return sorted(info.items())


def rhs_args_num_return(tree, cls_name):
    cls = find_class(tree, cls_name)
    out = []
    for fname in ("_rhs_arguments", "_scheme_arguments"):
        fn = find_func(cls, fname)
        val = "absent"
        for n in ast.walk(fn):
            if isinstance(n, ast.Call) and ast.unparse(n.func) == "Func":
                for k in n.keywords:
                    if k.arg == "num_return_values":
                        val = ast.unparse(k.value)
        out.append((fname, val))
    return out


def caught_exceptions(tree):
    fn = find_func(tree, "get_unit_and_comment_from_assignment")
    out = []
    for n in ast.walk(fn):
        if isinstance(n, ast.ExceptHandler):
            if n.type is None:
                out.append("<bare>")
            elif isinstance(n.type, ast.Tuple):
                out.extend(ast.unparse(e) for e in n.type.elts)
            else:
                out.append(ast.unparse(n.type))
    return out


def sorted_deps_flag(tree):
    """is the dependency set sorted before it reaches `sorter.add`?"""
    fn = find_func(tree, "sort_assignments")
    for n in ast.walk(fn):
        if isinstance(n, ast.Call) and ast.unparse(n.func).endswith("sorter.add"):
            for a in n.args:
                if isinstance(a, ast.Starred):
                    return "sorted(" in ast.unparse(a.value)
    return False


def cli_tables(tree):
    """per CLI command: keyword -> variable of the `gotran2py.main(...)` / `gotran2c.main(...)`
    call, and the config keys read"""
    out = []
    for cmd, callee in (("ode2py", "gotran2py.main"), ("ode2c", "gotran2c.main")):
        fn = find_func(tree, cmd)
        kws = call_keywords(fn, callee)
        cfg = []
        for n in ast.walk(fn):
            if isinstance(n, ast.Call) and ast.unparse(n.func).endswith(".get") and n.args and isinstance(n.args[0], ast.Constant):
                base = ast.unparse(n.func.value)
                if "config" in base:
                    cfg.append(f"{base}:{n.args[0].value}")
        opts = [a.arg for a in fn.args.args]
        out.append((cmd, kws, cfg, opts))
    return out


def main_forwarding(tree):
    fn = find_func(tree, "main")
    return call_keywords(fn, "get_code")


def max_tries_shape(tree):
    fn = find_func(tree, "rhs_matrix")
    default = default_of(fn, "max_tries")
    raises = [ast.unparse(n.test) for n in ast.walk(fn) if isinstance(n, ast.If) and any(isinstance(s, ast.Raise) for s in n.body)]
    whiles = [ast.unparse(n.test) for n in ast.walk(fn) if isinstance(n, ast.While)]
    bound = [ast.unparse(n.value) for n in ast.walk(fn) if isinstance(n, ast.Assign) and len(n.targets) == 1
             and isinstance(n.targets[0], ast.Name) and n.targets[0].id == "max_tries"]
    return default, raises, whiles, bound


def relop_table(tree):
    cls = find_class(tree, "BaseGotranODECodePrinter")
    return dict_literal(cls, "relop2str"), sorted(n.name for n in cls.body if isinstance(n, ast.FunctionDef))


def c_index_names(tree):
    out = []
    for name in ("parameter_index", "state_index", "monitor_index", "missing_index"):
        fn = find_func(tree, name)
        val = "?"
        for n in ast.walk(fn):
            if isinstance(n, ast.Call) and ast.unparse(n.func) == "method_index" and len(n.args) >= 2:
                val = ast.literal_eval(n.args[1])
        out.append((name, val))
    return out


def uses_shortcut(tree):
    out = []
    for name in ("generalized_rush_larsen", "hybrid_rush_larsen"):
        fn = find_func(tree, name)
        src = ast.unparse(fn)
        out.append((name, "fraction_numerator_is_nonzero" in src))
    return out


_SCHEME_KW_SNIPPET = r"""
import json, inspect
from gotranx.cli.utils import add_schemes
from gotranx.schemes import Scheme, get_scheme
class Rec:
    def __init__(self): self.calls = []
    def scheme(self, f, **kw):
        self.calls.append((getattr(f, "__name__", "?"), kw)); return ""
out = []
for s in Scheme:
    r = Rec()
    add_schemes(r, scheme=[s], delta=0.5, stiff_states=["x"])
    f = get_scheme(s.value)
    accepts = sorted(p for p in inspect.signature(f).parameters if p in ("delta", "stiff_states"))
    passed = sorted(r.calls[0][1]) if len(r.calls) == 1 else ["<%d calls>" % len(r.calls)]
    want = {"delta": 0.5, "stiff_states": ["x"]}
    unchanged = len(r.calls) == 1 and all(r.calls[0][1][k] == want.get(k) for k in r.calls[0][1])
    out.append([s.value, ",".join(passed), ",".join(accepts), "unchanged" if unchanged else "changed"])
print(json.dumps(out))
"""


def scheme_kwargs():
    """which options `cli.utils.add_schemes` hands to `codegen.scheme` for each member of `Scheme`
    (observed by calling that pure function with a recording stub in a subprocess), next to the
    options the resolved scheme function accepts"""
    import json
    import subprocess
    import sys
    env = dict(os.environ)
    env["PYTHONPATH"] = str(REPO / "src")
    env["PYTHONWARNINGS"] = "ignore"
    p = subprocess.run([sys.executable, "-c", _SCHEME_KW_SNIPPET], env=env, capture_output=True, text=True, timeout=120)
    if p.returncode != 0:
        raise RuntimeError(p.stderr.strip().splitlines()[-1] if p.stderr.strip() else "add_schemes probe failed")
    return json.loads(p.stdout.strip().splitlines()[-1])


def run():
    """returns [(item, ok, detail)]; writes Params.lean (only if it changed)"""
    results = []
    items: list[str] = []

    def item(name, thunk, render, fallback):
        try:
            v = thunk()
            items.append(render(v))
            results.append((name, True, ""))
        except Exception as ex:
            items.append(fallback)
            results.append((name, False, f"{type(ex).__name__}: {ex}"))

    gtext = (SRC / "ode.lark").read_text()
    rules, terms, ignores = grammar_rules(gtext)
    ladder = ["start", "ode", "parameter", "assignment", "comment", "parameters", "states", "expressions", "expression",
              "term", "factor", "_unary_op", "_add_op", "_mul_op", "power", "signedatom", "atom", "scientific", "constant",
              "variable", "func", "funcname", "logicalfunc", "logicalfuncname"]
    item("grammar_rules", lambda: [(k, rules[k]) for k in ladder],
         lambda v: f"def grammarRules : List (String × String) := {lpairs(v)}", "def grammarRules : List (String × String) := []")
    item("grammar_terminals", lambda: sorted(terms.items()),
         lambda v: f"def grammarTerminals : List (String × String) := {lpairs(v)}", "def grammarTerminals : List (String × String) := []")
    item("grammar_ignore", lambda: ignores,
         lambda v: f"def grammarIgnore : List String := {llist(map(lstr, v))}", "def grammarIgnore : List String := []")
    item("grammar_extra_rules", lambda: sorted(set(rules) - set(ladder)),
         lambda v: f"def grammarExtraRules : List String := {llist(map(lstr, v))}", 'def grammarExtraRules : List String := ["?"]')

    schemes = parse(SRC / "schemes.py")
    item("scheme_aliases", lambda: scheme_aliases(schemes),
         lambda v: f"def schemeAliases : List (String × String) := {lpairs(v)}", "def schemeAliases : List (String × String) := []")
    item("scheme_members", lambda: enum_members(find_class(schemes, "Scheme")),
         lambda v: f"def schemeMembers : List (String × String) := {lpairs(v)}", "def schemeMembers : List (String × String) := []")
    item("default_delta", lambda: [(f, default_of(find_func(schemes, f), "delta")) for f in ("generalized_rush_larsen", "hybrid_rush_larsen")],
         lambda v: f"def defaultDelta : List (String × String) := {lpairs(v)}", "def defaultDelta : List (String × String) := []")
    item("rl_shortcut", lambda: uses_shortcut(schemes),
         lambda v: "def rlShortcut : List (String × Bool) := " + llist(f"({lstr(k)}, {'true' if b else 'false'})" for k, b in v),
         "def rlShortcut : List (String × Bool) := []")

    base = parse(SRC / "codegen" / "base.py")
    item("rhs_orders", lambda: [v for _, v in enum_members(find_class(base, "RHSArgument"))],
         lambda v: f"def rhsOrders : List String := {llist(map(lstr, v))}", "def rhsOrders : List String := []")
    item("scheme_orders", lambda: [v for _, v in enum_members(find_class(base, "SchemeArgument"))],
         lambda v: f"def schemeOrders : List String := {llist(map(lstr, v))}", "def schemeOrders : List String := []")
    cg = None
    try:
        cg = find_class(base, "CodeGenerator")
    except Exception:
        pass
    for meth in ("rhs", "monitor_values", "missing_values", "scheme"):
        item(f"method_{meth}", (lambda meth=meth: method_info(cg, meth)),
             (lambda v, meth=meth: f"def method_{meth} : List (String × String) := {lpairs(v)}"),
             f"def method_{meth} : List (String × String) := []")

    py = parse(SRC / "codegen" / "python.py")
    cc = parse(SRC / "codegen" / "c.py")
    for lang, tree, cls in (("py", py, "PythonCodeGenerator"), ("c", cc, "CCodeGenerator")):
        for fname, short in (("_rhs_arguments", "Rhs"), ("_scheme_arguments", "Scheme")):
            item(f"{lang}_{fname}", (lambda tree=tree, cls=cls, fname=fname: dict_literal(find_func(find_class(tree, cls), fname), "argument_dict")),
                 (lambda v, lang=lang, short=short: f"def {lang}{short}Args : List (String × String) := {lpairs(v)}"),
                 f"def {lang}{short}Args : List (String × String) := []")
        item(f"{lang}_num_return", (lambda tree=tree, cls=cls: rhs_args_num_return(tree, cls)),
             (lambda v, lang=lang: f"def {lang}NumReturn : List (String × String) := {lpairs(v)}"),
             f"def {lang}NumReturn : List (String × String) := []")

    st = parse(SRC / "sympytools.py")
    item("max_tries", lambda: max_tries_shape(st),
         lambda v: f"def maxTriesDefault : String := {lstr(v[0])}\ndef maxTriesRaise : List String := {llist(map(lstr, v[1]))}\ndef maxTriesWhile : List String := {llist(map(lstr, v[2]))}\ndef maxTriesBound : List String := {llist(map(lstr, v[3]))}",
         "def maxTriesDefault : String := \"?\"\ndef maxTriesRaise : List String := []\ndef maxTriesWhile : List String := []\ndef maxTriesBound : List String := []")

    tr = parse(SRC / "transformer.py")
    item("unit_caught", lambda: caught_exceptions(tr),
         lambda v: f"def unitCaught : List String := {llist(map(lstr, v))}", "def unitCaught : List String := []")

    odep = parse(SRC / "codegen" / "ode.py")
    item("relop2str", lambda: relop_table(odep),
         lambda v: f"def relop2str : List (String × String) := {lpairs(v[0])}\ndef odePrinterMethods : List String := {llist(map(lstr, v[1]))}",
         "def relop2str : List (String × String) := []\ndef odePrinterMethods : List String := []")

    ctpl = parse(SRC / "templates" / "c.py")
    item("c_index_names", lambda: c_index_names(ctpl),
         lambda v: f"def cIndexNames : List (String × String) := {lpairs(v)}", "def cIndexNames : List (String × String) := []")

    odepy = parse(SRC / "ode.py")
    item("sorted_deps", lambda: sorted_deps_flag(odepy),
         lambda v: f"def depsSortedBeforeAdd : Bool := {'true' if v else 'false'}", "def depsSortedBeforeAdd : Bool := false")

    cli = parse(SRC / "cli" / "__init__.py")

    def render_cli(v):
        out = []
        for cmd, kws, cfg, opts in v:
            out.append(f"def cli_{cmd}_forward : List (String × String) := {lpairs(kws)}")
            out.append(f"def cli_{cmd}_config : List String := {llist(map(lstr, cfg))}")
            out.append(f"def cli_{cmd}_options : List String := {llist(map(lstr, opts))}")
        return "\n".join(out)

    item("cli_tables", lambda: cli_tables(cli), render_cli,
         "\n".join(f"def cli_{c}_forward : List (String × String) := []\ndef cli_{c}_config : List String := []\ndef cli_{c}_options : List String := []" for c in ("ode2py", "ode2c")))
    for lang, mod in (("py", "gotran2py.py"), ("c", "gotran2c.py")):
        item(f"main_forward_{lang}", (lambda mod=mod: main_forwarding(parse(SRC / "cli" / mod))),
             (lambda v, lang=lang: f"def mainForward_{lang} : List (String × String) := {lpairs(v)}"),
             f"def mainForward_{lang} : List (String × String) := []")

    item("scheme_kwargs", scheme_kwargs,
         lambda v: ("def schemeKwargsPassed : List (String × String) := " + lpairs([(a, b) for a, b, _, _ in v]) +
                    "\ndef schemeKwargsAccepted : List (String × String) := " + lpairs([(a, c) for a, _, c, _ in v]) +
                    "\ndef schemeKwargsValues : List (String × String) := " + lpairs([(a, d) for a, _, _, d in v])),
         "def schemeKwargsPassed : List (String × String) := []\ndef schemeKwargsAccepted : List (String × String) := [(\"?\", \"?\")]\n"
         "def schemeKwargsValues : List (String × String) := []")

    body = ("/-! GENERATED by harness/extract.py from /repo's working tree on every run. Do not edit. -/\n"
            "namespace Gx.Generated\n\n" + "\n\n".join(items) + "\n\nend Gx.Generated\n")
    OUT.parent.mkdir(parents=True, exist_ok=True)
    if not OUT.exists() or OUT.read_text() != body:
        OUT.write_text(body)
    return results


if __name__ == "__main__":
    for r in run():
        print(r)
