"""Structured random generation of `.ode` models (AST level, rendered to text).

All randomness comes from the `random.Random` passed in (derived from VERIF_SEED).
"""
from __future__ import annotations

import keyword
import random
from dataclasses import dataclass, field

from . import sexp

# names the default generator never uses: the identifier discipline is C19's subject
RESERVED = set(keyword.kwlist) | {
    "t", "time", "dt", "pi", "values", "states", "parameters", "shape", "missing_variables", "numpy",
    "math", "jax", "len", "name", "state", "parameter", "monitor", "missing", "key", "value", "self",
    "expressions", "component", "ScalarParam", "unit", "description", "true", "false", "True", "False",
    "None", "E", "I", "S", "N", "O", "Q", "e", "d", "abs", "Abs", "exp", "log", "ln", "sqrt", "sin", "cos",
    "tan", "asin", "acos", "atan", "floor", "Mod", "Lt", "Gt", "Le", "Ge", "Eq", "Ne", "And", "Or", "Not",
    "Conditional", "ContinuousConditional", "pow", "fabs", "fmod", "ceil", "round", "y0", "y1", "yn", "j0",
    "j1", "jn", "gamma", "index", "div", "double", "int", "float", "char", "long", "short", "void", "const",
    "static", "auto", "register", "signed", "unsigned", "struct", "union", "enum", "typedef", "extern",
    "volatile", "sizeof", "switch", "case", "default", "goto", "do", "restrict", "inline", "NULL", "M_PI",
    "main", "rhs", "init", "erf", "erfc", "tgamma", "lgamma", "cbrt", "hypot", "exp2", "expm1", "log2",
    "log10", "log1p", "sinh", "cosh", "tanh", "asinh", "acosh", "atanh", "trunc", "rint", "fma", "fmax",
    "fmin", "fdim", "nan", "remainder", "signgam", "strcmp", "string", "NUM_STATES", "NUM_PARAMS",
    "NUM_MONITORED", "lambda_", "array", "where",
}

import builtins as _builtins

RESERVED |= set(dir(_builtins))

_FIRST = "abcdefghijklmnopqrstuvwxyzABCDEFGHIJKLMNOPQRSTUVWXYZ"
_REST = _FIRST + "0123456789_"


def fresh_name(rng: random.Random, used: set[str], prefix: str = "") -> str:
    while True:
        if prefix and rng.random() < 0.6:
            n = f"{prefix}{rng.randint(0, 30)}"
        else:
            n = rng.choice(_FIRST) + "".join(rng.choice(_REST) for _ in range(rng.randint(0, 5)))
        if n in used or n in RESERVED:
            continue
        if n.startswith("d") and n.endswith("_dt"):
            continue
        if n.endswith("_linearized") or n.startswith("_"):
            continue
        if n.lower() in {x.lower() for x in used}:
            continue  # names differing only by case are left to C19
        used.add(n)
        return n


LITERALS = [(0, 0), (1, 0), (2, 0), (3, 0), (7, 0), (10, 0), (5, -1), (25, -2), (15, -1), (275, -2),
            (1, -3), (25, 1), (1, 3), (314159, -5), (6022, 12), (1, -12), (123456789012345678, -17),
            (9, -1), (4, 0), (12, -1), (1, -1), (1, -10), (25, -21)]


EXTREME = [(6022, 20), (1, 300), (1, -300), (7, 25), (581, 21)]


def lit(rng: random.Random, extreme: bool = False):
    if extreme and rng.random() < 0.15:
        return ("num",) + sexp.norm_num(*rng.choice(EXTREME))
    if rng.random() < 0.7:
        m, e = rng.choice(LITERALS)
    else:
        m, e = rng.randint(1, 9999), rng.randint(-6, 3)
    return ("num",) + sexp.norm_num(m, e)


def small_lit(rng):
    return ("num",) + sexp.norm_num(*rng.choice([(2, 0), (3, 0), (5, -1), (15, -1), (1, 0), (25, -1)]))


@dataclass
class ExprCfg:
    p_cond: float = 0.12
    p_ccond: float = 0.04
    p_logic: float = 0.5      # inside conditions: chance of And/Or/Not
    p_mod: float = 0.04
    p_floor: float = 0.03
    p_relnum: float = 0.03    # relation used as a number
    allow_time: bool = True
    safe: float = 0.75        # chance of a domain-safe wrapper for partial functions
    p_idiom: float = 0.12     # precedence-sensitive / interval idioms of real models
    extreme: bool = False     # literals of astronomical size (kept to a stream of their own)
    funcs: tuple = ("exp", "log", "sqrt", "sin", "cos", "tan", "asin", "acos", "atan", "abs")


def rel_operands(rng, avail, depth, cfg):
    """operands sympy cannot fold to a constant truth value on sight: the left one mentions a
    name, the right one is a literal or a different expression"""
    a = gen_expr(rng, avail, max(depth - 1, 0), cfg)
    for _ in range(4):
        if sexp.fv(a) or not avail:
            break
        a = gen_expr(rng, avail, max(depth - 1, 1), cfg)
    if avail and not sexp.fv(a):
        a = ("var", rng.choice(avail))
    b = gen_expr(rng, avail, 0, cfg) if rng.random() < 0.6 else lit(rng)
    if b == a:
        b = lit(rng)
    return a, b


def idiom_cond(rng, avail, cfg):
    """condition shapes that real models use and printers get wrong: intervals, mixed nesting"""
    v = ("var", rng.choice(avail)) if avail else lit(rng)
    w = ("var", rng.choice(avail)) if avail else lit(rng)
    lo, hi = ("neg", small_lit(rng)), small_lit(rng)
    k = rng.randrange(6)
    if k == 0:   # lo < v <= hi
        return ("and", ("rel", "gt", v, lo), ("rel", "le", v, hi))
    if k == 1:
        return ("and", ("rel", "ge", v, lo), ("rel", "lt", v, ("add", hi, w)))
    if k == 2:   # And with a nested Or
        return ("and", ("rel", "gt", v, lo), ("or", ("rel", "lt", w, lo), ("rel", "gt", w, hi)))
    if k == 3:   # Or with a nested And
        return ("or", ("and", ("rel", "gt", v, lo), ("rel", "lt", v, hi)), ("rel", "gt", w, hi))
    if k == 4:
        return ("not", ("or", ("rel", "lt", v, w), ("rel", "eq", v, hi)))
    return ("and", ("or", ("rel", "le", v, lo), ("rel", "ge", v, hi)), ("and", ("rel", "lt", w, hi), ("or", ("rel", "gt", w, lo), ("rel", "gt", v, w))))


def idiom_expr(rng, avail, cfg):
    """precedence-sensitive shapes common in cell models"""
    def var():
        return ("var", rng.choice(avail)) if avail else lit(rng)
    a, x, y = var(), var(), var()
    n = ("num", rng.choice([2, 3]), 0)
    k = rng.randrange(21)
    if k >= 19:
        sig = ("div", ("num", 1, 0), ("add", ("num", 1, 0), ("fn", "exp", ("div", ("sub", x, a), small_lit(rng)))))
        if k == 19:
            # a quotient by the root of a reciprocal of something positive (sympy holds it as a power with exponent -1/2)
            return ("div", y, ("fn", "sqrt", sig))
        # the absolute value of something integer-valued (a C printer may pick the integer `abs`)
        return ("div", ("fn", "abs", ("sub", ("fn", "floor", x), ("num", 3, 0))), ("num", 2, 0))
    if k >= 17:
        # powers of integer literals (a printer that spells them as products computes them in integer arithmetic)
        b = ("num", rng.choice([2, 3, 7, 10, 1291, 46341, 70000]), 0)
        pw = ("pow", b, n)
        return ("mul", a, ("div", ("num", 1, 0), pw)) if k == 17 else ("sub", ("mul", x, ("num", 1, -9)), ("mul", pw, ("num", 1, -12)))
    if k >= 14:
        # a branch that is only defined where its guard holds (sqrt / log / a quotient), used as an operand:
        # the other branch is the value wherever the guard fails, whatever the guarded expression does there
        zero = ("num", 0, 0)
        g = [("cond", ("rel", "gt", x, zero), ("fn", "sqrt", x), zero),
             ("cond", ("rel", "gt", x, small_lit(rng)), ("fn", "log", x), zero),
             ("cond", ("rel", "gt", ("fn", "abs", y), zero), ("div", x, y), zero),
             ("cond", ("rel", "lt", x, zero), zero, ("pow", x, ("num", 5, -1)))][rng.randrange(4)]
        return [("mul", a, g), ("sub", g, y), ("add", a, ("neg", g))][k - 14]
    if k >= 12:
        # phase shifts: a trigonometric function of a sum that contains pi (in either grouping)
        f = rng.choice(["sin", "cos", "tan"])
        shift = rng.choice([("pi",), ("mul", ("num", 2, 0), ("pi",)), ("div", ("pi",), ("num", 2, 0)), ("neg", ("pi",))])
        c = small_lit(rng) if rng.random() < 0.6 else y
        arg = rng.choice([("add", ("add", x, shift), c), ("add", x, ("add", shift, c)), ("sub", x, ("sub", shift, c)),
                          ("add", ("mul", ("mul", ("num", 2, 0), ("pi",)), x), ("add", shift, c)), ("sub", ("add", c, shift), x)])
        return ("mul", a, ("fn", f, arg)) if f != "tan" else ("fn", "sin", arg)
    if k == 0:
        return ("div", a, ("pow", x, n))                                  # a/x**2
    if k == 1:
        return ("div", a, ("pow", ("add", small_lit(rng), ("mul", y, y)), n))   # a/(k + y*y)**2
    if k == 2:
        return ("div", ("pow", a, n), ("pow", x, n))                      # K**2/c**2
    if k == 3:
        return ("mul", ("div", a, ("pow", x, n)), y)                      # a/x**3*y
    if k == 4:
        return ("neg", ("pow", x, n))                                     # -x**2
    if k == 5:
        return ("pow", ("num", 2, 0), ("neg", x))                         # 2**-x
    if k == 6:
        return ("div", ("div", a, x), y)                                  # a/x/y
    if k == 7:
        return ("div", a, ("div", x, y))                                  # a/(x/y)
    if k == 8:
        return ("sub", a, ("sub", x, y))                                  # a - (x - y)
    if k == 9:
        return ("pow", ("neg", x), n)                                     # (-x)**2
    if k == 10:
        return ("div", ("num", 1, 0), ("add", ("num", 1, 0), ("fn", "exp", ("div", ("sub", x, a), small_lit(rng)))))   # 1/(1 + exp((x - a)/k))
    return ("sub", ("neg", a), ("mul", x, ("neg", y)))                    # -a - x*-y


def gen_cond(rng, avail, depth, cfg: ExprCfg):
    if depth > 0 and rng.random() < cfg.p_idiom:
        return idiom_cond(rng, avail, cfg)
    if depth > 0 and rng.random() < cfg.p_logic:
        k = rng.random()
        if k < 0.25:
            return ("not", gen_cond(rng, avail, depth - 1, cfg))
        tag = "and" if k < 0.65 else "or"
        n = rng.choice([2, 2, 3, 4])
        args = [gen_cond(rng, avail, depth - 1, cfg) for _ in range(n)]
        out = args[-1]
        for a in reversed(args[:-1]):
            out = (tag, a, out)
        return out
    r = rng.choice(["lt", "gt", "le", "ge", "lt", "gt", "eq"])
    return ("rel", r) + rel_operands(rng, avail, depth, cfg)


def gen_expr(rng: random.Random, avail: list[str], depth: int, cfg: ExprCfg | None = None):
    cfg = cfg or ExprCfg()
    if depth <= 0 or rng.random() < 0.12:
        k = rng.random()
        if avail and k < 0.62:
            return ("var", rng.choice(avail))
        if k < 0.66:
            return ("pi",)
        if cfg.allow_time and k < 0.70:
            return ("var", rng.choice(["t", "time"]))
        return lit(rng, getattr(cfg, "extreme", False))
    if rng.random() < cfg.p_idiom:
        return idiom_expr(rng, avail, cfg)
    k = rng.random()
    sub = lambda d=depth - 1: gen_expr(rng, avail, d, cfg)  # noqa: E731
    if k < cfg.p_cond:
        return ("cond", gen_cond(rng, avail, min(depth - 1, 2), cfg), sub(), sub())
    k -= cfg.p_cond
    if k < cfg.p_ccond:
        r = rng.choice(["gt", "lt", "ge", "le"])
        x, y = rel_operands(rng, avail, depth - 1, cfg)
        return ("ccond", r, x, y, sub(), sub(), small_lit(rng))
    k -= cfg.p_ccond
    if k < cfg.p_mod:
        return ("mod", sub(), rng.choice([("num", 3, 0), ("num", 25, -1), ("neg", ("num", 2, 0)), small_lit(rng)]))
    k -= cfg.p_mod
    if k < cfg.p_floor:
        return ("fn", "floor", sub())
    k -= cfg.p_floor
    if k < cfg.p_relnum:
        return ("mul", ("rel", rng.choice(["lt", "gt", "le", "ge"])) + rel_operands(rng, avail, depth - 1, cfg), sub())
    k = rng.random()
    if k < 0.22:
        return ("add", sub(), sub())
    if k < 0.40:
        return ("sub", sub(), sub())
    if k < 0.60:
        return ("mul", sub(), sub())
    if k < 0.70:
        a, b = sub(), sub()
        if rng.random() < cfg.safe:
            b = ("add", ("num", 2, 0), ("fn", "cos", b))
        return ("div", a, b)
    if k < 0.76:
        return ("neg", sub())
    if k < 0.84:
        a = sub()
        j = rng.random()
        if j < 0.45:
            return ("pow", a, ("num", rng.choice([2, 3, 4]), 0))
        if j < 0.6:
            return ("pow", ("add", ("num", 1, 0), ("mul", a, a)), rng.choice([("num", 5, -1), ("neg", ("num", 15, -1)), ("div", ("num", 1, 0), ("num", 3, 0)), sub(0)]))
        if j < 0.75:
            return ("pow", small_lit(rng), ("fn", "sin", a))
        if j < 0.85:
            return ("pow", ("num", 2, 0), ("neg", ("fn", "cos", a)))
        return ("pow", ("fn", "abs", a) if rng.random() < cfg.safe else a, small_lit(rng))
    f = rng.choice(cfg.funcs)
    a = sub()
    if rng.random() < cfg.safe:
        if f == "log":
            a = ("add", ("num", 1, 0), ("mul", a, a))
        elif f == "sqrt":
            a = ("fn", "abs", a) if rng.random() < 0.5 else ("add", ("num", 1, -1), ("mul", a, a))
        elif f in ("asin", "acos"):
            a = ("mul", ("num", 9, -1), ("fn", "sin", a))
        elif f == "exp":
            a = ("fn", "sin", a) if rng.random() < 0.5 else ("neg", ("mul", a, a))
        elif f == "tan":
            a = ("mul", ("num", 5, -1), ("fn", "sin", a))
    return ("fn", f, a)


@dataclass
class GModel:
    comps: list[str]
    states: dict = field(default_factory=dict)    # name -> (value expr, comp)
    params: dict = field(default_factory=dict)    # name -> (value expr, comp)
    assigns: dict = field(default_factory=dict)   # name -> (expr, comp)  (intermediates and derivatives)
    order: list = field(default_factory=list)     # a topological order of all assignment names
    units: dict = field(default_factory=dict)     # assignment name -> trailing comment text
    tags: dict = field(default_factory=dict)      # atom name -> tuple of components (atoms shared between components)
    header: str | None = None

    def deriv_of(self, s):
        return f"d{s}_dt"

    @property
    def inters(self):
        return [n for n in self.order if not self._is_deriv(n)]

    def _is_deriv(self, n):
        return n.startswith("d") and n.endswith("_dt") and n[1:-3] in self.states

    def exprs(self):
        return {n: self.assigns[n][0] for n in self.order}

    # ---- rendering
    def blocks(self, rng: random.Random | None = None):
        """list of (kind, comp, [lines]) in a canonical safe order; `comp` is a string or, for
        atoms shared between components, a tuple of strings"""
        out = []
        comps = ([""] if "" in self.comps else []) + [c for c in self.comps if c != ""]
        keys = list(comps) + sorted({t for t in self.tags.values()})
        tag = lambda n, c: self.tags.get(n, c)  # noqa: E731
        for c in keys:
            st = [n for n, (_, cc) in self.states.items() if tag(n, cc) == c]
            pa = [n for n, (_, cc) in self.params.items() if tag(n, cc) == c]
            asg = [n for n in self.assigns if tag(n, self.assigns[n][1]) == c]
            if st:
                out.append(("states", c, [f"{n}={sexp.render(self.states[n][0], 0, rng)}" for n in st]))
            if pa:
                out.append(("parameters", c, [f"{n}={sexp.render(self.params[n][0], 0, rng)}" for n in pa]))
            if asg:
                lines = []
                for n in asg:
                    ln = f"{n} = {sexp.render(self.assigns[n][0], 0, rng)}"
                    if n in self.units:
                        ln += f" # {self.units[n]}"
                    lines.append(ln)
                out.append(("expressions", c, lines))
        return out

    def text(self, rng: random.Random | None = None, shuffle_lines: bool = True) -> str:
        parts = []
        if self.header:
            parts.append(f"# {self.header}")
        for kind, c, lines in self.blocks(rng):
            lines = list(lines)
            if rng is not None and shuffle_lines:
                rng.shuffle(lines)
            parts.append(render_block(kind, c, lines, rng))
        return "\n".join(parts) + "\n"


def sibling(m: "GModel", rng: random.Random) -> "GModel":
    """a model with the same name, states, parameters and intermediates whose derivative expressions
    are rotated among the states: same names, different equations (another dependency order)"""
    import copy
    sm = copy.deepcopy(m)
    ders = [n for n in m.order if m._is_deriv(n)]
    if len(ders) < 2:
        return sm
    k = rng.randint(1, len(ders) - 1)
    for i, d in enumerate(ders):
        src = ders[(i + k) % len(ders)]
        sm.assigns[d] = (m.assigns[src][0], m.assigns[d][1])
    return sm


def refactored(m: "GModel", rng: random.Random) -> "GModel":
    """the same model after a refactoring that leaves every derivative line as it is: some intermediates are computed
    through one or two new helper intermediates (`w = y - x; s = a*w` for `s = a*(y - x)` becomes `s_h0 = ...; s = s_h0`).
    Same names, same derivative assignments, another dependency depth — and so, possibly, another state order."""
    import copy
    sm = copy.deepcopy(m)
    inters = [n for n in m.order if not m._is_deriv(n)]
    if not inters:
        return sm
    pick = [n for n in inters if rng.random() < 0.5] or [rng.choice(inters)]
    assigns, order = {}, []
    for n in m.order:
        e, comp = m.assigns[n]
        if n in pick:
            prev = e
            for j in range(rng.choice([1, 2, 3])):
                h = f"{n}_h{j}"
                if h in m.assigns or h in m.states or h in m.params:
                    break
                assigns[h] = (prev, comp)
                order.append(h)
                if n in m.tags:
                    sm.tags[h] = m.tags[n]
                prev = ("var", h)
            e = prev
        assigns[n] = (e, comp)
        order.append(n)
    for n in m.assigns:
        if n not in assigns:
            assigns[n] = m.assigns[n]
    sm.assigns, sm.order = assigns, order
    return sm


def edited(m: "GModel", rng: random.Random) -> "GModel":
    """the same model after an edit of some right-hand sides that keeps every name and, line by line, the set of
    names read: `e` becomes `2*e`, `-(e)` or `e - 1` (an edit-and-reload in one session)"""
    import copy
    sm = copy.deepcopy(m)
    names = [n for n in m.order if sexp.fv(m.assigns[n][0])]
    if not names:
        return sm
    for n in (rng.sample(names, max(1, len(names) // 2))):
        e, comp = m.assigns[n]
        e2 = [("mul", ("num", 2, 0), e), ("neg", e), ("sub", e, ("num", 1, 0)), ("mul", e, ("num", 5, -1))][rng.randrange(4)]
        sm.assigns[n] = (e2, comp)
    return sm


def render_block(kind, c, lines, rng=None):
    names = ", ".join(f'"{x}"' for x in c) if isinstance(c, tuple) else (f'"{c}"' if c else "")
    if kind in ("states", "parameters"):
        head = f"{kind}({names}, " if names else f"{kind}("
        if rng is not None and rng.random() < 0.5:
            return head + "\n    " + ",\n    ".join(lines) + "\n)"
        return head + ", ".join(lines) + ")"
    head = (f"expressions({names})\n" if names else "")
    return head + "\n".join(lines)


@dataclass
class ModelCfg:
    max_states: int = 4
    min_states: int = 1
    max_params: int = 4
    max_inters: int = 6
    max_comps: int = 3
    min_comps: int = 1
    allow_no_params: bool = False   # now and then a model without parameters (opt-in: not every suite's edits cope)
    depth: int = 3
    p_unused_inter: float = 0.25
    p_param_expr: float = 0.2
    chain: int = 0            # force a dependency chain of this length
    p_prefix_names: float = 0.25   # a state/parameter name that extends another one (m / mL)
    p_alias_deriv: float = 0.12    # a derivative that is a bare name (dx_dt = v)
    p_ref_deriv: float = 0.15      # an assignment that mentions a derivative by name
    expr: ExprCfg = field(default_factory=ExprCfg)
    plain_names: bool = False
    force_comps: bool = False   # at least two named components
    p_shared: float = 0.0       # an atom tagged with two components


def gen_value(rng, cfg: ModelCfg):
    k = rng.random()
    if k < cfg.p_param_expr:
        j = rng.random()
        if j < 0.3:
            return ("div", ("num", 1, 0), ("num", rng.choice([3, 4, 7, 8]), 0))
        if j < 0.5:
            return ("mul", ("num", 2, 0), ("pi",))
        if j < 0.7:
            return ("neg", lit(rng))
        if j < 0.85:
            return ("pow", ("num", 2, 0), ("neg", ("num", 3, 0)))
        return ("add", lit(rng), ("div", ("num", 1, 0), ("num", 8, 0)))
    if rng.random() < 0.12:
        # values a printer writes in exponent notation (exponents ending in 0 included: 1e-10, 2.5e-20, 1.5e20)
        v = ("num",) + sexp.norm_num(*rng.choice([(1, -10), (25, -21), (3, -30), (15, 19), (1, 20), (5, -7), (1, -100), (375, -12)]))
        return ("neg", v) if rng.random() < 0.2 else v
    v = ("num",) + sexp.norm_num(rng.randint(1, 3000), rng.randint(-3, -1))
    return ("neg", v) if rng.random() < 0.3 else v


def gen_model(rng: random.Random, cfg: ModelCfg | None = None) -> GModel:
    cfg = cfg or ModelCfg()
    ncomp = rng.randint(min(cfg.min_comps, cfg.max_comps), cfg.max_comps)
    if cfg.force_comps:
        ncomp = max(2, ncomp)
    if ncomp == 1 and rng.random() < 0.6:
        comps = [""]
    else:
        comps = [f"C{i}" if rng.random() < 0.7 else rng.choice(["Membrane", "I Na", "gate m", "Ca dyn", "K"]) + str(i)
                 for i in range(ncomp)]
        if rng.random() < 0.25 and not cfg.force_comps:
            comps[0] = ""
    m = GModel(comps=comps)
    used: set[str] = set()
    mk = (lambda p: fresh_name(rng, used, p)) if not cfg.plain_names else None
    cnt = {"s": 0, "p": 0, "i": 0}

    def name(p):
        if cfg.plain_names:
            n = f"{p}{cnt[p]}"
            cnt[p] += 1
            used.add(n)
            return n
        return mk(p)

    def related(base):
        """a name that has `base` as a proper prefix (m / mL, x / xs, h / h2)"""
        for suf in rng.sample(["L", "s", "2", "_inf", "x", "0"], 6):
            n = base + suf
            if n not in used and n not in RESERVED and not (n.startswith("d") and n.endswith("_dt")):
                used.add(n)
                return n
        return name("s")

    for k in range(rng.randint(min(cfg.min_states, cfg.max_states), cfg.max_states)):
        if k > 0 and rng.random() < cfg.p_prefix_names:
            n = related(rng.choice(list(m.states)))
        else:
            n = name("s")
        m.states[n] = (gen_value(rng, cfg), rng.choice(comps))
    # now and then a model without parameters (templates have to cope with empty lists)
    for k in range(rng.randint(0 if (cfg.allow_no_params and rng.random() < 0.15) else 1, cfg.max_params)):
        if rng.random() < cfg.p_prefix_names / 2:
            n = related(rng.choice(list(m.states) + list(m.params)))
        else:
            n = name("p")
        m.params[n] = (gen_value(rng, cfg), rng.choice(comps))
    avail = list(m.states) + list(m.params)
    n_int = max(rng.randint(0, cfg.max_inters), cfg.chain)
    inter_names = []
    for k in range(n_int):
        n = name("i")
        if cfg.chain and k < cfg.chain and inter_names:
            pool = [inter_names[-1]] + ([rng.choice(avail)] if rng.random() < 0.5 else [])
            e = ("add", ("mul", ("var", inter_names[-1]), ("num", 5, -1)), gen_expr(rng, pool, 1, cfg.expr))
        else:
            pool = avail + inter_names if rng.random() < 0.85 else list(m.params)
            e = gen_expr(rng, pool, rng.randint(1, cfg.depth), cfg.expr)
        m.assigns[n] = (e, rng.choice(comps))
        m.order.append(n)
        inter_names.append(n)
    usable = list(inter_names)
    if usable and rng.random() < cfg.p_unused_inter:
        # leave one intermediate (maybe the head of a chain) unmentioned by derivatives
        usable = usable[:-1]
    dnames = []
    for s, (_, c) in m.states.items():
        pool = avail + usable
        if rng.random() < cfg.p_alias_deriv and pool:
            e = ("var", rng.choice(pool))
        else:
            e = gen_expr(rng, pool, rng.randint(1, cfg.depth + 1), cfg.expr)
        if dnames and rng.random() < cfg.p_ref_deriv:
            e = ("add", e, ("mul", ("var", rng.choice(dnames)), lit(rng)))
        if cfg.chain and usable:
            e = ("add", e, ("var", usable[-1]))
        d = m.deriv_of(s)
        m.assigns[d] = (e, c)
        m.order.append(d)
        dnames.append(d)
    named = [c for c in comps if c != ""]
    if len(named) >= 2 and rng.random() < cfg.p_shared:
        pair = tuple(rng.sample(named, 2))
        k = rng.random()
        if k < 0.5 and m.params:
            m.tags[rng.choice(list(m.params))] = pair
        elif k < 0.8 and inter_names:
            m.tags[rng.choice(inter_names)] = pair
        else:
            s_ = rng.choice(list(m.states))
            m.tags[s_] = pair
            m.tags[m.deriv_of(s_)] = pair
    if dnames and rng.random() < cfg.p_ref_deriv * 2:
        # a monitored quantity computed from derivatives (e.g. a power or a flux balance)
        n = name("i")
        e = ("mul", ("var", rng.choice(dnames)), gen_expr(rng, avail + dnames, 1, cfg.expr))
        m.assigns[n] = (e, rng.choice(comps))
        m.order.append(n)
    return m


def gen_inputs(rng: random.Random, m: GModel, npoints: int):
    """numeric points: dict name -> float for all states and parameters, plus 't'"""
    pts = []
    for _ in range(npoints):
        p = {}
        style = rng.random()
        for n in list(m.states) + list(m.params):
            if style < 0.6:
                v = rng.uniform(-3, 3)
            elif style < 0.8:
                v = rng.choice([-1, 1]) * 10 ** rng.uniform(-3, 2)
            else:
                v = rng.choice([0.0, 1.0, -1.0, 0.5, 2.0, 3.0, -2.5, 1e-3, 7.0])
            p[n] = float(v)
        p["t"] = float(rng.choice([0.0, 1.0, rng.uniform(0, 10), rng.uniform(-2, 2), rng.uniform(-10, 0), -1.0]))
        pts.append(p)
    return pts
