"""Lean side of the harness: build (under a file lock), audit, and the JSON-lines driver."""
from __future__ import annotations

import fcntl
import json
import os
import re
import subprocess
import time
from pathlib import Path

VERIF = Path(__file__).resolve().parent.parent
LEAN = VERIF / "lean"
LOCK = LEAN / ".build.lock"

FORBIDDEN = re.compile(r"\b(sorry|admit|native_decide|bv_decide|implemented_by|unsafe)\b|^axiom\s|maxHeartbeats\s+0")
STD_AXIOMS = {"propext", "Classical.choice", "Quot.sound"}


def _env():
    env = dict(os.environ)
    env.pop("LEAN_PATH", None)
    return env


class BuildResult:
    def __init__(self, ok, log, failed_decls, wall):
        self.ok = ok
        self.log = log
        self.failed = failed_decls   # list of (file, line, message head)
        self.wall = wall


def lake_build(targets: list[str] | None = None, timeout: int = 1500) -> BuildResult:
    """`lake build` of the given modules (default: everything).  Serialised by a lock so
    that concurrent checks and a missing `.lake` after a fresh restore are safe."""
    t0 = time.time()
    LOCK.parent.mkdir(exist_ok=True)
    with open(LOCK, "w") as lk:
        fcntl.flock(lk, fcntl.LOCK_EX)
        cmd = ["lake", "build"] + (targets or [])
        p = subprocess.run(cmd, cwd=LEAN, env=_env(), capture_output=True, text=True, timeout=timeout)
    log = p.stdout + p.stderr
    failed = []
    for m in re.finditer(r"error: ([\w/.]+\.lean):(\d+):(\d+): (.*)", log):
        failed.append((m.group(1), int(m.group(2)), m.group(4)[:200]))
    return BuildResult(p.returncode == 0, log, failed, time.time() - t0)


def decl_at(file: str, line: int) -> str:
    """name of the nearest enclosing theorem/def above `line` (for reporting broken obligations)"""
    try:
        lines = (LEAN / file).read_text().splitlines()
    except OSError:
        return f"{file}:{line}"
    for i in range(min(line, len(lines)) - 1, -1, -1):
        m = re.match(r"\s*(?:@\[[^\]]*\]\s*)?(?:private\s+|protected\s+)?(theorem|lemma|def|example|instance|abbrev)\s+([\w.']+)?", lines[i])
        if m:
            return m.group(2) or f"example@{file}:{i+1}"
    return f"{file}:{line}"


def strip_comments(src: str) -> str:
    # nested block comments /- ... -/ and line comments --
    out = []
    i, depth = 0, 0
    n = len(src)
    while i < n:
        if src.startswith("/-", i):
            depth += 1
            i += 2
            continue
        if depth and src.startswith("-/", i):
            depth -= 1
            i += 2
            continue
        if depth:
            if src[i] == "\n":
                out.append("\n")
            i += 1
            continue
        if src.startswith("--", i):
            while i < n and src[i] != "\n":
                i += 1
            continue
        out.append(src[i])
        i += 1
    return "".join(out)


def audit_sources() -> list[str]:
    """forbidden constructs outside comments in any Lean source of the project"""
    hits = []
    for p in list(LEAN.glob("GotranxModel/**/*.lean")) + list(LEAN.glob("GotranxProofs/**/*.lean")) + [LEAN / "Driver.lean"]:
        body = strip_comments(p.read_text())
        for ln, line in enumerate(body.splitlines(), 1):
            if FORBIDDEN.search(line):
                hits.append(f"{p.relative_to(LEAN)}:{ln}: {line.strip()[:120]}")
    return hits


def print_axioms(module: str, theorems: list[str], timeout: int = 600) -> dict[str, list[str]]:
    """{theorem: axioms it depends on} via `#print axioms`"""
    mods = module.split()
    src = "".join(f"import {m_}\n" for m_ in mods) + "open Gx\n" + "\n".join(f"#print axioms {t}" for t in theorems) + "\n"
    tmp = LEAN / f".axioms_{os.getpid()}_{mods[0].replace('.', '_')}.lean"
    tmp.write_text(src)
    try:
        p = subprocess.run(["lake", "env", "lean", str(tmp.name)], cwd=LEAN, env=_env(), capture_output=True, text=True, timeout=timeout)
    finally:
        tmp.unlink(missing_ok=True)
    out = p.stdout + p.stderr
    res: dict[str, list[str]] = {}
    for m in re.finditer(r"'([^']+)' depends on axioms: \[([^\]]*)\]", out):
        res[m.group(1)] = [a.strip() for a in m.group(2).replace("\n", " ").split(",") if a.strip()]
    for m in re.finditer(r"'([^']+)' does not depend on any axioms", out):
        res[m.group(1)] = []
    for t in theorems:
        short = t.split(".")[-1]
        if not any(k == t or k.endswith("." + short) or k == short for k in res):
            res[t] = ["<unresolved: " + out.strip()[:200] + ">"]
    return res


class Driver:
    """persistent `lake env lean --run Driver.lean` process speaking JSON lines"""

    def __init__(self):
        self.p = subprocess.Popen(["lake", "env", "lean", "--run", "Driver.lean"], cwd=LEAN, env=_env(),
                                  stdin=subprocess.PIPE, stdout=subprocess.PIPE, stderr=subprocess.PIPE, text=True, bufsize=1)
        self.n = 0
        r = self.call({"op": "ping"})
        if not r.get("ok"):
            raise RuntimeError(f"Lean driver failed to start: {r}")

    def call(self, req: dict) -> dict:
        self.n += 1
        line = json.dumps(req)
        try:
            self.p.stdin.write(line + "\n")
            self.p.stdin.flush()
            out = self.p.stdout.readline()
        except BrokenPipeError:
            out = ""
        if not out:
            err = self.p.stderr.read() if self.p.stderr else ""
            raise RuntimeError(f"Lean driver died: {err[:2000]}")
        return json.loads(out)

    def close(self):
        try:
            self.p.stdin.close()
            self.p.wait(timeout=10)
        except Exception:
            self.p.kill()

    def __enter__(self):
        return self

    def __exit__(self, *a):
        self.close()
