"""Entry point of every check:  ./check <Cxx> [--tier quick|thorough] [--replay <path>]

Flow (DESIGN.md section 5): regenerate the extracted model parameters from /repo, build the
Lean obligations of the property, audit them, run the correspondence + property oracle
(known-finding witnesses and corpus first, then generated cases), decide the verdict,
write evidence.
Exit 0: held on everything explored.  Exit 1: a `VIOLATION property=… replay=…` line was
printed.  Exit 2: infrastructure error (never a VIOLATION line)."""
from __future__ import annotations

import argparse
import json
import os
import sys
import time
import traceback


def main(argv=None):
    ap = argparse.ArgumentParser()
    ap.add_argument("pid")
    ap.add_argument("--tier", default=os.environ.get("VERIF_TIER", "quick"), choices=["quick", "thorough"])
    ap.add_argument("--replay", default=None)
    ap.add_argument("--no-build", action="store_true", help="skip extraction/lake build (debugging only)")
    args = ap.parse_args(argv)
    pid = args.pid.upper()
    seed = int(os.environ.get("VERIF_SEED", "0") or 0)

    from . import common, extract, leandrv
    from .props import PROPS

    if pid not in PROPS:
        print(f"unknown property {pid}", file=sys.stderr)
        return 2
    prop = PROPS[pid]
    ctx = common.Ctx(pid, args.tier, seed)
    try:
        return run_check(ctx, prop, args, common, extract, leandrv)
    except Exception:
        traceback.print_exc()
        print(f"INFRASTRUCTURE-ERROR property={pid}", file=sys.stderr)
        return 2
    finally:
        ctx.cleanup()


def run_check(ctx, prop, args, common, extract, leandrv):
    pid = ctx.pid
    mod = prop["module"]
    theorems = prop["theorems"]
    obligations = []

    # 1. extraction + build
    if not args.no_build:
        try:
            ext = extract.run()
            for name, ok, detail in ext:
                if not ok:
                    ctx.broke("extraction", name, detail)
        except Exception as ex:  # source no longer has the expected shape
            ctx.broke("extraction", "extract.py", f"{type(ex).__name__}: {ex}")
        targets = ["GotranxModel", *mod.split(), "GotranxProofs.Pins"]
        br = leandrv.lake_build(targets)
        ctx.stats["lake_build_s"] = round(br.wall, 1)
        if not br.ok:
            names = sorted({leandrv.decl_at(f, ln) for f, ln, _ in br.failed}) or ["<build>"]
            for nme in names:
                ctx.broke("proof-obligation", nme, br.log[-1500:])
        # the model itself must build for the driver to run
        br2 = leandrv.lake_build(["GotranxModel"]) if not br.ok else br
        if not br2.ok:
            raise RuntimeError("GotranxModel does not build:\n" + br2.log[-3000:])
        # 2. audit
        hits = leandrv.audit_sources()
        for h in hits:
            ctx.broke("audit", "forbidden-construct", h)
        if br.ok:
            ax = leandrv.print_axioms(mod, theorems)
            pins = prop.get("pins", [])
            if pins:
                ax.update(leandrv.print_axioms("GotranxProofs.Pins", pins))
            for t in theorems + pins:
                found = [k for k in ax if k == t or k.endswith("." + t.split(".")[-1])]
                axs = ax[found[0]] if found else ["<missing>"]
                okk = bool(found) and set(axs) <= leandrv.STD_AXIOMS
                obligations.append({"theorem": t, "axioms": axs, "discharged": okk})
                if not okk:
                    ctx.broke("proof-obligation", t, f"axioms: {axs}")
        else:
            for t in theorems + prop.get("pins", []):
                obligations.append({"theorem": t, "axioms": [], "discharged": False})
    ctx.obligations = obligations

    known = [k for k in common.load_known() if k["property"] == pid]
    listed = {k["key"]: k for k in known if k.get("status") == "finding"}

    # 3./4. replay mode
    if args.replay:
        data = json.loads(open(args.replay).read())
        case = data.get("case")
        if case is None:
            print(f"replay file names a broken tie, not a failing input: {data.get('broken')}")
            return 1
        prop["check_case"](ctx, case)
        for v in ctx.violations:
            print(f"REPLAY-FAILS property={pid} key={v.key} {v.what}")
        return 1 if ctx.violations else 0

    # known-finding witnesses first: each must still fail with its own key to be reported as known
    known_lines = []
    for k in known:
        before = len(ctx.violations)
        try:
            prop["check_case"](ctx, k["witness"])
        except Exception as ex:
            ctx.notes.append(f"witness {k['key']} raised {type(ex).__name__}: {ex}")
        new = ctx.violations[before:]
        del ctx.violations[before:]
        still = [v for v in new if v.key == k["key"]]
        if k.get("status") == "finding":
            if still:
                known_lines.append(f"KNOWN-FINDING: property={pid} {k['what']}")
            other = [v for v in new if v.key != k["key"]]
            ctx.violations.extend(other)
        else:  # fixed: suppresses nothing
            ctx.violations.extend(new)
    # corpus + generated cases
    prop["run"](ctx)

    # 5. verdict
    real = [v for v in ctx.violations if v.key not in listed]
    hit_known = sorted({v.key for v in ctx.violations if v.key in listed})
    if ctx.broken and not real and prop.get("search"):
        # a tie is broken: look harder for a failing input before reporting
        ctx.budget_scale = 4.0
        prop["search"](ctx)
        real = [v for v in ctx.violations if v.key not in listed]

    rc = 0
    for line in known_lines:
        print(line)
    seen_keys = set()
    n = 0
    for v in real:
        if v.key in seen_keys:
            continue
        seen_keys.add(v.key)
        path = common.write_replay(pid, ctx.seed, n, {"property": pid, "key": v.key, "what": v.what, "case": v.data.get("case"), "detail": v.data})
        print(f"VIOLATION property={pid} replay={path} key={v.key} {v.what}")
        n += 1
        rc = 1
    if ctx.broken and real:
        common.write_replay(pid, ctx.seed, "broken", {"property": pid, "broken": ctx.broken})
    if ctx.broken and not real:
        path = common.write_replay(pid, ctx.seed, 0, {"property": pid, "broken": ctx.broken, "cases_tried": ctx.evaluations,
                                                      "note": "a proof obligation / extraction / correspondence no longer checks; no failing input was found"})
        print(f"VIOLATION property={pid} replay={path} no-failing-input-found")
        rc = 1

    # 6. evidence
    n_obl = len(obligations)
    n_dis = sum(1 for o in obligations if o["discharged"])
    coverage = {
        "obligations": n_obl,
        "discharged": n_dis,
        "checker_cmd": f"cd lean && lake build GotranxModel {mod} GotranxProofs.Pins && #print axioms on {len(theorems)} theorems",
        "trusted_base": prop.get("trusted_base", []) + [
            "Lean 4.33 kernel; axioms per theorem listed under 'theorems' (subset of propext, Classical.choice, Quot.sound)",
            "harness/extract.py, harness/translate.py, harness/oracle.py (correspondence), mpmath 50-digit reference evaluator",
        ],
        "theorems": obligations,
        "evaluations": ctx.evaluations,
        "distinct_nontrivial": len(ctx.nontrivial),
        "rule": prop.get("rule", "distinct by sha1 of the model text / case; non-trivial per property module"),
        "samples": ctx.samples or ["<none>"],
        "stats": ctx.stats,
        "broken_ties": [{**b, "detail": b["detail"][:600]} for b in ctx.broken[:20]],
        "known_findings_hit": hit_known,
        "known_findings_reported": known_lines,
        "notes": ctx.notes[:20],
        "explanation": prop.get("explanation", ""),
    }
    common.write_evidence(ctx, prop["level"], coverage, len(real))
    print(f"{pid} tier={ctx.tier} seed={ctx.seed} cases={ctx.evaluations} nontrivial={len(ctx.nontrivial)} "
          f"obligations={n_dis}/{n_obl} broken={len(ctx.broken)} violations={len(real)} known={len(known_lines)} "
          f"wall={ctx.elapsed():.1f}s")
    return rc


if __name__ == "__main__":
    sys.exit(main())
