"""Regenerates MANIFEST.json from the registry of checks (run by hand after changing the registry)."""
import json
import sys
from pathlib import Path

sys.path.insert(0, str(Path(__file__).resolve().parent.parent))
from harness.props import PROPS  # noqa: E402
from harness.props.meta import META, NOT_APPLICABLE  # noqa: E402

VERIF = Path(__file__).resolve().parent.parent


def main():
    checks = []
    for pid in sorted(PROPS):
        meta = META[pid]
        checks.append({
            "property_id": pid,
            "quick_cmd": f"./check {pid} --tier quick",
            "thorough_cmd": f"./check {pid} --tier thorough",
            "evidence_file": f"evidence/{pid}.json",
            "replay_cmd_template": f"./check {pid} --replay {{path}}",
            "engine": "lean4-model+correspondence",
            "level_claimed": {"category": PROPS[pid]["level"], "text": meta["text"], "design_ref": meta.get("design_ref", "DESIGN.md section 7")},
            "level_note": meta["note"],
            "technique": meta["technique"],
        })
    man = {
        "version": 1,
        "setup_cmd": "cd lean && lake build",
        "hooks": {
            "guard": "GOTRANX_VERIF",
            "enable": "no source hooks are needed: the harness imports /repo/src in-process and observes generated text, return values and exceptions",
            "baseline_off_cmd": "cd /repo && /venv/bin/python -m pytest -ra -q -p no:cacheprovider --timeout=900 --continue-on-collection-errors",
            "source_commits": [],
            "add_only": True,
        },
        "engines": [{
            "name": "lean4-model+correspondence",
            "path": "lean/ (GotranxModel, GotranxProofs, Driver.lean) + harness/",
            "serves_properties": sorted(PROPS),
            "kind_free_text": "hand-written executable Lean 4 model with property theorems; tie to /repo = parameters re-extracted from the source on every run (harness/extract.py -> Generated/Params.lean, re-checked by lake build), translation of every generated program into proven-sound Lean validators, and differential execution of model and implementation",
        }],
        "checks": checks,
        "notes": "Known findings and fixed defects: known_findings.json. Design: DESIGN.md.",
        "not_applicable": [{"property_id": k, "reason": v} for k, v in sorted(NOT_APPLICABLE.items()) if k not in PROPS],
    }
    (VERIF / "MANIFEST.json").write_text(json.dumps(man, indent=1) + "\n")
    print("wrote MANIFEST.json with", len(checks), "checks;", len(man["not_applicable"]), "not claimed")


if __name__ == "__main__":
    main()
