"""Reference model (from the Lean loader) and the numeric / structural oracles shared by the
property checks."""
from __future__ import annotations

import json

import random

import mpmath
import numpy as np
from mpmath import mpf

from . import common, gen, sexp, translate
from .common import Ctx


class RefModel:
    """the Lean loader's view of a model text"""

    def __init__(self, resp: dict):
        self.raw = resp
        self.states = {n: sexp.parse_sexp(e) for n, e in resp["states"]}
        self.params = {n: sexp.parse_sexp(e) for n, e in resp["params"]}
        self.inters = {n: sexp.parse_sexp(e) for n, e in resp["inters"]}
        self.derivs = {d: (s, sexp.parse_sexp(e)) for d, s, e in resp["derivs"]}
        self.assigns = dict(self.inters)
        self.assigns.update({d: e for d, (s, e) in self.derivs.items()})
        self.layout = resp.get("layout")
        self.comps = resp.get("comps", [])
        self.annots = resp.get("annots", [])
        self.mentioned = resp.get("mentioned", [])
        self.wf = resp.get("wf")
        self.gen_rhs_valid = resp.get("gen_rhs_valid")
        self.helper_clash_free = resp.get("helper_clash_free")
        self.gen_monitor_valid = resp.get("gen_monitor_valid")
        self.gen_rl_valid = resp.get("gen_rl_valid")
        self.order = self._topo()

    def deriv_of(self, state):
        for d, (s, _) in self.derivs.items():
            if s == state:
                return d
        return None

    def _topo(self):
        seen, out, onstack = set(), [], set()
        ok = True

        def visit(n):
            nonlocal ok
            if n in seen:
                return
            if n in onstack:
                ok = False
                return
            onstack.add(n)
            for y in sexp.fv(self.assigns[n]):
                if y in self.assigns:
                    visit(y)
            onstack.discard(n)
            seen.add(n)
            out.append(n)

        for n in sorted(self.assigns):
            visit(n)
        self.acyclic = ok
        return out

    def missing(self):
        known = set(self.states) | set(self.params) | set(self.assigns) | {"t", "time"}
        return sorted({y for e in self.assigns.values() for y in sexp.fv(e)} - known)

    def base(self, point: dict):
        b = {n: mpf(point[n]) for n in list(self.states) + list(self.params) if n in point}
        for n in self.missing():
            if n in point:
                b[n] = mpf(point[n])
        b["t"] = mpf(point["t"])
        b["time"] = mpf(point["t"])
        if "dt" in point:
            b["dt"] = mpf(point["dt"])
        return b

    def reference(self, point: dict, seed: int = 0, info=None):
        return sexp.reference(self.assigns, self.order, self.base(point), seed, info=info)

    def usable(self, point: dict, seed: int = 0):
        """(exact, spread) or None when the model's expressions are not defined in float64 at
        this point or the point sits on a discontinuity"""
        info = {}
        exact, spread = self.reference(point, seed, info)
        if not info["defined"] or info["unstable"]:
            return None
        return exact, spread


def impl_deps(ode) -> dict:
    """iteration order of each assignment's dependency frozenset in this process"""
    out = {}
    for a in tuple(ode.intermediates) + tuple(ode.state_derivatives):
        if a.value is not None:
            out[a.name] = list(a.value.dependencies)
    return out


def lean_load(ctx: Ctx, text: str, deps: dict | None = None):
    req = {"op": "load", "text": text}
    if deps is not None:
        req["deps"] = deps
    r = ctx.lean().call(req)
    if r.get("loader_agree") is False:
        ctx.broke("correspondence", "loadString (mirror of the loader as coded) vs loadStringP (pure formulation the theorems are about)", text)
    if not r.get("ok"):
        return None, r.get("err")
    if r.get("render_roundtrip") is False:
        ctx.broke("proof-obligation", "ParseRender.parse_render contradicted by evaluation (a well-formed tree does not survive print + parse with the parser's own fuel)", text)
    ctx.count("trees_roundtripped", r.get("trees_wf", 0))
    if r.get("topo_ref_agrees") is False:
        ctx.broke("correspondence", "staticOrder (edge-list formulation) vs staticOrderRef (graphlib mirror)", text)
    return RefModel(r), None


def check_wf(ctx: Ctx, rm: "RefModel", text: str):
    """the hypotheses of the Impl-layer theorems (GenValid.genRhs_valid) hold for an accepted model for which
    code was generated, and then the model's generator passes the validator (re-checked by evaluation)"""
    if rm.wf is False:
        ctx.broke("correspondence", "an accepted model for which code was generated is not ModelWF in the Lean loader model", text)
    elif rm.wf and rm.gen_rhs_valid is False:
        ctx.broke("proof-obligation", "GenValid.genRhs_valid contradicted by evaluation (checkRhs (Impl.genRhs m) = false on a ModelWF model)", text)
    if rm.wf and rm.gen_monitor_valid is False:
        ctx.broke("proof-obligation", "GenValidMon.genMonitor_valid contradicted by evaluation (checkMonitor (Impl.genMonitor m) = false on a ModelWF model)", text)
    if rm.wf and rm.helper_clash_free and rm.gen_rl_valid is False:
        ctx.broke("proof-obligation", "GenValidRL.rl_generators_valid contradicted by evaluation (checkScheme (Impl.genGRL/genHybrid m) = false on a ModelWF model without helper-name clashes)", text)
    if rm.wf:
        ctx.count("models_wf")
    if rm.wf and rm.helper_clash_free:
        ctx.count("models_rl_generators_checked")


def module_layout(dicts: dict) -> dict:
    """slot layout reported by a generated module's own index dicts"""
    def lst(d):
        out = [None] * len(d)
        for k, i in d.items():
            if not isinstance(i, int) or i < 0 or i >= len(out) or out[i] is not None:
                return None
            out[i] = k
        return out
    lay = {k2: lst(dicts.get(k1, {})) for k1, k2 in (("state", "state"), ("parameter", "param"), ("monitor", "monitor"), ("missing", "missing"))}
    return lay


def arrays_for(point: dict, layout: dict):
    s = np.array([point[n] for n in layout["state"]], dtype=np.float64)
    p = np.array([point[n] for n in layout["param"]], dtype=np.float64)
    mv = np.array([point[n] for n in layout["missing"]], dtype=np.float64) if layout.get("missing") else None
    return s, p, mv


def validate(ctx: Ctx, text: str, kind: str, layout: dict, stmts, req=None):
    """run the proven-sound Lean validator on a translated program"""
    r = ctx.lean().call({"op": "validate", "text": text, "kind": kind, "layout": layout,
                         "prog": translate.stmts_json(stmts), "req": req or []})
    return r


def expr_ok(ctx: Ctx, rm: RefModel, stmts, point: dict, seed: int, extra_defs=None):
    """ExprOK at one sampled solution: every emitted `define x e'` has the value of the
    model's `x = e` (both at 50 digits).  Returns list of (name, value', value)."""
    exact, spread = rm.reference(point, seed)
    env = dict(exact)
    hp = sexp.HP()
    bad = []
    for st in stmts:
        if st[0] != "D":
            continue
        x, e1 = st[1], st[2]
        if x not in rm.assigns:
            continue
        try:
            v1 = hp.ev(e1, env)
        except sexp.Unbound:
            continue
        v = exact[x]
        if not mpmath.isfinite(v) or not mpmath.isfinite(v1):
            continue
        tol = 64 * spread[x] + mpf(2) ** -40 * abs(v) * 0 + mpf(16) * sexp.U * abs(v) + mpf("1e-320")
        if spread[x] > abs(v) * mpf("1e-6") and v != 0:
            continue
        if abs(v1 - v) > tol:
            bad.append((x, v1, v))
    return bad


def compare_outputs(out, want: dict, slots: dict, spread: dict, what: str):
    """`out`: float64 array; `want`: name -> reference value; `slots`: name -> index.
    returns (n_ok, n_skip, [bad (name, got, ref)])"""
    ok = skip = 0
    bad = []
    for name, idx in slots.items():
        ref = want[name]
        try:
            got = out[idx]
        except Exception:
            bad.append((name, "index-error", ref))
            continue
        verdict = sexp.agrees(got, ref, spread.get(name, mpf(0)))
        if verdict == "ok":
            ok += 1
        elif verdict == "skip":
            skip += 1
        else:
            bad.append((name, float(got), ref))
    return ok, skip, bad


def confirm_hp(got_hp, ref, spread):
    """50-digit evaluation of the *generated* code vs the reference: True = really differs"""
    if got_hp is None:
        return None
    try:
        g = mpf(got_hp)
    except Exception:
        return None
    if not mpmath.isfinite(g) or not mpmath.isfinite(ref):
        return None
    tol = 256 * spread + mpf(2) ** -44 * abs(ref) + mpf("1e-320")
    return abs(g - ref) > tol


def fmt(x):
    try:
        return mpmath.nstr(mpf(x), 17)
    except Exception:
        return str(x)


# ---------------------------------------------------------------- building and probing a generated Python module
class PyBuild:
    def __init__(self):
        self.ode = None
        self.code = None
        self.mod = None
        self.funcs = None
        self.dicts = None
        self.layout = None
        self.rm = None
        self.hp = None

    def hp_mod(self):
        if self.hp is None:
            try:
                self.hp = common.exec_module_hp(self.code)
            except Exception:
                self.hp = False
        return self.hp


def build_py(ctx: Ctx, text: str, tag: str, backend: str = "numpy", rm: RefModel | None = None, ode=None,
             on_codegen_error: str = "violate", **opts):
    """load with the real gotranx, generate, exec, translate; records violations for failures
    that the calling property counts as such.  Returns PyBuild or None."""
    b = PyBuild()
    if ode is None:
        try:
            ode = common.load(text)
        except Exception as ex:
            ctx.count(f"rejected/{type(ex).__name__}")
            return None
    b.ode = ode
    if rm is None:
        rm, err = lean_load(ctx, text, impl_deps(ode))
        if rm is None:
            ctx.broke("correspondence", "load-accept-class", f"gotranx accepts, model says {err}\n{text}")
            return None
    b.rm = rm
    if not rm.acyclic:
        ctx.count("cyclic")
        return None
    # a model none of whose points is defined in float64 (a constant that overflows, log of a
    # negative constant …) is outside the domain of every numeric property
    if not model_usable(rm, text):
        ctx.count("models_undefined_everywhere")
        return None
    try:
        b.code = common.py_code(ode, backend=backend, **opts)
        b.mod = common.exec_module(b.code)
    except Exception as ex:
        if "used by the generated code itself" in str(ex):
            ctx.count("rejected/reserved-identifier")   # an error is an acceptable outcome (C19's subject)
            return None
        if on_codegen_error == "skip":
            ctx.count(f"codegen_failed/{type(ex).__name__}")
            return None
        ctx.violate(f"{tag}/{backend}/codegen-exception/{exc_kind(ex, rm)}",
                    f"accepted model, but {backend} code generation raised {type(ex).__name__}: {str(ex)[:120]}",
                    case={"text": text, "opts": _jsonable(opts)}, error=repr(ex))
        return None
    check_wf(ctx, rm, text)
    b.funcs, b.dicts = translate.py_module(b.code)
    lay = module_layout(b.dicts)
    if lay["state"] is None or lay["param"] is None or lay["monitor"] is None:
        ctx.violate(f"{tag}/{backend}/index-not-bijective", "an index dict is not a bijection onto 0..n-1", case={"text": text})
        return None
    lay["missing"] = lay["missing"] or []
    b.layout = lay
    if backend == "numpy":
        compare_with_impl(ctx, b, text, opts)
    return b


def compare_with_impl(ctx: Ctx, b: "PyBuild", text: str, opts: dict):
    """the programs of the model's generators (`Impl.genRhs / genMonitor / genEuler / genGRL / genHybrid`, the objects of
    the Impl-layer theorems) against the translated real programs: same statements in the same order
    (which array slot is unpacked into which name, which name is defined, which slot is stored).
    `<d>_linearized` helpers are left out: whether a linearisation is identically zero is sympy's call."""
    stiff = list(opts.get("stiff_states") or [])
    try:
        r = ctx.lean().call({"op": "gen", "text": text, "deps": impl_deps(b.ode), "remove_unused": bool(opts.get("remove_unused", False)),
                             "stiff": stiff, "delta_m": 1, "delta_e": -8})
    except Exception:
        return
    if not r.get("ok"):
        return

    def skel(stmts, model_side):
        out = []
        for st in stmts:
            if st[0] == "U":
                out.append(("U", st[1], st[2], st[3]))
            elif st[0] == "D":
                if not str(st[1]).endswith("_linearized"):
                    out.append(("D", st[1]))
            else:
                out.append(("S", st[1]))
        return out

    for fn, key in (("rhs", "rhs"), ("monitor_values", "monitor"), ("explicit_euler", "euler"),
                    ("generalized_rush_larsen", "grl"), ("hybrid_rush_larsen", "hybrid")):
        f = b.funcs.get(fn)
        if f is None or r.get(key) is None or any("UNTRANSLATABLE" in o for o in f.other):
            continue
        if key == "hybrid" and "stiff_states" not in opts:
            continue
        real, model = skel(f.stmts, False), skel(r[key], True)
        if real == model:
            ctx.count("impl_programs_matched")
        else:
            ctx.count("impl_programs_differ")
            ctx.broke("correspondence", f"Impl generator vs generated {fn} (statement skeleton)",
                      json.dumps({"text": text, "opts": _jsonable(opts), "real": real[:40], "model": model[:40]})[:3000])


def model_usable(rm: RefModel, text: str) -> bool:
    g = gen.GModel(comps=[""])
    g.states = {k: (None, "") for k in rm.states}
    g.params = {k: (None, "") for k in rm.params}
    probe = gen.gen_inputs(random.Random(len(text)), g, 4)
    for pt in probe:
        for mv in rm.missing():
            pt[mv] = 0.5
    return any(rm.usable(pt, 1) is not None for pt in probe)


def exc_kind(ex: Exception, rm: RefModel) -> str:
    """deterministic classification of a code-generation failure (finding keys)"""
    msg = f"{type(ex).__name__}: {ex}"
    if "Derivative" in msg:
        ops: dict = {}
        for d, (s, e) in rm.derivs.items():
            sexp.ops(e, ops)
        return "unprintable-Derivative/" + ("floor-or-mod" if ("fn:floor" in ops or "mod" in ops) else "other")
    import re as _re
    m = _re.search(r"Unsupported by <class '[^']+'>:\s*(?:<class ')?([\w.]+)", msg)
    if m:
        return "unprintable/" + m.group(1).split(".")[-1]
    return type(ex).__name__


def construct_of(rm: RefModel) -> str:
    """which discontinuous / special constructs the derivative expressions use (finding keys)"""
    ops: dict = {}
    for d, (s, e) in rm.derivs.items():
        sexp.ops(e, ops)
    tags = [k.replace("fn:", "") for k in ("fn:floor", "mod", "fn:abs", "cond", "ccond") if k in ops]
    return "+".join(tags) or "plain"


def _jsonable(opts):
    out = {}
    for k, v in opts.items():
        if isinstance(v, (list, tuple)):
            out[k] = [getattr(x, "value", x) for x in v]
        else:
            out[k] = getattr(v, "value", v)
    return out


def scheme_reference(rm: RefModel, lin: dict, kind: str, delta, stiff=None):
    """extra assignments (as expression ASTs over the model's names, `dt`) whose values are
    what the property prescribes for the scheme step of each state:
      euler : X + dt*dX
      grl   : X + (|g|>delta ? dX/g*(exp(g*dt)-1) : dt*dX),  g = d(rate)/dX with everything else fixed
      hybrid: grl for states in `stiff`, euler otherwise.
    returns (assigns, order, {state: name of its step value})"""
    assigns = dict(rm.assigns)
    order = list(rm.order)
    out = {}
    dnum = ("num",) + sexp.num_from_text(repr(float(delta))) if delta is not None else None
    for d, (s, _) in rm.derivs.items():
        use_rl = kind == "grl" or (kind == "hybrid" and stiff is not None and s in stiff)
        euler = ("add", ("var", s), ("mul", ("var", "dt"), ("var", d)))
        if use_rl:
            g = f"__g_{d}"
            assigns[g] = lin[d]
            order.append(g)
            rl = ("mul", ("div", ("var", d), ("var", g)), ("sub", ("fn", "exp", ("mul", ("var", g), ("var", "dt"))), ("num", 1, 0)))
            e = ("add", ("var", s), ("cond", ("rel", "gt", ("fn", "abs", ("var", g)), dnum), rl, ("mul", ("var", "dt"), ("var", d))))
        else:
            e = euler
        nm = f"__step_{s}"
        assigns[nm] = e
        order.append(nm)
        out[s] = nm
    return assigns, order, out


def lean_diff(ctx: Ctx, text: str):
    r = ctx.lean().call({"op": "diff", "text": text})
    if not r.get("ok"):
        return None
    return {d: sexp.parse_sexp(e) for d, s, e in r["lin"]}


def usable_ref(assigns, order, base, seed):
    info = {}
    exact, spread = sexp.reference(assigns, order, base, seed, info=info)
    if not info["defined"] or info["unstable"]:
        return None
    return exact, spread


def call_py(fn, order: str, **kw):
    """call a generated Python function with its arguments in the given letter order"""
    args = []
    for ch in order:
        args.append({"s": kw.get("states"), "t": kw.get("t"), "p": kw.get("parameters"), "d": kw.get("dt")}[ch])
    if kw.get("missing") is not None:
        args.append(kw["missing"])
    with np.errstate(all="ignore"):
        return fn(*args)


def confirm_values(ctx: Ctx, b: PyBuild, fname: str, order: str, bad, slots, spread, **kw):
    """re-run the generated function against the 50-digit shim; keep only confirmed disagreements"""
    hpm = b.hp_mod()
    confirmed = []
    outh = None
    if hpm and hasattr(hpm, fname):
        conv = lambda a: None if a is None else common.Vec(common.mpf(float(x)) for x in a)  # noqa: E731
        args = []
        for ch in order:
            args.append({"s": conv(kw.get("states")), "t": common.mpf(kw["t"]) if kw.get("t") is not None else None,
                         "p": conv(kw.get("parameters")), "d": common.mpf(kw["dt"]) if kw.get("dt") is not None else None}[ch])
        if kw.get("missing") is not None:
            args.append(conv(kw["missing"]))
        outh = common.hp_call(getattr(hpm, fname), *args)
    for (name, got, ref) in bad:
        c = None
        if outh is not None:
            try:
                c = confirm_hp(outh[slots[name]], ref, spread.get(name, mpf(0)))
            except Exception:
                c = None
        if c is False:
            ctx.count("ill_conditioned")
            continue
        confirmed.append((name, got, ref, c))
    return confirmed


def boundary_points(rm: RefModel, pt: dict, limit: int = 6):
    """copies of `pt` that sit exactly on the boundary of a comparison between a state / parameter
    and a literal or another state / parameter (Ge vs Gt, Le vs Lt are only told apart there)"""
    out = []
    inputs = set(rm.states) | set(rm.params)

    def walk(e):
        if len(out) >= limit:
            return
        tag = e[0]
        if tag == "rel":
            a, b = e[2], e[3]
            for u, v in ((a, b), (b, a)):
                if u[0] == "var" and u[1] in inputs:
                    if v[0] == "num":
                        q = dict(pt)
                        q[u[1]] = float(mpf(v[1]) * mpf(10) ** v[2])
                        out.append(q)
                    elif v[0] == "neg" and v[1][0] == "num":
                        q = dict(pt)
                        q[u[1]] = -float(mpf(v[1][1]) * mpf(10) ** v[1][2])
                        out.append(q)
                    elif v[0] == "var" and v[1] in inputs and v[1] != u[1]:
                        q = dict(pt)
                        q[u[1]] = pt[v[1]]
                        out.append(q)
                    break
        if tag in ("num", "var", "pi", "int"):
            return
        for x in (e[2:] if tag in ("fn", "rel", "ccond") else e[1:]):
            walk(x)

    for e in rm.assigns.values():
        walk(e)
    out = out[:limit]
    # ... and copies that miss the boundary by a relative 1e-7 on either side (an equality or an ordering decided "up to a
    # tolerance" gives itself away here: the two sides are different doubles, far closer than any sampled point comes)
    near = []
    for q in out:
        for name, v in q.items():
            if name in inputs and pt.get(name) != v:
                for sgn in (1, -1):
                    q2 = dict(q)
                    q2[name] = v * (1 + sgn * 1e-7) + sgn * 1e-12
                    near.append(q2)
    return out + near[:2 * limit]
