"""Reference model (from the Lean loader) and the numeric / structural oracles shared by the
property checks."""
from __future__ import annotations

import random

import mpmath
import numpy as np
from mpmath import mpf

from . import common, sexp, translate
from .common import Ctx


class RefModel:
    """the Lean loader's view of a model text"""

    def __init__(self, resp: dict):
        self.raw = resp
        self.states = {n: sexp.parse_sexp(e) for n, e in resp["states"]}
        self.params = {n: sexp.parse_sexp(e) for n, e in resp["params"]}
        self.inters = {n: sexp.parse_sexp(e) for n, e in resp["inters"]}
        self.derivs = {d: (s, sexp.parse_sexp(e)) for d, s, e in resp["derivs"]}
        self.assigns = dict(self.inters)
        self.assigns.update({d: e for d, (s, e) in self.derivs.items()})
        self.layout = resp.get("layout")
        self.comps = resp.get("comps", [])
        self.annots = resp.get("annots", [])
        self.mentioned = resp.get("mentioned", [])
        self.order = self._topo()

    def deriv_of(self, state):
        for d, (s, _) in self.derivs.items():
            if s == state:
                return d
        return None

    def _topo(self):
        seen, out, onstack = set(), [], set()
        ok = True

        def visit(n):
            nonlocal ok
            if n in seen:
                return
            if n in onstack:
                ok = False
                return
            onstack.add(n)
            for y in sexp.fv(self.assigns[n]):
                if y in self.assigns:
                    visit(y)
            onstack.discard(n)
            seen.add(n)
            out.append(n)

        for n in sorted(self.assigns):
            visit(n)
        self.acyclic = ok
        return out

    def missing(self):
        known = set(self.states) | set(self.params) | set(self.assigns) | {"t", "time"}
        return sorted({y for e in self.assigns.values() for y in sexp.fv(e)} - known)

    def base(self, point: dict):
        b = {n: mpf(point[n]) for n in list(self.states) + list(self.params) if n in point}
        for n in self.missing():
            if n in point:
                b[n] = mpf(point[n])
        b["t"] = mpf(point["t"])
        b["time"] = mpf(point["t"])
        if "dt" in point:
            b["dt"] = mpf(point["dt"])
        return b

    def reference(self, point: dict, seed: int = 0, info=None):
        return sexp.reference(self.assigns, self.order, self.base(point), seed, info=info)

    def usable(self, point: dict, seed: int = 0):
        """(exact, spread) or None when the model's expressions are not defined in float64 at
        this point or the point sits on a discontinuity"""
        info = {}
        exact, spread = self.reference(point, seed, info)
        if not info["defined"] or info["unstable"]:
            return None
        return exact, spread


def impl_deps(ode) -> dict:
    """iteration order of each assignment's dependency frozenset in this process"""
    out = {}
    for a in tuple(ode.intermediates) + tuple(ode.state_derivatives):
        if a.value is not None:
            out[a.name] = list(a.value.dependencies)
    return out


def lean_load(ctx: Ctx, text: str, deps: dict | None = None):
    req = {"op": "load", "text": text}
    if deps is not None:
        req["deps"] = deps
    r = ctx.lean().call(req)
    if not r.get("ok"):
        return None, r.get("err")
    return RefModel(r), None


def module_layout(dicts: dict) -> dict:
    """slot layout reported by a generated module's own index dicts"""
    def lst(d):
        out = [None] * len(d)
        for k, i in d.items():
            if not isinstance(i, int) or i < 0 or i >= len(out) or out[i] is not None:
                return None
            out[i] = k
        return out
    lay = {k2: lst(dicts.get(k1, {})) for k1, k2 in (("state", "state"), ("parameter", "param"), ("monitor", "monitor"), ("missing", "missing"))}
    return lay


def arrays_for(point: dict, layout: dict):
    s = np.array([point[n] for n in layout["state"]], dtype=np.float64)
    p = np.array([point[n] for n in layout["param"]], dtype=np.float64)
    mv = np.array([point[n] for n in layout["missing"]], dtype=np.float64) if layout.get("missing") else None
    return s, p, mv


def validate(ctx: Ctx, text: str, kind: str, layout: dict, stmts, req=None):
    """run the proven-sound Lean validator on a translated program"""
    r = ctx.lean().call({"op": "validate", "text": text, "kind": kind, "layout": layout,
                         "prog": translate.stmts_json(stmts), "req": req or []})
    return r


def expr_ok(ctx: Ctx, rm: RefModel, stmts, point: dict, seed: int, extra_defs=None):
    """ExprOK at one sampled solution: every emitted `define x e'` has the value of the
    model's `x = e` (both at 50 digits).  Returns list of (name, value', value)."""
    exact, spread = rm.reference(point, seed)
    env = dict(exact)
    hp = sexp.HP()
    bad = []
    for st in stmts:
        if st[0] != "D":
            continue
        x, e1 = st[1], st[2]
        if x not in rm.assigns:
            continue
        try:
            v1 = hp.ev(e1, env)
        except sexp.Unbound:
            continue
        v = exact[x]
        if not mpmath.isfinite(v) or not mpmath.isfinite(v1):
            continue
        tol = 64 * spread[x] + mpf(2) ** -40 * abs(v) * 0 + mpf(16) * sexp.U * abs(v) + mpf("1e-320")
        if spread[x] > abs(v) * mpf("1e-6") and v != 0:
            continue
        if abs(v1 - v) > tol:
            bad.append((x, v1, v))
    return bad


def compare_outputs(out, want: dict, slots: dict, spread: dict, what: str):
    """`out`: float64 array; `want`: name -> reference value; `slots`: name -> index.
    returns (n_ok, n_skip, [bad (name, got, ref)])"""
    ok = skip = 0
    bad = []
    for name, idx in slots.items():
        ref = want[name]
        try:
            got = out[idx]
        except Exception:
            bad.append((name, "index-error", ref))
            continue
        verdict = sexp.agrees(got, ref, spread.get(name, mpf(0)))
        if verdict == "ok":
            ok += 1
        elif verdict == "skip":
            skip += 1
        else:
            bad.append((name, float(got), ref))
    return ok, skip, bad


def confirm_hp(got_hp, ref, spread):
    """50-digit evaluation of the *generated* code vs the reference: True = really differs"""
    if got_hp is None:
        return None
    try:
        g = mpf(got_hp)
    except Exception:
        return None
    if not mpmath.isfinite(g) or not mpmath.isfinite(ref):
        return None
    tol = 256 * spread + mpf(2) ** -44 * abs(ref) + mpf("1e-320")
    return abs(g - ref) > tol


def fmt(x):
    try:
        return mpmath.nstr(mpf(x), 17)
    except Exception:
        return str(x)
