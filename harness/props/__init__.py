"""Registry of the property checks."""
from . import c01, numsuite as ns, textsuite as ts

COMMON = ["Gx.exec_agree", "Gx.exec_progress", "Gx.eval_congr"]


def P(module, theorems, pins, run, check_case, level="proof", search=None, **kw):
    return dict(module=module, theorems=theorems, pins=pins, level=level, run=run, check_case=check_case,
                search=search or run, **kw)


PROPS = {
    "C01": P(c01.MODULE, c01.THEOREMS, c01.PINS, c01.run, c01.check_case),
    "C04": P("GotranxProofs.Properties.C04",
             ["Gx.C04.index_bijective", "Gx.C04.slotOf_iff", "Gx.C04.layout_counts", "Gx.C04.init_sound", "Gx.C04.init_unknown_key",
              "Gx.C04.monitor_slots", "Gx.C04.rhs_slots", "Gx.C04.formals_are_permutations", "Gx.checkMonitor_sound", "Gx.checkRhs_sound"] + COMMON,
             ["Gx.Pins.orders_are_permutations", "Gx.Pins.argument_maps", "Gx.Pins.removal_flags"],
             ns.make_run(ns.c04_case, 14, 400), ns.c04_case),
    "C05": P("GotranxProofs.Properties.C05",
             ["Gx.C05.euler_eq_states_plus_dt_rhs", "Gx.C05.eval_eulerStore", "Gx.C05.eval_euler_printed", "Gx.C05.euler_dt_zero",
              "Gx.C05.inputs_untouched", "Gx.C05.euler_aliases", "Gx.checkScheme_sound", "Gx.checkRhs_sound_named"] + COMMON,
             ["Gx.Pins.scheme_aliases", "Gx.Pins.scheme_members_accepted"],
             ns.make_run(ns.c05_case, 40, 1500, ns.scheme_cfg), ns.c05_case),
    "C06": P("GotranxProofs.Properties.C06",
             ["Gx.C06.eval_rl_store", "Gx.C06.rl_fallback", "Gx.C06.rl_exponential", "Gx.C06.rlStore_guarded", "Gx.C06.rlStore_zero",
              "Gx.C06.diff_var_other", "Gx.C06.diff_var_self", "Gx.C06.grl_aliases_and_delta", "Gx.checkScheme_sound"] + COMMON,
             ["Gx.Pins.scheme_aliases", "Gx.Pins.default_delta", "Gx.Pins.rl_always_guarded"],
             ns.make_run(ns.c06_case, 45, 1500, ns.scheme_cfg, extra=ns.c06_family), ns.c06_case),
    "C07": P("GotranxProofs.Properties.C07",
             ["Gx.C07.hybrid_empty_eq_euler", "Gx.C07.hybrid_all_eq_grl", "Gx.C07.hybrid_foreign_names", "Gx.C07.hybrid_slotwise",
              "Gx.C07.bodySlots_congr", "Gx.C07.rlStore_nonstiff", "Gx.C07.rlStore_stiff", "Gx.C07.hybrid_aliases", "Gx.checkScheme_sound"] + COMMON,
             ["Gx.Pins.scheme_aliases"],
             ns.make_run(ns.c07_case, 30, 1200, ns.scheme_cfg), ns.c07_case),
    "C08": P("GotranxProofs.Properties.C08",
             ["Gx.C08.seqCheck_pairwise", "Gx.C08.seqCheck_sound", "Gx.C08.sameDefinition_eq", "Gx.C08.sameDefinition_trans",
              "Gx.C08.sameDefinition_symm"],
             ["Gx.Pins.grammar_blocks"],
             ts.c08_run, ts.c08_case),
    "C09": P("GotranxProofs.Properties.C09",
             ["Gx.C09.sort_iter_invariant", "Gx.C09.layout_iter_invariant", "Gx.C09.genRhs_iter_invariant", "Gx.C09.genMonitor_iter_invariant",
              "Gx.C09.genEuler_iter_invariant", "Gx.C09.genGRL_iter_invariant", "Gx.C09.genHybrid_iter_invariant", "Gx.C09.deps_sorted",
              "Gx.C09.history_invariant", "Gx.C09.emitted_name_history_free", "Gx.sortNames_perm", "Gx.sortByName_perm", "Gx.sortByName_sorted"],
             ["Gx.Pins.scheme_aliases"],
             ts.c09_run, ts.c09_case),
    "C10": P("GotranxProofs.Properties.C10",
             ["Gx.C10.sortByName_canonical", "Gx.C10.model_of_perm", "Gx.C10.code_of_equal_models", "Gx.C09.sort_iter_invariant",
              "Gx.C09.layout_iter_invariant", "Gx.sortByName_perm", "Gx.sortByName_sorted"],
             ["Gx.Pins.grammar_blocks"],
             ts.c10_run, ts.c10_case),
    "C12": P("GotranxProofs.Properties.C12",
             ["Gx.C12.unused_equiv_rhs", "Gx.C12.removed_never_read", "Gx.C12.mentioned_complete", "Gx.checkRhs_sound_named", "Gx.checkRhs_progress"] + COMMON,
             ["Gx.Pins.removal_flags"],
             ns.make_run(ns.c12_case, 30, 1200, ns.unused_cfg), ns.c12_case),
}
