"""Registry of the property checks."""
from . import c01

PROPS = {
    "C01": dict(module=c01.MODULE, theorems=c01.THEOREMS, pins=c01.PINS, level="proof",
                run=c01.run, check_case=c01.check_case, search=c01.search),
}
