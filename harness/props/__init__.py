"""Registry of the property checks."""
from . import backends as be, c01, clisuite as cs, identsuite as ids, layoutsuite as ls, myokitsuite as ms, numsuite as ns, structsuite as ss, textsuite as ts

COMMON = ["Gx.exec_agree", "Gx.exec_progress", "Gx.eval_congr"]


def P(module, theorems, pins, run, check_case, level="proof", search=None, **kw):
    return dict(module=module, theorems=theorems, pins=pins, level=level, run=run, check_case=check_case,
                search=search or run, **kw)


PROPS = {
    "C01": P(c01.MODULE, c01.THEOREMS, c01.PINS, c01.run, c01.check_case),
    "C02": P("GotranxProofs.Properties.C02",
             ["Gx.C02.cReal_sound", "Gx.C02.execC_eq_exec", "Gx.C02.c_rhs_sound", "Gx.C02.c_monitor_sound", "Gx.C02.arith_dbl",
              "Gx.C02.truthy_toDbl", "Gx.C02.int_division_truncates", "Gx.C02.pow_int_exponent",
              "Gx.checkRhs_sound", "Gx.checkMonitor_sound", "Gx.checkScheme_sound", "Gx.checkRhs_progress"] + COMMON,
             ["Gx.Pins.argument_maps", "Gx.Pins.orders_are_permutations"],
             ns.make_run(be.c02_case, 24, 800, ns.scheme_cfg, extra=be.cond_extra, quick_s=170), be.c02_case),
    "C03": P("GotranxProofs.Properties.C03 GotranxProofs.Arity",
             ["Gx.Arity.generated_return", "Gx.Arity.rhs_arity", "Gx.Arity.monitor_arity", "Gx.Arity.missing_arity", "Gx.Arity.scheme_arity", "Gx.C03.jaxReturn_sound", "Gx.C03.arity_mismatch", "Gx.C03.rhs_sound", "Gx.C03.num_return_values_extracted",
              "Gx.checkMonitor_sound", "Gx.checkScheme_sound"] + COMMON,
             ["Gx.Pins.argument_maps"],
             ns.make_run(be.c03_case, 10, 150, be.big_cfg, extra=be.cond_extra, quick_s=170, case_s=120), be.c03_case),
    "C04": P("GotranxProofs.Properties.C04 GotranxProofs.GenValid GotranxProofs.GenValidMon GotranxProofs.EndToEndAll",
             ["Gx.EndToEnd.all_generators_total", "Gx.EndToEnd.monitor_end_to_end", "Gx.GenValid.genRhs_valid", "Gx.GenValid.genEuler_valid", "Gx.GenValidMon.genMonitor_valid", "Gx.GenValidMon.genMonitor_correct", "Gx.GenValid.slot_map_self", "Gx.C04.index_bijective", "Gx.C04.slotOf_iff", "Gx.C04.layout_counts", "Gx.C04.init_sound", "Gx.C04.init_unknown_key",
              "Gx.C04.monitor_slots", "Gx.C04.rhs_slots", "Gx.C04.formals_are_permutations", "Gx.checkMonitor_sound", "Gx.checkRhs_sound"] + COMMON,
             ["Gx.Pins.orders_are_permutations", "Gx.Pins.argument_maps", "Gx.Pins.removal_flags"],
             ns.c04_run, ns.c04_case),
    "C05": P("GotranxProofs.Properties.C05 GotranxProofs.GenValid GotranxProofs.SchemeEndToEnd GotranxProofs.EndToEndAll GotranxProofs.LoadEndToEndAll",
             ["Gx.load_euler_end_to_end", "Gx.SchemeEndToEnd.genEuler_dt_zero", "Gx.EndToEnd.euler_end_to_end", "Gx.SchemeEndToEnd.genEuler_correct", "Gx.GenValid.genEuler_valid", "Gx.C05.euler_eq_states_plus_dt_rhs", "Gx.C05.eval_eulerStore", "Gx.C05.eval_euler_printed", "Gx.C05.euler_dt_zero",
              "Gx.C05.inputs_untouched", "Gx.C05.euler_aliases", "Gx.checkScheme_sound", "Gx.checkRhs_sound_named"] + COMMON,
             ["Gx.Pins.scheme_aliases", "Gx.Pins.scheme_members_accepted"],
             ns.c05_run, ns.c05_case),
    "C06": P("GotranxProofs.Properties.C06 GotranxProofs.GenValidRL GotranxProofs.SchemeEndToEnd GotranxProofs.EndToEndAll",
             ["Gx.EndToEnd.grl_end_to_end", "Gx.SchemeEndToEnd.genGRL_correct", "Gx.SchemeEndToEnd.genGRL_formula", "Gx.SchemeEndToEnd.solution_withLin", "Gx.GenValidRL.genGRL_valid", "Gx.GenValidRL.rl_generators_valid", "Gx.DiffFv.sub_diff", "Gx.GenValidRL.checkNoHelperClash_sound", "Gx.C06.eval_rl_store", "Gx.C06.rl_fallback", "Gx.C06.rl_exponential", "Gx.C06.rlStore_guarded", "Gx.C06.rlStore_zero",
              "Gx.C06.diff_var_other", "Gx.C06.diff_var_self", "Gx.C06.grl_aliases_and_delta", "Gx.checkScheme_sound",
              "Gx.C06.linearisation_is_derivative", "Gx.C06.zero_linearisation_gives_euler", "Gx.C06.exact_for_affine", "Gx.C06.converges_to_euler",
              "Gx.C06.no_division_by_zero", "Gx.diff_correct", "Gx.diff_zero_of_not_mentions", "Gx.rl_exact_affine", "Gx.affine_flow_solves", "Gx.rl_first_order"] + COMMON,
             ["Gx.Pins.scheme_aliases", "Gx.Pins.default_delta", "Gx.Pins.rl_always_guarded"],
             ns.make_run(ns.c06_case, 45, 1500, ns.scheme_cfg, extra=ns.c06_family), ns.c06_case),
    "C07": P("GotranxProofs.Properties.C07 GotranxProofs.GenValidRL GotranxProofs.SchemeEndToEnd",
             ["Gx.SchemeEndToEnd.genHybrid_correct", "Gx.SchemeEndToEnd.genHybrid_all_value", "Gx.SchemeEndToEnd.genHybrid_none_value", "Gx.GenValidRL.genHybrid_valid", "Gx.GenValidRL.rl_generators_valid", "Gx.C07.hybrid_empty_eq_euler", "Gx.C07.hybrid_all_eq_grl", "Gx.C07.hybrid_foreign_names", "Gx.C07.hybrid_slotwise",
              "Gx.C07.bodySlots_congr", "Gx.C07.rlStore_nonstiff", "Gx.C07.rlStore_stiff", "Gx.C07.hybrid_aliases", "Gx.checkScheme_sound"] + COMMON,
             ["Gx.Pins.scheme_aliases"],
             ns.make_run(ns.c07_case, 30, 1200, ns.scheme_cfg), ns.c07_case),
    "C08": P("GotranxProofs.Properties.C08 GotranxProofs.KahnComplete GotranxProofs.LoaderWF GotranxProofs.SeqCheckComplete GotranxProofs.LoaderExt",
             ["Gx.coreLoad_ext", "Gx.coreLoad_repeat", "Gx.C08.seqCheck_iff", "Gx.C08.seqCheck_complete", "Gx.coreLoad_wf", "Gx.loadStringP_wf", "Gx.compOf_ok", "Gx.allAtoms_names_nodup", "Gx.Kahn.staticOrder_complete", "Gx.Kahn.staticOrder_correct", "Gx.C08.seqCheck_pairwise", "Gx.C08.seqCheck_sound", "Gx.C08.sameDefinition_eq", "Gx.C08.sameDefinition_trans",
              "Gx.C08.sameDefinition_symm"],
             ["Gx.Pins.grammar_blocks"],
             ts.c08_run, ts.c08_case),
    "C09": P("GotranxProofs.Properties.C09 GotranxProofs.Kahn",
             ["Gx.Kahn.staticOrder_correct", "Gx.C09.sort_iter_invariant", "Gx.C09.layout_iter_invariant", "Gx.C09.genRhs_iter_invariant", "Gx.C09.genMonitor_iter_invariant",
              "Gx.C09.genEuler_iter_invariant", "Gx.C09.genGRL_iter_invariant", "Gx.C09.genHybrid_iter_invariant", "Gx.C09.deps_sorted",
              "Gx.C09.history_invariant", "Gx.C09.emitted_name_history_free", "Gx.sortNames_perm", "Gx.sortByName_perm", "Gx.sortByName_sorted"],
             ["Gx.Pins.scheme_aliases"],
             ts.c09_run, ts.c09_case),
    "C10": P("GotranxProofs.Properties.C10 GotranxProofs.LoaderPerm GotranxProofs.LoaderAccept GotranxProofs.LoaderExt",
             ["Gx.coreLoad_ext", "Gx.loadItemsP_perm", "Gx.coreLoad_accepts_perm", "Gx.coreLoad_perm", "Gx.C08.seqCheck_perm", "Gx.mem_comp_iff", "Gx.model_perm_invariant", "Gx.mem_allAtoms_iff", "Gx.buildComps_present", "Gx.C10.sortByName_canonical", "Gx.C10.model_of_perm", "Gx.C10.code_of_equal_models", "Gx.C09.sort_iter_invariant",
              "Gx.C09.layout_iter_invariant", "Gx.sortByName_perm", "Gx.sortByName_sorted"],
             ["Gx.Pins.grammar_blocks"],
             ts.c10_run, ts.c10_case),
    "C14": P("GotranxProofs.Properties.C14",
             ["Gx.C14.evalVec_pointwise", "Gx.C14.scalarOnly_fails", "Gx.C14.scalarOnly_single", "Gx.C14.allSome_map", "Gx.C14.no_source_construct_scalarOnly"],
             [],
             ns.make_run(be.c14_case, 25, 1000, be.c14_cfg, extra=be.c14_extra), be.c14_case),
    "C11": P("GotranxProofs.Properties.C11 GotranxProofs.LoaderExt GotranxProofs.ParseRender",
             ["Gx.coreLoad_idem", "Gx.ParseRender.parse_render", "Gx.ParseRender.text_denotes", "Gx.C11.writer_relations_in_grammar", "Gx.C11.writer_connectives_in_grammar", "Gx.C11.reload_preserves_values"],
             ["Gx.Pins.relop_table", "Gx.Pins.writer_overrides", "Gx.Pins.grammar_names", "Gx.Pins.grammar_keywords", "Gx.Pins.grammar_ladder"],
             ns.make_run(ss.c11_case, 30, 1000, ss.c11_cfg, extra=ss.c11_extra), ss.c11_case),
    "C13": P("GotranxProofs.Properties.C13 GotranxProofs.GenValidMissing GotranxProofs.SplitEndToEnd GotranxProofs.SplitLoader GotranxProofs.SplitComplement GotranxProofs.EndToEndAll",
             ["Gx.SplitEndToEnd.split_exchange", "Gx.SplitEndToEnd.missing_defined_in_other", "Gx.EndToEnd.missing_end_to_end", "Gx.SplitEndToEnd.loaded_split_wf", "Gx.SplitEndToEnd.closed_of_components", "Gx.SplitEndToEnd.split_rhs_correct", "Gx.SplitEndToEnd.split_missing_correct", "Gx.SplitEndToEnd.restrict_wf", "Gx.GenValidMissing.genMissing_valid", "Gx.GenValidMissing.genMissing_correct", "Gx.GenValidMissing.missBody_facts", "Gx.C13.missing_exact", "Gx.C13.missing_sorted", "Gx.C13.split_glue", "Gx.C13.restrict_assigns", "Gx.C13.missing_values_sound",
              "Gx.C13.states_partition", "Gx.C13.c_missing_index_name", "Gx.checkMissingValues_sound"] + COMMON,
             ["Gx.Pins.removal_flags"],
             ns.make_run(ss.c13_case, 14, 500, ss.c13_cfg), ss.c13_case),
    "C15": P("GotranxProofs.Properties.C15",
             ["Gx.C15.gname_injective", "Gx.C15.imported_nodup", "Gx.C15.append_underscore_inj"],
             [],
             ms.c15_run, ms.c15_case, level="other",
             explanation="Level 'other': the Lean part covers the renaming function of the importer (gname_injective: the reserved-suffix "
                         "renaming is injective under Myokit's unique-uname guarantee; imported_nodup). Myokit's formats, its expression "
                         "evaluator and its sympy writer are third-party code outside the model: the dynamics are decided by differential runs - "
                         "generated and crafted Myokit models (nested variables, names that clash with sympy / the .ode language / the generated "
                         "code, the time variable under other names, if / piecewise, every Myokit operator) are imported, saved, reloaded, and the "
                         "generated rhs is compared with Model.evaluate_derivatives at the initial and at perturbed states; export back to Myokit "
                         "is compared value by value and unit by unit."),
    "C16": P("GotranxProofs.Properties.C16",
             ["Gx.C16.nested_regular", "Gx.C16.nested_at_singular", "Gx.C16.asCoded_le_one", "Gx.C16.asCoded_two_doubles"],
             [],
             ss.c16_run, ss.c16_case),
    "C17": P("GotranxProofs.Properties.C17",
             ["Gx.C17.lex_skip_blank", "Gx.C17.inline_run", "Gx.C17.lex_comment", "Gx.C17.lex_crlf", "Gx.C17.lex_blank_line", "Gx.C17.lex_blank_line_crlf",
              "Gx.C17.lex_continuation_indent", "Gx.C17.lex_continuation_break"],
             ["Gx.Pins.grammar_blocks", "Gx.Pins.grammar_ignore", "Gx.Pins.unit_caught"],
             ls.c17_run, ls.c17_case),
    "C18": P("GotranxProofs.Properties.C18",
             ["Gx.C18.ode2py_plumbing", "Gx.C18.ode2c_plumbing", "Gx.C18.no_option_dropped", "Gx.C18.config_keys", "Gx.C18.scheme_options_reach_schemes", "Gx.C18.effective_cfg", "Gx.C18.effective_cli"],
             ["Gx.Pins.cli_ode2py_forwarding", "Gx.Pins.cli_ode2py_complete", "Gx.Pins.scheme_members_accepted"],
             cs.c18_run, cs.c18_case, level="other",
             explanation="Level 'other': the Lean part decides the option plumbing completely (finite tables re-extracted from cli/__init__.py, "
                         "gotran2py.py, gotran2c.py and by running cli.utils.add_schemes with a recording stub on every run; theorems ode2py_plumbing, "
                         "ode2c_plumbing, no_option_dropped, config_keys, scheme_options_reach_schemes are re-checked by lake build). typer's parsing, "
                         "the configuration-file lookup and the file system are not modelled: they are exercised by running `python -m gotranx ...` "
                         "in scratch directories over random option / configuration combinations and comparing the written bytes with get_code and "
                         "with a module composed directly from CodeGenerator methods; invalid and missing models must exit non-zero without output."),
    "C19": P("GotranxProofs.Properties.C19",
             ["Gx.C19.eval_rename", "Gx.C19.fv_rename", "Gx.C19.wellScoped_rename", "Gx.C19.capture_witness"],
             [],
             ids.c19_run, ids.c19_case),
    "C20": P("GotranxProofs.Properties.C20 GotranxProofs.RhsMatrixTotal",
             ["Gx.RhsMatrixTotal.rhsMatrix_total", "Gx.RhsMatrixTotal.level_subst", "Gx.RhsMatrixTotal.fv_subst", "Gx.EndToEnd.sortedAssignments_total", "Gx.C20.rhsMatrixLoop_sound", "Gx.C20.eval_subst", "Gx.C20.sigma_of_solution", "Gx.C20.states_order", "Gx.C20.loop_done",
              "Gx.C20.jacobian_entry_correct", "Gx.C20.jacobian_shape", "Gx.diff_correct"],
             ["Gx.Pins.max_tries_shape"],
             ss.c20_run, ss.c20_case),
    "C12": P("GotranxProofs.Properties.C12 GotranxProofs.GenValid GotranxProofs.SchemeEndToEnd GotranxProofs.EndToEndAll",
             ["Gx.SchemeEndToEnd.genMonitor_removal_invariant", "Gx.SchemeEndToEnd.genEuler_removal_invariant", "Gx.SchemeEndToEnd.genGRL_removal_invariant", "Gx.SchemeEndToEnd.genHybrid_removal_invariant", "Gx.GenValid.genRhs_removal_invariant", "Gx.GenValid.genRhs_valid", "Gx.GenValid.genRhs_exprOK", "Gx.C12.unused_equiv_rhs", "Gx.C12.removed_never_read", "Gx.C12.mentioned_complete", "Gx.checkRhs_sound_named", "Gx.checkRhs_progress"] + COMMON,
             ["Gx.Pins.removal_flags"],
             ns.c12_run, ns.c12_case),
}
