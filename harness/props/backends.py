"""C02 (C backend), C03 (JAX backend), C14 (NumPy functions are vectorised)."""
from __future__ import annotations

import json
import math
import re

import mpmath
import numpy as np
from mpmath import mpf

from .. import common, gen, oracle, sexp, translate
from ..common import Ctx, Scheme
from . import numsuite as ns

SCHEMES = [Scheme.explicit_euler, Scheme.generalized_rush_larsen, Scheme.hybrid_rush_larsen]


def scheme_refs(ctx, rm, text, delta, stiff):
    lin = oracle.lean_diff(ctx, text)
    if lin is None:
        return None
    out = {}
    for kind, fn in (("euler", "explicit_euler"), ("grl", "generalized_rush_larsen"), ("hybrid", "hybrid_rush_larsen")):
        out[fn] = oracle.scheme_reference(rm, lin, kind, delta, stiff)
    return out


def near_delta(exact, spread, rm, delta):
    for d in rm.derivs:
        g = f"__g_{d}"
        if g in exact:
            if abs(abs(exact[g]) - mpf(delta)) <= 64 * spread[g] + mpf(delta) * mpf("1e-9"):
                return True
    return False


# ================================================================== C03 (JAX)
def c03_case(ctx: Ctx, case: dict):
    import jax
    text = case["text"]
    b0 = oracle.build_py(ctx, text, "C03", backend="numpy", on_codegen_error="skip", scheme=SCHEMES)
    if b0 is None:
        return
    rm = b0.rm
    stiff = case.get("stiff") or [s for s in rm.states if ctx.rng.random() < 0.6]
    b = oracle.build_py(ctx, text, "C03", backend="jax", rm=rm, ode=b0.ode, scheme=SCHEMES, stiff_states=stiff)
    if b is None:
        return
    lay = b.layout
    nontriv = len(rm.inters) >= 1 and len(rm.states) >= 2
    ctx.case(text, nontriv, sample={"text": text, "stiff": stiff})
    refs = scheme_refs(ctx, rm, text, 1e-8, stiff)
    # structural: validators + documented return length of every function
    for fn, kind, n in (("rhs", "rhs", len(lay["state"])), ("monitor_values", "monitor", len(lay["monitor"])),
                        ("explicit_euler", "scheme", len(lay["state"])), ("generalized_rush_larsen", "scheme", len(lay["state"])),
                        ("hybrid_rush_larsen", "scheme", len(lay["state"]))):
        f = b.funcs.get(fn)
        if f is None:
            ctx.violate(f"C03/jax/missing-{fn}", f"the JAX module has no {fn} although the NumPy backend offers it", case=case)
            return
        if f.returned is None or f.returned != list(range(n)):
            ctx.violate(f"C03/jax/{fn}/return-length",
                        f"{fn} returns the array of {f.returned if f.returned is None else len(f.returned)} entries "
                        f"({f.returned}), the documented length is {n}", case=case)
            return
        if not any("UNTRANSLATABLE" in o for o in f.other):
            v = oracle.validate(ctx, text, kind, lay, f.stmts)
            ctx.count("validated")
            if not v.get("verdict"):
                ctx.broke("validator", f"check({fn}, jax)", json.dumps({"text": text, "verdict": v}))
    # initial values
    for fn, names, table in (("init_state_values", lay["state"], rm.states), ("init_parameter_values", lay["param"], rm.params)):
        try:
            arr = np.asarray(getattr(b.mod, fn)())
        except Exception as ex:
            ctx.violate(f"C03/jax/{fn}/raises/{type(ex).__name__}", f"{fn}() raised {type(ex).__name__}: {str(ex)[:80]}", case=case)
            continue
        if arr.shape != (len(names),):
            ctx.violate(f"C03/jax/{fn}/length", f"{fn}() has shape {arr.shape}, expected ({len(names)},)", case=case)
            continue
        hp = sexp.HP()
        for i, nme in enumerate(names):
            ref = hp.ev(table[nme], {})
            if sexp.agrees(arr[i], ref, abs(ref) * sexp.U * 4) == "bad":
                ctx.violate(f"C03/jax/{fn}/default", f"{fn}()[{i}] = {arr[i]!r} but {nme} is declared as {oracle.fmt(ref)}", case=case)
                break
    pts = case.get("points") or ns.points_for(ctx, rm, ctx.n(3, 5), dts=(1e-3, 0.1, 0.0, -0.05))
    pts = list(pts) + oracle.boundary_points(rm, pts[0], limit=3)
    for pi, pt in enumerate(pts):
        s, p, mv = oracle.arrays_for(pt, lay)
        calls = [("rhs", "tsp", None), ("monitor_values", "tsp", None)] + [(fn, "stdp", refs[fn]) for fn in refs] if refs else []
        for fn, order, ref in calls:
            if ref is None:
                us = rm.usable(pt, ctx.seed * 1000 + pi)
                if us is None:
                    continue
                exact, spread = us
                slots = ({d: lay["state"].index(sn) for d, (sn, _) in rm.derivs.items()} if fn == "rhs"
                         else {nme: i for i, nme in enumerate(lay["monitor"])})
            else:
                assigns, order_, step = ref
                us = oracle.usable_ref(assigns, order_, rm.base(pt), ctx.seed * 1000 + pi)
                if us is None:
                    continue
                exact, spread = us
                if near_delta(exact, spread, rm, 1e-8):
                    continue
                slots = {step[sn]: i for i, sn in enumerate(lay["state"])}
            kw = dict(states=s, t=pt["t"], dt=pt["dt"], parameters=p, missing=mv)
            outs = {}
            for mode in (("jit", "nojit") if pi == 0 else ("jit",)):
                try:
                    if mode == "nojit":
                        with jax.disable_jit():
                            out = np.asarray(oracle.call_py(getattr(b.mod, fn), order, **kw))
                    else:
                        out = np.asarray(oracle.call_py(getattr(b.mod, fn), order, **kw))
                except Exception as ex:
                    ctx.violate(f"C03/jax/{fn}/raises/{type(ex).__name__}", f"{fn} ({mode}) raised {type(ex).__name__}: {str(ex)[:100]}",
                                case={**case, "points": [pt], "stiff": stiff})
                    return
                outs[mode] = out
                ctx.count("calls")
                want_n = len(lay["monitor"]) if fn == "monitor_values" else len(lay["state"])
                if out.shape != (want_n,):
                    ctx.violate(f"C03/jax/{fn}/shape", f"{fn} ({mode}) returned shape {out.shape}, documented ({want_n},)", case={**case, "points": [pt]})
                    return
                ok, skip, bad = oracle.compare_outputs(out, exact, slots, spread, fn)
                ctx.count("values_ok", ok)
                ctx.count("values_skipped", skip)
                if bad:
                    conf = oracle.confirm_values(ctx, b, fn, order, bad, slots, spread, **kw)
                    for (name, got, r_, c) in conf:
                        ctx.violate(f"C03/jax/{fn}/value", f"{fn} ({mode}) slot {slots[name]} = {oracle.fmt(got)} but the model defines {oracle.fmt(r_)} ({name})",
                                    case={**case, "points": [pt], "stiff": stiff})
                    if conf:
                        return
        # NumPy module of the same model agrees (metamorphic, 4 ulp for FMA contraction)
        try:
            r_np = np.asarray(oracle.call_py(b0.mod.rhs, "tsp", states=s, t=pt["t"], parameters=p, missing=mv))
            r_jx = np.asarray(oracle.call_py(b.mod.rhs, "tsp", states=s, t=pt["t"], parameters=p, missing=mv))
            for i in range(len(r_np)):
                if np.isfinite(r_np[i]) and not ns.ulp_close(r_np[i], r_jx[i], r_np[i], k=64):
                    ctx.count("numpy_jax_differ_beyond_64ulp")
        except Exception:
            pass
    c03_split(ctx, case, rm, pts)


def c03_split(ctx: Ctx, case: dict, rm, pts):
    """`missing_values` and the functions with the extra `missing_variables` argument under JAX: every component is
    split off, both parts are generated with the JAX backend (with and without unused-variable removal), fed from
    the full model and compared by name (the C13 procedure; keys C03/jax/split/...)"""
    if len(rm.comps) < 2:
        return
    from . import structsuite
    ctx.count("split_models")
    structsuite.c13_case(ctx, {"text": case["text"], "points": [pt for pt in pts if "dt" in pt][:2]}, backend="jax", tag="C03/jax/split",
                         count_case=False)


def c03_extra(ctx: Ctx):
    """small models whose conditions nest And / Or / Not in both directions and use intervals"""
    rng = ctx.rng
    names = ["x", "y", "z"]
    conds = [gen.idiom_cond(rng, names, gen.ExprCfg()) for _ in range(3)]
    e = [sexp.render(("cond", c, gen.gen_expr(rng, names + ["a"], 1), gen.gen_expr(rng, names + ["a"], 1))) for c in conds]
    text = (f"states(x=0.5, y=-0.25, z=1.5)\nparameters(a=0.75)\ni1 = {e[0]}\ndx_dt = i1 - x\ndy_dt = {e[1]} - a*y\ndz_dt = {e[2]}\n")
    pts = []
    for _ in range(6):
        pts.append({"x": rng.uniform(-3, 3), "y": rng.uniform(-3, 3), "z": rng.uniform(-3, 3), "a": rng.uniform(-2, 2), "t": 0.5, "dt": 0.01})
    return {"text": text, "points": pts}


def cond_nest_extra(ctx: Ctx):
    """assignments whose whole right-hand side is a Conditional, with another Conditional or a relation
    as an *operand* of + * unary minus / a relation / a power inside a branch, inside the condition, or as
    a function argument (printers give `?:` / `where` different syntactic shapes in these positions)"""
    rng = ctx.rng
    names = ["x", "y", "z", "a"]

    def leaf():
        return rng.choice(names + ["0.5", "2", "1.25", "3"])

    def rel():
        return f"{rng.choice(['Lt', 'Gt', 'Le', 'Ge'])}({rng.choice(names)}, {rng.choice(['0.25', '1', '-0.5', rng.choice(names)])})"

    def cond(depth):
        return f"Conditional({rel()}, {branch(depth - 1)}, {branch(depth - 1)})"

    def operand(depth):
        k = rng.random()
        if k < 0.55 and depth > 0:
            return cond(depth)
        if k < 0.75:
            return rel()
        return leaf()

    def branch(depth):
        k = rng.random()
        if depth <= 0 or k < 0.15:
            return leaf()
        o = operand(depth)
        if k < 0.35:
            return f"{leaf()}*{o}"
        if k < 0.5:
            return f"{o}*{leaf()} + {leaf()}"
        if k < 0.6:
            return f"-{o}"
        if k < 0.7:
            return f"{leaf()} - {o}"
        if k < 0.78:
            return f"{leaf()}/(2 + {o})"
        if k < 0.85:
            return f"(1 + {o})**2"
        if k < 0.92:
            return f"exp(-{o})"
        return o

    e = [cond(2) for _ in range(3)]
    text = (f"states(x=0.5, y=-0.25, z=1.5)\nparameters(a=0.75)\nq = {e[0]}\ndx_dt = q - x\ndy_dt = {e[1]}\ndz_dt = {e[2]}\n")
    pts = []
    for _ in range(8):
        pts.append({"x": rng.uniform(-2, 2), "y": rng.uniform(-2, 2), "z": rng.uniform(-2, 2), "a": rng.uniform(-2, 2), "t": 0.5, "dt": 0.01})
    return {"text": text, "points": pts}


def sign_extra(ctx: Ctx):
    """expressions whose simplification depends on the sign of a quantity (what an assumption on a symbol - positive,
    non-negative - would let sympy fold at load time): abs, sqrt of a square, comparisons with 0 and with negative
    constants, powers of powers; of the time, a state and a parameter; evaluated at negative, zero and positive values"""
    rng = ctx.rng

    def idiom(v):
        return rng.choice([f"abs({v})", f"sqrt({v}*{v})", f"({v}**2)**0.5", f"Conditional(Ge({v}, 0), 1.5, -2.5)",
                           f"Conditional(Lt({v}, -1), 3, 0.25)", f"Conditional(Le({v}, -2), {v}, 0.5)", f"Conditional(Gt({v}, 0), {v}, -{v})",
                           f"abs({v} - 1) - abs({v} + 1)", f"sqrt(abs({v}))", f"Conditional(Eq({v}, 0), 1, 0)", f"{v}*abs({v})",
                           f"exp(-abs({v}))", f"log(exp({v}))", f"({v}**3)**2", f"Conditional(And(Ge({v}, -3), Lt({v}, 0)), 2, 7)"])

    tv = rng.choice(["t", "time"])
    text = (f"states(x=0.5, y=-0.25)\nparameters(a=0.75)\nq = {idiom(tv)} + {idiom('a')}\n"
            f"dx_dt = q - {idiom('x')} + {idiom(tv)}\ndy_dt = {idiom('y')}*{idiom('a')} - {idiom(tv)}\n")
    pts = []
    for tval in (-7.25, -2.0, -1.0, -0.5, 0.0, 0.5, 3.0):
        pts.append({"x": rng.choice([-1.5, -0.5, 0.0, 0.75, 2.0]), "y": rng.choice([-2.0, -1.0, 0.0, 0.5, 1.5]),
                    "a": rng.choice([-3.0, -1.0, 0.0, 0.5, 2.0]), "t": tval, "dt": 0.01})
    return {"text": text, "points": pts}


def shape_extra(ctx: Ctx):
    """boundary shapes: no parameters, a single state, no intermediates (empty lists in the templates)"""
    rng = ctx.rng
    k = rng.randrange(4)
    c = round(rng.uniform(0.2, 2.5), 2)
    if k == 0:
        text = f"states(x=0.5, y=2)\ni = x*y\ndx_dt = -{c}*i\ndy_dt = x - y\n"                       # no parameters
    elif k == 1:
        text = f"states(x=0.5)\nparameters(a={c})\ndx_dt = -a*x\n"                                    # one state, no intermediates
    elif k == 2:
        text = f"states(x=0.5)\ndx_dt = {c} - x*x\n"                                                   # one state, nothing else
    else:
        text = f"states(x=0.5, y=1, z=2)\nparameters(a={c})\ndx_dt = a\ndy_dt = -a\ndz_dt = 0\n"     # constants only
    pts = [{"x": rng.uniform(-2, 2), "y": rng.uniform(-2, 2), "z": rng.uniform(-2, 2), "a": rng.uniform(0.1, 2), "t": 0.3, "dt": 0.01} for _ in range(3)]
    return {"text": text, "points": pts}


def names_cond_extra(ctx: Ctx):
    """identifiers that contain the words a printer substitutes in the text it produces (`true` / `false` in C's `?:`, as a
    prefix, a suffix and in the middle of a name), read inside Conditionals that are operands of a larger expression"""
    rng = ctx.rng
    pool = ["true_gain", "k_false", "x_true", "false_k", "truex", "nfalse", "true_value", "untrue", "falsetto", "is_true_k", "a_false_b"]
    s1, s2, p1, p2, i1 = rng.sample(pool, 5)
    text = (f"states({s1}=0.5, {s2}=-0.25)\nparameters({p1}=0.75, {p2}=2)\n"
            f"{i1} = {p2} + Conditional(Gt({s1}, 0), {p1}*{s1}, {s2})\n"
            f"d{s1}_dt = {i1} - {s1} + 2.0*Conditional(Lt({s2}, 0), {p2}, {p1})\n"
            f"d{s2}_dt = -{s2}*Conditional(Ge({i1}, 1), {i1}, {s1}) + 1\n")
    pts = [{s1: sx * rng.uniform(0.2, 2), s2: sy * rng.uniform(0.2, 2), p1: rng.uniform(-2, 2), p2: rng.uniform(0.5, 3), "t": 0.5, "dt": 0.01}
           for sx, sy in ((1, 1), (-1, -1), (1, -1), (-1, 1))]
    return {"text": text, "points": pts}


def cond_extra(ctx: Ctx):
    """crafted families in rotation (every family gets its turn even in a short run)"""
    i = getattr(ctx, "_extra_turn", 0)
    ctx._extra_turn = i + 1
    fams = [eq_extra, intpow_extra, c03_extra, cond_nest_extra, shape_extra, sign_extra, cond_nest_extra, names_cond_extra]
    return fams[(i + ctx.seed) % len(fams)](ctx)


def intpow_extra(ctx: Ctx):
    """powers of integer literals in the places where a printer that computes them in `int` goes wrong: under an integer
    numerator, beyond INT_MAX, as a factor and as an exponent's base"""
    rng = ctx.rng
    b1, b2 = rng.choice([2, 3, 10]), rng.choice([1291, 46341, 70000, 100000])
    n1, n2 = rng.choice([2, 3, 4]), rng.choice([2, 3])
    # integers between 2**63 and 2**64 (they fit an unsigned 64-bit word, not a signed one), as a literal and as a power;
    # an integer-valued Conditional as the base of a negative (literal or computed) power
    edge = rng.choice(["10**19", "2**63", "3**40", "9223372036854775808", "18446744073709551615", "2**64", "-2**63"])
    text = (f"states(x=0.5, y=-0.25)\nparameters(a=0.75)\n"
            f"frac = {rng.choice([1, 3, 7])}/{b1}**{n1}\nbig = {b2}**{n2}*1e-12\nedge = x*({edge})*1e-19 + (({edge}) + y)*1e-19\n"
            f"nexp = Conditional(Lt(x, 0), 2, -3)\nscale = a*{rng.choice([10, 2, 7])}**nexp + 2**Conditional(Gt(y, 0), -2, 1)\n"
            f"cpow = Conditional(Gt(x, 0), 3, 2)**-2 + a*Conditional(Lt(y, 0), 2, 4)**nexp\n"
            f"dx_dt = a*frac - x/{b1}**{n1} + big*1e-3 + edge\ndy_dt = -y*(x/{rng.choice([2, 5])}**{n1}) + {b1}**{n1}*a + scale + cpow\n")
    # an integer base raised to an integer-valued exponent that is computed (inline or through a named intermediate)
    # and negative on some samples: integer arithmetic refuses it or returns garbage
    pts = [{"x": sx * rng.uniform(0.2, 2), "y": sy * rng.uniform(0.2, 2), "a": rng.uniform(0.5, 2), "t": 0.5, "dt": 0.01}
           for sx, sy in ((1, 1), (-1, -1), (1, -1), (-1, 1))]
    return {"text": text, "points": pts}


def eq_extra(ctx: Ctx):
    """equalities between an input and a literal / another input, as conditions and as numbers, sampled exactly on the
    equality, just beside it (relative 1e-7, absolute 1e-4: inside any 'close enough' tolerance, still different doubles)
    and far from it"""
    rng = ctx.rng
    v0 = rng.choice(["-47.13", "0.1", "1", "2.5", "-0.5"])
    lit = rng.choice(["1", "0.1", "-2"])
    text = (f"states(x=0.5, y=-0.25, z=1.5)\nparameters(a=0.75, V0={v0})\n"
            f"q = Conditional(Eq(x, V0), 3.2, x*a)\ndx_dt = q - x\n"
            f"dy_dt = Eq(y, {lit})*a + Conditional(Eq(z, y), 1, -1)\n"
            f"dz_dt = Conditional(Or(Eq(z, {lit}), Eq(x, a)), 2, z) + Conditional(Not(Eq(y, V0)), y, 7)\n")
    V0, L = float(v0), float(lit)
    base = {"x": 0.3, "y": -1.25, "z": 0.8, "a": 0.75, "V0": V0, "t": 0.5, "dt": 0.01}
    pts = [dict(base)]
    for var, val in (("x", V0), ("y", L), ("z", L), ("y", V0), ("x", 0.75)):
        for d in (0.0, 1e-7 * abs(val) + 1e-12, -1e-4, 3e-9):
            pts.append({**base, var: val + d})
    pts.append({**base, "z": -1.25})                     # z == y
    pts.append({**base, "z": -1.25 * (1 + 1e-7)})
    return {"text": text, "points": pts}


def big_cfg(ctx, k):
    cfg = gen.ModelCfg()
    if k % 4 == 0:
        cfg.max_states = 14
        cfg.max_inters = 8
        cfg.depth = 1
        cfg.min_states = 11
    cfg.expr = gen.ExprCfg(p_floor=0.0, p_mod=0.01, p_cond=0.25, p_logic=0.7, p_idiom=0.25)
    if k % 3 == 2:
        # several components: C03 splits them and runs missing_values & co. under JAX
        cfg.force_comps = True
        cfg.max_inters = max(cfg.max_inters, 5)
    return cfg


# ================================================================== C02 (C)
class CEval:
    """50-digit evaluation of a translated C expression with C typing: integer literals and
    relations are `int`, `int op int` is integer arithmetic (`/` truncates), everything else double.
    mode 'c' = as compiled; 'real' = integers promoted to reals; 'floored' = real + floored fmod."""

    def __init__(self, mode="c"):
        self.mode = mode

    def ev(self, e, env):
        tag = e[0]
        if tag == "int":
            return (e[1], True) if self.mode in ("c", "litquot") else (mpf(e[1]), False)
        if tag == "num":
            return (mpf(e[1]) * mpf(10) ** e[2], False)
        if tag == "var":
            return (env[e[1]], False)
        if tag == "pi":
            return (+mpmath.mp.pi, False)
        if tag == "neg":
            v, i = self.ev(e[1], env)
            return (-v, i)
        if tag in ("add", "sub", "mul", "div", "cmod"):
            a, ia = self.ev(e[1], env)
            b, ib = self.ev(e[2], env)
            if self.mode == "litquot" and tag == "div" and ia and ib and _c_int_const(e[1]) and _c_int_const(e[2]):
                return (sexp.hp_div(mpf(a), mpf(b)), False)
            if ia and ib:
                wrap = lambda v: ((int(v) + 2 ** 31) % 2 ** 32) - 2 ** 31   # noqa: E731  (int is 32 bits; gcc folds with wrap-around)
                if tag == "add":
                    return (wrap(a + b), True)
                if tag == "sub":
                    return (wrap(a - b), True)
                if tag == "mul":
                    return (wrap(a * b), True)
                if b == 0:
                    return (mpf("nan"), False)
                q = abs(a) // abs(b) * (1 if (a >= 0) == (b >= 0) else -1)
                return (q, True) if tag == "div" else (a - q * b, True)
            a, b = mpf(a), mpf(b)
            if tag == "add":
                return (a + b, False)
            if tag == "sub":
                return (a - b, False)
            if tag == "mul":
                return (a * b, False)
            if tag == "div":
                return (sexp.hp_div(a, b), False)
            return (mpf("nan"), False)
        if tag == "pow":
            a, _ = self.ev(e[1], env)
            b, _ = self.ev(e[2], env)
            return (sexp.hp_pow(mpf(a), mpf(b)), False)
        if tag == "fmod":
            a, _ = self.ev(e[1], env)
            b, _ = self.ev(e[2], env)
            a, b = mpf(a), mpf(b)
            if b == 0 or not mpmath.isfinite(a):
                return (mpf("nan"), False)
            if self.mode == "floored":
                return (sexp.hp_mod(a, b), False)
            q = mpmath.floor(abs(a) / abs(b))
            r = abs(a) - q * abs(b)
            return (r if a >= 0 else -r, False)
        if tag == "mod":
            a, _ = self.ev(e[1], env)
            b, _ = self.ev(e[2], env)
            return (sexp.hp_mod(mpf(a), mpf(b)), False)
        if tag == "fn":
            a, _ = self.ev(e[2], env)
            return (sexp.hp_fn(e[1], mpf(a)), False)
        if tag == "rel":
            a, _ = self.ev(e[2], env)
            b, _ = self.ev(e[3], env)
            return (1 if sexp.hp_rel(e[1], mpf(a), mpf(b)) else 0, self.mode in ("c", "litquot"))
        if tag == "not":
            a, _ = self.ev(e[1], env)
            return (0 if a != 0 else 1, self.mode in ("c", "litquot"))
        if tag in ("and", "or"):
            a, _ = self.ev(e[1], env)
            b, _ = self.ev(e[2], env)
            r = (a != 0 and b != 0) if tag == "and" else (a != 0 or b != 0)
            return (1 if r else 0, self.mode in ("c", "litquot"))
        if tag == "cond":
            c, _ = self.ev(e[1], env)
            a, ia = self.ev(e[2], env)
            b, ib = self.ev(e[3], env)
            if ia and ib:
                return ((a if c != 0 else b), True)
            return (mpf(a) if c != 0 else mpf(b), False)
        raise ValueError(tag)


def _c_int_const(e) -> bool:
    """an integer literal, possibly negated / combined with + - * (no variable, no function, no power)"""
    return e[0] == "int" or (e[0] == "neg" and _c_int_const(e[1])) or (e[0] in ("add", "sub", "mul") and _c_int_const(e[1]) and _c_int_const(e[2]))


def model_has_literal_quotient(exprs) -> bool:
    """does some model expression contain a quotient of two integer-constant subexpressions (`1/4`, `(2 - 7)/3`,
    `x**(1/2)`)?  That is the recorded finding C02/c/integer-arithmetic; a power such as `2**3` is not an integer
    constant in this sense (the C printer writes it with pow(), which returns a double)."""
    def ic(e):
        return (e[0] == "num" and e[2] == 0) or e[0] == "int" or (e[0] == "neg" and ic(e[1])) or (e[0] in ("add", "sub", "mul") and ic(e[1]) and ic(e[2]))

    def walk(e):
        if not isinstance(e, tuple):
            return False
        if e[0] == "div" and ic(e[1]) and ic(e[2]):
            return True
        return any(walk(x) for x in e[1:])
    return any(walk(e) for e in exprs)


def model_to_c(e, loose=False):
    """the model's own expression read the way the C printer writes it: an integer literal is a C `int`, `Mod` is `fmod`
    (a power, a function call and a float literal are doubles); None when the expression has no such direct reading
    (ContinuousConditional is expanded by gotranx before printing)"""
    tag = e[0]
    if tag == "num":
        # the reference tree keeps mantissa and exponent, not the spelling: 506500 and 5065e2 are both (5065, 2).
        # strict: only exponent 0 is an integer literal; loose: every integer-valued literal is (both readings are tried)
        if e[2] == 0 or (loose and e[2] > 0):
            return ("int", e[1] * 10 ** e[2])
        return e
    if tag in ("var", "pi", "int"):
        return e
    if tag == "ccond":
        return None
    if tag == "mod":
        a, b = model_to_c(e[1], loose), model_to_c(e[2], loose)
        return None if a is None or b is None else ("fmod", a, b)
    head, rest = ((tag, e[1]), e[2:]) if tag in ("fn", "rel") else ((tag,), e[1:])
    out = [model_to_c(x, loose) for x in rest]
    return None if any(x is None for x in out) else head + tuple(out)


def model_c_value(rm, name, base: dict, mode: str, table=None, loose=False):
    """value of the model quantity `name` under the literal C reading of the model text (mode as in CEval), or None"""
    try:
        ev = CEval(mode)
        env = {k: mpf(v) for k, v in base.items()}
        if table is not None:
            ce = model_to_c(table[name], loose)
            return None if ce is None else mpf(ev.ev(ce, env)[0])
        for n in rm.order:
            ce = model_to_c(rm.assigns[n], loose)
            if ce is None:
                if n == name:
                    return None
                continue
            try:
                env[n] = mpf(ev.ev(ce, env)[0])
            except KeyError:
                if n == name:
                    return None
        return env.get(name)
    except Exception:
        return None


def run_c_ir(stmts, inputs, mode):
    """execute a translated C function body at 50 digits; returns {slot: value}"""
    ev = CEval(mode)
    env = {"t": mpf(inputs["t"])}
    if "dt" in inputs:
        env["dt"] = mpf(inputs["dt"])
    out = {}
    for st in stmts:
        if st[0] == "U":
            env[st[1]] = mpf(float(inputs[st[2]][st[3]]))
        elif st[0] == "D":
            env[st[1]] = mpf(ev.ev(st[2], env)[0])
        else:
            out[st[1]] = mpf(ev.ev(st[2], env)[0])
    return out


def erase_c(e):
    """C expression -> reference-language expression (for the Lean validators)"""
    tag = e[0]
    if tag == "int":
        return ("num", e[1], 0)
    if tag in ("num", "var", "pi"):
        return e
    if tag in ("fmod", "cmod"):
        return ("mod", erase_c(e[1]), erase_c(e[2]))
    if tag in ("fn", "rel"):
        return (tag, e[1]) + tuple(erase_c(x) for x in e[2:])
    return (tag,) + tuple(erase_c(x) for x in e[1:])


def c_to_json(e):
    """typed C expression -> JSON for the Lean driver (`cexprOfJ`): integer literals keep their tag"""
    tag = e[0]
    if tag == "int":
        return ["int", str(e[1])]
    if tag == "num":
        return ["num", str(e[1]), e[2]]
    if tag == "var":
        return ["var", e[1]]
    if tag in ("fn", "rel"):
        return [tag, e[1]] + [c_to_json(x) for x in e[2:]]
    return [tag] + [c_to_json(x) for x in e[1:]]


def c_stmts_json(stmts):
    return [list(s) if s[0] == "U" else [s[0], s[1], c_to_json(s[2])] for s in stmts]


def _has_tag(e, tags):
    return isinstance(e, tuple) and (e[0] in tags or any(_has_tag(x, tags) for x in e[1:]))


def _bits(x):
    return str(int(np.float64(x).view(np.uint64)))


def lean_evalc(ctx, f, s, p, mv, t, dt=None):
    """run the translated C body in the Lean model's typed C semantics (float64); {slot: float} or None"""
    r = ctx.lean().call({"op": "evalc", "prog": c_stmts_json(f.stmts), "states": [_bits(x) for x in s],
                         "parameters": [_bits(x) for x in p], "missing_variables": [_bits(x) for x in (mv if mv is not None else [])],
                         "scalars": [_bits(t)] + ([_bits(dt)] if dt is not None else [])})
    if not r.get("ok") or r.get("out") is None:
        return None
    return {int(i): float(np.uint64(int(b)).view(np.float64)) for i, b in r["out"] if b is not None}


def c02_case(ctx: Ctx, case: dict):
    text = case["text"]
    b0 = oracle.build_py(ctx, text, "C02", backend="numpy", on_codegen_error="skip", scheme=SCHEMES)
    if b0 is None:
        return
    rm = b0.rm
    stiff = case.get("stiff") or [s for s in rm.states if ctx.rng.random() < 0.6]
    try:
        code = common.c_code(b0.ode, scheme=SCHEMES, stiff_states=stiff)
    except Exception as ex:
        ctx.violate(f"C02/c/codegen-exception/{oracle.exc_kind(ex, rm)}", f"accepted model, but C code generation raised {type(ex).__name__}: {str(ex)[:120]}", case=case)
        return
    ctx.case(text, len(rm.inters) >= 1, sample={"text": text})
    tag = f"m{ctx.evaluations}"
    cm = common.CModule(code, ctx.tmp, tag)
    if not cm.ok:
        errs = [ln for ln in cm.compile_log.splitlines() if "error" in ln]
        ctx.violate("C02/c/does-not-compile/" + ("redefinition" if any("redefinition" in e for e in errs)
                                                   else "complex-constant" if any("‘I’ undeclared" in e or "'I' undeclared" in e for e in errs) else "other"),
                    f"generated C does not compile: {errs[0][:150] if errs else cm.compile_log[:150]}", case=case)
        return
    funcs, dups = translate.c_module(code)
    if dups:
        ctx.violate("C02/c/duplicate-function", f"functions defined twice: {dups}", case=case)
    lay = b0.layout
    ns_, npar, nmon = len(lay["state"]), len(lay["param"]), len(lay["monitor"])
    # counts and index functions
    try:
        if (cm.const("NUM_STATES"), cm.const("NUM_PARAMS"), cm.const("NUM_MONITORED")) != (ns_, npar, nmon):
            ctx.violate("C02/c/counts", "NUM_STATES / NUM_PARAMS / NUM_MONITORED differ from the array lengths", case=case)
    except ValueError:
        ctx.violate("C02/c/counts-missing", "NUM_* constants missing", case=case)
    clay = {"state": [None] * ns_, "param": [None] * npar, "monitor": [None] * nmon, "missing": lay["missing"]}
    for fn, key, names in (("state_index", "state", rm.states), ("parameter_index", "param", rm.params), ("monitor_index", "monitor", rm.assigns)):
        for nme in names:
            i = cm.index(fn, nme)
            if not (0 <= i < len(clay[key])) or clay[key][i] is not None:
                ctx.violate(f"C02/c/{fn}", f"{fn}({nme!r}) = {i}: not a bijection onto 0..n-1", case=case)
                return
            clay[key][i] = nme
        if cm.index(fn, "no_such_name__") != -1:
            ctx.violate(f"C02/c/{fn}/accepts-unknown", f"{fn} of an unknown name is not -1", case=case)
    if clay["state"] != lay["state"] or clay["param"] != lay["param"] or clay["monitor"] != lay["monitor"]:
        ctx.violate("C02/c/layout-differs-from-numpy", "C index functions report another layout than the NumPy module of the same model", case=case)
        return
    # validators on the translated bodies (same proven-sound validators as for NumPy)
    for fn, kind in (("rhs", "rhs"), ("monitor_values", "monitor"), ("explicit_euler", "scheme"), ("generalized_rush_larsen", "scheme"), ("hybrid_rush_larsen", "scheme")):
        f = funcs.get(fn)
        if f is None:
            ctx.violate(f"C02/c/missing-{fn}", f"no {fn} in the C code", case=case)
            return
        if any("UNTRANSLATABLE" in o for o in f.other):
            ctx.count("untranslatable")
            continue
        stm = [(s[0], s[1], erase_c(s[2])) if s[0] in ("D", "S") else s for s in f.stmts]
        v = oracle.validate(ctx, text, kind, clay, stm)
        ctx.count("validated")
        if not v.get("verdict"):
            ctx.broke("validator", f"check({fn}, C)", json.dumps({"text": text, "verdict": v}))
        # typing: the proven check cReal on every expression of the body (theorem C02.cReal_sound)
        ty = ctx.lean().call({"op": "ctyped", "prog": c_stmts_json(f.stmts)})
        if ty.get("ok"):
            f.all_real = bool(ty["all_real"])
            ctx.count("c_bodies_all_real" if f.all_real else "c_bodies_with_integer_or_fmod_typing")
            ctx.count("c_exprs_real", sum(1 for b in ty["real"] if b))
            ctx.count("c_exprs_not_real", sum(1 for b in ty["real"] if not b))
        else:
            f.all_real = None
            ctx.count("ctyped_errors")
    # initial values
    hp = sexp.HP()
    for fn, names, table, n in (("init_state_values", lay["state"], rm.states, ns_), ("init_parameter_values", lay["param"], rm.params, npar)):
        arr, guard = cm.init(fn, n)
        if not np.all(guard == 1234.5):
            ctx.violate(f"C02/c/{fn}/writes-out-of-bounds", f"{fn} writes past the array", case=case)
        for i, nme in enumerate(names):
            ref = hp.ev(table[nme], {})
            if sexp.agrees(arr[i], ref, abs(ref) * sexp.U * 4) == "bad":
                f = funcs.get(fn)
                cls = classify_c(f, i, {}, ref, got=arr[i],
                                 model_vals={"c": [model_c_value(rm, nme, {}, "c", table=table, loose=lo) for lo in (False, True)],
                                             "has_mod": _has_tag(table[nme], ("mod",))})
                ctx.violate(f"C02/c/{cls}" if cls in ("integer-arithmetic", "fmod-sign", "integer-arithmetic+fmod-sign") else f"C02/c/{fn}/default/{cls}",
                            f"{fn}: slot {i} = {arr[i]!r} but {nme} is declared as {oracle.fmt(ref)}", case=case)
                break
    refs = scheme_refs(ctx, rm, text, 1e-8, stiff)
    pts = case.get("points") or ns.points_for(ctx, rm, ctx.n(4, 6), dts=(1e-3, 0.1, 0.0, -0.05))
    pts = list(pts) + oracle.boundary_points(rm, pts[0], limit=3)
    for pi, pt in enumerate(pts):
        s, p, mv = oracle.arrays_for(pt, lay)
        calls = [("rhs", "tsp", None, ns_), ("monitor_values", "tsp", None, nmon)]
        if refs:
            calls += [(fn, "stdp", refs[fn], ns_) for fn in refs]
        for fn, order, ref, nout in calls:
            if ref is None:
                us = rm.usable(pt, ctx.seed * 1000 + pi)
                if us is None:
                    continue
                exact, spread = us
                slots = ({d: lay["state"].index(sn) for d, (sn, _) in rm.derivs.items()} if fn == "rhs"
                         else {nme: i for i, nme in enumerate(lay["monitor"])})
            else:
                assigns, order_, step = ref
                us = oracle.usable_ref(assigns, order_, rm.base(pt), ctx.seed * 1000 + pi)
                if us is None:
                    continue
                exact, spread = us
                if near_delta(exact, spread, rm, 1e-8):
                    continue
                slots = {step[sn]: i for i, sn in enumerate(lay["state"])}
            s_in, p_in = s.copy(), p.copy()
            out, guard = cm.call(fn, order, nout, states=s_in, parameters=p_in, t=pt["t"], dt=pt["dt"])
            ctx.count("calls")
            if not np.all(guard == 1234.5):
                ctx.violate(f"C02/c/{fn}/writes-out-of-bounds", f"{fn} writes past its {nout} output slots", case={**case, "points": [pt]})
                return
            if not (np.array_equal(s_in, s) and np.array_equal(p_in, p)):
                ctx.violate(f"C02/c/{fn}/modifies-inputs", f"{fn} modifies its input arrays", case={**case, "points": [pt]})
                return
            ok, skip, bad = oracle.compare_outputs(out, exact, slots, spread, fn)
            ctx.count("values_ok", ok)
            ctx.count("values_skipped", skip)
            # correspondence of the typed C semantics: Lean evalC (float64) vs the compiled code
            f = funcs.get(fn)
            if f is not None and not any("UNTRANSLATABLE" in o for o in f.other) and \
                    not any(_has_tag(st[2], ("fmod", "cmod")) for st in f.stmts if st[0] in ("D", "S")):
                lv = lean_evalc(ctx, f, s, p, mv, pt["t"], pt["dt"] if ref is not None else None)
                if lv is not None:
                    for name, i in slots.items():
                        if name not in exact or i not in lv:
                            continue
                        a, b_ = float(out[i]), lv[i]
                        if not (np.isfinite(a) and np.isfinite(b_)):
                            continue
                        tol = 256 * float(spread.get(name, 0)) + 64 * np.spacing(max(abs(a), abs(b_)))
                        if abs(a - b_) <= tol:
                            ctx.count("evalc_agree")
                        else:
                            ctx.count("evalc_differ")
                            ctx.broke("correspondence", "evalC (Lean, typed C semantics) vs gcc",
                                      json.dumps({"text": text, "fn": fn, "slot": i, "gcc": a, "lean": b_, "point": pt}))
            if getattr(f, "all_real", None) is True and bad:
                # theorem C02.cReal_sound: typing cannot be the reason
                ctx.count("bad_values_in_all_real_bodies", len(bad))
            for (name, got, r_) in bad:
                f = funcs.get(fn)
                mv_ = None
                if name in rm.assigns:
                    mv_ = {"c": [model_c_value(rm, name, rm.base(pt), "c", loose=lo) for lo in (False, True)],
                           "has_mod": any(_has_tag(e_, ("mod",)) for e_ in rm.assigns.values()),
                           "has_quotient": model_has_literal_quotient(list(rm.assigns.values()))}
                cls = classify_c(f, slots[name], {"states": s, "parameters": p, "t": pt["t"], "dt": pt["dt"]}, r_, spread.get(name, mpf(0)),
                                 got=got, model_vals=mv_)
                if cls == "ill-conditioned":
                    ctx.count("ill_conditioned")
                    continue
                if mv_ is None and cls.startswith("integer-arithmetic") and not model_has_literal_quotient(list(rm.assigns.values())):
                    # a scheme step (no single model expression to read): fall back to the structural test
                    cls = cls + "-not-in-model-text"
                key = f"C02/c/{cls}" if cls in ("integer-arithmetic", "fmod-sign", "integer-arithmetic+fmod-sign") else f"C02/c/{fn}/value/{cls}"
                ctx.violate(key, f"{fn} slot {slots[name]} = {oracle.fmt(got)} but the model defines {oracle.fmt(r_)} ({name})",
                            case={**case, "points": [pt], "stiff": stiff})
                return


def classify_c(f, slot, inputs, ref, spread=mpf(0), got=None, model_vals=None):
    """why does a compiled C value differ?  50-digit evaluation of the translated body with C typing,
    with integers promoted, and with floored fmod.  `model_vals`: the same three evaluations of the *model's own*
    expression read literally as C (`model_c_value`).  The recorded findings (integer literals are C ints; Mod is
    fmod) are exactly the disagreements that this literal reading of the model text reproduces: if the compiled value
    is not what the model text says under C typing, the C text contains integer arithmetic (or an fmod) that the model
    does not — something else, reported under a key of its own."""
    if f is None or any("UNTRANSLATABLE" in o for o in f.other):
        return "unclassified"
    try:
        inputs = dict(inputs)
        inputs.setdefault("t", 0.0)
        vals = {}
        for mode in ("c", "real", "floored"):
            vals[mode] = run_c_ir(f.stmts, inputs, mode).get(slot)
    except Exception:
        return "unclassified"

    def close(v):
        return v is not None and mpmath.isfinite(v) and abs(v - ref) <= 256 * spread + mpf(2) ** -40 * abs(ref) + mpf("1e-300")

    if close(vals["c"]):
        return "ill-conditioned"
    int_needed = not close_pair(vals["c"], vals["real"])
    if close(vals["real"]):
        cls = "integer-arithmetic"
    elif close(vals["floored"]):
        cls = "integer-arithmetic+fmod-sign" if int_needed else "fmod-sign"
    else:
        return "other"
    if "fmod" in cls and model_vals is not None and not model_vals.get("has_mod", True):
        return cls + "-not-in-model-text"       # an fmod the model text does not ask for
    if int_needed and model_vals is not None and got is not None:
        # is the compiled value what the model text says when its integer literals are read as C ints?
        try:
            g = mpf(float(got))
        except Exception:
            g = None
        def same(mc):
            return (mc is not None and g is not None and
                    ((mpmath.isnan(mc) and mpmath.isnan(g)) or (mpmath.isfinite(mc) and mpmath.isfinite(g) and
                                                                abs(mc - g) <= 256 * spread + mpf(2) ** -40 * abs(g) + mpf("1e-300"))))
        readings = [mc for mc in model_vals.get("c", []) if mc is not None]
        if not readings:
            # no literal C reading of the model quantity (it goes through a ContinuousConditional, which gotranx expands
            # before printing): fall back to the structural test
            if not model_vals.get("has_quotient", True):
                return cls + "-not-in-model-text"
        elif not any(same(mc) for mc in readings):
            return cls + "-not-in-model-text"
    return cls


def close_pair(a, b):
    if a is not None and b is not None and mpmath.isnan(a) and mpmath.isnan(b):
        return True
    return a is not None and b is not None and mpmath.isfinite(a) and mpmath.isfinite(b) and abs(a - b) <= mpf(2) ** -40 * abs(a)


# ================================================================== C14 (vectorised NumPy)
def c14_case(ctx: Ctx, case: dict):
    text = case["text"]
    b = oracle.build_py(ctx, text, "C14", backend="numpy", on_codegen_error="skip", scheme=SCHEMES, stiff_states=case.get("stiff"))
    if b is None:
        return
    rm, lay = b.rm, b.layout
    stiff = case.get("stiff")
    if stiff is None:
        stiff = [s for s in rm.states if ctx.rng.random() < 0.6]
        b = oracle.build_py(ctx, text, "C14", backend="numpy", rm=rm, ode=b.ode, on_codegen_error="skip", scheme=SCHEMES, stiff_states=stiff)
        if b is None:
            return
    ops: dict = {}
    for e in rm.assigns.values():
        sexp.ops(e, ops)
    special = [k for k in ("cond", "ccond", "and", "or", "not", "fn:abs", "fn:floor", "mod") if k in ops]
    ctx.case(text, bool(special), sample={"text": text, "constructs": special})
    N = case.get("N", 5)
    pts = case.get("points") or ns.points_for(ctx, rm, N, dts=(0.05,))
    for pt in pts:
        pt["dt"] = pts[0]["dt"]
        pt["t"] = pts[0]["t"]
    cols = [oracle.arrays_for(pt, lay) for pt in pts]
    S = np.stack([c[0] for c in cols], axis=1)            # (n_states, N)
    P1 = cols[0][1]                                       # shared parameters
    PN = np.stack([c[1] for c in cols], axis=1)           # per-column parameters
    t, dt = pts[0]["t"], pts[0]["dt"]
    # arraySafe: constructs that cannot be pointwise (reported by the translator)
    for fn in ("rhs", "monitor_values", "explicit_euler", "generalized_rush_larsen", "hybrid_rush_larsen"):
        f = b.funcs.get(fn)
        if f is not None and f.scalar_only:
            # the proven condition for column independence (evalVec_pointwise) fails for this function
            ctx.broke("validator", f"arraySafe({fn})", json.dumps({"text": text, "constructs": sorted(set(f.scalar_only))}))
    for fn, order in (("rhs", "tsp"), ("monitor_values", "tsp"), ("explicit_euler", "stdp"), ("generalized_rush_larsen", "stdp"), ("hybrid_rush_larsen", "stdp")):
        for pmode, P, pcol in (("shared-parameters", P1, lambda j: P1), ("per-column-parameters", PN, lambda j: PN[:, j])):
            try:
                single = [np.asarray(oracle.call_py(getattr(b.mod, fn), order, states=S[:, j].copy(), t=t, dt=dt, parameters=pcol(j).copy()), dtype=float) for j in range(S.shape[1])]
            except Exception:
                ctx.count("column_call_raises")
                break
            try:
                batch = np.asarray(oracle.call_py(getattr(b.mod, fn), order, states=S.copy(), t=t, dt=dt, parameters=P.copy()), dtype=float)
            except Exception as ex:
                scal = sorted(set(b.funcs[fn].scalar_only)) if fn in b.funcs else []
                ctx.violate(f"C14/numpy/{fn}/batch-raises/{type(ex).__name__}/" + ("+".join(scal) or "array-ops"),
                            f"{fn} on a (n, {S.shape[1]}) batch ({pmode}) raised {type(ex).__name__}: {str(ex)[:90]}",
                            case={**case, "stiff": stiff, "points": pts})
                return
            ctx.count("batches")
            want = np.stack(single, axis=1)
            if batch.shape != want.shape:
                ctx.violate(f"C14/numpy/{fn}/batch-shape", f"{fn} on a batch ({pmode}) returns shape {batch.shape}, expected {want.shape}",
                            case={**case, "stiff": stiff, "points": pts})
                return
            # NumPy's SIMD loops may round the last bits differently from the scalar path: allow that, nothing more
            scale = np.maximum(np.maximum(np.abs(batch), np.abs(want)), np.nanmax(np.abs(want), axis=0, keepdims=True, initial=0.0))
            with np.errstate(all="ignore"):
                same = (batch == want) | (np.isnan(batch) & np.isnan(want)) | (np.abs(batch - want) <= 1e-9 * scale)
            if not same.all():
                # an ill-conditioned column (cos of 2.5e8: a last-bit difference of `**` between the array and the scalar
                # loop is amplified a billion times) is not a column that depends on its neighbours: measure how far the
                # single-column result moves when its inputs are nudged by a few ulps, and allow a multiple of that
                for (i, j) in map(tuple, np.argwhere(~same)):
                    spread = 0.0
                    for sgn in (1.0, -1.0):
                        for flip in (1.0, -1.0):
                            pat = np.where(np.arange(S.shape[0]) % 2 == 0, sgn, sgn * flip)
                            patp = np.where(np.arange(len(pcol(j))) % 2 == 0, sgn * flip, sgn)
                            sj = S[:, j] * (1 + 4 * 2.2e-16 * pat)
                            pj = pcol(j) * (1 + 4 * 2.2e-16 * patp)
                            try:
                                with np.errstate(all="ignore"):
                                    near = np.asarray(oracle.call_py(getattr(b.mod, fn), order, states=sj, t=t, dt=dt, parameters=pj), dtype=float)
                                spread = max(spread, abs(float(near[i]) - float(want[i, j])))
                            except Exception:
                                pass
                    if np.isfinite(spread) and abs(float(batch[i, j]) - float(want[i, j])) <= 64 * spread:
                        same[i, j] = True
                        ctx.count("ill_conditioned_column_entries")
            if not same.all():
                i, j = map(int, np.argwhere(~same)[0])
                ctx.violate(f"C14/numpy/{fn}/column-differs", f"{fn}: column {j} of the batch result differs from the call on column {j} alone in row {i}: {batch[i, j]!r} vs {want[i, j]!r} ({pmode})",
                            case={**case, "stiff": stiff, "points": pts})
                return


def c14_extra(ctx: Ctx):
    """conditions with three and more operands (flat and nested) on batches whose columns fall on different sides of
    them: a connective reduced over the wrong axis gives every column the same branch"""
    rng = ctx.rng
    if rng.random() < 0.4:
        return cond_extra(ctx)
    names = ["x", "y", "z", "a"]

    def rel():
        v = rng.choice(names)
        return f"{rng.choice(['Lt', 'Gt', 'Le', 'Ge'])}({v}, {rng.choice(['-1', '0', '0.5', '1', '2'])})"

    def conn(depth):
        tag = rng.choice(["And", "Or"])
        n = rng.choice([3, 3, 4, 5])
        args = [conn(depth - 1) if depth > 0 and rng.random() < 0.3 else rel() for _ in range(n)]
        return f"{tag}({', '.join(args)})"

    c = [conn(1) for _ in range(3)]
    text = (f"states(x=0.5, y=-0.25, z=1.5)\nparameters(a=0.75)\n"
            f"c1 = Conditional({c[0]}, 2, 3)\nc2 = Conditional({c[1]}, x, y)\n"
            f"dx_dt = c1 - x\ndy_dt = c2 + a\ndz_dt = Conditional({c[2]}, z, -z)*a\n")
    grid = [-2.0, -0.5, 0.25, 0.75, 1.5, 2.5]
    pts = [{"x": rng.choice(grid), "y": rng.choice(grid), "z": rng.choice(grid), "a": rng.choice(grid), "t": 0.5, "dt": 0.05} for _ in range(8)]
    return {"text": text, "points": pts, "N": 8}


def c14_cfg(ctx, k):
    cfg = gen.ModelCfg(depth=3)
    cfg.expr = gen.ExprCfg(p_cond=0.2, p_ccond=0.05, p_mod=0.06, p_floor=0.05, p_logic=0.6, p_idiom=0.25,
                           funcs=("exp", "log", "sqrt", "sin", "cos", "abs", "abs", "abs", "atan"))
    return cfg
