"""C01 — generated NumPy rhs computes exactly the derivatives the model text defines."""
from __future__ import annotations

import json
import random

import numpy as np

from .. import common, gen, oracle, sexp, translate
from ..common import Ctx

MODULE = "GotranxProofs.Properties.C01 GotranxProofs.GenValid GotranxProofs.ParseRender GotranxProofs.EndToEnd GotranxProofs.LoaderWF GotranxProofs.GenValidMon GotranxProofs.EndToEndAll GotranxProofs.LoadEndToEndAll"
THEOREMS = ["Gx.load_end_to_end", "Gx.load_monitor_end_to_end", "Gx.loadStringP_wf", "Gx.EndToEnd.rhs_end_to_end", "Gx.EndToEnd.monitor_end_to_end", "Gx.EndToEnd.gen_total", "Gx.EndToEnd.rhs_runs", "Gx.Kahn.staticOrder_complete", "Gx.ParseRender.text_denotes", "Gx.ParseRender.parse_render", "Gx.ParseRender.all_levels", "Gx.GenValid.genRhs_valid", "Gx.GenValidMon.genMonitor_correct", "Gx.GenValid.checkModelWF_sound", "Gx.GenValid.genRhs_correct", "Gx.Kahn.staticOrder_correct", "Gx.GenValid.sorted_facts", "Gx.C01.rhs_sound", "Gx.C01.rhs_progress", "Gx.C01.eval_cond_true", "Gx.C01.eval_cond_false",
            "Gx.C01.eval_rel", "Gx.C01.blend_gt", "Gx.C01.blend_lt", "Gx.checkRhs_sound", "Gx.exec_agree",
            "Gx.exec_progress", "Gx.eval_congr", "Gx.C01.meaning_unique", "Gx.C01.meaning_exists", "Gx.solution_unique", "Gx.denote_stable",
            "Gx.denote_equations"]
PINS = ["Gx.Pins.grammar_ladder", "Gx.Pins.grammar_blocks", "Gx.Pins.grammar_names", "Gx.Pins.grammar_keywords",
        "Gx.Pins.grammar_no_extra_rules", "Gx.Pins.grammar_ignore"]


def construct_key(rm: oracle.RefModel, name: str) -> str:
    """coarse, deterministic classification of the source expression of a failing assignment"""
    e = rm.assigns.get(name)
    if e is None:
        return "other"
    ops: dict = {}
    sexp.ops(e, ops)
    tags = []
    for k in ("mod", "cond", "ccond", "not", "and", "or", "fn:floor", "fn:abs", "pow"):
        if k in ops:
            tags.append(k.replace("fn:", ""))
    # two shapes of sympy's constant handling inside Mod that are recorded findings (kept narrow on purpose):
    # a closed Mod whose dividend is an unevaluated sum of literals somewhere below the failing assignment, and a Mod of
    # "something minus a literal" by a literal at the top of the failing assignment (sympy adds the modulus to the constant)
    def closed(x):
        return not sexp.fv(x)

    def walk(x, seen):
        if x[0] == "mod" and closed(x[1]) and closed(x[2]) and x[1][0] in ("add", "sub"):
            return True
        if x[0] == "var" and x[1] in rm.assigns and x[1] not in seen:
            seen.add(x[1])
            return walk(rm.assigns[x[1]], seen)
        if x[0] in ("num", "pi", "int", "var"):
            return False
        return any(walk(y, seen) for y in (x[2:] if x[0] in ("fn", "rel", "ccond", "call") else x[1:]) if isinstance(y, tuple))
    if walk(e, {name}):
        return "closed-mod-of-sum"
    if e[0] == "mod" and closed(e[2]) and e[1][0] in ("sub", "add") and not closed(e[1]) and any(closed(y) for y in e[1][1:]):
        return "mod-of-shifted"
    return "+".join(tags) or "arith"


def check_parse(ctx: Ctx, text: str):
    """lark raw tree (before sympy) vs the Lean parser's tree: exact"""
    from gotranx.parser import Parser
    if not hasattr(check_parse, "P"):
        check_parse.P = Parser(parser="lalr")
    try:
        li = translate.lark_items(check_parse.P.parse(text))
    except translate.Untranslatable as ex:
        ctx.broke("correspondence", "lark-tree-shape", str(ex))
        return
    except Exception as ex:
        li = ("ERR", type(ex).__name__)
    r = ctx.lean().call({"op": "parse", "text": text})
    le = r["items"] if r.get("ok") else ("ERR", r.get("err"))
    ctx.count("parse_compared")
    if (isinstance(li, tuple)) != (isinstance(le, tuple)):
        ctx.broke("correspondence", "parse-accept-class", json.dumps({"text": text, "lark": str(li)[:200], "lean": str(le)[:200]}))
    elif not isinstance(li, tuple) and li != le:
        ctx.broke("correspondence", "parse-tree", json.dumps({"text": text, "lark": li, "lean": le})[:1500])


def extreme_class(ex: Exception):
    """failures whose cause is a constant of astronomical size (a literal like 6022e20 under floor / exp / an integer
    power): the generated code holds an integer beyond int64 or a float that overflowed to `inf`"""
    msg = str(ex)
    if isinstance(ex, TypeError) and "loop of ufunc does not support argument" in msg:
        return "huge-integer-constant"
    if isinstance(ex, OverflowError):
        return "constant-overflow"
    if isinstance(ex, MemoryError):
        # only when it is raised while mpmath materialises a float whose exponent is astronomical (1 << -exponent)
        tb, last = ex.__traceback__, None
        while tb is not None:
            last, tb = tb.tb_frame.f_code, tb.tb_next
        if last is not None and last.co_name == "to_rational" and "libmp" in last.co_filename:
            return "constant-overflow"
    if isinstance(ex, NameError) and ("'inf'" in msg or "'nan'" in msg or "'zoo'" in msg):
        return "bare-inf-name"          # repaired (fix d2e732b); not a listed finding any more
    return None


def check_case(ctx: Ctx, case: dict):
    text = case["text"]
    points = case.get("points")
    rng = ctx.rng
    check_parse(ctx, text)
    try:
        ode = common.load(text)
    except Exception as ex:
        # C01 quantifies over accepted texts only; a rejected text is other properties' business
        ctx.count(f"rejected/{type(ex).__name__}")
        if len(ctx.notes) < 10:
            ctx.notes.append(f"gotranx rejected a generated text: {type(ex).__name__}: {str(ex)[:80]}")
        return
    rm, err = oracle.lean_load(ctx, text, oracle.impl_deps(ode))
    if rm is None:
        ctx.broke("correspondence", "load-accept-class", f"gotranx accepts, model says {err}\n{text}")
        return
    if not rm.acyclic:
        ctx.count("cyclic")
        return
    if not oracle.model_usable(rm, text):
        ctx.count("models_undefined_everywhere")
        return
    nontrivial = len(rm.inters) >= 1 and sum(sexp.size(e) for e in rm.assigns.values()) >= 6
    ctx.case(text, nontrivial, sample={"text": text} if nontrivial else None)
    for e in rm.assigns.values():
        sexp.ops(e, ctx.stats.setdefault("ops", {}))
    # --- generate
    try:
        code = common.py_code(ode)
        mod = common.exec_module(code)
    except Exception as ex:
        probe = gen.GModel(comps=[""])
        probe.states = {n: (None, "") for n in rm.states}
        probe.params = {n: (None, "") for n in rm.params}
        if not any(rm.usable(pt, 1) is not None for pt in gen.gen_inputs(random.Random(len(text)), probe, 4)):
            ctx.count("models_undefined_everywhere")
            return
        ctx.violate(f"C01/numpy/extreme-constant/{extreme_class(ex)}" if extreme_class(ex) else f"C01/numpy/codegen-exception/{type(ex).__name__}",
                    f"accepted model, but NumPy code generation raised {type(ex).__name__}: {str(ex)[:120]}",
                    case={"text": text}, error=repr(ex))
        return
    oracle.check_wf(ctx, rm, text)
    funcs, dicts = translate.py_module(code)
    layout = oracle.module_layout(dicts)
    if layout["state"] is None or layout["param"] is None:
        ctx.violate("C01/numpy/index-not-bijective", "state/parameter index dict is not a bijection onto 0..n-1", case={"text": text})
        return
    layout["missing"] = layout["missing"] or []
    layout["monitor"] = layout["monitor"] or []
    if rm.layout is not None and (layout["state"] != rm.layout["state"] or layout["param"] != rm.layout["param"]):
        ctx.broke("correspondence", "Impl.layout", json.dumps({"text": text, "impl": layout, "model": rm.layout})[:1500])
    f = funcs.get("rhs")
    validated = False
    if f is None:
        ctx.violate("C01/numpy/no-rhs", "generated module has no rhs", case={"text": text})
        return
    if f.other and any("UNTRANSLATABLE" in o for o in f.other):
        ctx.count("untranslatable")
    else:
        v = oracle.validate(ctx, text, "rhs", layout, f.stmts)
        ctx.count("validated")
        validated = bool(v.get("verdict"))
        if not validated:
            # a program the validator rejects: look at once for the input on which it fails.  A bare `inf` / `nan` (the
            # recorded extreme-constant findings) raises NameError wherever the line is reached, also at points where the
            # reference is undefined and which the value comparison below therefore skips.
            probe_ex = None
            try:
                g0 = gen.GModel(comps=[""])
                g0.states = {n: (None, "") for n in rm.states}
                g0.params = {n: (None, "") for n in rm.params}
                pt0 = (points or gen.gen_inputs(random.Random(len(text)), g0, 1))[0]
                s_, p_, _ = oracle.arrays_for(pt0, layout)
                with np.errstate(all="ignore"):
                    mod.rhs(pt0["t"], s_, p_)
            except Exception as ex:
                probe_ex = ex
            if probe_ex is not None and extreme_class(probe_ex):
                ctx.violate(f"C01/numpy/extreme-constant/{extreme_class(probe_ex)}",
                            f"generated rhs raised {type(probe_ex).__name__}: {str(probe_ex)[:100]}", case={"text": text, "points": [pt0]})
                return
            ctx.broke("validator", "checkRhs", json.dumps({"text": text, "verdict": v}))
    # --- numeric oracle
    if points is None:
        g = gen.GModel(comps=[""])
        g.states = {n: (None, "") for n in rm.states}
        g.params = {n: (None, "") for n in rm.params}
        points = gen.gen_inputs(rng, g, ctx.n(5, 8))
        points = points + oracle.boundary_points(rm, points[0], limit=4)
    hp_mod = None
    for pi, pt in enumerate(points):
        us = rm.usable(pt, seed=ctx.seed * 1000 + pi)
        if us is None:
            ctx.count("points_undefined_or_unstable")
            continue
        exact, spread = us
        s, p, _ = oracle.arrays_for(pt, layout)
        s0, p0 = s.copy(), p.copy()
        try:
            with np.errstate(all="ignore"):
                out = mod.rhs(pt["t"], s, p)
        except Exception as ex:
            ctx.violate(f"C01/numpy/extreme-constant/{extreme_class(ex)}" if extreme_class(ex) else
                        f"C01/numpy/rhs-raises/{type(ex).__name__}/{construct_key(rm, next(iter(rm.derivs)))}",
                        f"generated rhs raised {type(ex).__name__}: {str(ex)[:100]}", case={"text": text, "points": [pt]})
            break
        ctx.count("points")
        if validated:
            badx = oracle.expr_ok(ctx, rm, f.stmts, pt, ctx.seed * 1000 + pi)
            ctx.count("exprok_checked", sum(1 for st in f.stmts if st[0] == "D"))
            for (x, v1, v0) in badx:
                ctx.count("exprok_failed")
                if len(ctx.notes) < 10:
                    ctx.notes.append(f"ExprOK failed for {x}: emitted {oracle.fmt(v1)} vs model {oracle.fmt(v0)} in\n{text}\nat {pt}")
        slots = {d: layout["state"].index(sn) for d, (sn, _) in rm.derivs.items()}
        ok, skip, bad = oracle.compare_outputs(out, exact, slots, spread, "rhs")
        ctx.count("values_ok", ok)
        ctx.count("values_skipped", skip)
        if bad:
            # confirm at 50 digits on the generated code itself
            if hp_mod is None:
                try:
                    hp_mod = common.exec_module_hp(code)
                except Exception:
                    hp_mod = False
            confirmed = []
            for (d, got, ref) in bad:
                c = None
                if hp_mod:
                    outh = common.hp_call(hp_mod.rhs, common.mpf(pt["t"]), common.Vec(common.mpf(x) for x in s), common.Vec(common.mpf(x) for x in p))
                    c = oracle.confirm_hp(outh[slots[d]] if outh is not None else None, ref, spread[d])
                if c is False:
                    ctx.count("ill_conditioned")
                    continue
                confirmed.append((d, got, ref, c))
            for (d, got, ref, c) in confirmed:
                ctx.violate(f"C01/numpy/rhs-value/{construct_key(rm, d)}",
                            f"rhs[{slots[d]}] for {d} = {oracle.fmt(got)} but the model text defines {oracle.fmt(ref)}"
                            + ("" if c else " (50-digit confirmation unavailable)"),
                            case={"text": text, "points": [pt]}, code=code)
            if confirmed:
                break


# legal identifiers that coincide with, or extend, a terminal of the grammar / a name sympy or the printers know
NEAR_NAMES = ["e", "E", "I", "S", "N", "O", "Q", "d", "e1", "E1", "exp1", "log2x", "pi2", "sin_", "Abs1", "t1", "time2", "Lt1", "And_", "ln2",
              "Mod3", "floor_", "dt1", "x_dt", "dx", "oo", "zoo", "nan1", "inf1", "gamma", "beta", "lambda1", "re", "im", "Eq1", "NOT", "or_", "Pi", "PI"]


def names_extra(ctx: Ctx):
    """a small model whose states, parameters and intermediates carry such names (each used in a right-hand side);
    the pool is walked through in order, six names per model, so that a quick run sees every name"""
    k = ctx.stats.get("near_names_models", 0)
    ctx.stats["near_names_models"] = k + 1
    n = len(NEAR_NAMES)
    a, a2, b, b2, c, c2 = (NEAR_NAMES[(6 * k + j + 7 * ctx.seed) % n] for j in range(6))
    text = (f"states({a}=0.5, {a2}=-0.25)\nparameters({b}=0.75, {b2}=2)\n{c} = {a}*{b} + {b2}\n{c2} = {c} - {a2}/(1 + {b2}*{b2})\n"
            f"d{a}_dt = {c} - {a}*{b}**2 + {c2}\nd{a2}_dt = {c}/(2 + cos({a})) - {a2}*{b} + exp(-{a}*{a})*{c2}\n")
    return {"text": text}


def run(ctx: Ctx):
    n = ctx.n(70, 2500)
    for k in range(n):
        cfg = gen.ModelCfg(allow_no_params=True)
        if k % 7 == 3:
            cfg.chain = ctx.rng.randint(3, 25 if ctx.thorough else 10)
        if k % 5 == 0:
            cfg.depth = 5
        if k % 10 == 9:
            cfg.expr.extreme = True        # literals of astronomical size (the known findings C01/numpy/extreme-constant/*)
        if k % 9 == 2:
            case = names_extra(ctx)
        elif k % 9 in (4, 7):
            # crafted: conditionals and relations as operands inside the branches of a top-level conditional
            from . import backends as _be
            case = _be.cond_extra(ctx)
        else:
            case = {"text": gen.gen_model(ctx.rng, cfg).text(ctx.rng)}
        with common.time_limit(ctx, 40):
            check_case(ctx, case)
        if ctx.elapsed() > (1500 if ctx.thorough else 150):
            ctx.notes.append(f"time budget reached after {k + 1} models")
            break


def search(ctx: Ctx):
    run(ctx)
