"""C18 — the command line writes what the API generates and honours its options."""
from __future__ import annotations

import json
import os
import subprocess
import sys
from concurrent.futures import ThreadPoolExecutor
from pathlib import Path

from .. import common, gen
from ..common import Ctx, Scheme

SCHEME_NAMES = [s.value for s in Scheme]


def run_cli(args, cwd: Path, timeout=150):
    env = dict(os.environ)
    env["PYTHONPATH"] = str(common.REPO / "src") + os.pathsep + env.get("PYTHONPATH", "")
    env["JAX_PLATFORMS"] = "cpu"
    env["PYTHONWARNINGS"] = "ignore"
    p = subprocess.run([sys.executable, "-m", "gotranx", *args], cwd=cwd, env=env, capture_output=True, text=True, timeout=timeout)
    return p.returncode, p.stdout + p.stderr


import threading

_API_LOCK = threading.Lock()   # sympy / gotranx are not thread-safe; only the CLI subprocesses run concurrently


def api_code(text: str, name: str, cmd: str, o: dict):
    """what the documented API produces for the effective options"""
    with _API_LOCK:
        return _api_code(text, name, cmd, o)


def _api_code(text: str, name: str, cmd: str, o: dict):
    from gotranx.codegen.c import Format as CF
    from gotranx.codegen.python import Format as PF
    from gotranx.cli import gotran2c, gotran2py
    ode = common.load(text, name=name)
    schemes = [Scheme(s) for s in o.get("scheme", [])]
    if cmd == "ode2py":
        return gotran2py.get_code(ode, scheme=schemes, format=PF(o.get("format", "black")), remove_unused=o.get("remove_unused", False),
                                  stiff_states=o.get("stiff_states", []), delta=o.get("delta", 1e-8), backend=gotran2py.Backend(o.get("backend", "numpy")))
    return gotran2c.get_code(ode, scheme=schemes, format=CF(o.get("format", "clang-format")), remove_unused=o.get("remove_unused", False),
                             stiff_states=o.get("stiff_states", []), delta=o.get("delta", 1e-8))


def spec_code(text: str, name: str, cmd: str, o: dict):
    """the same module composed directly from the code generator's documented methods — independent of
    `cli.utils.add_schemes`: every scheme receives the options its function accepts (`delta` for the
    Rush–Larsen schemes under any accepted name, `stiff_states` for the hybrid scheme)"""
    import inspect
    with _API_LOCK:
        from gotranx.codegen.c import CCodeGenerator, Format as CF, get_formatter as c_formatter
        from gotranx.codegen.python import PythonCodeGenerator, Format as PF, get_formatter as py_formatter
        from gotranx.codegen.jax import JaxCodeGenerator
        from gotranx.schemes import get_scheme
        ode = common.load(text, name=name)
        ru = o.get("remove_unused", False)
        if cmd == "ode2py":
            G = JaxCodeGenerator if o.get("backend", "numpy") == "jax" else PythonCodeGenerator
            cg = G(ode, format=PF.none, remove_unused=ru)
            head = [cg.imports()]
            fmt = PF(o.get("format", "black"))
            formatter = py_formatter(format=fmt) if fmt != PF.none else None
        else:
            cg = CCodeGenerator(ode, remove_unused=ru, format=CF.none)
            head = [cg.imports(), f"int NUM_STATES = {len(ode.states)};", f"int NUM_PARAMS = {len(ode.parameters)};",
                    f"int NUM_MONITORED = {len(ode.state_derivatives) + len(ode.intermediates)};"]
            fmt = CF(o.get("format", "clang-format"))
            formatter = c_formatter(format=fmt) if fmt != CF.none else None
        comp = head + [cg.parameter_index(), cg.state_index(), cg.monitor_index(), cg.missing_index(),
                       cg.initial_parameter_values(), cg.initial_state_values(), cg.rhs(), cg.monitor_values(), ""]
        for s in o.get("scheme", []):
            f = get_scheme(s)
            accepted = inspect.signature(f).parameters
            kw = {}
            if "delta" in accepted:
                kw["delta"] = o.get("delta", 1e-8)
            if "stiff_states" in accepted:
                kw["stiff_states"] = o.get("stiff_states", [])
            comp.append(cg.scheme(f, **kw))
        code = cg._format("\n".join(comp))
        return formatter(code) if formatter else code


def cli_args(cmd: str, fname: str, o: dict, cfgpath: str | None):
    a = [cmd, fname]
    for s in o.get("scheme", []):
        a += ["--scheme", s]
    for s in o.get("stiff_states", []):
        a += ["-s" if len(a) % 2 else "--stiff-states", s]
    if "delta" in o:
        a += ["--delta", repr(o["delta"])]
    if o.get("remove_unused"):
        a += ["--remove-unused"]
    if "format" in o:
        a += ["--format" if len(a) % 2 else "-f", o["format"]]
    if "backend" in o:
        a += ["--backend" if len(a) % 2 else "-b", o["backend"]]
    if "outname" in o:
        a += ["-o", o["outname"]]
    if "to" in o:
        a += ["--to", o["to"]]
    if cfgpath:
        a += ["--config", cfgpath]
    return a


def toml_of(cfg: dict, lang: str) -> str:
    lines = ["[tool.gotranx]"]
    for k in ("delta", "scheme", "stiff_states"):
        if k in cfg:
            lines.append(f"{k} = {json.dumps(cfg[k])}")
    sub = {k: cfg[k] for k in ("format", "backend", "to") if k in cfg}
    if sub:
        lines.append(f"[tool.gotranx.{lang}]")
        for k, v in sub.items():
            lines.append(f"{k} = {json.dumps(v)}")
    return "\n".join(lines) + "\n"


def c18_case(ctx: Ctx, case: dict):
    text, cmd = case["text"], case["cmd"]
    cli_o, cfg_o, cfg_mode = case.get("cli", {}), case.get("config", {}), case.get("config_mode")
    d = ctx.tmp / f"cli_{ctx.evaluations}_{abs(hash(json.dumps(case, sort_keys=True))) % 10**8}"
    d.mkdir(parents=True, exist_ok=True)
    mdir = case.get("model_dir")           # the model in a sub-directory, the command run from the directory above it
    mrel = f"{mdir}/model.ode" if mdir else "model.ode"
    if mdir:
        (d / mdir).mkdir(exist_ok=True)
    (d / mrel).write_text(text)
    (d / ".git").mkdir(exist_ok=True)   # black's project-root search (used by read_config) stops at a .git directory
    ctx.case(json.dumps(case, sort_keys=True), len(cli_o) + len(cfg_o) >= 2, sample=case)
    cfgpath = None
    if cfg_mode == "explicit":
        (d / "sub").mkdir(exist_ok=True)
        (d / "sub" / "conf.toml").write_text(toml_of(cfg_o, "python" if cmd == "ode2py" else "c"))
        cfgpath = "sub/conf.toml"
    elif cfg_mode == "pyproject":
        (d / "pyproject.toml").write_text(toml_of(cfg_o, "python" if cmd == "ode2py" else "c"))
    else:
        # shield the run from any pyproject.toml above the scratch directory
        (d / "pyproject.toml").write_text("[tool.other]\nx = 1\n")
    eff = dict(cli_o)
    eff.update(cfg_o)      # documented: the configuration file overrides the command line
    suffix = ".py" if cmd == "ode2py" else eff.get("to", ".h")
    # a relative output name is relative to the working directory; without one the output goes next to the model
    target = d / Path(eff["outname"] if "outname" in cli_o else mrel).with_suffix(suffix)
    invalid = case.get("invalid")
    if invalid and case.get("preexisting"):
        target.write_text("KEEP: an earlier good output\n")    # a failed run must not clobber it either
    rc, out = run_cli(cli_args(cmd, mrel, cli_o, cfgpath), d)
    produced = sorted(p.name for p in list(d.iterdir()) + (list((d / mdir).iterdir()) if mdir else []) if p.is_file() and p.name not in ("model.ode", "pyproject.toml"))
    
    if invalid:
        if rc == 0:
            ctx.violate(f"C18/{cmd}/invalid-model-exit-zero", f"{cmd} on an invalid model ({invalid}) exits 0", case=case)
        if case.get("preexisting"):
            if not target.exists() or target.read_text() != "KEEP: an earlier good output\n":
                ctx.violate(f"C18/{cmd}/invalid-model-clobbers-output", f"{cmd} on an invalid model ({invalid}) removed or overwrote an existing output file", case=case)
            produced = [p_ for p_ in produced if p_ != target.name]
        if produced:
            ctx.violate(f"C18/{cmd}/invalid-model-writes-output", f"{cmd} on an invalid model ({invalid}) wrote {produced}", case=case)
        return
    try:
        want = api_code(text, "model", cmd, eff)
    except Exception as ex:
        ctx.count(f"api_raises/{type(ex).__name__}")
        if rc == 0 and target.exists():
            ctx.violate(f"C18/{cmd}/cli-succeeds-where-api-raises", f"the API raises {type(ex).__name__} for these options but {cmd} wrote a file", case=case)
        return
    if rc != 0:
        ctx.violate(f"C18/{cmd}/fails/" + "+".join(sorted(eff)) if False else f"C18/{cmd}/fails",
                    f"{cmd} {cli_args(cmd, 'model.ode', cli_o, cfgpath)[2:]} exited {rc}: {out.strip().splitlines()[-1][:120] if out.strip() else ''}", case=case)
        return
    if not target.exists():
        ctx.violate(f"C18/{cmd}/output-name", f"expected output {target.relative_to(d)}, the run wrote {produced}" + (f" (model in {mdir}/)" if mdir else ""), case=case)
        return
    got = target.read_text()
    ctx.count("files_compared")
    if got != want:
        # which option is not honoured?
        culprit = "unknown"
        for k in sorted(eff):
            alt = dict(eff)
            alt.pop(k)
            try:
                if api_code(text, "model", cmd, alt) == got:
                    culprit = k
                    break
            except Exception:
                pass
        ctx.violate(f"C18/{cmd}/differs-from-api/{culprit}",
                    f"{cmd} wrote text that differs from get_code with the same options (option not honoured: {culprit})", case=case)
    else:
        # … and against the module composed from the code generator's own methods
        try:
            spec = spec_code(text, "model", cmd, eff)
        except Exception as ex:
            ctx.count(f"spec_raises/{type(ex).__name__}")
            spec = None
        if spec is not None:
            ctx.count("files_compared_with_codegen_api")
            if spec != got:
                culprit = "unknown"
                for k in sorted(eff):
                    alt = dict(eff)
                    alt.pop(k)
                    try:
                        if spec_code(text, "model", cmd, alt) == got:
                            culprit = k
                            break
                    except Exception:
                        pass
                ctx.violate(f"C18/{cmd}/differs-from-codegen-api/{culprit}",
                            f"{cmd} wrote text that differs from the module composed from CodeGenerator methods with the same options "
                            f"(option not honoured: {culprit})", case=case)
    extra = [p for p in produced if p != target.name and not p.endswith(".toml")]
    if extra:
        ctx.violate(f"C18/{cmd}/extra-files", f"{cmd} wrote additional files {extra}", case=case)


def gen_case(ctx: Ctx, k: int):
    rng = ctx.rng
    cfg = gen.ModelCfg(max_inters=3, max_states=3, max_params=3, depth=1, max_comps=1, p_prefix_names=0.0)
    cfg.expr = gen.ExprCfg(p_cond=0.05, p_ccond=0.0, p_mod=0.0, p_floor=0.0, p_relnum=0.0)
    m = gen.gen_model(rng, cfg)
    text = m.text(rng)
    states = list(m.states)
    cmd = "ode2py" if k % 3 else "ode2c"

    def opts():
        o = {}
        if rng.random() < 0.7:
            o["scheme"] = rng.sample(SCHEME_NAMES, rng.randint(1, 3))
        if rng.random() < 0.5:
            o["stiff_states"] = rng.sample(states, rng.randint(1, len(states)))
        if rng.random() < 0.5:
            o["delta"] = rng.choice([1e-6, 0.5, 1e-3, 0.0])
        return o

    cli = opts()
    if rng.random() < 0.4:
        cli["remove_unused"] = True
    if cmd == "ode2py":
        cli["format"] = rng.choice(["none", "none", "black"])
        if rng.random() < 0.3:
            cli["backend"] = rng.choice(["numpy", "jax"])
    else:
        cli["format"] = "none"          # clang-format is not installed here
        if rng.random() < 0.4:
            cli["to"] = rng.choice([".c", ".h"])
    if rng.random() < 0.4:
        cli["outname"] = rng.choice(["result", "out/put".replace("/", "_"), "x.y"])
    case = {"text": text, "cmd": cmd, "cli": cli}
    if k % 4 == 2:
        case["model_dir"] = "models"
        if k % 8 == 2:
            cli["outname"] = rng.choice(["result", "x.y"])
    mode = rng.choice([None, None, "explicit", "pyproject"])
    if mode:
        c = opts()
        if cmd == "ode2py" and rng.random() < 0.5:
            c["format"] = "none"
        if cmd == "ode2py" and rng.random() < 0.3:
            c["backend"] = rng.choice(["numpy", "jax"])
        if cmd == "ode2c":
            c["format"] = "none"
            if rng.random() < 0.3:
                c["to"] = ".c"
        case["config"] = c
        case["config_mode"] = mode
    if k % 7 == 3:
        # a configuration file whose values are falsy (delta = 0, no stiff states) next to command-line values that are not:
        # the file still wins
        c = dict(case.get("config") or {"format": "none"})
        c["delta"] = 0.0
        c["scheme"] = ["generalized_rush_larsen", "hybrid_rush_larsen"]
        if rng.random() < 0.6:
            c["stiff_states"] = []
        cli["delta"] = rng.choice([0.5, 1e-3])
        cli["stiff_states"] = rng.sample(states, rng.randint(1, len(states)))
        case["config"] = c
        case["config_mode"] = case.get("config_mode") or rng.choice(["explicit", "pyproject"])
    if k % 5 == 4:
        # invalid at load time, or only at code generation (a cycle, a name the generated code reserves)
        bad = rng.choice(["syntax", "duplicate", "undefined", "incomplete", "cycle", "reserved", "reserved"])
        reserved = rng.choice(["values", "rhs", "states", "lambda"] if cmd == "ode2py" else ["double", "values", "rhs", "pow"])
        case["text"] = {"syntax": text + "x = = 3\n", "duplicate": text + "zz = 1\nzz = 2\n", "undefined": text + "zz = nope_q + 1\n",
                        "incomplete": text + "states(zq=1)\n", "cycle": text + "zz1 = zz2 + 1\nzz2 = zz1*2\n",
                        "reserved": text + f"{reserved} = 1.5\n"}[bad]
        case["invalid"] = bad
        case["preexisting"] = rng.random() < 0.5
    return case


def c18_run(ctx: Ctx):
    n = ctx.n(20, 300)
    cases = []
    for k in range(n):
        case = gen_case(ctx, k)
        # the API side of a case runs in a worker thread (no SIGALRM there): only keep texts that
        # sympy loads in reasonable time (an invalid text is meant to fail, quickly)
        ok = False
        with common.time_limit(ctx, 20):
            try:
                common.load(case["text"])
            except Exception:
                pass
            ok = True
        if ok:
            cases.append(case)
    # missing model file
    d = ctx.tmp / "cli_missing"
    d.mkdir(exist_ok=True)
    for cmd in ("ode2py", "ode2c", "cellml2ode"):
        rc, out = run_cli([cmd, "does_not_exist.ode"], d)
        if rc == 0 or any(d.iterdir()):
            ctx.violate(f"C18/{cmd}/missing-file", f"{cmd} on a missing file exits {rc} / writes {list(d.iterdir())}", case={"cmd": cmd, "missing": True, "text": ""})
    with ThreadPoolExecutor(max_workers=8) as ex:
        # each case works in its own directory; Ctx bookkeeping is only touched from this thread afterwards
        results = list(ex.map(lambda c: _isolated(ctx, c), cases))
    for case, sub in zip(cases, results):
        ctx.evaluations += 1
        ctx.hashes.add(json.dumps(case, sort_keys=True)[:64])
        if len(case.get("cli", {})) + len(case.get("config", {})) >= 2:
            ctx.nontrivial.add(json.dumps(case, sort_keys=True))
        if len(ctx.samples) < 3:
            ctx.samples.append(case)
        ctx.violations.extend(sub.violations)
        for k_, v_ in sub.stats.items():
            ctx.count(k_, v_)
    cellml_case(ctx)


class _Sub:
    def __init__(self, ctx):
        self.violations = []
        self.stats = {}
        self.tmp = ctx.tmp
        self.evaluations = 0
        self.rng = ctx.rng

    def violate(self, key, what, **data):
        self.violations.append(common.Violation(key, what, data))

    def count(self, k, n=1):
        self.stats[k] = self.stats.get(k, 0) + n

    def case(self, *a, **k):
        pass


def _isolated(ctx, case):
    sub = _Sub(ctx)
    try:
        c18_case(sub, case)
    except subprocess.TimeoutExpired:
        sub.count("cli_timeouts")
    return sub


def cellml_case(ctx: Ctx):
    """cellml2ode and the deprecated `convert` write what the API writes"""
    src = common.REPO / "tests" / "cellml_files" / "noble_1962.cellml"
    if not src.exists():
        return
    d = ctx.tmp / "cli_cellml"
    d.mkdir(exist_ok=True)
    (d / ".git").mkdir(exist_ok=True)
    (d / "pyproject.toml").write_text("[tool.other]\nx = 1\n")
    (d / "noble.cellml").write_bytes(src.read_bytes())
    rc, out = run_cli(["cellml2ode", "noble.cellml", "-o", "viacli.ode"], d)
    from gotranx.myokit import cellml_to_gotran
    cellml_to_gotran(d / "noble.cellml").save(d / "viaapi.ode")
    ctx.count("cellml_compared")
    if rc != 0 or not (d / "viacli.ode").exists():
        ctx.violate("C18/cellml2ode/fails", f"cellml2ode exited {rc}", case={"cmd": "cellml2ode", "text": ""})
    elif (d / "viacli.ode").read_text() != (d / "viaapi.ode").read_text():
        ctx.violate("C18/cellml2ode/differs-from-api", "cellml2ode wrote text that differs from cellml_to_gotran(...).save", case={"cmd": "cellml2ode", "text": ""})
    (d / "m.ode").write_text("states(x=1)\nparameters(a=2)\ndx_dt = -a*x\n")
    for to, api_cmd in ((".py", "ode2py"), (".h", "ode2c")):
        rc, out = run_cli(["convert", "m.ode", "--to", to, "--scheme", "explicit_euler"], d)
        tgt = d / f"m{to}"
        if rc != 0 or not tgt.exists():
            if to == ".h":
                ctx.count("convert_c_unavailable_without_clang_format")
                continue
            ctx.violate(f"C18/convert/fails/{to}", f"convert --to {to} exited {rc}", case={"cmd": "convert", "to": to, "text": ""})
            continue
        want = api_code("states(x=1)\nparameters(a=2)\ndx_dt = -a*x\n", "m", api_cmd, {"scheme": ["explicit_euler"]} if to == ".py" else {"scheme": ["explicit_euler"]})
        if tgt.read_text() != want:
            ctx.violate(f"C18/convert/differs-from-api/{to}", f"convert --to {to} differs from the API output", case={"cmd": "convert", "to": to, "text": ""})
