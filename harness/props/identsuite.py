"""C19 — model identifiers never collide with names the generated code uses itself.

For an identifier `n` in a role (state / parameter / intermediate) the model M[n] is compared with
M[fresh], the same model with the identifier consistently renamed to a neutral name: either
generation fails with an error for M[n], or every generated function returns the same values
(under the renaming of slot names).  A silent difference or a crash of generated code is a violation.
"""
from __future__ import annotations

import keyword

import numpy as np

from .. import common, gen
from ..common import Ctx, Scheme

GENERATOR_NAMES = ["dt", "t", "time", "states", "parameters", "values", "shape", "missing_variables", "numpy", "len", "name", "state",
                   "parameter", "monitor", "missing", "key", "value", "rhs", "monitor_values", "init_state_values", "state_index",
                   "parameter_index", "monitor_index", "explicit_euler", "generalized_rush_larsen", "jax", "math"]
BOOL_WORD_NAMES = ["true_value", "falsetto", "untrue", "true_gain", "k_false", "x_true", "false_k", "truex", "nfalse"]
C_NAMES = BOOL_WORD_NAMES + ["values", "states", "parameters", "t", "dt", "fabs", "pow", "exp2", "index", "y0", "y1", "j0", "jn",
           "gamma", "double", "int", "const", "static", "float", "char", "return", "NUM_STATES", "strcmp", "name", "M_PI", "INFINITY", "NAN", "main"]
SYMPY_NAMES = ["E", "I", "S", "N", "O", "Q", "oo", "zoo", "nan", "beta", "gamma", "zeta", "lambda_", "Symbol", "Function", "re", "im", "sign", "Max", "Min"]
NEUTRAL = ["V", "m_gate", "g_Na", "Cai", "k1", "alpha_m", "x", "y2", "Ito"]


def template(ident: str, role: str, usage: str = "used"):
    """a small two-state model in which `ident` plays the given role; `usage="unread"`: it is declared /
    defined but no expression reads it (what unused-variable removal looks at)"""
    if usage == "unread":
        if role == "state":
            return (f"states({ident}=0.7, w=1.3)\nparameters(g=0.6, k=2.5)\ni_a = g*w + k\ni_b = i_a*w - w*w\n"
                    f"d{ident}_dt = i_b - g*w\ndw_dt = k*(i_a - w)\n")
        if role == "parameter":
            return ("states(v=0.7, w=1.3)\nparameters(" + ident + "=0.6, k=2.5)\ni_a = k*v + k\ni_b = i_a*w - v*k\n"
                    "dv_dt = i_b - k*v\ndw_dt = k*(v - w)\n")
        return (f"states(v=0.7, w=1.3)\nparameters(g=0.6, k=2.5)\n{ident} = g*v + k\ni_b = g*w - v*v\n"
                f"dv_dt = i_b - g*v\ndw_dt = k*(v - w)\n")
    if role == "state":
        return (f"states({ident}=0.7, w=1.3)\nparameters(g=0.6, k=2.5)\ni_a = g*{ident} + k\ni_b = i_a*w - {ident}*{ident}\n"
                f"d{ident}_dt = i_b - g*{ident}\ndw_dt = k*({ident} - w) + Conditional(Gt({ident}, 1), {ident}, 0.5)\n")
    if role == "parameter":
        return (f"states(v=0.7, w=1.3)\nparameters({ident}=0.6, k=2.5)\ni_a = {ident}*v + k\ni_b = i_a*w - v*{ident}\n"
                f"dv_dt = i_b - {ident}*v\ndw_dt = k*(v - w) + {ident} + 2*Conditional(Lt({ident}, 0.5), {ident}, w)\n")
    return (f"states(v=0.7, w=1.3)\nparameters(g=0.6, k=2.5)\n{ident} = g*v + k\ni_b = {ident}*w - v*v\n"
            f"dv_dt = i_b - g*{ident}\ndw_dt = k*(v - w) + Conditional(Gt({ident}, 1), {ident}, 0.5)\n")


def values_numpy(code: str, rename: dict):
    """{function: {slot name (canonical): value}} at two fixed points"""
    mod = common.exec_module(code)
    inv = {v: k for k, v in rename.items()}
    canon = lambda n: inv.get(n, n) if not (n.startswith("d") and n.endswith("_dt")) else "d" + inv.get(n[1:-3], n[1:-3]) + "_dt"  # noqa: E731
    out = {}
    base = {"v": 0.9, "w": 1.1, "g": 0.45, "k": 2.0}
    for kpt, scale in enumerate((1.0, 1.7)):
        snames = [n for n, _ in sorted(mod.state.items(), key=lambda kv: kv[1])]
        pnames = [n for n, _ in sorted(mod.parameter.items(), key=lambda kv: kv[1])]
        # the identifier under test takes the value of the neutral name it replaces
        val = lambda n: base.get(canon(n), base.get(n, 0.8)) * scale  # noqa: E731
        s = np.array([val(n) for n in snames])
        p = np.array([val(n) for n in pnames])
        with np.errstate(all="ignore"):
            r = mod.rhs(0.3, s, p)
            mv = mod.monitor_values(0.3, s, p)
            e = mod.explicit_euler(s, 0.3, 0.01, p)
            g = mod.generalized_rush_larsen(s, 0.3, 0.01, p)
        out[f"rhs@{kpt}"] = {canon(n): float(r[i]) for n, i in mod.state.items()}
        out[f"mon@{kpt}"] = {canon(n): float(mv[i]) for n, i in mod.monitor.items()}
        out[f"euler@{kpt}"] = {canon(n): float(e[i]) for n, i in mod.state.items()}
        out[f"grl@{kpt}"] = {canon(n): float(g[i]) for n, i in mod.state.items()}
        init_s, init_p = mod.init_state_values(), mod.init_parameter_values()
        out["init"] = {canon(n): float(init_s[i]) for n, i in mod.state.items()}
        out["init"].update({canon(n): float(init_p[i]) for n, i in mod.parameter.items()})
    return out


def c_values(ctx: Ctx, code: str, rename: dict, tag: str):
    cm = common.CModule(code, ctx.tmp, tag)
    if not cm.ok:
        return ("compile-error", cm.compile_log)
    inv = {v: k for k, v in rename.items()}
    canon = lambda n: inv.get(n, n) if not (n.startswith("d") and n.endswith("_dt")) else "d" + inv.get(n[1:-3], n[1:-3]) + "_dt"  # noqa: E731
    base = {"v": 0.9, "w": 1.1, "g": 0.45, "k": 2.0}
    snames = [None] * cm.const("NUM_STATES")
    pnames = [None] * cm.const("NUM_PARAMS")
    return ("ok", cm, canon, base, snames, pnames)


def missing_template(ident: str):
    """two components; component A reads `ident`, which component B defines: in `A.to_ode()` it is a missing variable"""
    return (f'states("A", v=0.7)\nparameters("A", g=0.6)\nexpressions("A")\ni_a = g*v + {ident}\ndv_dt = i_a - v*{ident}\n'
            f'states("B", w=1.3)\nparameters("B", k=2.5)\nexpressions("B")\n{ident} = k*w\ndw_dt = k*(v - w)\n')


def c19_missing_case(ctx: Ctx, case: dict):
    """the identifier as a *missing variable* of a sub-model (unpacked from the extra `missing_variables` argument)"""
    ident, backend = case["ident"], case.get("backend", "numpy")
    neutral = "i_m"
    ctx.case(f"{ident}/missing/{backend}", True, sample={"ident": ident, "role": "missing", "backend": backend, "text": missing_template(ident)})
    key = f"C19/{backend}/{ident}/missing"
    schemes = [Scheme.explicit_euler, Scheme.generalized_rush_larsen]
    try:
        ode = common.load(missing_template(ident))
        sub = ode.get_component("A").to_ode()
    except Exception as ex:
        ctx.count(f"rejected_at_load/{type(ex).__name__}")
        return
    try:
        code = common.py_code(sub, backend=backend, scheme=schemes)
    except Exception as ex:
        ctx.count(f"rejected_at_codegen/{type(ex).__name__}")
        return
    if ident not in (sub.missing_variables or {}):
        ctx.count("not_a_missing_variable")      # `t` / `time` in the sub-model are the time symbol
        return
    ref = common.load(missing_template(neutral)).get_component("A").to_ode()
    ref_code = common.py_code(ref, backend=backend, scheme=schemes)

    def run(c):
        mod = common.exec_module(c)
        out = {}
        for kpt, (v, g, mv) in enumerate(((0.9, 0.45, 3.25), (1.7, 0.8, -0.5))):
            s, p, m = np.array([v]), np.array([g]), np.array([mv])
            with np.errstate(all="ignore"):
                out[f"rhs@{kpt}"] = float(np.asarray(mod.rhs(0.3, s, p, m))[0])
                out[f"mon@{kpt}"] = sorted(float(x) for x in np.asarray(mod.monitor_values(0.3, s, p, m)))
                out[f"euler@{kpt}"] = float(np.asarray(mod.explicit_euler(s, 0.3, 0.25, p, m))[0])
                out[f"euler0@{kpt}"] = float(np.asarray(mod.explicit_euler(s, 0.3, 0.0, p, m))[0])
                out[f"grl@{kpt}"] = float(np.asarray(mod.generalized_rush_larsen(s, 0.3, 0.25, p, m))[0])
        return out
    try:
        got = run(code)
    except Exception as ex:
        ctx.violate(key + "/crash", f"missing variable named {ident!r}: the generated {backend} code fails at run time with {type(ex).__name__}: {str(ex)[:90]}", case=case)
        return
    want = run(ref_code)
    ctx.count("compared")
    for fn, v in want.items():
        g = got.get(fn)
        same = g == v or (isinstance(v, float) and (abs(g - v) <= 1e-12 * max(abs(g), abs(v)) or (g != g and v != v)))
        if not same:
            ctx.violate(key + "/captured", f"missing variable named {ident!r}: {fn} = {g!r} but {v!r} with the identifier renamed to {neutral!r}", case=case)
            return


def c19_case(ctx: Ctx, case: dict):
    if case.get("role") == "missing":
        return c19_missing_case(ctx, case)
    ident, role, backend = case["ident"], case["role"], case.get("backend", "numpy")
    neutral = case.get("neutral") or {"state": "v", "parameter": "g", "intermediate": "i_a"}[role]
    usage, ru = case.get("usage", "used"), bool(case.get("remove_unused", False))
    text = template(ident, role, usage)
    ref_text = template(neutral, role, usage)
    ctx.case(f"{ident}/{role}/{backend}/{usage}/{ru}", True, sample={"ident": ident, "role": role, "backend": backend, "text": text,
                                                                      "usage": usage, "remove_unused": ru})
    schemes = [Scheme.explicit_euler, Scheme.generalized_rush_larsen]
    key = f"C19/{backend}/{ident}/{role}" + ("/unread" if usage == "unread" else "") + ("/remove-unused" if ru else "")
    try:
        ode = common.load(text)
    except Exception as ex:
        ctx.count(f"rejected_at_load/{type(ex).__name__}")
        return  # an error is an acceptable outcome
    ref_ode = common.load(ref_text)
    rename = {neutral: ident}
    if backend in ("numpy", "jax"):
        try:
            code = common.py_code(ode, backend=backend, scheme=schemes, remove_unused=ru)
        except Exception as ex:
            ctx.count(f"rejected_at_codegen/{type(ex).__name__}")
            return
        ref_code = common.py_code(ref_ode, backend=backend, scheme=schemes, remove_unused=ru)
        try:
            got = values_numpy(code, rename)
        except Exception as ex:
            ctx.violate(key + "/crash", f"{role} named {ident!r}: the generated {backend} code fails at run time with {type(ex).__name__}: {str(ex)[:90]}", case=case)
            return
        want = values_numpy(ref_code, {})
        ctx.count("compared")
        for fn in want:
            for nme, v in want[fn].items():
                g = got.get(fn, {}).get(nme)
                if g is None:
                    ctx.violate(key + "/slot-missing", f"{role} named {ident!r}: {fn} has no slot for {nme}", case=case)
                    return
                if not (g == v or (g != g and v != v) or abs(g - v) <= 1e-12 * max(abs(g), abs(v))):
                    ctx.violate(key + "/captured", f"{role} named {ident!r}: {fn}[{nme}] = {g!r} but {v!r} with the identifier renamed to {neutral!r}", case=case)
                    return
    else:
        try:
            code = common.c_code(ode, scheme=schemes, remove_unused=ru)
        except Exception as ex:
            ctx.count(f"rejected_at_codegen/{type(ex).__name__}")
            return
        ref_code = common.c_code(ref_ode, scheme=schemes, remove_unused=ru)
        tag = f"id{ctx.evaluations}"
        cm = common.CModule(code, ctx.tmp, tag)
        if not cm.ok:
            # "generation fails with an error" is acceptable; C code that gcc rejects is not generation failing
            errs = [ln for ln in cm.compile_log.splitlines() if "error" in ln]
            ctx.violate(key + "/does-not-compile", f"{role} named {ident!r}: generated C does not compile: {errs[0][:110] if errs else ''}", case=case)
            return
        rm = common.CModule(ref_code, ctx.tmp, tag + "r")
        inv = {ident: neutral}
        base = {"v": 0.9, "w": 1.1, "g": 0.45, "k": 2.0, "i_a": 0.0}
        names_s = {n: cm.index("state_index", n) for n in [ident if neutral in ("v",) and role == "state" else "v", "w"]}
        names_p = {n: cm.index("parameter_index", n) for n in [ident if role == "parameter" else "g", "k"]}
        if min(list(names_s.values()) + list(names_p.values())) < 0:
            ctx.violate(key + "/index", f"{role} named {ident!r}: C index functions do not know the model's names: {names_s} {names_p}", case=case)
            return
        rs = {n: rm.index("state_index", n) for n in ["v", "w"]}
        rp = {n: rm.index("parameter_index", n) for n in ["g", "k"]}
        s = np.zeros(2)
        p = np.zeros(2)
        s0 = np.zeros(2)
        p0 = np.zeros(2)
        for n, i in names_s.items():
            s[i] = base[inv.get(n, n)]
        for n, i in names_p.items():
            p[i] = base[inv.get(n, n)]
        for n, i in rs.items():
            s0[i] = base[n]
        for n, i in rp.items():
            p0[i] = base[n]
        ctx.count("compared")
        for fn, order in (("rhs", "tsp"), ("explicit_euler", "stdp"), ("generalized_rush_larsen", "stdp")):
            a, _ = cm.call(fn, order, 2, states=s, parameters=p, t=0.3, dt=0.01)
            b, _ = rm.call(fn, order, 2, states=s0, parameters=p0, t=0.3, dt=0.01)
            for n, i in names_s.items():
                va, vb = a[i], b[rs[inv.get(n, n)]]
                if not (va == vb or abs(va - vb) <= 1e-12 * max(abs(va), abs(vb))):
                    ctx.violate(key + "/captured", f"{role} named {ident!r}: C {fn}[{n}] = {va!r} but {vb!r} with the identifier renamed to {neutral!r}", case=case)
                    return


def pools(ctx: Ctx):
    kw = [k for k in keyword.kwlist if k.isidentifier() and k not in ("True", "False", "None")]
    py = GENERATOR_NAMES + kw + SYMPY_NAMES + ["_values_0", "dv_dt_linearized", "__name__", "print", "abs_", "exp2", "pi2", "Abs2", "statesx", "tt", "dt_", "T", "Time"]
    c = C_NAMES + ["dv_dt_linearized", "restrict", "inline", "register", "while", "for", "if", "else", "states", "parameters", "t", "dt", "time"]
    return py, c


def c19_run(ctx: Ctx):
    py, c = pools(ctx)
    roles = ["state", "parameter", "intermediate"]
    cases = []
    rng = ctx.rng
    n_py = ctx.n(45, 600)
    n_c = ctx.n(20, 300)
    allpy = [(i, r) for i in py for r in roles]
    allc = [(i, r) for i in c for r in roles]
    rng.shuffle(allpy)
    rng.shuffle(allc)
    for i, r in allpy[:n_py]:
        cases.append({"ident": i, "role": r, "backend": "numpy"})
    for i, r in allpy[n_py:n_py + ctx.n(4, 60)]:
        cases.append({"ident": i, "role": r, "backend": "jax"})
    for i, r in allc[:n_c]:
        cases.append({"ident": i, "role": r, "backend": "c"})
    # identifiers that contain the words the C printer substitutes (`true` / `false` inside a `?:`): every one, in a
    # rotating role, and as a prefix and a suffix of the name
    for k, i in enumerate(BOOL_WORD_NAMES):
        r = roles[(k + ctx.seed) % 3]
        if not any(cs["ident"] == i and cs["role"] == r and cs["backend"] == "c" for cs in cases):
            cases.append({"ident": i, "role": r, "backend": "c"})
    # the names every generated function uses for itself, declared but never read, with and without
    # unused-variable removal (a removed unpacking must not be a reason to skip the name check)
    core = ["dt", "t", "time", "states", "parameters", "values", "shape", "missing_variables", "numpy"]
    for i in core:
        for r in roles:
            cases.append({"ident": i, "role": r, "backend": "numpy", "usage": "unread", "remove_unused": True})
    for i in rng.sample(core, ctx.n(3, 9)):
        cases.append({"ident": i, "role": rng.choice(roles), "backend": "numpy", "usage": "unread", "remove_unused": False})
        cases.append({"ident": i, "role": rng.choice(roles), "backend": "numpy", "usage": "used", "remove_unused": True})
    for i in rng.sample(["dt", "t", "time", "states", "parameters", "values"], ctx.n(3, 6)):
        cases.append({"ident": i, "role": rng.choice(roles), "backend": "c", "usage": "unread", "remove_unused": True})
    for i, r in allpy[:ctx.n(4, 80)]:
        cases.append({"ident": i, "role": r, "backend": "numpy", "usage": "unread", "remove_unused": True})
    # the result slots of the JAX backend (`_values_<i>`): every function has its own number of slots
    # (states for rhs / schemes, monitored quantities for monitor_values)
    for i in range(0, 6):
        for r in (roles if 1 <= i <= 4 else [rng.choice(roles)]):
            cases.append({"ident": f"_values_{i}", "role": r, "backend": "jax"})
    # the identifier as a missing variable of a sub-model: every name the generated functions use for themselves, and a few others
    for i in core + ["_values_0", "dv_dt_linearized"] + rng.sample(py, ctx.n(4, 40)):
        cases.append({"ident": i, "role": "missing", "backend": "numpy"})
    for i in rng.sample(core, ctx.n(2, 9)) + ["_values_0"]:
        cases.append({"ident": i, "role": "missing", "backend": "jax"})
    cases.append({"ident": "i_q", "role": "missing", "backend": "numpy"})
    # random neutral identifiers: must never be flagged
    used = set()
    for _ in range(ctx.n(6, 60)):
        cases.append({"ident": gen.fresh_name(rng, used), "role": rng.choice(roles), "backend": rng.choice(["numpy", "c"])})
    for case in cases:
        with common.time_limit(ctx, 60):
            c19_case(ctx, case)
        if ctx.elapsed() > (1500 if ctx.thorough else 170):
            ctx.notes.append("time budget reached")
            break
