"""C17 — comments, layout and annotations are inert."""
from __future__ import annotations

import json
import random

from .. import common, gen, oracle
from ..common import Ctx, Scheme

COMMENT_POOL = ["mV + mV", "2 mV", "mV*", "ms / 0", "C:\\temp\\", "a \\", "x\x0cexpressions(\"B\")", "see \x85 note", "the sodium current", "mV", "ms**-1", "pA*pF**-1", "1/0", "(", ")", "((", "a # b", "\"quoted\" 'text'", "ms: time", "µA/cm²", "x = 3",
                "states(x=1)", "expressions(\"Z\")", "100 %", "1e400", "-", "**", "[1]", "{", "lambda: 0", "import os", "dx_dt = 0", "TODO: check; see ref. [3]",
                "0", "nan", "inf", "e", "pi", "1 2 3", "unit=\"mV\"", "\\", "\\n", "tab\there", "   padded   ", "#", "##", "?", "a,b", "None", "True"]

EXOTIC_BREAKS = ["\x0b", "\x0c", "\x1c", "\x1d", "\x1e", "\x85", "\u2028", "\u2029"]


def membership(ode):
    out = {}
    for c in ode.components:
        for kind, atoms_ in (("state", c.states), ("param", c.parameters), ("assign", c.assignments)):
            for a in atoms_:
                out.setdefault((kind, a.name), set()).add(c.name)
    return {k: sorted(v) for k, v in out.items()}


def edits(rng: random.Random, m: gen.GModel, n: int):
    """(description, class, edited text) — edits that the property says are inert"""
    out = []
    blocks = [(k, c, list(lines)) for k, c, lines in m.blocks()]

    def render(bl, header=None, sep="\n"):
        parts = []
        if header:
            parts.append(header)
        for k, c, lines in bl:
            parts.append(gen.render_block(k, c, list(lines)))
        return sep.join(parts) + "\n"

    base = render(blocks)
    for _ in range(n):
        kind = rng.choice(["ws", "ws", "crlf", "blank", "indent", "trailing_ws", "nl_after_op", "nl_open_paren", "nl_close_paren", "header_comment",
                           "between_blocks", "inside_block", "trailing_comment", "trailing_comment", "trailing_unit", "empty_comment", "comment_after_ws",
                           "scalarparam_annot"])
        txt = rng.choice(COMMENT_POOL)
        bl = [(k, c, list(lines)) for k, c, lines in blocks]
        expr_blocks = [i for i, b in enumerate(bl) if b[0] == "expressions"]
        if kind == "ws":
            t = base.replace(" = ", rng.choice(["=", "  =  ", "\t= "])).replace(" + ", rng.choice(["+", "  +\t", " +"])).replace(", ", rng.choice([",", " ,  ", ",\t"])).replace("(", rng.choice(["(", "( ", "(\t"]))
            out.append(("spaces and tabs between tokens", "whitespace", t))
        elif kind == "crlf":
            out.append(("CRLF line endings", "line-endings", base.replace("\n", "\r\n")))
        elif kind == "blank":
            out.append(("blank lines between items", "whitespace", base.replace("\n", "\n\n" if rng.random() < 0.5 else "\n \n")))
        elif kind == "indent":
            out.append(("indented lines", "whitespace", "\n".join(("    " + ln if ln and not ln.startswith((")", "states", "parameters", "expressions")) else ln) for ln in base.split("\n"))))
        elif kind == "trailing_ws":
            out.append(("trailing spaces", "whitespace", base.replace("\n", rng.choice(["  \n", "\t\n"]))))
        elif kind == "nl_after_op" and expr_blocks:
            i = rng.choice(expr_blocks)
            j = rng.randrange(len(bl[i][2]))
            ln = bl[i][2][j]
            head, tail = ln.split("=", 1)
            import re as _re
            cands = [m_.end() for m_ in _re.finditer(r" \+ | - |(?<![*(,])\*(?!\*)|/", tail)] if "#" not in tail else []
            if cands:
                k = rng.choice(cands)
                bl[i][2][j] = head + "=" + tail[:k] + "\n      " + tail[k:]
            out.append(("line break after a binary operator", "continuation", render(bl)))
        elif kind == "nl_open_paren" and expr_blocks:
            i = rng.choice(expr_blocks)
            bl[i][2][:] = [ln.replace("(", "(\n     ", 1) if "#" not in ln else ln for ln in bl[i][2]]
            out.append(("line break after an opening parenthesis", "continuation", render(bl)))
        elif kind == "nl_close_paren" and expr_blocks:
            i = rng.choice(expr_blocks)
            cand = [j for j, ln in enumerate(bl[i][2]) if ")" in ln and "#" not in ln]
            if cand:
                j = rng.choice(cand)
                k = bl[i][2][j].rindex(")")
                bl[i][2][j] = bl[i][2][j][:k] + "\n  " + bl[i][2][j][k:]
                out.append(("line break before a closing parenthesis", "continuation-before-close-paren", render(bl)))
        elif kind == "header_comment":
            out.append((f"header comment {txt!r}", "comment-header", render(bl, header=f"# {txt}\n# second line")))
        elif kind == "between_blocks":
            parts = [gen.render_block(k, c, list(lines)) for k, c, lines in bl]
            i = rng.randrange(len(parts))
            # a comment directly before bare assignments that follow a headed block would change what they follow; keep to declaration boundaries
            if bl[i][0] != "expressions":
                parts.insert(i, f"# {txt}")
                out.append((f"comment {txt!r} between blocks", "comment-between-blocks", "\n".join(parts) + "\n"))
        elif kind == "inside_block" and expr_blocks:
            i = rng.choice(expr_blocks)
            if len(bl[i][2]) >= 2:
                j = rng.randrange(1, len(bl[i][2]))
                bl[i][2].insert(j, f"# {txt}")
                out.append((f"comment line {txt!r} inside an expressions block" + (" with a component" if bl[i][1] else ""),
                            "comment-inside-block" + ("-named" if bl[i][1] else "-default"), render(bl)))
        elif kind in ("trailing_comment", "trailing_unit") and expr_blocks:
            i = rng.choice(expr_blocks)
            j = rng.randrange(len(bl[i][2]))
            if "#" not in bl[i][2][j]:
                t2 = txt if kind == "trailing_comment" else rng.choice(["mV", "ms**-1", "uA*uF**-1", "mM", "1"])
                bl[i][2][j] += f" # {t2}"
                out.append((f"trailing comment {t2!r}", "comment-trailing", render(bl)))
        elif kind == "empty_comment" and expr_blocks:
            i = rng.choice(expr_blocks)
            j = rng.randrange(len(bl[i][2]))
            if "#" not in bl[i][2][j]:
                bl[i][2][j] += " #"
                out.append(("empty trailing comment '#'", "comment-empty", render(bl)))
        elif kind == "comment_after_ws" and expr_blocks:
            out.append(("header comment after trailing blanks", "comment-header", "# note   \n" + base.replace("\n", " \n", 1)))
        elif kind == "scalarparam_annot":
            for b in bl:
                if b[0] in ("states", "parameters"):
                    j = rng.randrange(len(b[2]))
                    nme, val = b[2][j].split("=", 1)
                    if "ScalarParam" not in val:
                        # annotation texts are free text: apostrophes, backslashes followed by any character, brackets, '#', unicode
                        descs = ["a value", "gate", "x y z", "100 percent", "Faraday's constant", "scaled by \\xi", "rate \\upsilon", "C:\\temp\\file",
                                 "\\Nu mber", "tab\\there", "a \\ b", "50 \\% open", "(see [3])", "# not a comment", "µ-opioid", "1/0", "lambda: 0"]
                        units_ = ["mV", "ms", "mM", "1", "uA/uF", "per_ms", "\\Omega", "mS/cm2", "%"]
                        b[2][j] = f'{nme}=ScalarParam({val}, unit="{rng.choice(units_)}", description="{rng.choice(descs)}")'
                    break
            out.append(("unit / description annotation on a declaration", "annotation", render(bl)))
    return base, out


def c17_case(ctx: Ctx, case: dict):
    base, edited, cls, desc = case["text"], case["edited"], case["cls"], case["desc"]
    try:
        ode0 = common.load(base)
        code0 = common.py_code(ode0, scheme=[Scheme.explicit_euler])
    except Exception as ex:
        ctx.count(f"base_rejected/{type(ex).__name__}")
        return
    ctx.case(edited, True, sample={"edit": desc, "text": edited})
    ctx.count(f"edit/{cls}")
    err = None
    with common.time_limit(ctx, 20) as tl:
        try:
            ode1 = common.load(edited)
            code1 = common.py_code(ode1, scheme=[Scheme.explicit_euler])
        except Exception as ex:
            err = ex
    if "ode1" not in locals() and err is None:
        ctx.violate(f"C17/hang/{cls}", f"loading hangs after an inert edit ({desc})", case=case)
        return
    # the model's lexer/parser on the same pair
    r0 = ctx.lean().call({"op": "load", "text": base})
    r1 = ctx.lean().call({"op": "load", "text": edited})
    if err is not None:
        if r1.get("ok"):
            ctx.broke("correspondence", "load-accept-class", json.dumps({"text": edited, "impl": type(err).__name__, "model": "accepts"}))
        ctx.violate(f"C17/load-fails/{cls}", f"a loadable model fails to load after an inert edit ({desc}): {type(err).__name__}: {str(err)[:70]}", case=case)
        return
    if not r1.get("ok"):
        ctx.broke("correspondence", "load-accept-class", json.dumps({"text": edited, "impl": "accepts", "model": r1.get("err")}))
    m0, m1 = membership(ode0), membership(ode1)
    if m0 != m1:
        diff = sorted(k for k in set(m0) | set(m1) if m0.get(k) != m1.get(k))[:3]
        ctx.violate(f"C17/membership-changes/{cls}", f"component membership changes after an inert edit ({desc}): {[(k, m0.get(k), m1.get(k)) for k in diff]}", case=case)
        return
    lay0 = [s.name for s in ode0.sorted_states()], [p.name for p in ode0.parameters]
    lay1 = [s.name for s in ode1.sorted_states()], [p.name for p in ode1.parameters]
    if lay0 != lay1:
        ctx.violate(f"C17/layout-changes/{cls}", f"slot layout changes after an inert edit ({desc})", case=case)
        return
    if code0 != code1:
        ctx.violate(f"C17/code-changes/{cls}", f"generated code changes after an inert edit ({desc})", case=case)
        return
    if r0.get("ok") and r1.get("ok"):
        for k in ("states", "params", "inters", "derivs", "layout"):
            if r0[k] != r1[k]:
                ctx.broke("correspondence", f"model-inertness({k})", json.dumps({"text": base, "edited": edited}))
                break
        if sorted(json.dumps(c, sort_keys=True) for c in r0["comps"]) != sorted(json.dumps(c, sort_keys=True) for c in r1["comps"]):
            ctx.broke("correspondence", "model-inertness(components)", json.dumps({"text": base, "edited": edited}))


ANNOT_DESCS = ["Faraday's constant", "scaled by \\xi", "rate \\upsilon", "C:\\temp\\file", "\\Nu mber", "tab\\there", "a \\ b", "50 \\% open",
               "(see [3])", "# not a comment", "µ-opioid", "1/0", "lambda: 0", "\\U0001 x", "\\u12 y", "\\x4", "\\777 z", "new\\nline", "{x}", "%s %d"]
ANNOT_UNITS = ["mV", "1", "uA/uF", "per_ms", "\\Omega", "mS/cm2", "%", "\\xB5M", "mol per litre", "°C"]


def annot_edit(m: gen.GModel, desc: str, unit: str, rng: random.Random):
    """the same text with a unit / description annotation on one declaration"""
    bl = [(k, c, list(lines)) for k, c, lines in m.blocks()]
    cands = [(i, j) for i, b in enumerate(bl) if b[0] in ("states", "parameters") for j, ln in enumerate(b[2]) if "ScalarParam" not in ln]
    if not cands:
        return None
    i, j = rng.choice(cands)
    nme, val = bl[i][2][j].split("=", 1)
    bl[i][2][j] = f'{nme}=ScalarParam({val}, unit="{unit}", description="{desc}")'
    return "\n".join(gen.render_block(k, c, list(lines)) for k, c, lines in bl) + "\n"


def c17_run(ctx: Ctx):
    n = ctx.n(16, 400)
    for k in range(n):
        cfg = gen.ModelCfg(max_inters=4, max_states=3, max_params=3, depth=2, max_comps=2)
        cfg.expr = gen.ExprCfg(p_cond=0.08, p_ccond=0.0, p_mod=0.0, p_floor=0.0, p_relnum=0.0)
        m = gen.gen_model(ctx.rng, cfg)
        base, eds = edits(ctx.rng, m, 8)
        # annotation texts are free text: every special description / unit text gets its turn
        for r_ in range(2):
            d_ = ANNOT_DESCS[(2 * k + r_) % len(ANNOT_DESCS)]
            u_ = ANNOT_UNITS[(2 * k + r_) % len(ANNOT_UNITS)]
            t_ = annot_edit(m, d_, u_, ctx.rng)
            if t_ is not None:
                eds.append((f"annotation unit={u_!r} description={d_!r}", "annotation", t_))
        # characters that str.splitlines() treats as line ends but the grammar does not (a comment runs through them, a form
        # feed is ordinary white space): each gets its turn inside a trailing comment, and the form feed between operands
        import re as _re
        lines_ = base.split("\n")
        cand_ = [i for i, ln in enumerate(lines_) if _re.match(r"^\w+ = ", ln) and "#" not in ln and ln.count("(") == ln.count(")")]
        if cand_:
            ch_ = EXOTIC_BREAKS[k % len(EXOTIC_BREAKS)]
            tail_ = ["states(zq=0)", "see the note", "= 3", "zq = 1"][(k // len(EXOTIC_BREAKS)) % 4]
            i_ = cand_[k % len(cand_)]
            l2 = list(lines_)
            l2[i_] = l2[i_] + f" # previously:{ch_}{tail_}"
            eds.append((f"trailing comment containing {ch_!r}", "comment-trailing", "\n".join(l2)))
            if " + " in lines_[i_] or " - " in lines_[i_]:
                l3 = list(lines_)
                l3[i_] = l3[i_].replace(" + ", " +\x0c ", 1).replace(" - ", " -\x0c ", 1)
                eds.append(("a form feed between operator and operand", "whitespace", "\n".join(l3)))
        for desc, cls, t in eds:
            c17_case(ctx, {"text": base, "edited": t, "cls": cls, "desc": desc})
        if ctx.elapsed() > (1500 if ctx.thorough else 150):
            break
