"""Manifest texts per property (level claimed, trusted base, technique)."""

TB = ("Trusted: Lean 4.33 kernel (axioms of every listed theorem are a subset of propext, Classical.choice, Quot.sound; no sorry / "
      "native_decide / bv_decide / own axioms), harness/extract.py, harness/translate.py and the correspondence harness. Modelled and "
      "validated per run, not verified: sympy is meaning-preserving on one expression (ExprOK, checked at 50 digits on sampled points), "
      "NumPy/JAX/gcc execute the emitted subset as the target semantics say, lark builds the tree the Lean parser builds, CPython graphlib. ")

META = {
    "C01": dict(technique="Lean 4 proof (validator soundness over all interpretations) + translation validation + differential run",
                text="Theorem C01.rhs_sound: any translated rhs program that passes the executable validator checkRhs returns, for every input and every "
                     "interpretation of the primitives (float64, reals), the specification's value of dX_dt in slot state_index(X); rhs_progress: no NameError. "
                     "Every rhs gotranx emits during the run is translated (Python ast) and pushed through that validator; the grammar ladder the Lean parser "
                     "implements is re-extracted from ode.lark and pinned by theorem; parse trees (lark vs Lean) are compared exactly; values are compared against "
                     "a 50-digit evaluation of the Lean reference semantics with a conditioning-aware tolerance.",
                note=TB + "Parser soundness against an inductive grammar and Kahn-order correctness of the Impl generator are not yet theorems; the parser is tied by exact tree comparison."),
    "C04": dict(technique="Lean 4 proof (index bijection, init overrides, slot soundness, order tables) + translation validation + differential run",
                text="Theorems index_bijective / init_sound / monitor_slots / rhs_slots (unbounded) and formals_are_permutations, orders_are_permutations, argument_maps "
                     "(complete finite tables re-extracted from codegen/*.py). Every generated rhs / monitor_values / scheme is validated; index functions, init functions, "
                     "array lengths and all 6+24 argument orders are exercised on the real modules.",
                note=TB + "C and JAX backends are exercised by the C02 / C03 checks with the same validators."),
    "C05": dict(technique="Lean 4 proof (euler = states + dt*rhs for validated programs) + translation validation + differential run",
                text="Theorem C05.euler_eq_states_plus_dt_rhs: for programs passing checkRhs and checkScheme on the same model whose store is the Euler expression, "
                     "euler[i] = states[i] + dt*rhs[i] exactly, for every input and interpretation; euler_dt_zero; alias table pinned from get_scheme. The real explicit_euler "
                     "is compared with the module's own rhs (<= 4 ulp), with the reference meaning, under every accepted name, dt in {0, tiny, large, negative}, inputs unmodified.",
                note=TB),
    "C06": dict(technique="Lean 4 proof (guarded RL formula of the emitted store; guard always emitted) + translation validation + differential run",
                text="Theorems eval_rl_store / rl_fallback / rl_exponential / rlStore_guarded: the emitted store evaluates to x + (|g|>delta ? f/g*(exp(g*dt)-1) : dt*f) in every "
                     "interpretation; pin rl_always_guarded (extracted: no generator consults the non-zero shortcut). The linearisation gotranx emits is compared by value with the "
                     "Lean symbolic derivative (w.r.t. the own state, everything else fixed); steps are compared with the formula at |g| around delta, several delta, dt.",
                note=TB + "Real-analysis consequences (diff is the derivative, exactness for affine rates, convergence to Euler) are in GotranxProofs/Analysis.lean when present; sympy's diff is assumption A4."),
    "C07": dict(technique="Lean 4 proof (syntactic program equalities on the Impl generators) + differential run",
                text="Theorems hybrid_empty_eq_euler, hybrid_all_eq_grl, hybrid_foreign_names, hybrid_slotwise: program equalities for every model, sort order, option and subset. "
                     "On the real code: hybrid body text equals the Euler / GRL body text for empty / full subsets and ignores foreign names; slot by slot bit-equality with the module's own Euler and GRL.",
                note=TB + "The Impl generators mirror schemes.py; the tie is the body-text comparison and the validators."),
    "C12": dict(technique="Lean 4 proof (two validated programs for one model/layout agree; progress) + translation validation + differential run",
                text="Theorem C12.unused_equiv_rhs: two rhs programs (with / without removal) that pass checkRhs for the same model and layout return equal values in every slot for every input; "
                     "removed_never_read (progress). Every program generated with remove_unused is validated against the layout (which rejects counter-numbered stores); results compared bit for bit, rhs and three schemes.",
                note=TB),
}

META.update({
    "C08": dict(technique="Lean 4 proof (sequential duplicate test implies pairwise no-conflict) + differential fault injection",
                text="Theorem C08.seqCheck_pairwise: the duplicate test the loader runs (a dictionary of the latest atom per name, as coded in TreeToODE.ode and used by the "
                     "Lean loader model) implies that any two atoms with the same name - of any kinds, in any components - are the same definition; executable checks of the model's "
                     "loader on the documented faults. 17 kinds of single well-formedness fault are injected into generated well-formed models at random sites; the real loader + "
                     "code generator must raise, and its accept/reject class must equal the model's.",
                note=TB + "Missing/orphan derivatives, undefined symbols and cycles are rejected by the model's loader by construction (and compared with the implementation on every fault); a general theorem 'accepted => WellFormed' covering them is not yet stated."),
    "C09": dict(technique="Lean 4 proof (invariance under the iteration order of every dependency set; history invariant) + subprocess differential runs",
                text="Theorems sort_iter_invariant, layout_iter_invariant, gen{Rhs,Monitor,Euler,GRL,Hybrid}_iter_invariant: for traversal orders that are permutations of the same "
                     "dependency sets the sorted order, the layout and every generated program are equal; pin deps_sorted (extracted from sort_assignments); history_invariant for "
                     "get_scheme / generate sequences. Real code: fresh subprocesses under several PYTHONHASHSEED values and after earlier calls, byte comparison of NumPy/C/JAX text "
                     "and slot layout; adversarial iteration orders injected into every dependency set in-process; the model's predicted order compared with the implementation's.",
                note=TB + "CPython's graphlib is modelled (Topo.lean) and compared with the implementation's order on every model."),
    "C10": dict(technique="Lean 4 proof (name-sorted tuples are canonical; generators are functions of them) + differential permutation runs",
                text="Theorems sortByName_canonical / model_of_perm (a duplicate-free list sorted by name is determined by its set), code_of_equal_models, plus C09's invariance "
                     "theorems. Partial: the statement for the whole text-level loader is not proved; it is checked by running the model's loader and the real loader on block / entry / line "
                     "permutations: == both ways, generated NumPy and C bytes, slot layout, component membership.",
                note=TB),
})

NOT_APPLICABLE = {
    "C02": "check not built yet in this session (C backend); planned, see DESIGN.md section 7",
    "C03": "check not built yet in this session (JAX backend); planned",
    "C11": "check not built yet in this session; planned",
    "C13": "check not built yet in this session; planned",
    "C14": "check not built yet in this session; planned",
    "C15": "check not built yet in this session; planned",
    "C16": "check not built yet in this session; planned",
    "C17": "check not built yet in this session; planned",
    "C18": "check not built yet in this session; planned",
    "C19": "check not built yet in this session; planned",
    "C20": "check not built yet in this session; planned",
}
