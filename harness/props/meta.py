"""Manifest texts per property (level claimed, trusted base, technique)."""

TB = ("Trusted: Lean 4.33 kernel (axioms of every listed theorem are a subset of propext, Classical.choice, Quot.sound; no sorry / "
      "native_decide / bv_decide / own axioms), harness/extract.py, harness/translate.py and the correspondence harness. Modelled and "
      "validated per run, not verified: sympy is meaning-preserving on one expression (ExprOK, checked at 50 digits on sampled points), "
      "NumPy/JAX/gcc execute the emitted subset as the target semantics say, lark builds the tree the Lean parser builds, CPython graphlib. ")

META = {
    "C01": dict(technique="Lean 4 proof (validator soundness over all interpretations) + translation validation + differential run",
                text="Theorem C01.rhs_sound: any translated rhs program that passes the executable validator checkRhs returns, for every input and every "
                     "interpretation of the primitives (float64, reals), the specification's value of dX_dt in slot state_index(X); rhs_progress: no NameError. "
                     "Every rhs gotranx emits during the run is translated (Python ast) and pushed through that validator; the grammar ladder the Lean parser "
                     "implements is re-extracted from ode.lark and pinned by theorem; parse trees (lark vs Lean) are compared exactly; values are compared against "
                     "a 50-digit evaluation of the Lean reference semantics with a conditioning-aware tolerance. On the model side the chain is closed end to end: "
                     "ParseRender.parse_render / text_denotes (the parser inverts the minimal-parenthesis printer at any nesting depth, so the text of an expression denotes it), "
                     "Kahn.staticOrder_correct / staticOrder_complete (the model of graphlib's static_order is correct and, on acyclic graphs, total), GenValid.genRhs_valid "
                     "(the model's generator passes checkRhs for every well-formed model, with and without unused-variable removal) and EndToEnd.rhs_end_to_end (for every "
                     "well-formed acyclic model the generated program exists, runs and returns the specification's derivatives in the slots state_index reports). The hypotheses "
                     "(ModelWF, round trip with the parser's real fuel, agreement of the two sorter formulations) are evaluated by the driver on every loaded model.",
                note=TB + "The loader model is not yet proved to produce only ModelWF models (checkModelWF is evaluated per model instead); the lark engine is tied by exact tree comparison."),
    "C04": dict(technique="Lean 4 proof (index bijection, init overrides, slot soundness, order tables) + translation validation + differential run",
                text="Theorems index_bijective / init_sound / monitor_slots / rhs_slots (unbounded) and formals_are_permutations, orders_are_permutations, argument_maps "
                     "(complete finite tables re-extracted from codegen/*.py). Every generated rhs / monitor_values / scheme is validated; index functions, init functions, "
                     "array lengths and all 6+24 argument orders are exercised on the real modules, with and without unused-variable removal (NumPy and JAX). "
                     "GenValid.genRhs_valid / genEuler_valid: the model's generators write the result for X into slot state_index(X), every slot exactly once, for every well-formed model; "
                     "GenValidMon.genMonitor_valid / genMonitor_correct: the model's monitor_values generator writes the value of the i-th sorted assignment into slot i = monitor_index, every slot once.",
                note=TB + "C and JAX backends are exercised by the C02 / C03 checks with the same validators."),
    "C05": dict(technique="Lean 4 proof (euler = states + dt*rhs for validated programs) + translation validation + differential run",
                text="Theorem C05.euler_eq_states_plus_dt_rhs: for programs passing checkRhs and checkScheme on the same model whose store is the Euler expression, "
                     "euler[i] = states[i] + dt*rhs[i] exactly, for every input and interpretation; euler_dt_zero; alias table pinned from get_scheme. The real explicit_euler "
                     "is compared with the module's own rhs (<= 4 ulp), with the reference meaning, under every accepted name, dt in {0, tiny, large, negative}, inputs unmodified; "
                     "every third model is followed in the same process by a sibling with the same names and other equations, every third by a refactored sibling with identical derivative lines "
                     "(state kept between calls). GenValid.genEuler_valid; SchemeEndToEnd.genEuler_correct: slot i of the model generator's program is states[i] + dt*f, f the specification's derivative.",
                note=TB),
    "C06": dict(technique="Lean 4 proof (guarded RL formula of the emitted store; guard always emitted) + translation validation + differential run",
                text="Theorems eval_rl_store / rl_fallback / rl_exponential / rlStore_guarded: the emitted store evaluates to x + (|g|>delta ? f/g*(exp(g*dt)-1) : dt*f) in every "
                     "interpretation; pin rl_always_guarded (extracted: no generator consults the non-zero shortcut). The linearisation gotranx emits is compared by value with the "
                     "Lean symbolic derivative (w.r.t. the own state, everything else fixed); steps are compared with the formula at |g| around delta, several delta, dt. "
                     "GenValidRL.genGRL_valid: the model's generalized_rush_larsen generator passes checkScheme for every well-formed model without dt/_linearized name clashes "
                     "(the linearisation reads only names its rate reads: DiffFv.sub_diff); re-evaluated by the driver on every loaded model. SchemeEndToEnd.genGRL_correct / genGRL_formula: "
                     "slot i of the generator's program is the Euler value when the symbolic linearisation is syntactically zero and rlFormula(delta, x, f, g, dt) otherwise, at every solution "
                     "extended by the helper values (solution_withLin: such an extension always exists).",
                note=TB + "Real-analysis consequences (diff is the derivative, exactness for affine rates, convergence to Euler) are in GotranxProofs/Analysis.lean when present; sympy's diff is assumption A4."),
    "C07": dict(technique="Lean 4 proof (syntactic program equalities on the Impl generators) + differential run",
                text="Theorems hybrid_empty_eq_euler, hybrid_all_eq_grl, hybrid_foreign_names, hybrid_slotwise: program equalities for every model, sort order, option and subset. "
                     "On the real code: hybrid body text equals the Euler / GRL body text for empty / full subsets and ignores foreign names; slot by slot bit-equality with the module's own Euler and GRL. "
                     "GenValidRL.genHybrid_valid: the model's hybrid generator passes checkScheme for every well-formed model and every stiff set; SchemeEndToEnd.genHybrid_correct: slot by slot value; genHybrid_all_value / genHybrid_none_value: with every state stiff the hybrid program writes what the GRL program writes, with none what the Euler program writes (by value, any input).",
                note=TB + "The Impl generators mirror schemes.py; the tie is the body-text comparison and the validators."),
    "C12": dict(technique="Lean 4 proof (two validated programs for one model/layout agree; progress) + translation validation + differential run",
                text="Theorem C12.unused_equiv_rhs: two rhs programs (with / without removal) that pass checkRhs for the same model and layout return equal values in every slot for every input; "
                     "removed_never_read (progress); GenValid.genRhs_removal_invariant and SchemeEndToEnd.gen{Euler,GRL,Hybrid}_removal_invariant: on the Impl layer the programs generated with and without removal write the same value into every slot (rhs and all three schemes), for every well-formed model. "
                     "Every program generated with remove_unused is validated against the layout (which rejects counter-numbered stores); results compared bit for bit, rhs and three "
                     "schemes, on NumPy, JAX and on two compiled C modules.",
                note=TB),
}

META.update({
    "C08": dict(technique="Lean 4 proof (sequential duplicate test implies pairwise no-conflict) + differential fault injection",
                text="Theorem C08.seqCheck_pairwise: the duplicate test the loader runs (a dictionary of the latest atom per name, as coded in TreeToODE.ode and used by the "
                     "Lean loader model) implies that any two atoms with the same name - of any kinds, in any components - are the same definition; executable checks of the model's "
                     "loader on the documented faults. 17 kinds of single well-formedness fault are injected into generated well-formed models at random sites; the real loader + "
                     "code generator must raise, and its accept/reject class must equal the model's.",
                note=TB + "Kahn.staticOrder_correct / staticOrder_complete: the sorter model returns an order exactly for acyclic dependency graphs (a cycle is the only reason for its error). "
                          "Missing/orphan derivatives and undefined symbols are rejected by the model's loader by construction (and compared with the implementation on every fault); LoaderWF.coreLoad_wf / loadStringP_wf: every model the loader model accepts is ModelWF; SeqCheckComplete.seqCheck_iff: the duplicate test accepts exactly the texts in which any two atoms of one name are the same definition (both directions, no mention of order); LoaderExt.coreLoad_ext / coreLoad_repeat: the loader is a function of the set of atoms, repeating a definition changes neither verdict nor model."),
    "C09": dict(technique="Lean 4 proof (invariance under the iteration order of every dependency set; history invariant) + subprocess differential runs",
                text="Theorems sort_iter_invariant, layout_iter_invariant, gen{Rhs,Monitor,Euler,GRL,Hybrid}_iter_invariant: for traversal orders that are permutations of the same "
                     "dependency sets the sorted order, the layout and every generated program are equal; pin deps_sorted (extracted from sort_assignments); history_invariant for "
                     "get_scheme / generate sequences. Real code: fresh subprocesses under several PYTHONHASHSEED values and after earlier calls, byte comparison of NumPy/C/JAX text "
                     "and slot layout; adversarial iteration orders injected into every dependency set in-process; the model's predicted order compared with the implementation's.",
                note=TB + "CPython's graphlib is modelled twice (Topo.lean: a literal mirror of its records and an edge-list formulation proved correct in Kahn.lean); the two are compared by the driver on every request and with the implementation's order on every model."),
    "C10": dict(technique="Lean 4 proof (name-sorted tuples are canonical; generators are functions of them) + differential permutation runs",
                text="Theorems sortByName_canonical / model_of_perm (a duplicate-free list sorted by name is determined by its set), code_of_equal_models, plus C09's invariance "
                     "theorems. LoaderPerm.model_perm_invariant + LoaderAccept.coreLoad_accepts_perm / loadItemsP_perm: for the loader model, permuting the atoms / the blocks of an accepted "
                     "text gives an accepted text with the same model (every check of the loader is a property of the set of atoms; seqCheck_perm). The tie to the real loader is the "
                     "differential run: the model's loader and the real loader on block / entry / line permutations: == both ways, generated NumPy and C bytes, slot layout, component membership.",
                note=TB),
})

META.update({
    "C02": dict(technique="Lean 4 proof (typed C semantics = reference semantics for cReal expressions; backend-independent validator soundness) + translation validation of the C text + compiled differential run",
                text="Theorems C02.cReal_sound (for every expression accepted by the executable check cReal - no operator applied to integer-typed operands only, no truncating remainder - the "
                     "C-typed value, converted to double, is the reference meaning of the type-erased expression, for every interpretation and environment), execC_eq_exec, c_rhs_sound, "
                     "c_monitor_sound, and the witnesses int_division_truncates / pow_int_exponent. Partial otherwise. The C function bodies are translated (C expression parser) into the same IR and pushed through the proven-sound validators checkRhs / checkMonitor / "
                     "checkScheme; the code is compiled with gcc (default mode, -Wall), index functions, NUM_* constants, init functions, rhs, monitor_values and three schemes are "
                     "called through ctypes and compared with the reference meaning; out-of-bounds writes and input modification are detected with guard slots. A disagreement is "
                     "classified by re-evaluating the translated C body at 50 digits under C typing, with integers promoted, and with floored fmod.",
                note=TB + "Every translated C body is classified by cReal in the driver, and *run* in the Lean typed C semantics (float64) and compared with the compiled gcc output at every "
                          "sampled point (validation of the target-semantics assumption for C). Expressions outside cReal (integer arithmetic on integer literals, fmod) are the two "
                          "recorded known findings; for them the 50-digit C-semantics evaluator of the harness classifies disagreements."),
    "C03": dict(technique="Lean 4 proof (return-array assembly + backend-independent validator soundness) + translation validation + differential run (jitted and un-jitted)",
                text="Theorems jaxReturn_sound / arity_mismatch (the returned array has the documented length and entry i is the value stored in slot i iff the return list is range(n)), "
                     "num_return_values_extracted (each method passes the length of the array it fills), and the shared validator soundness. Arity.{rhs,monitor,missing,scheme}_arity / generated_return: for the "
                     "programs of the model's generators every result name below the documented length is bound, so the returned array has that length and carries the stored values. Every JAX function the NumPy backend offers is "
                     "validated, its return list checked against the documented length, and run with and without jit against the reference meaning; models with more than 10 outputs included.",
                note=TB + "XLA compilation is assumption A2."),
    "C11": dict(technique="Lean 4 proof (writer alphabet inside the grammar, extracted tables) + differential save/load round trips",
                text="Partial. Theorems writer_relations_in_grammar / writer_connectives_in_grammar and pins relop_table, writer_overrides: every name the writer can emit is accepted by the "
                     "grammar the Lean parser implements. ParseRender.parse_render / text_denotes: every source expression is what the parser reads from its minimal-parenthesis rendering (token level); "
                     "LoaderExt.coreLoad_idem: loading the distinct atoms of a loaded model is accepted and gives the same model (the abstract core of save + load). The real writer and lexer are not modelled: every saved file is re-read by the real loader and by the Lean parser, "
                     "and atoms, units, descriptions, defaults, component membership and the values of rhs / monitors / schemes are compared (against the reference meaning too).",
                note=TB + "Myokit/CellML-imported models are covered by the C15 check."),
    "C13": dict(technique="Lean 4 proof (missing variables exact, gluing of solutions, missing_values soundness) + differential three-module run",
                text="Theorems missing_exact (missing variables = names mentioned and not defined, sorted), split_glue (a solution of the full model is a solution of every restriction fed "
                     "with its values for states, parameters and missing variables), states_partition, missing_values_sound, pin c_missing_index_name. Real code: every component as the split, "
                     "missing variables compared with the model's, sub / rest modules fed from the full model, monitors / rhs / Euler / missing_values compared by name. "
                     "SplitLoader.closed_of_components / loaded_split_wf: for every text the loader model accepts and every selection of components the selected sub-model is a closed restriction, hence well formed. SplitEndToEnd.restrict_wf / split_rhs_correct / split_missing_correct: a closed restriction of a well-formed model is well formed, and its generated rhs / missing_values programs, fed with the "
                     "values a solution of the full model gives to the part's inputs, return the full model's values. GenValidMissing.genMissing_valid / genMissing_correct: the model's missing_values generator (with the early exit 'if n >= N: break') writes every requested value into its slot "
                     "exactly once, for every well-formed model and every list of distinct requested names it defines; every real missing_values program is translated, validated by "
                     "checkMissingValues and compared statement by statement with the model generator's program for the same split.",
                note=TB),
    "C14": dict(technique="Lean 4 proof (batch evaluation is pointwise for array-safe expressions) + translation-time arraySafe check + differential batch runs",
                text="Theorems evalVec_pointwise (column j of the batch value is the scalar value on column j, any number of columns, any interpretation), no_source_construct_scalarOnly, "
                     "scalarOnly_fails / scalarOnly_single. The translator reports Python-level not/and/or/if-expressions/chained comparisons in any generated function (arraySafe); "
                     "every function is called on (n, N) batches with shared and per-column parameters, columns on different sides of conditions, and compared column by column.",
                note=TB + "NumPy's SIMD loops may differ from the scalar path in the last bits; 1e-9 relative is allowed."),
    "C16": dict(technique="Lean 4 proof (nested-conditional combinator is correct for any number of singularities; as-coded combinator for at most one) + differential run",
                text="Theorems nested_regular / nested_at_singular (what the property asks for, any number of singularities), asCoded_le_one (the combinator as coded equals it for <= 1) and "
                     "asCoded_two_doubles (float64 witness that the sum-of-conditionals doubles the value for two). Real code: families with 0-3 removable singularities in one or two states, "
                     "regular points vs the original and the text's meaning, singular points vs the two-sided limit at 50 digits.",
                note=TB + "sympy's singularities() and limit() are oracles (A4). The doubling for >= 2 singularities is a known finding (the unedited test-suite pins that output)."),
    "C20": dict(technique="Lean 4 proof (substitution preserves values; loop result has no intermediates) + differential symbolic evaluation",
                text="Theorems eval_subst and rhsMatrixLoop_sound: whatever number of rounds, a returned right-hand side has one entry per derivative, mentions no intermediate and has the "
                     "derivative's value at every solution; states_order; pin max_tries_shape (bound = #intermediates + 1, raise only if intermediates remain). Real code: rhs_matrix / "
                     "jacobi_matrix evaluated at 40 digits against the reference, against the Lean expansion and symbolic derivative, and against 50-digit central differences; depths 4-60.",
                note=TB + "RhsMatrixTotal.rhsMatrix_total: for every well-formed acyclic model the symbolic right-hand side is produced with the default bound (#intermediates + 1), "
                          "whatever the depth of the dependency chains (measure: position of the deepest remaining intermediate in the sorted order); EndToEnd.sortedAssignments_total: the state order exists."),
})

META.update({
    "C15": dict(technique="Lean 4 proof (renaming function only) + differential run against Myokit's own evaluator (imported models and .ode-text exports)",
                text="Partial (level 'other'). Theorems gname_injective / imported_nodup: the names under which Myokit variables are imported (unique name, '_' appended for sympy's public "
                     "names) are pairwise distinct. Everything else is decided by the differential run: generated .mmt models (nested variables with unique and repeated local names, clashes "
                     "with sympy names, if / piecewise, all Myokit functions) and the repository's .mmt / CellML files are imported, saved, reloaded, and the generated rhs is compared with "
                     "Model.evaluate_derivatives at the initial and perturbed states; states / constants / values / export back to Myokit are compared; models written in .ode text with declared units are exported and compared with Myokit's own reading of the unit texts.",
                note=TB + "Myokit's parsers, its sympy writer / reader and evaluate_derivatives are an oracle (A7), not modelled; the three xreplace passes over sympy expressions are not modelled in Lean."),
    "C17": dict(technique="Lean 4 proof (lexer model: blanks, tabs and comment text produce no tokens; CRLF = LF, blank lines absorbed, continuation lines) + differential inert-edit runs",
                text="Partial. Theorems lex_skip_blank, inline_run, lex_comment, lex_crlf (a CRLF line end is lexed exactly as LF in every context), lex_blank_line / lex_blank_line_crlf (a blank line is absorbed), lex_continuation_indent / lex_continuation_break (after a token that cannot end an operand a line break with any indentation is white space) about the lexer model that mirrors lark's contextual lexing of ode.lark (pinned grammar rules, "
                     "ignore list, caught exception classes); executable checks of the model on CRLF / continuation / comment variants. 20 kinds of edit the property calls inert (incl. the eight characters str.splitlines treats as line ends inside comments, and a form feed between operands) are applied "
                     "to generated models with comment texts from a pool of punctuation, arithmetic, unit-like and unicode strings: load (under a time limit), component membership, slot layout "
                     "and generated bytes must not change; the Lean loader's verdict on every pair is compared with the implementation's.",
                note=TB + "pint is assumption A6. Three grammar-level behaviours are recorded as known findings; a hang of pint on texts like '2**3**4**5' was observed in the design phase and is not exercised."),
    "C18": dict(technique="Lean 4 proof over extracted option-forwarding tables + differential CLI runs",
                text="Partial (level 'other'). Theorems ode2py_plumbing, ode2c_plumbing, no_option_dropped, config_keys over tables re-extracted from cli/*.py on every run: every option of a "
                     "command reaches get_code under its name. The commands are run as subprocesses (python -m gotranx) in scratch project directories over random option combinations, "
                     "--config files and pyproject.toml; the bytes written are compared with the API output for the effective options and with a module composed directly from "
                     "CodeGenerator methods; invalid / missing models must exit non-zero without output. scheme_options_reach_schemes: cli.utils.add_schemes is run with a recording stub "
                     "for every member of Scheme on every run and must hand each scheme exactly the options its function accepts, unchanged.",
                note=TB + "typer's parsing, black's project-root discovery and the file system are outside the model. clang-format is not installed: C runs use --format none."),
    "C19": dict(technique="Lean 4 proof (renaming preserves values and scoping when injective; capture witness) + differential identifier-by-identifier runs",
                text="Partial. Theorems eval_rename, fv_rename, wellScoped_rename (an injective renaming changes neither values nor the verdict of the scoping validator) and capture_witness. "
                     "Identifiers from pools (names used by the templates, Python / C keywords, builtins, numpy / math / sympy names, near-misses) are tried as state, parameter and intermediate "
                     "on NumPy, JAX and C: either generation raises, or every function returns the values of the same model with the identifier renamed; crashes, compile errors and silent "
                     "differences are violations.",
                note=TB + "The reserved-name sets themselves are not extracted into Lean; they are exercised exhaustively over the pools in the thorough tier."),
})

NOT_APPLICABLE = {}
