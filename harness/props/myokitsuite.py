"""C15 — importing a Myokit / CellML model preserves its dynamics (partial: Myokit is an oracle)."""
from __future__ import annotations

import json
import random
from pathlib import Path

import numpy as np

from .. import common
from ..common import Ctx

SYMPY_CLASH = ["beta", "gamma", "zeta", "E", "I", "S", "N", "Q", "O", "re", "im", "Max", "Min", "sign", "pi", "oo", "lambdify", "Symbol", "test", "var"]
PLAIN = ["V", "m", "h", "n", "g_Na", "E_K", "k1", "tau", "Cai", "x_inf", "alpha", "rate", "GK", "w", "q10"]


def gen_mmt(rng: random.Random, nested: str = "none", local_names: bool = False):
    """a small Myokit model as .mmt text.  nested: none | unique | repeated (the same local names
    under several parents, as in tests/mmt_files/example.mmt).  local_names: names are unique within a
    component only (ina.m and ito.m, as in most published cell models; imported as ina_m / ito_m)"""
    ncomp = rng.randint(2, 3) if local_names else rng.randint(1, 3)
    comps = [f"c{i}" for i in range(ncomp)]
    used = set()
    cur = [None]

    def nm(pool):
        if local_names:
            pool = pool[:3]
        for _ in range(50):
            n = rng.choice(pool)
            if ((cur[0], n) if local_names else n) not in used:
                used.add((cur[0], n) if local_names else n)
                return n
        n = f"v{len(used)}"
        used.add((cur[0], n) if local_names else n)
        return n

    states, consts, inters = [], [], []   # (comp, name, ...)
    clash = rng.random() < 0.5
    for c in comps:
        cur[0] = c
        for _ in range(rng.randint(1, 2)):
            states.append((c, nm(SYMPY_CLASH if clash and rng.random() < 0.4 else PLAIN), round(rng.uniform(-2, 2), 3)))
        for _ in range(rng.randint(1, 2)):
            consts.append((c, nm(SYMPY_CLASH if clash and rng.random() < 0.4 else PLAIN[3:] if local_names else PLAIN), round(rng.uniform(0.2, 3), 3)))
    allv = [(c, n) for c, n, _ in states] + [(c, n) for c, n, _ in consts]

    def ref(c, target):
        tc, tn = target
        return tn if tc == c else f"{tc}.{tn}"

    def expr(c, depth=2, avail=None):
        avail = avail or allv
        if depth <= 0 or rng.random() < 0.2:
            return ref(c, rng.choice(avail)) if rng.random() < 0.75 else str(round(rng.uniform(0.1, 3), 2))
        k = rng.random()
        a, b = expr(c, depth - 1, avail), expr(c, depth - 1, avail)
        if k < 0.2:
            return f"({a} + {b})"
        if k < 0.35:
            return f"({a} - {b})"
        if k < 0.5:
            return f"({a} * {b})"
        if k < 0.6:
            return f"({a} / (2 + cos({b})))"
        if k < 0.68:
            return f"exp(-({a})^2)"
        if k < 0.74:
            return f"log(1 + ({a})^2)"
        if k < 0.80:
            return f"sqrt(abs({a}))"
        # operands of comparisons are kept simple: a conditional inside a condition sends Myokit's
        # own sympy writer / sympy's ITE handling into unbounded recursion (third-party, not gotranx)
        ca, cb = expr(c, 0, avail), expr(c, 0, avail)
        if k < 0.86:
            return f"if({ca} < {cb}, {a}, {b})"
        if k < 0.90:
            return f"piecewise({ca} > 1, {a}, {cb} <= 0 and {ca} >= -1, {b}, {expr(c, 0, avail)})"
        if k < 0.94:
            return f"(-{a})"
        if k < 0.97:
            return f"tanh({a})" if rng.random() < 0.5 else f"atan({a})"
        j = rng.random()
        return f"floor({a}) + ceil({b})" if j < 0.15 else (f"floor({a}) * 0.5" if j < 0.4 else f"({a})^3")

    lines = ["[[model]]", "name: generated", "# Initial values"]
    for c, n, v in states:
        lines.append(f"{c}.{n} = {v}")
    lines += ["", "[engine]", "time = 0 bind time", ""]
    for c in comps:
        lines.append(f"[{c}]")
        for cc, n, v in consts:
            if cc == c:
                lines.append(f"{n} = {v}" + (" [mV]" if rng.random() < 0.3 else ""))
        ninter = rng.randint(0, 2)
        locals_ = []
        cur[0] = c
        for k in range(ninter):
            n = nm((PLAIN[6:] if local_names else PLAIN) + (SYMPY_CLASH if clash else []))
            lines.append(f"{n} = {expr(c, 2)}")
            locals_.append((c, n))
        allv_c = allv + locals_
        for cc, n, v in states:
            if cc != c:
                continue
            if nested == "none" or rng.random() < 0.3:
                lines.append(f"dot({n}) = {expr(c, 2, allv_c)} - {n}" + (" + engine.time * 0.01" if rng.random() < 0.3 else ""))
            else:
                a_name, b_name = ("alpha", "beta") if nested == "repeated" else (f"a_{n}", f"b_{n}")
                lines.append(f"dot({n}) = {a_name} * (1 - {n}) - {b_name} * {n}")
                lines.append(f"    {a_name} = {expr(c, 1, allv_c)}")
                lines.append(f"    {b_name} = {expr(c, 1, allv_c)}")
        inters += locals_
        lines.append("")
    return "\n".join(lines) + "\n"


# names with a meaning of their own in the `.ode` language or in sympy: a Myokit variable of that name must
# keep its own value through import + save + reload
SPECIAL_NAMES = ["pi", "E", "I", "oo", "nan", "zoo", "S", "N", "Q", "O", "exp", "log", "sqrt", "floor", "abs", "Abs", "cos", "sin", "ln",
                 "t", "time", "dt", "Conditional", "Lt", "And", "Mod", "beta", "gamma", "lambda_", "states", "parameters", "values"]


def crafted_mmt(name: str, role: str) -> str:
    """a flat model in which `name` is a constant / a state / an intermediate that feeds a derivative,
    with a value that is not the value the name has as a constant or function"""
    if role == "constant":
        return ("[[model]]\nname: crafted\nc.V = -0.8\nc.w = 0.3\n\n[engine]\ntime = 0 bind time\n\n[c]\n"
                f"{name} = 3.14\ng = 0.7\ndot(V) = -g * (V - {name}) + w\ndot(w) = (V * {name} - w) / 2.5\n")
    if role == "state":
        return (f"[[model]]\nname: crafted\nc.{name} = 0.45\nc.w = 0.3\n\n[engine]\ntime = 0 bind time\n\n[c]\n"
                f"g = 0.7\ndot({name}) = -g * ({name} - 1.5) + w\ndot(w) = ({name} * 2 - w) / 2.5\n")
    return ("[[model]]\nname: crafted\nc.V = -0.8\nc.w = 0.3\n\n[engine]\ntime = 0 bind time\n\n[c]\n"
            f"g = 0.7\n{name} = g * V + 1.25\ndot(V) = -g * (V - {name}) + w\ndot(w) = (V * {name} - w) / 2.5\n")


def myokit_derivs(model, state=None, t=0.0):
    return model.evaluate_derivatives(state=state, inputs={"time": t}, ignore_errors=True)


ODE_UNITS = [("mV", "mV"), ("ms", "ms"), ("mM", "mM"), ("pA", "pA"), ("nS", "nS"), ("mS", "mS")]
RATE_UNITS = ["mV/ms", "mM/ms", "1/ms", "pA/ms", "mS"]


def gen_ode_text(rng: random.Random):
    """a hand-written .ode model with unit annotations: states and parameters declared with ScalarParam units, rate
    equations with a unit comment of their own (the unit of the *rate*, as a modeller would write it)"""
    ns = rng.randint(2, 3)
    names = rng.sample(PLAIN[:8], ns)
    su = [rng.choice(ODE_UNITS) for _ in names]
    sv = [round(rng.uniform(-2, 2), 3) for _ in names]
    pn = rng.sample(PLAIN[8:], 2)
    pu = [rng.choice(ODE_UNITS) for _ in pn]
    pv = [round(rng.uniform(0.2, 3), 3) for _ in pn]
    comp = rng.choice(["membrane", "gate"])
    lines = [f'states("{comp}", ' + ", ".join(f'{n}=ScalarParam({v}, unit="{u[0]}")' for n, u, v in zip(names, su, sv)) + ")",
             f'parameters("{comp}", ' + ", ".join(f'{n}=ScalarParam({v}, unit="{u[0]}")' for n, u, v in zip(pn, pu, pv)) + ")",
             f'expressions("{comp}")', f"i_tot = {pn[0]}*{names[0]} - {pn[1]}*{names[-1]}"]
    for k, n in enumerate(names):
        rhs = f"-i_tot + {names[(k + 1) % ns]}*{pn[k % 2]}" if k % 2 == 0 else f"({names[k - 1]} - {n})/{pn[0]}"
        cm = ["", f" # {rng.choice(RATE_UNITS)}", f" # {su[k][0]}"][rng.randrange(3) if k else 1]
        lines.append(f"d{n}_dt = {rhs}{cm}")
    return {"kind": "ode-text", "text": "\n".join(lines) + "\n", "states": {n: (v, u[1]) for n, u, v in zip(names, su, sv)},
            "params": {n: (v, u[1]) for n, u, v in zip(pn, pu, pv)}}


def c15_ode_case(ctx: Ctx, case: dict):
    """a model written in .ode text, exported to Myokit: every state and constant arrives with its value and its declared
    unit (compared with Myokit's own reading of the unit text), and Myokit's derivatives equal the generated rhs"""
    import myokit
    from gotranx.myokit import gotran_to_myokit
    ctx.case(case["text"], True, sample={"kind": "ode-text", "text": case["text"][:500]})
    try:
        ode = common.load(case["text"])
    except Exception as ex:
        ctx.count(f"ode_text_rejected/{type(ex).__name__}")
        return
    try:
        back = gotran_to_myokit(ode)
        back.validate()
    except Exception as ex:
        ctx.violate(f"C15/export-raises/{type(ex).__name__}/ode-text", f"gotran_to_myokit raised {type(ex).__name__}: {str(ex)[:100]}", case=case)
        return
    bvars = {v.name(): v for v in back.variables(deep=True)}
    binit = dict(zip([v.name() for v in back.states()], back.initial_values(as_floats=True)))
    for n, (val, unit) in case["states"].items():
        if n not in binit:
            ctx.violate("C15/export-state-missing/ode-text", f"state {n} is missing after export to Myokit", case=case)
            return
        if abs(binit[n] - val) > 1e-12 * max(1, abs(val)):
            ctx.violate("C15/export-state-value/ode-text", f"state {n}: {val} exported as {binit[n]}", case=case)
            return
        if bvars[n].unit() != myokit.parse_unit(unit):
            ctx.violate("C15/export-unit/ode-text", f"state {n} is declared in {unit!r} but the exported Myokit variable has unit {bvars[n].unit()}", case=case)
            return
    for n, (val, unit) in case["params"].items():
        if n not in bvars:
            ctx.violate("C15/export-constant-missing/ode-text", f"parameter {n} is missing after export to Myokit", case=case)
            return
        if abs(float(bvars[n].eval()) - val) > 1e-12 * max(1, abs(val)):
            ctx.violate("C15/export-constant-value/ode-text", f"parameter {n}: {val} exported as {bvars[n].eval()}", case=case)
            return
        if bvars[n].unit() != myokit.parse_unit(unit):
            ctx.violate("C15/export-unit/ode-text", f"parameter {n} is declared in {unit!r} but the exported Myokit variable has unit {bvars[n].unit()}", case=case)
            return
    try:
        code = common.py_code(ode)
        mod = common.exec_module(code)
        bd = myokit_derivs(back, None, 0.0)
        with np.errstate(all="ignore"):
            got = mod.rhs(0.0, mod.init_state_values(), mod.init_parameter_values())
        for v, w in zip(back.states(), bd):
            g = got[mod.state_index(v.name())]
            if np.isfinite(w) and not (abs(g - w) <= 1e-9 * max(1.0, abs(w))):
                ctx.violate("C15/export-derivative-differs/ode-text", f"after export to Myokit d{v.name()}/dt = {w!r}, gotranx gives {g!r}", case=case)
                return
        ctx.count("ode_text_exports_compared")
    except Exception as ex:
        ctx.count(f"export_eval_raises/{type(ex).__name__}")


def c15_case(ctx: Ctx, case: dict):
    if case.get("kind") == "ode-text":
        return c15_ode_case(ctx, case)
    import myokit
    import gotranx
    from gotranx.myokit import gotran_to_myokit, myokit_to_gotran
    kind = case["kind"]
    tag = case.get("nested", "file")
    try:
        if kind == "mmt-text":
            path = ctx.tmp / f"gen_{ctx.evaluations}.mmt"
            path.write_text(case["text"])
            model, protocol, _ = myokit.load(str(path))
        elif kind == "mmt":
            model, protocol, _ = myokit.load(case["path"])
        else:
            model = myokit.formats.cellml.CellMLImporter().model(case["path"])
            protocol = None
        model.validate()
    except Exception as ex:
        ctx.count(f"myokit_rejects/{type(ex).__name__}")
        return
    nested = any(v.is_nested() for v in model.variables(deep=True))
    ctx.case(case.get("text") or case.get("path"), True, sample={k: (v if k != "text" else v[:500]) for k, v in case.items()})
    try:
        ode = myokit_to_gotran(model, protocol=protocol)
    except Exception as ex:
        ctx.violate(f"C15/import-raises/{type(ex).__name__}/{tag}", f"myokit_to_gotran raised {type(ex).__name__}: {str(ex)[:100]}", case=case)
        return
    ref = model.clone()
    if protocol is not None:
        import myokit.lib.guess
        myokit.lib.guess.add_embedded_protocol(ref, protocol)
    ref.create_unique_names()
    reserved = gotranx.myokit.reserved_names

    def gname(v):
        n = v.uname()
        return n + "_" if n in reserved else n

    # every state with its initial value, every constant with its value, under unique names
    gs = {s.name: float(s.value) for s in ode.states}
    gp = {p.name: float(p.value) for p in ode.parameters}
    init = ref.initial_values(as_floats=True)
    for v, iv in zip(ref.states(), init):
        if gname(v) not in gs:
            ctx.violate(f"C15/state-missing/{tag}", f"state {v.qname()} is not a state of the imported model under the name {gname(v)}", case=case)
            return
        if abs(gs[gname(v)] - iv) > 1e-12 * max(1, abs(iv)):
            ctx.violate(f"C15/state-value/{tag}", f"state {v.qname()} = {iv} imported as {gs[gname(v)]}", case=case)
            return
    import myokit as _mk
    gi = {a.name for a in ode.intermediates}
    for v in ref.variables(const=True, deep=True):
        if v.is_literal() and gname(v) != "time":
            if not isinstance(v.rhs(), _mk.Number):
                # a constant *expression* may be imported as an intermediate; its value is covered by the rhs comparison
                if gname(v) not in gp and gname(v) not in gi:
                    ctx.violate(f"C15/constant-missing/{tag}", f"constant {v.qname()} does not appear in the imported model under the name {gname(v)}", case=case)
                    return
                continue
            if gname(v) not in gp:
                ctx.violate(f"C15/constant-missing/{tag}", f"constant {v.qname()} is not a parameter of the imported model under the name {gname(v)}", case=case)
                return
            if abs(gp[gname(v)] - v.eval()) > 1e-12 * max(1, abs(v.eval())):
                ctx.violate(f"C15/constant-value/{tag}", f"constant {v.qname()} = {v.eval()} imported as {gp[gname(v)]}", case=case)
                return
    if len(set(gs) | set(gp)) != len(gs) + len(gp):
        ctx.violate(f"C15/names-not-unique/{tag}", "a state and a parameter share a name after import", case=case)
        return
    # the documented save-and-reload step, then the generated rhs against Myokit's own evaluation
    path = ctx.tmp / f"imported_{ctx.evaluations}.ode"
    try:
        ode.save(path)
        ode2 = gotranx.load_ode(path)
    except Exception as ex:
        import re as _re
        cls = "nested" if nested else "flat"
        try:
            saved = path.read_text()
            known_fns = {"cos", "tan", "sin", "acos", "atan", "asin", "log", "ln", "sqrt", "exp", "Abs", "abs", "floor", "Mod", "ContinuousConditional",
                         "Conditional", "Lt", "Gt", "Le", "Ge", "And", "Or", "Eq", "Not", "states", "parameters", "expressions", "component", "ScalarParam"}
            bad = sorted({m for m in _re.findall(r"\b([A-Za-z_]\w*)\(", saved) if m not in known_fns})
            if bad and type(ex).__name__ != "MissingSymbolError":
                cls = "unsupported-function:" + bad[0]
        except Exception:
            pass
        ctx.violate(f"C15/reload-fails/{type(ex).__name__}/{cls}",
                    f"the imported model cannot be saved and reloaded: {type(ex).__name__}: {str(ex)[:100]}", case=case)
        return
    try:
        mod = common.exec_module(common.py_code(ode2))
    except Exception as ex:
        import re as _re2
        m_ = _re2.search(r"Unsupported by <class '[^']*'>: (\w+)", str(ex))
        ctx.violate(f"C15/codegen-raises/{type(ex).__name__}/" + ("nested" if nested else "flat") + (f"/{m_.group(1)}" if m_ else ""),
                    f"code generation for the imported model raised {type(ex).__name__}: {str(ex)[:100]}", case=case)
        return
    p = mod.init_parameter_values()
    rng = ctx.rng
    base = np.array(init, dtype=float)
    for k in range(ctx.n(3, 6)):
        st = base if k == 0 else base * (1 + 0.05 * np.array([rng.uniform(-1, 1) for _ in base])) + 0.01 * np.array([rng.uniform(-1, 1) for _ in base])
        t = 0.0 if k == 0 else rng.uniform(0, 5)
        try:
            want = myokit_derivs(ref, list(st), t)
        except Exception as ex:
            ctx.count(f"myokit_eval_raises/{type(ex).__name__}")
            continue
        s = np.zeros(len(st))
        for v, val in zip(ref.states(), st):
            s[mod.state_index(gname(v))] = val
        with np.errstate(all="ignore"):
            got = mod.rhs(t, s, p)
        ctx.count("points")
        want = np.asarray(want, dtype=float)
        scale = float(np.max(np.abs(want[np.isfinite(want)]))) if np.isfinite(want).any() else 1.0
        for v, w in zip(ref.states(), want):
            g = got[mod.state_index(gname(v))]
            if not np.isfinite(w):
                continue
            if not (np.isfinite(g) and abs(g - w) <= 1e-7 * max(1.0, abs(w), scale)):
                ctx.violate(f"C15/derivative-differs/" + ("nested" if nested else "flat"),
                            f"d{gname(v)}/dt = {g!r} from the generated rhs but Myokit evaluates {w!r} ({v.qname()}, point {k})", case=case)
                return
    # back to Myokit: values and units survive
    try:
        back = gotran_to_myokit(ode2)
        back.validate()
    except Exception as ex:
        ctx.violate(f"C15/export-raises/{type(ex).__name__}/{tag}", f"gotran_to_myokit raised {type(ex).__name__}: {str(ex)[:100]}", case=case)
        return
    bst = {v.name(): v for v in back.states()}
    binit = dict(zip([v.name() for v in back.states()], back.initial_values(as_floats=True)))
    for s_ in ode2.states:
        if s_.name not in bst:
            ctx.violate(f"C15/export-state-missing/{tag}", f"state {s_.name} is missing after export to Myokit", case=case)
            return
        if abs(binit[s_.name] - float(s_.value)) > 1e-12 * max(1, abs(float(s_.value))):
            ctx.violate(f"C15/export-state-value/{tag}", f"state {s_.name}: {float(s_.value)} exported as {binit[s_.name]}", case=case)
            return
        if s_.unit_str and str(bst[s_.name].unit()).strip("[]").replace("^", "**") != s_.unit_str and bst[s_.name].unit() is None:
            ctx.violate(f"C15/export-unit/{tag}", f"state {s_.name}: unit {s_.unit_str!r} lost on export", case=case)
            return
    try:
        bd = myokit_derivs(back, None, 0.0)
        s = mod.init_state_values()
        with np.errstate(all="ignore"):
            got = mod.rhs(0.0, s, p)
        for v, w in zip(back.states(), bd):
            g = got[mod.state_index(v.name())]
            if np.isfinite(w) and not (abs(g - w) <= 1e-7 * max(1.0, abs(w))):
                ctx.violate(f"C15/export-derivative-differs/{tag}", f"after export to Myokit d{v.name()}/dt = {w!r}, gotranx gives {g!r}", case=case)
                return
    except Exception as ex:
        ctx.count(f"export_eval_raises/{type(ex).__name__}")


def c15_run(ctx: Ctx):
    repo = common.REPO
    files = [("cellml", repo / "tests" / "cellml_files" / "noble_1962.cellml"), ("mmt", repo / "tests" / "mmt_files" / "example.mmt")]
    if ctx.thorough:
        files.append(("cellml", repo / "tests" / "cellml_files" / "ToRORd_dynCl_mid.cellml"))
    for kind, f in files:
        if f.exists():
            with common.time_limit(ctx, 240):
                c15_case(ctx, {"kind": kind, "path": str(f)})
    # crafted: names that mean something else in the .ode language / in sympy, in each role
    special = [(n, r) for n in SPECIAL_NAMES for r in ("constant", "state", "intermediate")]
    ctx.rng.shuffle(special)
    first = [(n, "constant") for n in ("pi", "E", "exp", "time", "beta")]
    for n, r in first + special[:ctx.n(10, len(special))]:
        with common.time_limit(ctx, 60):
            c15_case(ctx, {"kind": "mmt-text", "text": crafted_mmt(n, r), "nested": "none", "special": f"{n}/{r}"})
    # the variable bound to time under other names, used explicitly by a derivative
    for tn in ["time", "t", "clock", "T"][:ctx.n(3, 4)]:
        text = ("[[model]]\nname: crafted\nc.V = -0.8\nc.w = 0.3\n\n[engine]\n%s = 0 bind time\n\n[c]\ng = 0.7\n"
                "dot(V) = -g * (V - 1.5) + w + engine.%s * 0.25\ndot(w) = (V * 2 - w) / 2.5\n") % (tn, tn)
        with common.time_limit(ctx, 60):
            c15_case(ctx, {"kind": "mmt-text", "text": text, "nested": "none", "special": f"timevar/{tn}"})
    # models written in .ode text, exported to Myokit
    for k in range(ctx.n(6, 60)):
        with common.time_limit(ctx, 60):
            c15_case(ctx, gen_ode_text(ctx.rng))
    for k in range(ctx.n(14, 200)):
        nested = ["none", "none", "unique", "repeated"][k % 4]
        text = gen_mmt(ctx.rng, nested, local_names=(k % 4 == 1))
        with common.time_limit(ctx, 60):
            c15_case(ctx, {"kind": "mmt-text", "text": text, "nested": nested})
        if ctx.elapsed() > (1500 if ctx.thorough else 160):
            break
