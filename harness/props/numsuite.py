"""C04, C05, C06, C07, C12 on the Python backends: slots, Euler, Rush–Larsen, hybrid, unused removal."""
from __future__ import annotations

import itertools
import json
import re

import numpy as np

from .. import common, gen, oracle, sexp, translate
from ..common import Ctx, Scheme

EULER_ALIASES = ["forward_euler", "forward_explicit_euler", "euler", "explicit_euler"]
GRL_ALIASES = ["forward_generalized_rush_larsen", "generalized_rush_larsen"]
HYBRID_ALIASES = ["forward_rush_larsen", "rush_larsen", "hybrid_rush_larsen"]


def points_for(ctx: Ctx, rm: oracle.RefModel, n: int, dts=(0.0, 1e-3, 0.1, -0.05, 1e-300, 1e6)):
    g = gen.GModel(comps=[""])
    g.states = {k: (None, "") for k in rm.states}
    g.params = {k: (None, "") for k in rm.params}
    pts = gen.gen_inputs(ctx.rng, g, n)
    for i, p in enumerate(pts):
        p["dt"] = float(dts[i % len(dts)])
        for mv in rm.missing():
            p[mv] = ctx.rng.uniform(-2, 2)
    return pts


def ulp_close(a, b, scale, k=4):
    a = float(a)
    b = float(b)
    if a == b or (a != a and b != b):
        return True
    if not (np.isfinite(a) and np.isfinite(b)):
        return False
    return abs(a - b) <= k * np.spacing(max(abs(a), abs(b), abs(scale)))


def codegen_scheme(ode, alias, backend="numpy", order=None, **kw):
    """`codegen.scheme(get_scheme(alias))` — the path that accepts every alias"""
    import gotranx
    from gotranx.codegen.python import Format
    from gotranx.schemes import get_scheme
    import warnings
    cls = gotranx.codegen.PythonCodeGenerator if backend == "numpy" else gotranx.codegen.JaxCodeGenerator
    remove_unused = kw.pop("remove_unused", False)
    cg = cls(ode, format=Format.none, remove_unused=remove_unused)
    with warnings.catch_warnings():
        warnings.simplefilter("ignore")
        f = get_scheme(alias)
    if order is None:
        return cg.scheme(f, **kw)
    return cg.scheme(f, order=order, **kw)


def body_of(code: str, fname: str) -> str:
    """function text without its `def` line (for 'identical apart from the name / formals')"""
    m = re.search(rf"^def {re.escape(fname)}\((.*?)\):\n(.*?)(?=^\S|\Z)", code, re.S | re.M)
    return m.group(2).rstrip() if m else ""


# ================================================================== C05
def c05_case(ctx: Ctx, case: dict):
    text = case["text"]
    b = oracle.build_py(ctx, text, "C05", scheme=[Scheme.explicit_euler, Scheme.forward_explicit_euler])
    if b is None:
        return
    rm = b.rm
    # two accepted names requested together: both must be emitted, with the same body
    if "explicit_euler" not in b.funcs or "forward_explicit_euler" not in b.funcs:
        ctx.violate("C05/numpy/alias-missing-in-module",
                    f"get_code(scheme=[explicit_euler, forward_explicit_euler]) emitted {sorted(k for k in b.funcs if 'euler' in k)}", case={"text": text})
        return
    if body_of(b.code, "explicit_euler") != body_of(b.code, "forward_explicit_euler"):
        ctx.violate("C05/numpy/alias-bodies-differ", "explicit_euler and forward_explicit_euler differ within one module", case={"text": text})
    ctx.case(text, len(rm.states) >= 2 or len(rm.inters) >= 1, sample={"text": text})
    lay = b.layout
    f = b.funcs.get("explicit_euler")
    if f is None:
        ctx.violate("C05/numpy/no-euler", "no explicit_euler function generated", case={"text": text})
        return
    if not any("UNTRANSLATABLE" in o for o in f.other):
        v = oracle.validate(ctx, text, "scheme", lay, f.stmts)
        ctx.count("validated")
        if not v.get("verdict"):
            ctx.broke("validator", "checkScheme(euler)", json.dumps({"text": text, "verdict": v}))
    # every accepted name generates the same body
    bodies = {}
    for alias in EULER_ALIASES:
        try:
            c = codegen_scheme(b.ode, alias)
        except Exception as ex:
            ctx.violate(f"C05/numpy/alias-raises/{alias}", f"scheme name {alias!r} raised {type(ex).__name__}: {ex}", case={"text": text})
            continue
        if f"def {alias}(" not in c:
            ctx.violate(f"C05/numpy/alias-name/{alias}", f"scheme requested as {alias!r} is not emitted under that name", case={"text": text}, code=c)
        bodies[alias] = body_of(c, alias)
    if len(set(bodies.values())) > 1:
        ctx.violate("C05/numpy/alias-bodies-differ", "the accepted names of explicit Euler generate different bodies", case={"text": text})
    assigns, order, step = oracle.scheme_reference(rm, {}, "euler", None)
    pts = case.get("points") or points_for(ctx, rm, ctx.n(6, 8))
    for pi, pt in enumerate(pts):
        base = rm.base(pt)
        us = oracle.usable_ref(assigns, order, base, ctx.seed * 1000 + pi)
        if us is None:
            ctx.count("points_undefined_or_unstable")
            continue
        exact, spread = us
        s, p, mv = oracle.arrays_for(pt, lay)
        s0, p0 = s.copy(), p.copy()
        try:
            out = oracle.call_py(b.mod.explicit_euler, "stdp", states=s, t=pt["t"], dt=pt["dt"], parameters=p, missing=mv)
            r = oracle.call_py(b.mod.rhs, "tsp", states=s, t=pt["t"], parameters=p, missing=mv)
        except Exception as ex:
            ctx.violate(f"C05/numpy/raises/{type(ex).__name__}", f"explicit_euler raised {type(ex).__name__}: {str(ex)[:100]}", case={"text": text, "points": [pt]})
            return
        ctx.count("points")
        if not (np.array_equal(s, s0) and np.array_equal(p, p0)):
            ctx.violate("C05/numpy/modifies-inputs", "explicit_euler modified its input arrays", case={"text": text, "points": [pt]})
            return
        if len(out) != len(lay["state"]):
            ctx.violate("C05/numpy/length", f"explicit_euler returned {len(out)} entries for {len(lay['state'])} states", case={"text": text, "points": [pt]})
            return
        # (a) against the module's own rhs: states + dt*rhs
        for i, name in enumerate(lay["state"]):
            want = s[i] + pt["dt"] * r[i]
            if not ulp_close(out[i], want, s[i]):
                ctx.violate("C05/numpy/not-states-plus-dt-rhs",
                            f"explicit_euler[{i}] ({name}) = {out[i]!r} but states + dt*rhs = {want!r} (dt={pt['dt']})",
                            case={"text": text, "points": [pt]})
                return
            if pt["dt"] == 0.0 and np.isfinite(r[i]) and out[i] != s[i]:
                ctx.violate("C05/numpy/dt-zero", f"with dt = 0 explicit_euler[{i}] = {out[i]!r} differs from the input state {s[i]!r}", case={"text": text, "points": [pt]})
                return
        # (b) against the reference meaning
        slots = {step[sn]: i for i, sn in enumerate(lay["state"])}
        ok, skip, bad = oracle.compare_outputs(out, exact, slots, spread, "euler")
        ctx.count("values_ok", ok)
        ctx.count("values_skipped", skip)
        if bad:
            conf = oracle.confirm_values(ctx, b, "explicit_euler", "stdp", bad, slots, spread, states=s, t=pt["t"], dt=pt["dt"], parameters=p, missing=mv)
            for (name, got, ref, c) in conf:
                ctx.violate("C05/numpy/value", f"explicit_euler slot {slots[name]} = {oracle.fmt(got)} but states + dt*(model derivative) = {oracle.fmt(ref)}",
                            case={"text": text, "points": [pt]})
            if conf:
                return


# ================================================================== C06
def c06_case(ctx: Ctx, case: dict):
    text = case["text"]
    delta = case.get("delta", 1e-8)
    alias = case.get("alias") or ctx.rng.choice(["generalized_rush_larsen", "generalized_rush_larsen", "forward_generalized_rush_larsen"])
    case = {**case, "alias": alias}
    b = oracle.build_py(ctx, text, "C06", scheme=[Scheme(alias)], delta=delta)
    if b is None:
        return
    rm = b.rm
    lay = b.layout
    lin = oracle.lean_diff(ctx, text)
    if lin is None:
        ctx.broke("correspondence", "Lean diff", text)
        return
    nontriv = any(not (e[0] == "num" and e[1] == 0) for e in lin.values())
    ctx.case(text + repr(delta), nontriv, sample={"text": text, "delta": delta, "g": {d: str(e)[:80] for d, e in lin.items()}})
    f = b.funcs.get(alias)
    if f is None:
        ctx.violate("C06/numpy/no-grl", f"no {alias} function generated", case=case)
        return
    if not any("UNTRANSLATABLE" in o for o in f.other):
        v = oracle.validate(ctx, text, "scheme", lay, f.stmts)
        ctx.count("validated")
        if not v.get("verdict"):
            ctx.broke("validator", "checkScheme(grl)", json.dumps({"text": text, "verdict": v}))
    # one generator object asked for the scheme twice with different tolerances: the second answer is the answer a fresh
    # generator gives for that tolerance (an option must be honoured on every request, not only on the first)
    try:
        import gotranx
        import warnings
        from gotranx.codegen.python import Format as _PF
        from gotranx.schemes import get_scheme as _gs
        with warnings.catch_warnings():
            warnings.simplefilter("ignore")
            fsch = _gs(alias)
        other = 0.5 if delta != 0.5 else 1e-8
        cg = gotranx.codegen.PythonCodeGenerator(b.ode, format=_PF.none)
        cg.scheme(fsch, delta=other)
        second = cg.scheme(fsch, delta=delta)
        fresh = gotranx.codegen.PythonCodeGenerator(b.ode, format=_PF.none).scheme(fsch, delta=delta)
        ctx.count("repeat_requests")
        if second != fresh:
            ctx.violate("C06/numpy/delta-not-honoured-on-repeat",
                        f"{alias} requested with delta={other} and then with delta={delta} from one generator: the second text is not the text for delta={delta}",
                        case=case)
            return
    except Exception as ex:
        ctx.count(f"repeat_request_raises/{type(ex).__name__}")
    assigns, order, step = oracle.scheme_reference(rm, lin, "grl", delta)
    pts = case.get("points") or points_for(ctx, rm, ctx.n(6, 8), dts=(1e-3, 0.1, 0.0, -0.05, 1.0, 1e-6))
    # the emitted linearisation must be the partial derivative w.r.t. the own state (by value)
    lin_defs = {st[1]: st[2] for st in f.stmts if st[0] == "D" and st[1].endswith("_linearized")}
    for pi, pt in enumerate(pts):
        base = rm.base(pt)
        us = oracle.usable_ref(assigns, order, base, ctx.seed * 1000 + pi)
        if us is None:
            ctx.count("points_undefined_or_unstable")
            continue
        exact, spread = us
        # stay away from |g| == delta
        near = False
        for d in rm.derivs:
            gname = f"__g_{d}"
            if gname in exact:
                gv = abs(exact[gname])
                if abs(gv - common.mpf(delta)) <= 64 * spread[gname] + common.mpf(delta) * common.mpf("1e-9"):
                    # ... unless the linearisation is exact there (a parameter, a multiple of a state that is 0): then
                    # `|g| > delta` has one answer, also at |g| == delta (with delta = 0: g == 0, the division the guard is for)
                    if not (spread[gname] == 0 and gv == common.mpf(delta)):
                        near = True
        if near:
            ctx.count("points_near_delta")
            continue
        s, p, mv = oracle.arrays_for(pt, lay)
        try:
            out = oracle.call_py(getattr(b.mod, alias), "stdp", states=s, t=pt["t"], dt=pt["dt"], parameters=p, missing=mv)
        except Exception as ex:
            ctx.violate(f"C06/numpy/raises/{type(ex).__name__}", f"generalized_rush_larsen raised {type(ex).__name__}: {str(ex)[:100]}", case={**case, "points": [pt]})
            return
        ctx.count("points")
        hp = sexp.HP()
        for dn, e1 in lin_defs.items():
            d = dn[: -len("_linearized")]
            gname = f"__g_{d}"
            if gname not in exact:
                continue
            try:
                v1 = hp.ev(e1, exact)
            except sexp.Unbound:
                continue
            ref = exact[gname]
            if common.mpmath.isfinite(v1) and common.mpmath.isfinite(ref):
                ctx.count("linearisation_compared")
                if abs(v1 - ref) > 256 * spread[gname] + common.mpf(2) ** -40 * abs(ref) + common.mpf("1e-300"):
                    ctx.violate("C06/numpy/linearisation",
                                f"{dn} evaluates to {oracle.fmt(v1)} but d({d})/d(own state) = {oracle.fmt(ref)}",
                                case={**case, "points": [pt]})
                    return
        slots = {step[sn]: i for i, sn in enumerate(lay["state"])}
        ok, skip, bad = oracle.compare_outputs(out, exact, slots, spread, "grl")
        ctx.count("values_ok", ok)
        ctx.count("values_skipped", skip)
        if bad:
            conf = oracle.confirm_values(ctx, b, alias, "stdp", bad, slots, spread, states=s, t=pt["t"], dt=pt["dt"], parameters=p, missing=mv)
            for (name, got, ref, c) in conf:
                sn = name[len("__step_"):]
                d = rm.deriv_of(sn)
                gv = exact.get(f"__g_{d}")
                guard = "guarded" if re.search(rf"values\[{slots[name]}\] = .*where", b.code) else "unguarded"
                branch = "euler-branch" if gv is not None and abs(gv) <= common.mpf(delta) else "rl-branch"
                # is the rate itself already not a number in the module's own rhs?  Then the step inherits it and the scheme
                # is not the cause (recorded finding: sympy pulls a 0/1 factor out of sqrt(...), sqrt(Ge(a, b)*x) -> sqrt(x)*[a >= b])
                try:
                    with np.errstate(all="ignore"):
                        r_own = np.asarray(oracle.call_py(b.mod.rhs, "tsp", states=s, t=pt["t"], parameters=p, missing=mv), dtype=float)
                    rate_nan = bool(np.isnan(got)) and bool(np.isnan(r_own[slots[name]]))
                except Exception:
                    rate_nan = False
                if rate_nan:
                    ctx.violate("C06/numpy/value/rate-not-a-number", f"generalized_rush_larsen slot {slots[name]} ({sn}) = nan because the module's own rhs is nan there; "
                                f"the model text defines a finite rate (step {oracle.fmt(ref)})", case={**case, "points": [pt]})
                    continue
                ctx.violate(f"C06/numpy/value/{branch}/{guard}",
                            f"generalized_rush_larsen slot {slots[name]} ({sn}) = {oracle.fmt(got)} but the guarded exponential formula gives {oracle.fmt(ref)} "
                            f"(g = {oracle.fmt(gv) if gv is not None else 'identically 0'}, delta = {delta}, dt = {pt['dt']})",
                            case={**case, "points": [pt]})
            if conf:
                return


def c06_family(ctx: Ctx):
    """rate expressions whose g is exactly controllable"""
    rng = ctx.rng
    # first, deterministically: a non-default delta with |g| between the default and that delta, under every accepted name
    fixed = getattr(ctx, "_c06_fixed", 0)
    if fixed == 2:
        # delta = 0 is legal: the guard then is `g != 0`, and g == 0 exactly must give the Euler step, not 0/0
        ctx._c06_fixed = 3
        pts = [{"x": 1.3, "y": yv, "a": ga, "b": 0.9, "t": 0.0, "dt": dt_} for ga in (0.0, 1e-3) for yv in (0.0, -0.8) for dt_ in (1.0, 1e-3)]
        return {"text": "states(x=1, y=2)\nparameters(a=0.001, b=0.9)\ndx_dt = a*x + b*y\ndy_dt = -y*y\n", "delta": 0.0, "points": pts,
                "alias": "generalized_rush_larsen"}
    if fixed < 2:
        ctx._c06_fixed = fixed + 1
        alias = ["generalized_rush_larsen", "forward_generalized_rush_larsen"][fixed]
        pts = [{"x": 1.3, "y": -0.8, "a": ga, "b": 0.9, "t": 0.0, "dt": dt_} for ga in (1e-3, -2e-2, 0.3) for dt_ in (1.0, 1e-3)]
        return {"text": "states(x=1, y=2)\nparameters(a=0.001, b=0.9)\ndx_dt = a*x + b*y\ndy_dt = -y\n", "delta": 0.5, "points": pts, "alias": alias}
    k = rng.choice(["affine", "log", "inv", "quad", "expo", "zero", "cond", "condzero", "condconst", "nested"])
    c = round(rng.uniform(0.2, 3), 3)
    if k == "affine":
        a = rng.choice([1e-9, 5e-9, 2e-8, 1e-8 * 1.5, -3e-9, -0.7, 2.5, 1e-3])
        text = f"states(x=1, y=2)\nparameters(a={a!r}, b={c})\ndx_dt = a*x + b*y\ndy_dt = -y\n"
    elif k == "log":
        text = f"states(x=2)\nparameters(p={c})\ndx_dt = log(x) + p\n"
    elif k == "inv":
        text = f"states(x=2)\nparameters(p={c})\ndx_dt = p/x\n"
    elif k == "quad":
        text = f"states(x=2, y=1)\nparameters(p={c})\ndx_dt = p*x*x - y\ndy_dt = x - y**3\n"
    elif k == "expo":
        text = f"states(x=0.5)\nparameters(p={c})\ndx_dt = exp(-p*x) - x\n"
    elif k == "zero":
        text = f"states(x=0.5, y=1)\nparameters(p={c})\ndx_dt = p*y\ndy_dt = x + 0*y\n"
    elif k == "condzero":
        text = f"states(x=0.5)\nparameters(p={c}, lim=1)\ndx_dt = Conditional(Gt(x, lim), -p*(x - lim), 0)\n"
    elif k == "condconst":
        text = f"states(x=0.5, y=1)\nparameters(p={c})\ndx_dt = Conditional(Lt(x, 1), p*y, -p*x*x)\ndy_dt = Conditional(Ge(y, x), 1.5, exp(-y)) + x\n"
    elif k == "nested":
        text = f"states(x=0.5)\nparameters(p={c})\ndx_dt = Conditional(Gt(x, 2), -p*x, Conditional(Lt(x, 0.5), 0, p - x))\n"
    else:
        text = f"states(x=0.5)\nparameters(p={c})\ndx_dt = Conditional(Gt(x, 1), -p*x, p*sin(x))\n"
    delta = rng.choice([1e-8, 0.0, 1e-3, 0.5, 0.5, 2.0])
    pts = []
    for _ in range(4):
        mag = rng.choice([1.0, 1e-3, 1e3, 1e9, 1e17, 3.0])
        pt = {"x": float(rng.uniform(0.2, 2) * mag), "y": float(rng.uniform(-2, 2)), "p": float(c * rng.choice([1, 1e10, 1e-3])), "lim": 1.0,
              "a": float(rng.choice([1e-9, 5e-9, 2e-8, -3e-9, -0.7, 2.5])), "b": float(c), "t": 0.0,
              "dt": float(rng.choice([1.0, 0.1, 1e-3, 0.0]))}
        pts.append(pt)
    return {"text": text, "delta": delta, "points": pts, "alias": rng.choice(["generalized_rush_larsen", "forward_generalized_rush_larsen"])}


# ================================================================== C07
def c07_case(ctx: Ctx, case: dict):
    text = case["text"]
    b0 = oracle.build_py(ctx, text, "C07")
    if b0 is None:
        return
    rm = b0.rm
    states = list(rm.states)
    stiff = case.get("stiff")
    if stiff is None:
        stiff = [s for s in states if ctx.rng.random() < 0.5]
        # a stiff name that is a proper prefix of a non-stiff state's name (m / mL), and vice versa
        pairs = [(a, b_) for a in states for b_ in states if a != b_ and b_.startswith(a)]
        if pairs and ctx.rng.random() < 0.8:
            a, b_ = ctx.rng.choice(pairs)
            if ctx.rng.random() < 0.7:
                stiff = [s for s in stiff if s != b_] + ([a] if a not in stiff else [])
            else:
                stiff = [s for s in stiff if s != a] + ([b_] if b_ not in stiff else [])
            ctx.count("prefix_pair_cases")
        if ctx.rng.random() < 0.3:
            stiff.append(ctx.rng.choice(["not_a_state", states[0] + "_x", states[0][:-1] or "q", "d" + states[0] + "_dt"]))
    # the tolerance is an option of the hybrid scheme too: every second case uses a non-default one
    delta = case["delta"] if "delta" in case else ctx.rng.choice([1e-8, 1e-8, 0.5, 1e-3, 2.0])
    case = {**case, "delta": delta}
    schemes = [Scheme.explicit_euler, Scheme.generalized_rush_larsen, Scheme.hybrid_rush_larsen]
    b = oracle.build_py(ctx, text, "C07", rm=rm, ode=b0.ode, on_codegen_error="skip", scheme=schemes, stiff_states=stiff, delta=delta)
    if b is None:
        return
    lay = b.layout
    ctx.case(text + repr(stiff), len(states) >= 2, sample={"text": text, "stiff": stiff})
    # syntactic: no stiff states = Euler body, all stiff = GRL body, foreign names have no effect
    try:
        hE = body_of(codegen_scheme(b.ode, "hybrid_rush_larsen", stiff_states=[], delta=delta), "hybrid_rush_larsen")
        hA = body_of(codegen_scheme(b.ode, "hybrid_rush_larsen", stiff_states=states + ["zz_foreign"], delta=delta), "hybrid_rush_larsen")
        hS = body_of(codegen_scheme(b.ode, "hybrid_rush_larsen", stiff_states=[s for s in stiff if s in states], delta=delta), "hybrid_rush_larsen")
        eu = body_of(codegen_scheme(b.ode, "explicit_euler"), "explicit_euler")
        gr = body_of(codegen_scheme(b.ode, "generalized_rush_larsen", delta=delta), "generalized_rush_larsen")
        hy = body_of(b.code, "hybrid_rush_larsen")
    except Exception as ex:
        ctx.violate(f"C07/numpy/scheme-raises/{type(ex).__name__}", f"generating a scheme raised {type(ex).__name__}: {str(ex)[:100]}", case={**case, "stiff": stiff})
        return
    if hE != eu:
        ctx.violate("C07/numpy/empty-is-not-euler", "hybrid_rush_larsen with no stiff states does not generate the explicit Euler body", case={**case, "stiff": []})
    if hA != gr:
        ctx.violate("C07/numpy/all-is-not-grl", "hybrid_rush_larsen with all states stiff does not generate the generalized Rush-Larsen body", case={**case, "stiff": states})
    if hS != hy:
        ctx.violate("C07/numpy/foreign-names-matter", "names in stiff_states that are not states change the generated hybrid scheme", case={**case, "stiff": stiff})
    pts = case.get("points") or points_for(ctx, rm, ctx.n(4, 6), dts=(1e-3, 0.1, 0.0, -0.05))
    for pt in pts:
        s, p, mv = oracle.arrays_for(pt, lay)
        try:
            e = oracle.call_py(b.mod.explicit_euler, "stdp", states=s, t=pt["t"], dt=pt["dt"], parameters=p, missing=mv)
            g = oracle.call_py(b.mod.generalized_rush_larsen, "stdp", states=s, t=pt["t"], dt=pt["dt"], parameters=p, missing=mv)
            h = oracle.call_py(b.mod.hybrid_rush_larsen, "stdp", states=s, t=pt["t"], dt=pt["dt"], parameters=p, missing=mv)
        except Exception as ex:
            ctx.count(f"exec_raises/{type(ex).__name__}")
            return
        ctx.count("points")
        for i, name in enumerate(lay["state"]):
            want = g[i] if name in stiff else e[i]
            same = (h[i] == want) or (h[i] != h[i] and want != want)
            if not same:
                ctx.violate("C07/numpy/slot-" + ("stiff" if name in stiff else "nonstiff"),
                            f"hybrid_rush_larsen[{i}] ({name}, {'stiff' if name in stiff else 'not stiff'}) = {h[i]!r} but the "
                            f"{'generalized Rush-Larsen' if name in stiff else 'explicit Euler'} update is {want!r}",
                            case={**case, "stiff": stiff, "points": [pt]})
                return


# ================================================================== C12
def c12_c_backend(ctx: Ctx, case: dict, b0, stiff, schemes):
    """the C backend: the two compiled modules (with / without removal) agree bit for bit"""
    text, rm, lay = case["text"], b0.rm, b0.layout
    try:
        c0 = common.c_code(b0.ode, scheme=schemes, stiff_states=stiff)
        c1 = common.c_code(b0.ode, scheme=schemes, stiff_states=stiff, remove_unused=True)
    except Exception as ex:
        ctx.count(f"c_codegen_failed/{type(ex).__name__}")
        return
    m0 = common.CModule(c0, ctx.tmp, f"ru0_{ctx.evaluations}")
    m1 = common.CModule(c1, ctx.tmp, f"ru1_{ctx.evaluations}")
    if not m0.ok:
        ctx.count("c_does_not_compile_without_removal")
        return
    if not m1.ok:
        errs = [ln for ln in m1.compile_log.splitlines() if "error" in ln]
        ctx.violate("C12/c/does-not-compile", f"with remove_unused the generated C does not compile: {errs[0][:120] if errs else ''}", case={"text": text, "stiff": stiff, "backend": "c"})
        return
    for nme in lay["state"]:
        if m0.index("state_index", nme) != m1.index("state_index", nme):
            ctx.violate("C12/c/layout-changes", "C state_index differs with remove_unused", case={"text": text, "backend": "c"})
            return
    pts = case.get("points") or points_for(ctx, rm, ctx.n(3, 5), dts=(1e-3, 0.1))
    n = len(lay["state"])
    for pt in pts:
        s, p, mv = oracle.arrays_for(pt, lay)
        for fn, order in (("rhs", "tsp"), ("explicit_euler", "stdp"), ("generalized_rush_larsen", "stdp"), ("hybrid_rush_larsen", "stdp")):
            r0, _ = m0.call(fn, order, n, states=s.copy(), parameters=p.copy(), t=pt["t"], dt=pt["dt"])
            r1, g1 = m1.call(fn, order, n, states=s.copy(), parameters=p.copy(), t=pt["t"], dt=pt["dt"])
            ctx.count("c_comparisons")
            if not np.array_equal(r0, r1, equal_nan=True) or not np.all(g1 == 1234.5):
                perm = sorted(map(float, r0)) == sorted(map(float, r1))
                ctx.violate(f"C12/c/{fn}/" + ("slots-permuted" if perm else "value-differs"),
                            f"C {fn} returns {list(map(float, r1))} with remove_unused but {list(map(float, r0))} without",
                            case={"text": text, "stiff": stiff, "points": [pt], "backend": "c"})
                return


def c12_case(ctx: Ctx, case: dict):
    text = case["text"]
    backend = case.get("backend", "numpy")
    pyb = "jax" if backend == "jax" else "numpy"
    schemes = [Scheme.explicit_euler, Scheme.generalized_rush_larsen, Scheme.hybrid_rush_larsen]
    b0 = oracle.build_py(ctx, text, "C12", backend=pyb, on_codegen_error="skip", scheme=schemes)
    if b0 is None:
        return
    rm = b0.rm
    stiff = case.get("stiff") or [s for s in rm.states if ctx.rng.random() < 0.5]
    b0 = oracle.build_py(ctx, text, "C12", backend=pyb, rm=rm, ode=b0.ode, on_codegen_error="skip", scheme=schemes, stiff_states=stiff)
    b1 = oracle.build_py(ctx, text, "C12", backend=pyb, rm=rm, ode=b0.ode if b0 else None, scheme=schemes, stiff_states=stiff, remove_unused=True) if b0 else None
    if b0 is None or b1 is None:
        return
    if backend == "c":
        c12_c_backend(ctx, case, b0, stiff, schemes)
    used = set(rm.mentioned)
    unused = [n for n in list(rm.states) + list(rm.params) + list(rm.inters) if n not in used]
    ctx.case(text, bool(unused), sample={"text": text, "unused": unused})
    ctx.count("models_with_unused", 1 if unused else 0)
    if b0.layout["state"] != b1.layout["state"] or b0.layout["param"] != b1.layout["param"]:
        ctx.violate("C12/numpy/layout-changes", "state/parameter slot layout differs with remove_unused", case={"text": text})
        return
    f1 = b1.funcs.get("rhs")
    if f1 is not None and not any("UNTRANSLATABLE" in o for o in f1.other):
        v = oracle.validate(ctx, text, "rhs", b1.layout, f1.stmts)
        ctx.count("validated")
        if not v.get("verdict"):
            ctx.broke("validator", "checkRhs(remove_unused)", json.dumps({"text": text, "verdict": v}))
    for fn in ("explicit_euler", "generalized_rush_larsen", "hybrid_rush_larsen"):
        f = b1.funcs.get(fn)
        if f is not None and not any("UNTRANSLATABLE" in o for o in f.other):
            v = oracle.validate(ctx, text, "scheme", b1.layout, f.stmts)
            ctx.count("validated")
            if not v.get("verdict"):
                ctx.broke("validator", f"checkScheme({fn}, remove_unused)", json.dumps({"text": text, "verdict": v}))
    pts = case.get("points") or points_for(ctx, rm, ctx.n(4, 6), dts=(1e-3, 0.1, -0.05))
    lay = b0.layout
    for pt in pts:
        s, p, mv = oracle.arrays_for(pt, lay)
        for fn, order in (("rhs", "tsp"), ("explicit_euler", "stdp"), ("generalized_rush_larsen", "stdp"), ("hybrid_rush_larsen", "stdp")):
            kw = dict(states=s, t=pt["t"], dt=pt["dt"], parameters=p, missing=mv)
            try:
                r0 = np.asarray(oracle.call_py(getattr(b0.mod, fn), order, **kw))
            except Exception:
                ctx.count("exec_raises_without_removal")
                continue
            try:
                r1 = np.asarray(oracle.call_py(getattr(b1.mod, fn), order, **kw))
            except Exception as ex:
                ctx.violate(f"C12/{pyb}/{fn}/raises/{type(ex).__name__}",
                            f"with remove_unused the generated {fn} raised {type(ex).__name__}: {str(ex)[:100]}", case={"text": text, "stiff": stiff, "points": [pt]})
                return
            ctx.count("comparisons")
            if len(r0) != len(r1):
                ctx.violate(f"C12/{pyb}/{fn}/length", f"{fn} returns {len(r1)} entries with remove_unused, {len(r0)} without", case={"text": text, "stiff": stiff, "points": [pt]})
                return
            if not np.array_equal(r0, r1, equal_nan=True):
                i = int(np.flatnonzero(~((r0 == r1) | ((r0 != r0) & (r1 != r1))))[0])
                perm = sorted(map(float, r0)) == sorted(map(float, r1))
                ctx.violate(f"C12/{pyb}/{fn}/" + ("slots-permuted" if perm else "value-differs"),
                            f"{fn}[{i}] = {r1[i]!r} with remove_unused but {r0[i]!r} without"
                            + (" (the same values in other slots)" if perm else ""),
                            case={"text": text, "stiff": stiff, "points": [pt], "backend": backend})
                return


def c05_run(ctx: Ctx):
    """as make_run(c05_case …); every third model is followed, in the same process, by a sibling with the same
    model name, state and parameter names but other equations (whatever an earlier call may have remembered
    about "this" model must not leak into the next one)"""
    n = ctx.n(40, 1500)
    for k in range(n):
        m = gen.gen_model(ctx.rng, scheme_cfg(ctx, k))
        cases = [{"text": m.text(ctx.rng)}]
        if k % 3 == 0:
            cases.append({"text": gen.sibling(m, ctx.rng).text(ctx.rng), "sibling": True})
            ctx.count("siblings")
        elif k % 3 == 1:
            # ... or by the same model after a refactoring of its intermediates (identical derivative lines)
            cases.append({"text": gen.refactored(m, ctx.rng).text(ctx.rng), "sibling": True})
            ctx.count("refactored_siblings")
        else:
            # ... or after an edit of right-hand sides that keeps names and the names each line reads
            cases.append({"text": gen.edited(m, ctx.rng).text(ctx.rng), "sibling": True})
            ctx.count("edited_siblings")
        for case in cases:
            with common.time_limit(ctx, 40):
                c05_case(ctx, case)
        if ctx.elapsed() > (1500 if ctx.thorough else 150):
            ctx.notes.append(f"time budget reached after {k + 1} cases")
            break


def c12_run(ctx: Ctx):
    """NumPy on most cases, the C backend on every fourth, JAX on every fifth (small models)"""
    n = ctx.n(30, 1200)
    for k in range(n):
        cfg = unused_cfg(ctx, k)
        backend = "numpy"
        if k % 4 == 3:
            backend = "c"
        elif k % 5 == 2:
            backend = "jax"
            cfg.max_inters, cfg.max_states = 5, 4
            cfg.expr = gen.ExprCfg(p_cond=0.05, p_ccond=0.0, p_floor=0.0, p_mod=0.0)
        m = gen.gen_model(ctx.rng, cfg)
        with common.time_limit(ctx, 120 if backend == "jax" else 40):
            c12_case(ctx, {"text": m.text(ctx.rng), "backend": backend})
        if ctx.elapsed() > (1500 if ctx.thorough else 150):
            ctx.notes.append(f"time budget reached after {k + 1} cases")
            break


# ================================================================== C04
def c04_case(ctx: Ctx, case: dict):
    text = case["text"]
    backend = case.get("backend", "numpy")
    ru = bool(case.get("remove_unused", False))
    b = oracle.build_py(ctx, text, "C04", backend=backend, on_codegen_error="skip", scheme=[Scheme.explicit_euler, Scheme.generalized_rush_larsen],
                        **({"remove_unused": True} if ru else {}))
    if b is None:
        return
    rm, lay, mod = b.rm, b.layout, b.mod
    ctx.case(text + backend + str(ru), len(rm.states) >= 2 and len(rm.inters) >= 1, sample={"text": text, "backend": backend, "remove_unused": ru})
    r = ctx.lean().call({"op": "validate", "text": text, "kind": "rhs", "layout": lay, "prog": []})
    if not r.get("layout_ok"):
        ctx.violate(f"C04/{backend}/layout", "index maps do not enumerate exactly the declared states / parameters / monitored names",
                    case=case, layout=lay)
        return
    # index functions: injective onto 0..n-1 (by construction of `lay`), refuse unknown names
    for fn, names in (("state_index", lay["state"]), ("parameter_index", lay["param"]), ("monitor_index", lay["monitor"])):
        for i, nme in enumerate(names):
            if getattr(mod, fn)(nme) != i:
                ctx.violate(f"C04/{backend}/{fn}", f"{fn}({nme!r}) != {i}", case=case)
                return
        try:
            getattr(mod, fn)("no_such_name__")
            ctx.violate(f"C04/{backend}/{fn}/accepts-unknown", f"{fn} accepts an unknown name", case=case)
        except KeyError:
            pass
        except Exception as ex:
            ctx.violate(f"C04/{backend}/{fn}/unknown-raises-{type(ex).__name__}", f"{fn} on an unknown name raised {type(ex).__name__}", case=case)
    # initial values: defaults and overrides in exactly the reported slot
    hp = sexp.HP()
    for fn, names, table in (("init_state_values", lay["state"], rm.states), ("init_parameter_values", lay["param"], rm.params)):
        try:
            arr = np.asarray(getattr(mod, fn)())
        except Exception as ex:
            ctx.violate(f"C04/{backend}/{fn}/raises", f"{fn}() raised {type(ex).__name__}: {str(ex)[:80]}", case=case)
            continue
        if arr.shape != (len(names),):
            ctx.violate(f"C04/{backend}/{fn}/length", f"{fn}() has shape {arr.shape}, expected ({len(names)},)", case=case)
            continue
        for i, nme in enumerate(names):
            ref = hp.ev(table[nme], {})
            if sexp.agrees(arr[i], ref, abs(ref) * sexp.U * 4) == "bad":
                ctx.violate(f"C04/{backend}/{fn}/default", f"{fn}()[{i}] = {arr[i]!r} but {nme} is declared as {oracle.fmt(ref)}", case=case)
                break
        if names:
            k = ctx.rng.randrange(len(names))
            val = 12345.678
            try:
                arr2 = np.asarray(getattr(mod, fn)(**{names[k]: val}))
                exp = arr.copy()
                exp[k] = val
                if not np.array_equal(arr2, exp):
                    ctx.violate(f"C04/{backend}/{fn}/override", f"{fn}({names[k]}=…) does not change exactly slot {k}", case=case)
            except Exception as ex:
                ctx.violate(f"C04/{backend}/{fn}/override-raises", f"{fn}({names[k]}=…) raised {type(ex).__name__}", case=case)
            try:
                getattr(mod, fn)(no_such_name__=1.0)
                ctx.violate(f"C04/{backend}/{fn}/accepts-unknown", f"{fn} accepts an unknown keyword", case=case)
            except KeyError:
                pass
            except Exception as ex:
                ctx.violate(f"C04/{backend}/{fn}/unknown-raises-{type(ex).__name__}", f"{fn} with an unknown keyword raised {type(ex).__name__}", case=case)
    # validators: rhs / monitor / schemes write into the slots the index functions report
    for fn, kind in (("rhs", "rhs"), ("monitor_values", "monitor"), ("explicit_euler", "scheme"), ("generalized_rush_larsen", "scheme")):
        f = b.funcs.get(fn)
        if f is None:
            ctx.violate(f"C04/{backend}/missing-{fn}", f"no {fn} generated", case=case)
            continue
        if any("UNTRANSLATABLE" in o for o in f.other):
            ctx.count("untranslatable")
            continue
        v = oracle.validate(ctx, text, kind, lay, f.stmts)
        ctx.count("validated")
        if not v.get("verdict"):
            ctx.broke("validator", f"check({fn})", json.dumps({"text": text, "verdict": v}))
    # numeric: result for X in slot state_index(X); every monitored name in slot monitor_index(name)
    pts = case.get("points") or points_for(ctx, rm, ctx.n(2, 4))
    for pi, pt in enumerate(pts):
        us = rm.usable(pt, ctx.seed * 1000 + pi)
        if us is None:
            continue
        exact, spread = us
        s, p, mv = oracle.arrays_for(pt, lay)
        try:
            mon = np.asarray(oracle.call_py(mod.monitor_values, "tsp", states=s, t=pt["t"], parameters=p, missing=mv))
            rhs = np.asarray(oracle.call_py(mod.rhs, "tsp", states=s, t=pt["t"], parameters=p, missing=mv))
        except Exception as ex:
            ctx.violate(f"C04/{backend}/exec-raises/{type(ex).__name__}", f"rhs / monitor_values raised {type(ex).__name__}: {str(ex)[:100]}", case={**case, "points": [pt]})
            return
        if mon.shape[0] != len(lay["monitor"]) or rhs.shape[0] != len(lay["state"]):
            ctx.violate(f"C04/{backend}/array-length", f"rhs returns {rhs.shape[0]} / monitor_values {mon.shape[0]} entries; "
                        f"{len(lay['state'])} states and {len(lay['monitor'])} monitored names are declared", case={**case, "points": [pt]})
            return
        # a step of size zero gives the states back, slot by slot: the schemes read X from and write X into slot state_index(X)
        if np.all(np.isfinite(rhs)):
            for sch_fn in ("explicit_euler", "generalized_rush_larsen"):
                try:
                    z = np.asarray(oracle.call_py(getattr(mod, sch_fn), "stdp", states=s, t=pt["t"], dt=0.0, parameters=p, missing=mv), dtype=float)
                except Exception:
                    continue
                ctx.count("zero_steps")
                if z.shape == s.shape and np.all(np.isfinite(z)) and not np.allclose(z, s, rtol=1e-12, atol=0.0):
                    i_bad = int(np.argmax(~np.isclose(z, s, rtol=1e-12, atol=0.0)))
                    ctx.violate(f"C04/{backend}/scheme-slot", f"{sch_fn} with dt = 0 returns {z[i_bad]!r} in slot {i_bad} ({lay['state'][i_bad]}), the state there is {s[i_bad]!r}"
                                + (" (the same values in other slots)" if sorted(z.tolist()) == sorted(s.tolist()) else ""),
                                case={**case, "points": [pt]})
                    return
        slots = {nme: i for i, nme in enumerate(lay["monitor"])}
        ok, skip, bad = oracle.compare_outputs(mon, exact, slots, spread, "monitor")
        ctx.count("values_ok", ok)
        if bad:
            conf = oracle.confirm_values(ctx, b, "monitor_values", "tsp", bad, slots, spread, states=s, t=pt["t"], parameters=p, missing=mv) if backend == "numpy" else [(n, g, r_, None) for n, g, r_ in bad]
            for (name, got, ref, c) in conf:
                ctx.violate(f"C04/{backend}/monitor-slot", f"monitor_values[{slots[name]}] = {oracle.fmt(got)} but {name} = {oracle.fmt(ref)}", case={**case, "points": [pt]})
            if conf:
                return
        slots = {d: lay["state"].index(sn) for d, (sn, _) in rm.derivs.items()}
        ok, skip, bad = oracle.compare_outputs(rhs, exact, slots, spread, "rhs")
        if bad:
            conf = oracle.confirm_values(ctx, b, "rhs", "tsp", bad, slots, spread, states=s, t=pt["t"], parameters=p, missing=mv) if backend == "numpy" else [(n, g, r_, None) for n, g, r_ in bad]
            for (name, got, ref, c) in conf:
                ctx.violate(f"C04/{backend}/rhs-slot", f"rhs[{slots[name]}] = {oracle.fmt(got)} but {name} = {oracle.fmt(ref)}", case={**case, "points": [pt]})
            if conf:
                return
    # argument orders: only the formals change (all 6 + 24 orders on small models, a sample otherwise)
    full = case.get("all_orders", len(rm.assigns) <= 4)
    check_orders(ctx, b, case, backend, lay, full)


def check_orders(ctx: Ctx, b, case, backend, lay, full: bool):
    import gotranx
    from gotranx.codegen.python import Format
    from gotranx.schemes import get_scheme
    cls = gotranx.codegen.PythonCodeGenerator if backend == "numpy" else gotranx.codegen.JaxCodeGenerator
    cg = cls(b.ode, format=Format.none, remove_unused=bool(case.get("remove_unused", False)))
    letter = {"s": "states", "t": "t", "p": "parameters", "d": "dt"}
    for fn, letters, emit in (("rhs", "stp", lambda o: cg.rhs(order=o)),
                              ("explicit_euler", "stpd", lambda o: cg.scheme(get_scheme("explicit_euler"), order=o))):
        orders = list(map("".join, itertools.permutations(letters)))
        if not full:
            orders = ctx.rng.sample(orders, 2)
        bodies = set()
        for o in orders:
            try:
                c = emit(o)
            except Exception as ex:
                ctx.violate(f"C04/{backend}/{fn}-order-raises", f"{fn}(order={o!r}) raised {type(ex).__name__}", case=case)
                continue
            m = re.search(rf"def {fn}\((.*?)\):", c)
            formals = [a.strip() for a in m.group(1).split(",")] if m else []
            want = [letter[ch] for ch in o] + (["missing_variables"] if lay["missing"] else [])
            if formals != want:
                ctx.violate(f"C04/{backend}/{fn}-order-formals", f"{fn}(order={o!r}) has formals {formals}, expected {want}", case=case)
            bodies.add(body_of(c, fn))
            ctx.count("orders_checked")
        # the body generated through get_code (default order) is the reference body
        bodies.add(body_of(b.code, fn))
        if len(bodies) > 1:
            ctx.violate(f"C04/{backend}/{fn}-order-body", f"the {fn} argument order changes the function body", case=case)


# ================================================================== generic drivers
def make_run(case_fn, quick, thorough, cfg_fn=None, extra=None, quick_s=150, thorough_s=1500, case_s=40):
    def run(ctx: Ctx):
        n = ctx.n(quick, thorough)
        for k in range(n):
            if extra is not None and k % 3 == 1:
                case = extra(ctx)
            else:
                cfg = cfg_fn(ctx, k) if cfg_fn else gen.ModelCfg()
                m = gen.gen_model(ctx.rng, cfg)
                case = {"text": m.text(ctx.rng)}
            with common.time_limit(ctx, case_s):
                case_fn(ctx, case)
            if ctx.elapsed() > (thorough_s if ctx.thorough else quick_s):
                ctx.notes.append(f"time budget reached after {k + 1} cases")
                break
    return run


def c04_run(ctx: Ctx):
    """NumPy on every case, JAX (incl. models with more than 10 states) on every third"""
    n = ctx.n(24, 400)
    for k in range(n):
        cfg = gen.ModelCfg()
        backend = "numpy"
        if k % 3 == 2:
            backend = "jax"
            cfg = gen.ModelCfg(max_states=13, min_states=11 if k % 2 == 0 else 1, max_inters=5, depth=1)
            cfg.expr = gen.ExprCfg(p_floor=0.0, p_mod=0.0, p_ccond=0.0)
        ru = (k % 4 == 1) or (backend == "jax" and k % 2 == 0)
        if ru:      # unused intermediates whose removal changes the sorter's tie-breaks
            cfg.p_unused_inter = 0.8
            cfg.max_inters = max(cfg.max_inters, 5)
        m = gen.gen_model(ctx.rng, cfg)
        with common.time_limit(ctx, 120):
            c04_case(ctx, {"text": m.text(ctx.rng), "backend": backend, "remove_unused": ru})
        if ctx.elapsed() > (1500 if ctx.thorough else 160):
            ctx.notes.append(f"time budget reached after {k + 1} cases")
            break


def unused_cfg(ctx, k):
    cfg = gen.ModelCfg(p_unused_inter=0.9, max_inters=7, max_params=5, max_states=5)
    cfg.expr = gen.ExprCfg(p_cond=0.05, p_ccond=0.01)
    cfg.depth = 2
    return cfg


def scheme_cfg(ctx, k):
    cfg = gen.ModelCfg(p_prefix_names=0.5)
    cfg.depth = 2 + (k % 2)
    cfg.expr = gen.ExprCfg(p_floor=0.01, p_mod=0.01, p_idiom=0.2)
    return cfg
