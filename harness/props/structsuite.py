"""C11 (save / load round trip), C13 (component split), C16 (singularity removal), C20 (symbolic rhs / Jacobian)."""
from __future__ import annotations

import json

import mpmath
import numpy as np
from mpmath import mpf

from .. import common, gen, oracle, sexp
from ..common import Ctx, Scheme
from . import numsuite as ns

SCHEMES = [Scheme.explicit_euler, Scheme.generalized_rush_larsen]


# ================================================================== C11
def atoms_summary(ode):
    def val(v):
        try:
            return float(v)
        except Exception:
            return str(v)
    out = {}
    for kind, lst in (("state", ode.states), ("param", ode.parameters), ("inter", ode.intermediates), ("deriv", ode.state_derivatives)):
        for a in lst:
            out[a.name] = (kind, tuple(sorted(a.components)), a.unit_str, a.description,
                           val(a.value) if kind in ("state", "param") else None)
    return out


def divisor_with_relation(rm) -> bool:
    """the model text divides by something that contains a relation / conditional used as a number (directly or through
    the intermediates it names): the shape of the recorded ComplexInfinity findings"""
    def walk(e, f, seen):
        tag = e[0]
        if f(e, seen):
            return True
        if tag in ("num", "pi", "int", "var"):
            return False
        return any(walk(x, f, seen) for x in (e[2:] if tag in ("fn", "rel", "ccond", "call") else e[1:]) if isinstance(x, tuple))

    def is_rel(e, seen):
        if e[0] in ("rel", "cond", "ccond", "and", "or", "not"):
            return True
        if e[0] == "var" and e[1] in rm.assigns and e[1] not in seen:
            seen.add(e[1])
            return walk(rm.assigns[e[1]], is_rel, seen)
        return False

    def is_bad_div(e, seen):
        return e[0] == "div" and walk(e[2], is_rel, set())

    return any(walk(e, is_bad_div, set()) for e in rm.assigns.values())


def c11_case(ctx: Ctx, case: dict):
    text = case["text"]
    b0 = oracle.build_py(ctx, text, "C11", on_codegen_error="skip", scheme=SCHEMES)
    if b0 is None:
        return
    rm = b0.rm
    ops: dict = {}
    for e in rm.assigns.values():
        sexp.ops(e, ops)
    ctx.case(text, len(ops) >= 4, sample={"text": text})
    path = ctx.tmp / f"save_{ctx.evaluations}.ode"
    try:
        b0.ode.save(path)
        saved = path.read_text()
    except Exception as ex:
        ctx.violate(f"C11/save-raises/{type(ex).__name__}", f"saving a loaded model raised {type(ex).__name__}: {str(ex)[:100]}", case=case)
        return
    # the Lean parser reads what the writer wrote (writer alphabet inside the grammar)
    r = ctx.lean().call({"op": "load", "text": saved})
    try:
        ode1 = common.load(saved)
    except Exception as ex:
        bad = next((ln for ln in saved.splitlines() if not ctx.lean().call({"op": "parse", "text": ln + "\n"}).get("ok")), "")
        kind = ("constant-condition" if ("Conditional(0," in saved or "Conditional(1," in saved) else "ITE" if "ITE(" in saved else "E" if (" E" in bad or "E*" in bad or "(E" in bad) else "Ne" if "Ne(" in bad
                else "tilde" if "~" in saved else "complex-constant" if "Symbol 'I' not found" in str(ex)
                else "complex-infinity" if ("Symbol 'zoo' not found" in str(ex) and divisor_with_relation(rm))
                else "atan2" if "atan2(" in saved else "other")
        ctx.violate(f"C11/reload-rejected/{type(ex).__name__}/{kind}", f"the saved file is rejected by the loader: {type(ex).__name__}: {str(ex)[:90]}",
                    case=case, saved=saved)
        return
    if not r.get("ok"):
        ctx.broke("correspondence", "parse(saved file)", json.dumps({"text": text, "saved": saved, "model": r.get("err")}))
    a0, a1 = atoms_summary(b0.ode), atoms_summary(ode1)
    if set(a0) != set(a1):
        ctx.violate("C11/atoms-differ", f"names differ after save/load: {sorted(set(a0) ^ set(a1))}", case=case, saved=saved)
        return
    for n in a0:
        k0, k1 = a0[n], a1[n]
        if k0[0] != k1[0] or k0[1] != k1[1]:
            ctx.violate("C11/kind-or-component-differs", f"{n}: {k0[:2]} became {k1[:2]}", case=case, saved=saved)
            return
        if (k0[2] or None) != (k1[2] or None) and not (k0[2] in (None, "1") and k1[2] in (None, "1")):
            ctx.violate("C11/unit-differs", f"{n}: unit {k0[2]!r} became {k1[2]!r}", case=case, saved=saved)
            return
        if (k0[3] or None) != (k1[3] or None):
            ctx.violate("C11/description-differs", f"{n}: description {k0[3]!r} became {k1[3]!r}", case=case, saved=saved)
            return
        if k0[4] is not None and isinstance(k0[4], float) and isinstance(k1[4], float):
            if not ns.ulp_close(k0[4], k1[4], k0[4], k=4):
                ctx.violate("C11/default-value-differs", f"{n}: default {k0[4]!r} became {k1[4]!r}", case=case, saved=saved)
                return
    try:
        code1 = common.py_code(ode1, scheme=SCHEMES)
        mod1 = common.exec_module(code1)
    except Exception as ex:
        ctx.violate(f"C11/reloaded-codegen-raises/{oracle.exc_kind(ex, rm)}", f"code generation for the reloaded model raised {type(ex).__name__}: {str(ex)[:80]}", case=case, saved=saved)
        return
    lay0 = b0.layout
    pts = case.get("points") or ns.points_for(ctx, rm, ctx.n(3, 5), dts=(0.01, 0.1))
    n_regular = len(pts) if not case.get("points") else 0
    pts = list(pts) + oracle.boundary_points(rm, pts[0]) if pts else pts
    for pi, pt in enumerate(pts):
        # samples placed on (or right beside) the boundary of a comparison: the rate is discontinuous there, its
        # linearisation is not defined and two equivalent texts may legitimately take different one-sided derivatives:
        # the Rush-Larsen step is compared at regular samples only (rhs, monitors and the Euler step everywhere)
        on_boundary = pi >= n_regular
        us = rm.usable(pt, ctx.seed * 1000 + pi)
        if us is None:
            continue
        exact, spread = us
        s0, p0, _ = oracle.arrays_for(pt, lay0)
        s1 = np.array([pt[n] for n, _ in sorted(mod1.state.items(), key=lambda kv: kv[1])])
        p1 = np.array([pt[n] for n, _ in sorted(mod1.parameter.items(), key=lambda kv: kv[1])])
        for fn, order in (("rhs", "tsp"), ("monitor_values", "tsp"), ("explicit_euler", "stdp"), ("generalized_rush_larsen", "stdp")):
            if fn == "generalized_rush_larsen" and on_boundary:
                continue
            try:
                r0 = np.asarray(oracle.call_py(getattr(b0.mod, fn), order, states=s0, t=pt["t"], dt=pt["dt"], parameters=p0))
                r1 = np.asarray(oracle.call_py(getattr(mod1, fn), order, states=s1, t=pt["t"], dt=pt["dt"], parameters=p1))
            except Exception as ex:
                ctx.violate(f"C11/reloaded-exec-raises/{type(ex).__name__}", f"{fn} of the reloaded model raised {type(ex).__name__}: {str(ex)[:80]}", case=case, saved=saved)
                return
            names0 = b0.dicts["monitor"] if fn == "monitor_values" else b0.dicts["state"]
            names1 = mod1.monitor if fn == "monitor_values" else mod1.state
            ctx.count("comparisons")
            for nme, i0 in names0.items():
                v0, v1 = r0[i0], r1[names1[nme]]
                if fn in ("rhs", "monitor_values"):
                    # both against the reference meaning (so that a common mistake cannot hide)
                    key = nme if fn == "monitor_values" else rm.deriv_of(nme)
                    if sexp.agrees(v1, exact[key], spread[key]) == "bad" and sexp.agrees(v0, exact[key], spread[key]) != "bad":
                        # a value that is finite before and nan/inf after: an exp that over/underflows harmlessly in the written
                        # form and as inf/inf in the re-associated form sympy builds on reload (equal over the reals)
                        nonfinite = np.isfinite(v0) and not np.isfinite(v1)
                        ctx.violate(f"C11/value-differs/{fn}" + ("/non-finite-after-reload" if nonfinite else ""),
                                    f"after save/load {fn}[{nme}] = {v1!r}, before {v0!r}, model text defines {oracle.fmt(exact[key])}",
                                    case={**case, "points": [pt]}, saved=saved)
                        return
                elif np.isfinite(v0) and not np.isclose(v0, v1, rtol=1e-9, atol=1e-12 * (abs(v0) + 1)):
                    tol = 64 * float(spread.get(rm.deriv_of(nme), 0)) * abs(pt["dt"]) + 1e-9 * abs(v0)
                    if abs(v0 - v1) > tol:
                        ctx.violate(f"C11/value-differs/{fn}", f"after save/load {fn}[{nme}] = {v1!r}, before {v0!r}", case={**case, "points": [pt]}, saved=saved)
                        return


def c11_cfg(ctx, k):
    cfg = gen.ModelCfg(depth=3, max_comps=3, p_shared=0.5)
    cfg.expr = gen.ExprCfg(p_cond=0.15, p_ccond=0.04, p_mod=0.03, p_floor=0.03, p_logic=0.6)
    return cfg


def c11_extra(ctx: Ctx):
    """constructs sympy normalises into forms the writer has to spell out"""
    rng = ctx.rng
    pool = ["exp(1)*x", "exp(1)", "x**exp(1)", "Conditional(Not(Eq(x, a)), 1, 2)", "Conditional(Not(Eq(x, 1)), x, a)*y", "x**(1/3)", "x**(-1/2)", "2**-x",
            "1e-30*x + 1e25", "6.02e23*a*1e-20", "Conditional(Lt(x, 1), Conditional(Gt(y, 0), Conditional(Eq(a, 2), 1, 4), 2), 3)",
            "Conditional(Not(And(Lt(x, 1), Gt(y, 0))), x, y)", "Conditional(Or(Not(Lt(x, y)), Eq(y, 0)), 1, exp(1))", "Not(Eq(x, y))*3", "sqrt(x*x + 1)",
            "Mod(x, 2)*exp(1)", "pi*exp(1)", "Conditional(Ge(x, 0), x**0.5, (-x)**1.5)", "ContinuousConditional(Ge(x, a), exp(1), y, 0.5)", "1/3", "-(1/7)*x"]
    es = [rng.choice(pool) for _ in range(3)]
    # unit texts: customary ones the unit library knows, and customary ones it does not (the text is what the
    # file says; it must survive whether or not a unit object could be built from it)
    units = ["mV", "ms**-1", "uA/uF", "mM", "uF/cm2", "mS/cm2", "per_ms", "unitless", "1", "mol per litre", "%", "degC"]
    u1, u2, u3 = rng.choice(units), rng.choice(units), rng.choice(units)
    descs = ["the x", "gate, fast", "100 percent", "a (b) c", "Vm"]
    # trailing comments, including ones that are empty once '#' and blanks are stripped
    tcs = ["# mV", "# mV", "", "##", "# #", "###  ", "# ms**-1", "# a remark", "#  #  "]
    tc1, tc2, tc3 = rng.choice(tcs), rng.choice(tcs), rng.choice(tcs)
    text = (f"states(\"A\", x=ScalarParam({rng.choice(['0.5', '1/3', '2.5e-3'])}, unit=\"{u1}\", description=\"{rng.choice(descs)}\"), "
            f"y=ScalarParam(1, unit=\"{u3}\"))\n"
            f"parameters(\"A\", a=ScalarParam(0.25, unit=\"{u2}\"))\nexpressions(\"A\")\nw = {es[0]} {tc1}\ndx_dt = w + {es[1]} {tc2}\ndy_dt = {es[2]}\nexpressions(\"B\")\nobs = x*a {tc3}\nobs2 = obs + y\n")
    return {"text": text}


# ================================================================== C13
def c13_case(ctx: Ctx, case: dict, backend: str = "numpy", tag: str = "C13", count_case: bool = True):
    """`backend` / `tag`: C03 runs the same split with the JAX backend (keys C03/jax/split/...)"""
    text = case["text"]
    b = oracle.build_py(ctx, text, tag, on_codegen_error="skip", scheme=[Scheme.explicit_euler])
    if b is None:
        return
    rm, ode = b.rm, b.ode
    comps = [c["name"] for c in rm.comps]
    if len(comps) < 2:
        ctx.count("single_component")
        return
    if count_case:
        ctx.case(text, len(comps) >= 2 and len(rm.inters) >= 1, sample={"text": text, "components": comps})
    pts = case.get("points") or ns.points_for(ctx, rm, ctx.n(2, 4), dts=(0.05,))
    for cname in comps:
        try:
            comp = ode.get_component(cname)
            sub, rest = comp.to_ode(), ode - comp
        except Exception as ex:
            ctx.violate(f"{tag}/split-raises/{type(ex).__name__}", f"splitting off component {cname!r} raised {type(ex).__name__}: {str(ex)[:80]}", case={**case, "comp": cname})
            return
        r = ctx.lean().call({"op": "split", "text": text, "comp": cname, "deps": oracle.impl_deps(ode)})
        # complementary: missing variables are exactly the names used but not defined
        for part, pode in (("sub", sub), ("rest", rest)):
            want = r[part]["missing"] if r.get("ok") else None
            got = sorted(pode.missing_variables)
            if want is not None and got != want:
                ctx.violate(f"{tag}/missing-variables/{part}", f"missing variables of {part} of {cname!r} are {got}, the names used but not defined are {want}",
                            case={**case, "comp": cname})
                return
            if [pode.missing_variables[k] for k in got] != list(range(len(got))):
                ctx.violate(f"{tag}/missing-index/{part}", "missing variable indices are not 0..n-1 in name order", case={**case, "comp": cname})
                return
        st_sub = {s.name for s in sub.states}
        st_rest = {s.name for s in rest.states}
        shared = {a for c in rm.comps for a in c["states"]} and [n for n in rm.states if sum(n in c["states"] for c in rm.comps) > 1]
        if st_sub | st_rest != set(rm.states):
            ctx.violate(f"{tag}/states-lost", f"states {sorted(set(rm.states) - (st_sub | st_rest))} are in neither part", case={**case, "comp": cname})
            return
        if not shared and st_sub & st_rest:
            ctx.violate(f"{tag}/states-duplicated", f"states {sorted(st_sub & st_rest)} are in both parts", case={**case, "comp": cname})
            return
        # numeric glue: each part, fed the other's missing values, reproduces the full model
        # (also with unused-variable removal: what one part does not use itself may be exactly what the other part asks for)
        for part, pode, other, ru in (("sub", sub, rest, False), ("rest", rest, sub, False), ("sub", sub, rest, True), ("rest", rest, sub, True)):
            if not (pode.state_derivatives or pode.intermediates):
                continue
            if ru:
                part = part + "+remove_unused"
            try:
                code = common.py_code(pode, backend=backend, scheme=[Scheme.explicit_euler], missing_values=other.missing_variables or None,
                                      **({"remove_unused": True} if ru else {}))
                mod = common.exec_module(code)
            except Exception as ex:
                ctx.violate(f"{tag}/part-codegen-raises/{type(ex).__name__}", f"code generation for {part} of {cname!r} raised {type(ex).__name__}: {str(ex)[:90]}",
                            case={**case, "comp": cname})
                return
            mlay = {"state": [k for k, _ in sorted(mod.state.items(), key=lambda kv: kv[1])],
                    "param": [k for k, _ in sorted(mod.parameter.items(), key=lambda kv: kv[1])],
                    "monitor": [k for k, _ in sorted(mod.monitor.items(), key=lambda kv: kv[1])],
                    "missing": [k for k, _ in sorted(getattr(mod, "missing", {}).items(), key=lambda kv: kv[1])]}
            from .. import translate
            funcs, _ = translate.py_module(code)
            req = [k for k, _ in sorted((other.missing_variables or {}).items(), key=lambda kv: kv[1])]
            for pi, pt in enumerate(pts):
                us = rm.usable(pt, ctx.seed * 1000 + pi)
                if us is None:
                    continue
                exact, spread = us
                full = {**{n: mpf(pt[n]) for n in list(rm.states) + list(rm.params)}, **exact}
                try:
                    s = np.array([float(full[n]) for n in mlay["state"]])
                    p = np.array([float(full[n]) for n in mlay["param"]])
                    mv = np.array([float(full[n]) for n in mlay["missing"]]) if mlay["missing"] else None
                except KeyError as ex:
                    ctx.violate(f"{tag}/unknown-name", f"{part} of {cname!r} needs {ex} which the full model does not define", case={**case, "comp": cname})
                    return
                if mv is not None and not all(np.isfinite(mv)):
                    continue
                for fn, order in (("monitor_values", "tsp"), ("rhs", "tsp"), ("explicit_euler", "stdp")) + ((("missing_values", "tsp"),) if req else ()):
                    try:
                        out = np.asarray(oracle.call_py(getattr(mod, fn), order, states=s, t=pt["t"], dt=pt["dt"], parameters=p, missing=mv))
                    except Exception as ex:
                        ctx.violate(f"{tag}/{fn}/raises/{type(ex).__name__}", f"{fn} of {part} of {cname!r} raised {type(ex).__name__}: {str(ex)[:90]}",
                                    case={**case, "comp": cname, "points": [pt]})
                        return
                    ctx.count("calls")
                    if fn == "monitor_values":
                        slots = {n: i for i, n in enumerate(mlay["monitor"])}
                        want = full
                        sp = spread
                    elif fn == "missing_values":
                        if len(out) != len(req):
                            ctx.violate(f"{tag}/missing_values/length", f"missing_values returns {len(out)} entries for {len(req)} requested", case={**case, "comp": cname})
                            return
                        slots = {n: i for i, n in enumerate(req) if n in full}
                        want = full
                        sp = spread
                    elif fn == "rhs":
                        slots = {rm.deriv_of(n): i for i, n in enumerate(mlay["state"])}
                        want = full
                        sp = spread
                    else:
                        slots, want, sp = {}, {}, {}
                        for i, n in enumerate(mlay["state"]):
                            d = rm.deriv_of(n)
                            key = f"__step_{n}"
                            want[key] = full[n] + mpf(pt["dt"]) * full[d]
                            sp[key] = spread[d] * abs(mpf(pt["dt"])) + abs(want[key]) * sexp.U * 4
                            slots[key] = i
                    ok, skip, bad = oracle.compare_outputs(out, want, slots, {k: sp.get(k, mpf(0)) for k in slots}, fn)
                    ctx.count("values_ok", ok)
                    if bad:
                        # the generated code itself at 50 digits: a disagreement that disappears there is float64
                        # conditioning (sympy's flat sums evaluate a + (b - b) as a + b - b), not a wrong formula
                        pb = oracle.PyBuild()
                        pb.code = code
                        bad = [(n_, g_, r_) for (n_, g_, r_, _) in oracle.confirm_values(
                            ctx, pb, fn, order, bad, slots, {k: sp.get(k, mpf(0)) for k in slots},
                            states=s, t=pt["t"], dt=pt["dt"], parameters=p, missing=mv)]
                    if bad:
                        name, got, ref = bad[0]
                        ctx.violate(f"{tag}/{fn}/value", f"{fn} of {part} of {cname!r}: {name} = {oracle.fmt(got)} but the full model gives {oracle.fmt(ref)}",
                                    case={**case, "comp": cname, "points": [pt]})
                        return
            # the translated missing_values passes the proven validator, and is the program of the model's generator
            if req and "missing_values" in funcs and not any("UNTRANSLATABLE" in o for o in funcs["missing_values"].other):
                ctx.count("missing_values_translated")
                f = funcs["missing_values"]
                try:
                    v = oracle.validate(ctx, text, "missing", mlay, f.stmts, req=req)
                except Exception:
                    v = {}
                if v.get("ok"):
                    ctx.count("missing_values_validated")
                    if not v.get("verdict"):
                        ctx.broke("validator", f"checkMissingValues({part})", json.dumps({"text": text, "comp": cname, "verdict": v})[:2500])
                base_part = part.split("+")[0]
                rp = r.get(base_part) if r.get("ok") else None
                if rp and rp.get("req") == req and rp.get("missing_values") is not None and backend == "numpy":
                    if rp.get("missing_hyps") and rp.get("missing_valid") is False:
                        ctx.broke("proof-obligation", "GenValidMissing.genMissing_valid contradicted by evaluation", json.dumps({"text": text, "comp": cname}))
                    skel = lambda stmts: [("U", st[1], st[2], st[3]) if st[0] == "U" else ("D", st[1]) if st[0] == "D" else ("S", st[1]) for st in stmts]  # noqa: E731
                    real, model = skel(f.stmts), skel(rp["missing_values"])
                    if real == model:
                        ctx.count("impl_missing_programs_matched")
                    else:
                        ctx.broke("correspondence", f"Impl.genMissing vs generated missing_values ({part})",
                                  json.dumps({"text": text, "comp": cname, "real": real[:40], "model": model[:40]})[:3000])


def c13_cfg(ctx, k):
    cfg = gen.ModelCfg(max_comps=3, max_inters=6, depth=2)
    cfg.expr = gen.ExprCfg(p_floor=0.0, p_mod=0.01, p_ccond=0.01)
    cfg.force_comps = True
    return cfg


# ================================================================== C20
def sympy_eval(expr, point: dict, ode):
    import sympy
    subs = {}
    for n, v in point.items():
        if n in ("dt",):
            continue
        if n == "t":
            subs[ode.t] = sympy.Float(v, 40)
        elif n in ode.symbols:
            subs[ode.symbols[n]] = sympy.Float(v, 40)
    try:
        # substituting numbers re-evaluates the relations: a branch value that is complex at this point (sqrt of a negative
        # number) makes sympy refuse the comparison it stands in ("Invalid comparison of non-real")
        v = expr.xreplace(subs)
        return mpf(str(sympy.N(v, 40)))
    except Exception:
        return None


def c20_case(ctx: Ctx, case: dict):
    text = case["text"]
    import gotranx
    try:
        ode = common.load(text)
    except Exception as ex:
        ctx.count(f"rejected/{type(ex).__name__}")
        return
    rm, err = oracle.lean_load(ctx, text, oracle.impl_deps(ode))
    if rm is None or not rm.acyclic:
        return
    if not oracle.model_usable(rm, text):
        ctx.count("models_undefined_everywhere")
        return
    depth = case.get("depth", 0)
    ctx.case(text, len(rm.inters) >= 2, sample={"text": text[:600], "depth": depth})
    try:
        S = gotranx.sympytools.states_matrix(ode)
        R = gotranx.sympytools.rhs_matrix(ode)
        J = gotranx.sympytools.jacobi_matrix(ode)
    except Exception as ex:
        ctx.violate(f"C20/raises/{type(ex).__name__}" + ("/deep" if depth >= 20 else ""),
                    f"rhs_matrix / jacobi_matrix raised {type(ex).__name__}: {str(ex)[:80]} (dependency depth {depth})", case=case)
        return
    order = [str(s) for s in S]
    if order != [s.name for s in ode.sorted_states()]:
        ctx.violate("C20/state-order", f"states_matrix order {order} differs from the generated code's {[s.name for s in ode.sorted_states()]}", case=case)
        return
    inter_syms = {a.symbol for a in ode.intermediates}
    if R.free_symbols & inter_syms:
        ctx.violate("C20/intermediates-left", f"rhs_matrix still mentions {sorted(map(str, R.free_symbols & inter_syms))}", case=case)
        return
    # the model's prediction of the expanded rhs and of the Jacobian
    r = ctx.lean().call({"op": "rhs_matrix", "text": text, "deps": oracle.impl_deps(ode), "max_tries": len(rm.inters) + 1})
    if not r.get("ok") or r.get("rhs") is None:
        ctx.broke("correspondence", "Impl.rhsMatrix", json.dumps({"text": text, "resp": str(r)[:200]}))
        return
    if r["states"] != order:
        ctx.broke("correspondence", "Impl.sortedStates", json.dumps({"text": text, "impl": order, "model": r["states"]}))
    lean_rhs = [sexp.parse_sexp(e) for e in r["rhs"]]
    lean_jac = [[sexp.parse_sexp(e) for e in row] for row in r["jac"]]
    pts = case.get("points") or ns.points_for(ctx, rm, ctx.n(2, 4), dts=(0.1,))
    hp = sexp.HP()
    for pi, pt in enumerate(pts):
        us = rm.usable(pt, ctx.seed * 1000 + pi)
        if us is None:
            continue
        exact, spread = us
        base = rm.base(pt)
        for i, sname in enumerate(order):
            d = rm.deriv_of(sname)
            ref = exact[d]
            got = sympy_eval(R[i], pt, ode)
            lean_v = hp.ev(lean_rhs[i], base)
            # sympy evaluates at 40 digits: what is exactly 0 in the model (a product with sin(pi), which the reference
            # treats as the exact zero it is) comes out as a residue of 1e-40 times the size of the inputs
            tol = 256 * spread[d] + mpf(2) ** -40 * abs(ref) + mpf("1e-300") + (mpf("1e-32") if ref == 0 else 0)
            ctx.count("rhs_entries")
            if mpmath.isfinite(lean_v) and abs(lean_v - ref) > tol:
                ctx.broke("correspondence", "Impl.rhsMatrix value", json.dumps({"text": text, "state": sname}))
            if got is None:
                ctx.count("sympy_eval_failed")
                continue
            if mpmath.isfinite(got) and abs(got - ref) > tol:
                ctx.violate("C20/rhs-value", f"rhs_matrix[{i}] ({sname}) evaluates to {oracle.fmt(got)} but the model's d{sname}_dt is {oracle.fmt(ref)}",
                            case={**case, "points": [pt]})
                return
            # Jacobian row: against the model's symbolic derivative and a 50-digit central difference
            for j, xname in enumerate(order if depth < 12 else order[:1]):
                gj = sympy_eval(J[i, j], pt, ode)
                lj = hp.ev(lean_jac[i][j], base)
                if gj is None or not mpmath.isfinite(gj) or not mpmath.isfinite(lj):
                    continue
                # conditioning of this entry under float64-sized perturbations of literals and operations
                import random as _r
                sp_j = mpf(0)
                for kk in range(3):
                    try:
                        pj = sexp.HP(_r.Random(1000 * pi + 10 * i + j + kk)).ev(lean_jac[i][j], base)
                        sp_j = max(sp_j, abs(pj - lj)) if mpmath.isfinite(pj) else mpf("inf")
                    except Exception:
                        sp_j = mpf("inf")
                if not mpmath.isfinite(sp_j) or sp_j > mpf("1e-7") * (abs(lj) + mpf("1e-30")):
                    ctx.count("jacobian_entries_ill_conditioned")
                    continue
                h = mpf(10) ** -20 * (1 + abs(base[xname]))
                bp, bm = dict(base), dict(base)
                bp[xname] = base[xname] + h
                bm[xname] = base[xname] - h
                try:
                    fd = (hp.ev(lean_rhs[i], bp) - hp.ev(lean_rhs[i], bm)) / (2 * h)
                except Exception:
                    continue
                scale = abs(fd) + abs(lj) + abs(gj) + mpf("1e-30")
                ctx.count("jacobian_entries")
                if mpmath.isfinite(fd) and abs(lj - fd) > mpf("1e-9") * scale:
                    # Lean's diff disagrees with the finite difference: kink or model bug; do not blame gotranx
                    ctx.count("lean_diff_vs_fd_mismatch")
                    continue
                if abs(gj - fd) > mpf("1e-8") * scale:
                    ctx.violate("C20/jacobian-value", f"jacobi_matrix[{i},{j}] (d {sname}' / d {xname}) = {oracle.fmt(gj)} but the partial derivative is {oracle.fmt(fd)}",
                                case={**case, "points": [pt]})
                    return


def c20_gen(ctx: Ctx, k: int):
    rng = ctx.rng
    if k % 3 == 0:
        depth = rng.choice([3, 10, 19, 20, 21, 35, 60] if ctx.thorough else [4, 19, 20, 21, 26])
        # a plain chain (diamonds every third level) keeps sympy's expansion small at any depth
        c = round(rng.uniform(0.2, 0.9), 3)
        lines = ["i0 = p*x + y"]
        for j in range(1, depth):
            lines.append(f"i{j} = i{j-1}*{c} + " + (f"i{j-2}*x" if j % 3 == 2 else rng.choice(["x", "sin(y)", "p"])))
        lines += [f"dx_dt = i{depth-1} - x", "dy_dt = -y*i0"]
        rng.shuffle(lines)
        return {"text": "states(x=1, y=0.5)\nparameters(p=2)\n" + "\n".join(lines) + "\n", "depth": depth}
    if k % 6 == 1:
        # an unused intermediate whose presence changes the sorter's tie-breaks between the derivatives
        # (dropping it reorders them): rows must still follow the generated code's state order
        c1, c2 = round(rng.uniform(1, 900), 1), round(rng.uniform(1, 90), 2)
        return {"text": (f"states(s0=1, s1=2, s2=3, s3=4)\nparameters(p=0.5)\ni1 = s1 + s2\nds1_dt = i0\ni0 = {c1}*p\nds2_dt = s2 - i0\n"
                         f"ds0_dt = i3*s0\nds3_dt = {c2} - s3\ni3 = log({c2})\n"), "depth": 0}
    cfg = gen.ModelCfg(depth=2, max_inters=6, p_ref_deriv=0.0)
    if k % 3 == 2:
        cfg = gen.ModelCfg(depth=1, max_inters=7, min_states=3, max_states=5, p_unused_inter=0.85, p_ref_deriv=0.0)
    cfg.expr = gen.ExprCfg(p_cond=0.1, p_ccond=0.02, p_mod=0.0, p_floor=0.0, p_relnum=0.0, funcs=("exp", "log", "sqrt", "sin", "cos", "tan", "atan"))
    m = gen.gen_model(rng, cfg)
    return {"text": m.text(rng), "depth": 0}


def c20_run(ctx: Ctx):
    for k in range(ctx.n(24, 600)):
        case = c20_gen(ctx, k)
        with common.time_limit(ctx, 45):
            c20_case(ctx, case)
        if ctx.elapsed() > (1500 if ctx.thorough else 160):
            break


# ================================================================== C16
SING_TERMS = [("{x}/(exp({x}) - 1)", "0"), ("sin({x})/{x}", "0"), ("({x} - {a})/(exp({x} - {a}) - 1)", "{a}"), ("({x} - {a})*({x} + 1)/({x} - {a})", "{a}"),
              ("(exp({x}) - 1)/{x}", "0"), ("log(1 + {x}*{x})/({x}*{x})", "0"),
              # the singular quotient inside a function call, and a singularity without a quotient
              ("exp({x}/(exp({x}) - 1))", "0"), ("atan(sin({x})/{x})", "0"), ("{x}*log({x}*{x})", "0")]
POLE_TERMS = ["1/({x} - {a})", "p/{x}"]
PLAIN_TERMS = ["{x}*p", "exp(-{x})", "cos({x}) + p"]


def c16_gen(ctx: Ctx):
    rng = ctx.rng
    nsing = rng.choice([0, 1, 1, 1, 2, 2, 3])
    two_states = rng.random() < 0.4
    terms, sing_points, pre = [], [], []
    avail_a = [1, 2, 3]
    rng.shuffle(avail_a)
    for i in range(nsing):
        t, at = rng.choice(SING_TERMS)
        x = "y" if (two_states and rng.random() < 0.5) else "x"
        a = avail_a[i % 3]
        if rng.random() < 0.35 and at == "0":
            # the singular variable is an intermediate that is a shifted state: u = x - a, singular at u = 0
            # ... possibly through a chain of intermediates (u = x - a; v = u/2; w = 3*v: singular at w = 0, i.e. x = a)
            u = f"u{i}"
            pre.append(f"{u} = {x} - {a}")
            for lvl in range(rng.choice([0, 0, 1, 2])):
                v = f"u{i}_{lvl}"
                pre.append(f"{v} = {u}/2" if lvl % 2 == 0 else f"{v} = 3*{u}")
                u = v
            terms.append(t.format(x=u, a=a))
            sing_points.append((x, float(a)))
        else:
            terms.append(t.format(x=x, a=a))
            sing_points.append((x, float(at.format(a=a))))
    if rng.random() < 0.3:
        terms.append(rng.choice(POLE_TERMS).format(x="x", a=7))
    if rng.random() < 0.6 or not terms:
        terms.append(rng.choice(PLAIN_TERMS).format(x="x"))
    op = " + " if rng.random() < 0.7 else " * "
    expr = op.join(f"({t})" for t in terms) if op == " * " else " + ".join(terms)
    body = "\n".join(pre + [f"z = {expr}"])
    layout = rng.choice(["flat", "flat", "split", "split"])
    if layout == "flat":
        text = f"states(x=0.5, y=0.25)\nparameters(p=1.5)\n{body}\ndx_dt = z - x\ndy_dt = -y\n"
    else:
        # the singular expression lives in another component than the states it is singular in
        text = (f'states("Membrane", x=0.5, y=0.25)\nparameters("Membrane", p=1.5)\nexpressions("Membrane")\ndx_dt = z - x\ndy_dt = -y\n'
                f'expressions("Rates")\n{body}\n')
    return {"text": text, "sing": sing_points, "nsing": nsing}


def c16_case(ctx: Ctx, case: dict):
    text = case["text"]
    try:
        ode = common.load(text)
        ode2 = ode.remove_singularities()
        m1 = common.exec_module(common.py_code(ode))
        m2 = common.exec_module(common.py_code(ode2))
    except Exception as ex:
        ctx.violate(f"C16/raises/{type(ex).__name__}", f"remove_singularities / code generation raised {type(ex).__name__}: {str(ex)[:100]}", case=case)
        return
    rm, err = oracle.lean_load(ctx, text)
    if rm is None:
        return
    sing = [tuple(s) for s in case.get("sing", [])]
    distinct = sorted(set(sing))
    try:
        found = max((sum(1 for sg in a.singularities(ode._lookup) if not sg.is_infinite) for a in ode.intermediates + ode.state_derivatives), default=0)
    except Exception:
        found = len(distinct)
    several = max(found, len(distinct)) >= 2
    ctx.case(text, len(distinct) >= 1, sample={"text": text, "singular_points": distinct})
    ctx.count(f"removable_singularities/{len(distinct)}")
    if m1.state != m2.state or m1.parameter != m2.parameter or m1.monitor != m2.monitor:
        ctx.violate("C16/layout-changes", "remove_singularities changes the slot layout", case=case)
        return
    lay = {"state": [k for k, _ in sorted(m1.state.items(), key=lambda kv: kv[1])], "param": [k for k, _ in sorted(m1.parameter.items(), key=lambda kv: kv[1])]}
    rng = ctx.rng
    # regular points: both models agree (and agree with the text)
    for k in range(ctx.n(4, 8)):
        pt = {"x": rng.uniform(-2, 2.9) + 0.0137, "y": rng.uniform(-2, 2.9) + 0.0291, "p": rng.uniform(0.5, 2), "t": 0.0}
        us = rm.usable(pt, k)
        if us is None:
            continue
        exact, spread = us
        s = np.array([pt[n] for n in lay["state"]])
        p = np.array([pt[n] for n in lay["param"]])
        with np.errstate(all="ignore"):
            a = np.asarray(m1.monitor_values(0.0, s, p))
            b = np.asarray(m2.monitor_values(0.0, s, p))
        ctx.count("regular_points")
        for nme, i in m1.monitor.items():
            if sexp.agrees(a[i], exact[nme], spread[nme]) != "ok":
                continue
            if sexp.agrees(b[i], exact[nme], spread[nme]) == "bad":
                ratio = b[i] / a[i] if a[i] else float("nan")
                # the recorded finding multiplies the value by the number of distinct singular points (one Conditional per
                # singular point, summed); any other change of a regular value is something else
                nmax = max(found, len(distinct))
                multiplied = np.isfinite(ratio) and abs(ratio - round(ratio)) <= 1e-9 * abs(ratio) and 2 <= round(ratio) <= nmax
                ctx.violate("C16/regular-point-changed/" + (("several-singularities" if multiplied else "several-singularities/not-a-multiple") if several
                                                            else f"{len(distinct)}-singularities"),
                            f"at a regular point {nme} = {a[i]!r} originally but {b[i]!r} after remove_singularities (ratio {ratio:.6g}; {len(distinct)} removable singular points)",
                            case={**case, "points": [pt]})
                return
    # singular points: finite, equal to the two-sided limit
    hp = sexp.HP()
    for (xn, x0) in distinct:
        other = "y" if xn == "x" else "x"
        pt = {xn: x0, other: 0.4173, "p": 1.25, "t": 0.0}
        s = np.array([pt[n] for n in lay["state"]])
        p = np.array([pt[n] for n in lay["param"]])
        with np.errstate(all="ignore"):
            b = np.asarray(m2.monitor_values(0.0, s, p))
        h = mpf(10) ** -18
        vals = []
        for sgn in (1, -1):
            base = rm.base(pt)
            base[xn] = mpf(x0) + sgn * h
            try:
                vals.append(sexp.eval_model(rm.assigns, rm.order, base)["z"])
            except Exception:
                vals.append(None)
        if None in vals or not all(mpmath.isfinite(v) for v in vals) or abs(vals[0] - vals[1]) > mpf("1e-9") * (abs(vals[0]) + 1):
            ctx.count("limit_not_two_sided")
            continue
        lim = (vals[0] + vals[1]) / 2
        got = b[m2.monitor["z"]]
        ctx.count("singular_points")
        if not np.isfinite(got) or abs(mpf(float(got)) - lim) > mpf("1e-7") * (abs(lim) + 1):
            ctx.violate("C16/singular-point-value/" + ("several-singularities" if several else "one-singularity"),
                        f"at the removable singular point {xn} = {x0} the repaired model gives z = {got!r}, the limit is {oracle.fmt(lim)}",
                        case={**case, "points": [pt]})
            return


def c16_run(ctx: Ctx):
    for k in range(ctx.n(45, 600)):
        case = c16_gen(ctx)
        with common.time_limit(ctx, 120):
            c16_case(ctx, case)
        if ctx.elapsed() > (1500 if ctx.thorough else 160):
            break
