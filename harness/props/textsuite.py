"""C08 (ill-formed models rejected), C09 (reproducible across processes), C10 (statement order)."""
from __future__ import annotations

import json
import os
import random
import subprocess
import sys

from .. import common, gen, oracle, sexp
from ..common import Ctx, Scheme

FAULTS = ["dup_inter_same_deps", "dup_inter_diff_deps", "dup_cross_comp", "state_param_same_value", "state_param_diff_value",
          "state_vs_inter", "param_vs_inter", "dup_deriv", "dup_state_diff_value", "dup_param_diff_value", "missing_deriv",
          "orphan_deriv", "undefined_symbol", "cycle", "self_cycle", "deriv_other_comp", "dup_inter_comment_differs",
          "state_param_same_value_cross_comp", "dup_deriv_two_tags", "undeclared_parameter", "dup_inter_two_tags", "undefined_symbol_inert", "dup_inter_regrouped"]


def blocks_text(blocks, header=None):
    parts = []
    if header:
        parts.append(f"# {header}")
    for kind, c, lines in blocks:
        parts.append(gen.render_block(kind, c, list(lines)))
    return "\n".join(parts) + "\n"


def inject(rng: random.Random, m: gen.GModel, kind: str):
    """one well-formedness fault; returns (text, description) or None when the model has no site for it"""
    blocks = [(k, c, list(lines)) for k, c, lines in m.blocks()]

    def expr_block(comp):
        for i, (k, c, _) in enumerate(blocks):
            if k == "expressions" and c == comp:
                return i
        blocks.append(("expressions", comp, []))
        # bare assignments must not follow a headed block
        if comp == "":
            blocks.insert(0, blocks.pop())
            return 0
        return len(blocks) - 1

    inters = [n for n in m.inters]
    with_vars = [n for n in inters if sexp.fv(m.assigns[n][0])]
    states = list(m.states)
    params = list(m.params)
    r = lambda e: sexp.render(e)  # noqa: E731
    if kind == "dup_inter_same_deps":
        if not with_vars:
            return None
        n = rng.choice(with_vars)
        e, c = m.assigns[n]
        blocks[expr_block(c)][2].append(f"{n} = ({r(e)})*2 + 1")
        return blocks_text(blocks), f"{n} defined twice in component {c!r} with different right-hand sides over the same names"
    if kind == "dup_inter_comment_differs":
        if not inters:
            return None
        n = rng.choice(inters)
        e, c = m.assigns[n]
        blocks[expr_block(c)][2].append(f"{n} = {r(e)} + 1 # second")
        return blocks_text(blocks), f"{n} defined twice (second one annotated)"
    if kind == "dup_inter_diff_deps":
        if not inters:
            return None
        n = rng.choice(inters)
        e, c = m.assigns[n]
        extra = rng.choice(states + params)
        blocks[expr_block(c)][2].append(f"{n} = {r(e)} + {extra}*3")
        return blocks_text(blocks), f"{n} defined twice with different dependencies"
    if kind == "dup_cross_comp":
        if not inters:
            return None
        n = rng.choice(inters)
        e, c = m.assigns[n]
        other = [x for x in m.comps if x != c]
        oc = rng.choice(other) if other else "Zextra"
        blocks[expr_block(oc)][2].append(f"{n} = {r(e)}*2")
        return blocks_text(blocks), f"{n} defined in components {c!r} and {oc!r}"
    if kind in ("state_param_same_value", "state_param_diff_value"):
        s = rng.choice(states)
        v, c = m.states[s]
        val = r(v) if kind.endswith("same_value") else "123.25"
        blocks.append(("parameters", c, [f"{s}={val}"]))
        return blocks_text(blocks), f"{s} is both a state and a parameter ({'same' if kind.endswith('same_value') else 'different'} value)"
    if kind == "state_param_same_value_cross_comp":
        s = rng.choice(states)
        v, c = m.states[s]
        blocks.append(("parameters", "Zother" if c != "Zother" else "Zmore", [f"{s}={r(v)}"]))
        return blocks_text(blocks), f"{s} is a state in {c!r} and a parameter (same value) in another component"
    if kind in ("dup_deriv_two_tags", "dup_inter_two_tags"):
        # an atom tagged with two components, and a second, different definition under each tag
        e1 = r(gen.gen_expr(rng, states + params, 1))
        if kind == "dup_deriv_two_tags":
            text = blocks_text(blocks) + f'states("Ta", "Tb", uu=1.5)\nexpressions("Ta")\nduu_dt = {e1}\nexpressions("Tb")\nduu_dt = {e1} + 1\n'
            return text, "duu_dt defined differently under two component tags of its state"
        text = blocks_text(blocks) + f'expressions("Ta")\nww = {e1}\nexpressions("Tb")\nww = {e1} + 1\n'
        return text, "ww defined differently in two components"
    if kind == "undeclared_parameter":
        used = [p for p in params if any(p in sexp.fv(e) for e, _ in m.assigns.values())]
        if not used:
            return None
        p = rng.choice(used)
        nb = []
        for k, c, lines in blocks:
            if k == "parameters":
                lines = [ln for ln in lines if not ln.startswith(f"{p}=")]
                if not lines:
                    continue
            nb.append((k, c, lines))
        return blocks_text(nb), f"parameter {p} is used but its declaration was deleted (every right-hand side unchanged)"
    if kind == "state_vs_inter":
        s = rng.choice(states)
        blocks[expr_block(m.states[s][1])][2].append(f"{s} = 2.5")
        return blocks_text(blocks), f"{s} is both a state and an intermediate"
    if kind == "param_vs_inter":
        p = rng.choice(params)
        blocks[expr_block(m.params[p][1])][2].append(f"{p} = 2.5")
        return blocks_text(blocks), f"{p} is both a parameter and an intermediate"
    if kind == "dup_deriv":
        s = rng.choice(states)
        d = m.deriv_of(s)
        e, c = m.assigns[d]
        blocks[expr_block(c)][2].append(f"{d} = {r(e)} + 1")
        return blocks_text(blocks), f"{d} defined twice"
    if kind == "dup_state_diff_value":
        s = rng.choice(states)
        blocks.append(("states", m.states[s][1], [f"{s}=77.5"]))
        return blocks_text(blocks), f"state {s} declared twice with different values"
    if kind == "dup_param_diff_value":
        p = rng.choice(params)
        blocks.append(("parameters", m.params[p][1], [f"{p}=77.5"]))
        return blocks_text(blocks), f"parameter {p} declared twice with different values"
    if kind == "missing_deriv":
        s = rng.choice(states)
        d = m.deriv_of(s)
        if any(d in sexp.fv(e) for n, (e, _) in m.assigns.items() if n != d):
            return None
        for b in blocks:
            if b[0] == "expressions":
                b[2][:] = [ln for ln in b[2] if not ln.startswith(f"{d} = ")]
        blocks = [b for b in blocks if b[2]]
        return blocks_text(blocks), f"state {s} has no derivative"
    if kind == "orphan_deriv":
        c = rng.choice(m.comps)
        blocks[expr_block(c)][2].append("dzzq_dt = 1.5")
        return blocks_text(blocks), "derivative dzzq_dt without a declared state"
    if kind == "undefined_symbol":
        n = rng.choice(list(m.assigns))
        e, c = m.assigns[n]
        for b in blocks:
            if b[0] == "expressions" and b[1] == c:
                b[2][:] = [ln + " + zz_undefined" if ln.startswith(f"{n} = ") and "#" not in ln else ln for ln in b[2]]
        text = blocks_text(blocks)
        return (text, f"{n} references the undefined symbol zz_undefined") if "zz_undefined" in text else None
    if kind == "dup_inter_regrouped":
        # two definitions of one name written with the same symbols and operators in the same order, differing only in
        # where the parentheses stand (the same token sequence once parentheses are dropped)
        pool = states + params
        a, b, c_ = (rng.choice(pool) for _ in range(3))
        one, two = rng.choice([(f"{a} + {b}*{c_}", f"({a} + {b})*{c_}"), (f"{a} - ({b} - {c_})", f"{a} - {b} - {c_}"),
                               (f"exp({a} + {b})*{c_}", f"exp({a}) + {b}*{c_}"), (f"{a}/({b}*{c_})", f"{a}/{b}*{c_}"),
                               (f"-{a}**2", f"(-{a})**2"), (f"2**({a} + 1)", f"2**{a} + 1")])
        comp = rng.choice(m.comps)
        i = expr_block(comp)
        blocks[i][2].append(f"regr_q = {one}")
        blocks[i][2].append(f"regr_q = {two}")
        return blocks_text(blocks), f"regr_q defined as `{one}` and as `{two}`"
    if kind == "undefined_symbol_inert":
        # the undefined name sits where no evaluation ever needs it: the dead branch of a condition that is decided when the
        # expression is built (a literal, a reflexive or a sign-definite comparison), a term that cancels, a zero product
        s = rng.choice(states)
        form = rng.choice(["Conditional(Gt(2, 1), {s}, zz_undefined)", "Conditional(Eq({s}, {s}), 1, zz_undefined)",
                           "Conditional(Ge({s}**2, 0), {s}, zz_undefined*2)", "Conditional(Lt(1, 0), zz_undefined, {s})",
                           "{s} + zz_undefined - zz_undefined", "0*zz_undefined + {s}", "zz_undefined**0 + {s}",
                           "Conditional(Lt({s}, {s}), zz_undefined + 1, 3)"]).format(s=s)
        c = rng.choice(m.comps)
        blocks[expr_block(c)][2].append(f"inert_q = {form}")
        return blocks_text(blocks), f"inert_q = {form}: zz_undefined is not defined anywhere"
    if kind == "cycle":
        s = rng.choice(states)
        d = m.deriv_of(s)
        c = m.assigns[d][1]
        i = expr_block(c)
        blocks[i][2].append("cyc_a = cyc_b + 1")
        blocks[i][2].append("cyc_b = cyc_a*2")
        blocks[i][2][:] = [ln + " + cyc_a" if ln.startswith(f"{d} = ") and "#" not in ln else ln for ln in blocks[i][2]]
        return blocks_text(blocks), "definitions cyc_a, cyc_b are cyclic"
    if kind == "self_cycle":
        c = rng.choice(m.comps)
        blocks[expr_block(c)][2].append("cyc_s = cyc_s*0.5 + 1")
        return blocks_text(blocks), "cyc_s is defined in terms of itself"
    if kind == "deriv_other_comp":
        if len(m.comps) < 2:
            return None
        s = rng.choice(states)
        d = m.deriv_of(s)
        e, c = m.assigns[d]
        oc = rng.choice([x for x in m.comps if x != c])
        for b in blocks:
            if b[0] == "expressions" and b[1] == c:
                b[2][:] = [ln for ln in b[2] if not ln.startswith(f"{d} = ")]
        blocks = [b for b in blocks if b[2]]
        # rebuild index after filtering
        found = False
        for b in blocks:
            if b[0] == "expressions" and b[1] == oc:
                b[2].append(f"{d} = {r(e)}")
                found = True
        if not found:
            if oc == "":
                blocks.insert(0, ("expressions", oc, [f"{d} = {r(e)}"]))
            else:
                blocks.append(("expressions", oc, [f"{d} = {r(e)}"]))
        return blocks_text(blocks), f"{d} is written in component {oc!r} but its state lives in {c!r}"
    raise ValueError(kind)


def c08_case(ctx: Ctx, case: dict):
    text, fault = case["text"], case["fault"]
    ctx.case(text, True, sample={"fault": fault, "text": text})
    ctx.count(f"fault/{fault}")
    # the model's verdict (as coded)
    r = ctx.lean().call({"op": "load", "text": text})
    lean_rejects = (not r.get("ok")) or r.get("layout") is None
    err = None
    code = None
    try:
        ode = common.load(text)
        code = common.py_code(ode, scheme=[Scheme.explicit_euler])
    except Exception as ex:
        err = ex
    impl_rejects = err is not None
    ctx.count("impl_rejects" if impl_rejects else "impl_accepts")
    if impl_rejects != lean_rejects:
        ctx.broke("correspondence", "load-accept-class",
                  json.dumps({"text": text, "fault": fault, "impl": type(err).__name__ if err else "accepts",
                              "model": r.get("err") or ("cycle" if r.get("ok") and r.get("layout") is None else "accepts")}))
    if not impl_rejects:
        ctx.violate(f"C08/accepted/{fault}", f"ill-formed model accepted and code generated: {case.get('desc', fault)}",
                    case=case)
    elif isinstance(err, (RecursionError, MemoryError)):
        ctx.violate(f"C08/crash/{fault}", f"{type(err).__name__} instead of a diagnosis", case=case)


def c08_run(ctx: Ctx):
    n = ctx.n(130, 5000)
    for k in range(n):
        cfg = gen.ModelCfg(max_inters=4, max_states=3, max_params=3, depth=2)
        cfg.expr = gen.ExprCfg(p_cond=0.05, p_ccond=0.0, p_mod=0.0, p_floor=0.0, p_relnum=0.0)
        m = gen.gen_model(ctx.rng, cfg)
        fault = FAULTS[k % len(FAULTS)]
        res = inject(ctx.rng, m, fault)
        if res is None:
            ctx.count("no_site")
            continue
        text, desc = res
        # the unfaulted text must load (otherwise the fault is not the only problem); sympy can take
        # very long on a legal text (cos of an astronomically large literal), hence the time limit
        base_ok = False
        with common.time_limit(ctx, 20):
            try:
                common.load(m.text(None, shuffle_lines=False))
                base_ok = True
            except Exception:
                ctx.count("base_rejected")
        if not base_ok:
            continue
        with common.time_limit(ctx, 30):
            c08_case(ctx, {"text": text, "fault": fault, "desc": desc})
        if ctx.elapsed() > (1500 if ctx.thorough else 150):
            break


# ================================================================== C09
_CHILD = r"""
import sys, json, hashlib, warnings
sys.path.insert(0, %(src)r)
warnings.filterwarnings("ignore")
import structlog, logging
import gotranx
structlog.configure(wrapper_class=structlog.make_filtering_bound_logger(logging.CRITICAL))
warnings.filterwarnings("ignore")
from gotranx.load import ode_from_string
from gotranx.cli import gotran2py, gotran2c
from gotranx.codegen.python import Format
from gotranx.codegen.c import Format as CFormat
from gotranx.schemes import Scheme, get_scheme
import gotranx.codegen
texts = json.load(open(sys.argv[1]))
history = sys.argv[2]
out = []
for t in texts:
    try:
        if history == "warm":
            # earlier calls in the same process must not matter
            get_scheme("euler"); get_scheme("forward_rush_larsen"); get_scheme("forward_generalized_rush_larsen")
            o0 = ode_from_string(t); gotran2py.get_code(o0, format=Format.none, scheme=[Scheme.hybrid_rush_larsen], remove_unused=True)
        ode = ode_from_string(t)
        cg = gotranx.codegen.PythonCodeGenerator(ode, format=Format.none)
        direct = cg.scheme(gotranx.schemes.explicit_euler) + cg.scheme(gotranx.schemes.generalized_rush_larsen) + cg.scheme(gotranx.schemes.hybrid_rush_larsen)
        sch = [Scheme.explicit_euler, Scheme.generalized_rush_larsen, Scheme.hybrid_rush_larsen]
        py = gotran2py.get_code(ode, format=Format.none, scheme=sch)
        c = gotran2c.get_code(ode, format=CFormat.none, scheme=sch)
        jx = gotran2py.get_code(ode, format=Format.none, scheme=sch, backend=gotran2py.Backend.jax)
        py_ru = gotran2py.get_code(ode, format=Format.none, scheme=sch, remove_unused=True)
        # repetition in the same process (after another model was handled) gives the same bytes
        ode_b = ode_from_string("states(qq=1)\nparameters(kk=2)\ndqq_dt = -kk*qq\n")
        gotran2py.get_code(ode_b, format=Format.none, scheme=sch)
        again = gotran2py.get_code(ode_from_string(t), format=Format.none, scheme=sch)
        if again != py:
            py_ru += "\n# REPETITION-DIFFERS\n" + again
        direct += cg.scheme(get_scheme("explicit_euler")) + cg.scheme(gotranx.schemes.generalized_rush_larsen)
        out.append({"py": py, "c": c, "jax": jx, "direct": direct, "py_ru": py_ru, "repeat_ok": again == py,
                    "states": [s.name for s in ode.sorted_states()]})
    except Exception as ex:
        out.append({"error": type(ex).__name__})
json.dump(out, open(sys.argv[3], "w"))
"""


def run_child(ctx: Ctx, texts, seed, history, tag):
    inp = ctx.tmp / f"c09_in_{tag}.json"
    outp = ctx.tmp / f"c09_out_{tag}.json"
    script = ctx.tmp / "c09_child.py"
    script.write_text(_CHILD % {"src": str(common.REPO / "src")})
    inp.write_text(json.dumps(texts))
    env = dict(os.environ)
    env["PYTHONHASHSEED"] = str(seed)
    env["JAX_PLATFORMS"] = "cpu"
    p = subprocess.run([sys.executable, str(script), str(inp), history, str(outp)], env=env, capture_output=True, text=True, timeout=900)
    if p.returncode != 0:
        raise RuntimeError(f"C09 child failed: {p.stderr[-1500:]}")
    return json.loads(outp.read_text())


def c09_batch(ctx: Ctx, texts, seeds, histories=("fresh", "warm")):
    runs = {}
    from concurrent.futures import ThreadPoolExecutor
    jobs = [(s, h) for s in seeds for h in histories]
    with ThreadPoolExecutor(max_workers=8) as ex:
        futs = {ex.submit(run_child, ctx, texts, s, h, f"{s}_{h}"): (s, h) for s, h in jobs}
        for f, key in futs.items():
            runs[key] = f.result()
    base_key = jobs[0]
    base = runs[base_key]
    for i, text in enumerate(texts):
        ctx.case(text, text.count("\n") >= 6, sample={"text": text, "seeds": list(seeds)})
        for key, res in runs.items():
            if key == base_key:
                continue
            a, b = base[i], res[i]
            if ("error" in a) != ("error" in b):
                ctx.violate("C09/accept-differs", f"accepted under PYTHONHASHSEED={base_key[0]} ({base_key[1]}) but not under {key[0]} ({key[1]})",
                            case={"text": text, "seeds": [base_key[0], key[0]], "history": key[1]})
                continue
            if "error" in a:
                continue
            for res_, key_ in ((a, base_key), (b, key)):
                if not res_.get("repeat_ok", True):
                    ctx.violate("C09/repetition/py", f"generating the same text twice in one process (PYTHONHASHSEED={key_[0]}, {key_[1]}) gives different bytes",
                                case={"text": text, "seeds": [key_[0]], "history": key_[1]})
            for part in ("states", "py", "c", "jax", "direct", "py_ru"):
                if a[part] != b[part]:
                    why = "history" if key[0] == base_key[0] else "hashseed"
                    # a product with a literal zero (`-0*-p`): whether sympy folds `cos(-0*-p)` to 1 depends on what its global
                    # assumption cache has seen before and on the hash seed (recorded finding); any other dependence has the plain key
                    import re as _re3
                    zp = "/zero-product" if (part != "states" and _re3.search(r"(?<![\w.])-?0\*|\*-?0(?![\w.])", text)) else ""
                    ctx.violate(f"C09/{why}/{'layout' if part == 'states' else part}{zp}",
                                f"{'slot layout' if part == 'states' else part + ' code'} differs between PYTHONHASHSEED={base_key[0]} ({base_key[1]}) and {key[0]} ({key[1]})"
                                + (f": {a['states']} vs {b['states']}" if part == "states" else ""),
                                case={"text": text, "seeds": [base_key[0], key[0]], "history": key[1]})
                    break
        ctx.count("comparisons", len(runs) - 1)


def c09_case(ctx: Ctx, case: dict):
    c09_batch(ctx, [case["text"]], case.get("seeds", [0, 1, 2, 3, 5, 8]), histories=("fresh", case.get("history", "warm")))
    c09_inprocess(ctx, case["text"])


class _Ordered(frozenset):
    """a frozenset that iterates in a chosen order (the hidden schedule of set traversal)"""
    _order: tuple = ()

    def __iter__(self):
        return iter(self._order)


def c09_inprocess(ctx: Ctx, text: str):
    """adversarial iteration orders of every dependency set, injected from outside; and the model's prediction"""
    try:
        ode0 = common.load(text)
        ref = common.py_code(ode0, scheme=[Scheme.explicit_euler])
    except Exception:
        return
    rm, err = oracle.lean_load(ctx, text, {k: sorted(v) for k, v in oracle.impl_deps(ode0).items()})
    if rm is not None and rm.layout is not None:
        impl_states = [s.name for s in ode0.sorted_states()]
        if impl_states != rm.layout["state"]:
            ctx.broke("correspondence", "Impl.sortAssignments", json.dumps({"text": text, "impl": impl_states, "model": rm.layout["state"]}))
        ctx.count("sort_predictions_compared")
    for trial in range(ctx.n(4, 12)):
        ode = common.load(text)
        for a in tuple(ode.intermediates) + tuple(ode.state_derivatives):
            deps = list(a.value.dependencies)
            ctx.rng.shuffle(deps)
            o = _Ordered(deps)
            o._order = tuple(deps)
            object.__setattr__(a.value, "dependencies", o)
        try:
            code = common.py_code(ode, scheme=[Scheme.explicit_euler])
        except Exception as ex:
            ctx.count(f"adversarial_raises/{type(ex).__name__}")
            continue
        ctx.count("adversarial_orders")
        if code != ref:
            ctx.violate("C09/set-iteration-order/py", "generated code depends on the iteration order of the dependency sets",
                        case={"text": text, "seeds": [0, 1, 2, 3]})
            return


def c09_run(ctx: Ctx):
    nm = ctx.n(10, 100)
    texts = []
    for k in range(nm):
        cfg = gen.ModelCfg(max_inters=9, max_states=5, max_params=4, depth=2, max_comps=2)
        cfg.expr = gen.ExprCfg(p_cond=0.05, p_ccond=0.0, p_mod=0.0, p_floor=0.0, p_relnum=0.0)
        texts.append(gen.gen_model(ctx.rng, cfg).text(ctx.rng))
    # names that coincide with the helper names of the schemes
    texts.append("states(m=0.1, h=0.6)\nparameters(am=2.0, bm=0.5)\ndm_dt_linearized = -(am + bm)\nminf = am/(am + bm)\n"
                 "dm_dt = (minf - m)*(am + bm) + 0*dm_dt_linearized\ndh_dt = -h*m\n")
    seeds = list(range(6)) if not ctx.thorough else list(range(32))
    c09_batch(ctx, texts, seeds)
    for t in texts:
        with common.time_limit(ctx, 60):
            c09_inprocess(ctx, t)


# ================================================================== C10
def permuted_text(rng: random.Random, m: gen.GModel, what: str):
    blocks = [(k, c, list(lines)) for k, c, lines in m.blocks()]
    if what in ("lines", "all"):
        for b in blocks:
            rng.shuffle(b[2])
    if what in ("blocks", "all"):
        # bare expressions (component "") must not directly follow a headed expressions block: keep them first
        bare = [b for b in blocks if b[0] == "expressions" and b[1] == ""]
        rest = [b for b in blocks if not (b[0] == "expressions" and b[1] == "")]
        rng.shuffle(rest)
        # also split a declaration block in two now and then (same component)
        out = []
        for b in rest:
            if b[0] in ("states", "parameters") and len(b[2]) >= 2 and rng.random() < 0.3:
                k = rng.randint(1, len(b[2]) - 1)
                out.append((b[0], b[1], b[2][:k]))
                out.append((b[0], b[1], b[2][k:]))
            else:
                out.append(b)
        rng.shuffle(out)
        # a header-less group of assignments belongs to the unnamed component wherever it stands, except directly after a
        # headed expressions block (the grammar reads it as a continuation of that block): any other place is fair
        blocks = out
        for b in bare:
            ok = [i for i in range(len(blocks) + 1) if i == 0 or blocks[i - 1][0] != "expressions"]
            i = rng.choice(ok)
            blocks = blocks[:i] + [b] + blocks[i:]
    return blocks_text(blocks, m.header)


def c10_case(ctx: Ctx, case: dict):
    base, variants = case["text"], case["variants"]
    try:
        ode0 = common.load(base)
        code0 = common.py_code(ode0, scheme=[Scheme.explicit_euler, Scheme.generalized_rush_larsen])
        c0 = common.c_code(ode0)
    except Exception as ex:
        ctx.count(f"base_rejected/{type(ex).__name__}")
        return
    ctx.case(base, len(variants) >= 2 and base.count("\n") >= 5, sample={"text": base, "variant": variants[0]})
    r0 = ctx.lean().call({"op": "load", "text": base})

    def part_codes(o):
        """generated code of every component sub-model and of its complement (equal models split equally)"""
        out = {}
        comps = [c for c in o.components if c.name]
        if len(comps) < 2:
            return out
        for c in sorted(comps, key=lambda c: c.name)[:4]:
            for tag, mk in (("sub", lambda c=c: c.to_ode()), ("rest", lambda c=c: o - c)):
                try:
                    po = mk()
                    out[(c.name, tag)] = (common.py_code(po, scheme=[Scheme.explicit_euler]), dict(po.missing_variables))
                except Exception as ex:
                    out[(c.name, tag)] = (f"raises {type(ex).__name__}", None)
        return out

    parts0 = part_codes(ode0)
    for v in variants:
        try:
            ode = common.load(v)
        except Exception as ex:
            ctx.violate(f"C10/permutation-rejected/{type(ex).__name__}", f"a permutation of an accepted text is rejected: {type(ex).__name__}: {str(ex)[:80]}",
                        case={"text": base, "variants": [v]})
            continue
        ctx.count("permutations")
        if not (ode == ode0 and ode0 == ode):
            ctx.violate("C10/not-equal", "a permutation of the text loads to an unequal model (==)", case={"text": base, "variants": [v]})
        code = common.py_code(ode, scheme=[Scheme.explicit_euler, Scheme.generalized_rush_larsen])
        if code != code0:
            lay0 = [s.name for s in ode0.sorted_states()]
            lay = [s.name for s in ode.sorted_states()]
            ctx.violate("C10/code-differs" + ("/layout" if lay != lay0 else ""), "a permutation of the text changes the generated NumPy code"
                        + (f" (state slots {lay0} vs {lay})" if lay != lay0 else ""), case={"text": base, "variants": [v]})
        elif common.c_code(ode) != c0:
            ctx.violate("C10/c-code-differs", "a permutation of the text changes the generated C code", case={"text": base, "variants": [v]})
        elif parts0:
            parts = part_codes(ode)
            ctx.count("submodel_codes_compared", len(parts))
            for k in parts0:
                if parts.get(k) != parts0[k]:
                    what = "missing-variable slots" if parts.get(k, (None, None))[1] != parts0[k][1] else "code"
                    ctx.violate(f"C10/submodel-{what.split()[0]}-differs/{k[1]}",
                                f"a permutation of the text changes the generated {what} of the {k[1]} sub-model of component {k[0]!r}",
                                case={"text": base, "variants": [v]})
                    break
        # the model: name-keyed content is the same
        r = ctx.lean().call({"op": "load", "text": v})
        if r0.get("ok") and r.get("ok"):
            keys = ("states", "params", "inters", "derivs", "layout", "annots")
            if any(r0[k] != r[k] for k in keys):
                ctx.broke("correspondence", "load-permutation-invariance(model)", json.dumps({"text": base, "variant": v}))
            if sorted(json.dumps(c, sort_keys=True) for c in r0["comps"]) != sorted(json.dumps(c, sort_keys=True) for c in r["comps"]):
                ctx.broke("correspondence", "component-membership(model)", json.dumps({"text": base, "variant": v}))
        elif r0.get("ok") != r.get("ok"):
            ctx.broke("correspondence", "load-accept-class", json.dumps({"text": base, "variant": v}))


def c10_run(ctx: Ctx):
    n = ctx.n(30, 1200)
    for k in range(n):
        cfg = gen.ModelCfg(max_inters=7, max_states=4, max_params=4, depth=2, p_shared=0.3)
        if k % 3 == 1:      # several components that read each other's quantities (sub-model layouts)
            cfg = gen.ModelCfg(max_inters=8, max_states=5, min_states=3, max_params=4, depth=1, p_shared=0.1, max_comps=4, min_comps=3)
        cfg.expr = gen.ExprCfg(p_cond=0.05, p_ccond=0.01, p_mod=0.01, p_floor=0.01)
        m = gen.gen_model(ctx.rng, cfg)
        base = m.text(None, shuffle_lines=False)
        variants = [permuted_text(ctx.rng, m, w) for w in ("lines", "blocks", "all", "all")]
        with common.time_limit(ctx, 60):
            c10_case(ctx, {"text": base, "variants": variants})
        if ctx.elapsed() > (1500 if ctx.thorough else 150):
            break
