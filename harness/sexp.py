"""Expression ASTs shared by the harness.

An expression is a nested tuple mirroring the Lean `Gx.Expr`:
  ('num', m, e) ('var', x) ('pi',) ('neg', a) ('add', a, b) ('sub', a, b) ('mul', a, b)
  ('div', a, b) ('pow', a, b) ('fn', f, a) ('mod', a, b) ('rel', r, a, b) ('not', a)
  ('and', a, b) ('or', a, b) ('cond', c, a, b) ('ccond', r, x, y, a, b, s)
plus, for translated C code, ('int', n) (an integer literal with C `int` type).

Contents: S-expression reader (what the Lean driver prints), JSON writer (what it reads),
a 50-digit reference evaluator with stochastic rounding (for conditioning estimates),
and the minimal-parenthesis renderer to `.ode` text.
"""
from __future__ import annotations

import random
from decimal import Decimal

import mpmath
from mpmath import mp, mpf

mp.dps = 50

FN1 = ("exp", "cos", "sin", "tan", "acos", "asin", "atan", "abs", "floor", "log", "sqrt", "sign")
RELS = ("lt", "gt", "le", "ge", "eq", "ne")


# ---------------------------------------------------------------- S-expressions
def parse_sexp(s: str):
    toks = s.replace("(", " ( ").replace(")", " ) ").split()
    pos = 0

    def rd():
        nonlocal pos
        t = toks[pos]
        pos += 1
        if t == "(":
            lst = []
            while toks[pos] != ")":
                lst.append(rd())
            pos += 1
            return tuple(lst)
        return t

    out = rd()
    return _norm(out)


def _norm(t):
    if isinstance(t, str):
        return t
    tag = t[0]
    if tag == "num":
        return ("num", int(t[1]), int(t[2]))
    if tag == "var":
        return ("var", t[1])
    if tag in ("fn", "rel", "call"):
        return (tag, t[1]) + tuple(_norm(x) for x in t[2:])
    if tag == "ccond":
        return (tag, t[1]) + tuple(_norm(x) for x in t[2:])
    return (tag,) + tuple(_norm(x) for x in t[1:])


def norm_num(m: int, e: int):
    if m == 0:
        return 0, 0
    while m % 10 == 0:
        m //= 10
        e += 1
    return m, e


def num_from_text(txt: str):
    """decimal literal text -> normalised (m, e)"""
    d = Decimal(txt)
    sign, digits, exp = d.as_tuple()
    m = int("".join(map(str, digits))) if digits else 0
    return norm_num(m, exp)


def to_json(e):
    """expression -> JSON arrays understood by the Lean driver (`exprOfJ`)"""
    tag = e[0]
    if tag == "num":
        return ["num", str(e[1]), e[2]]
    if tag == "int":
        return ["num", str(e[1]), 0]
    if tag == "var":
        return ["var", e[1]]
    if tag in ("fn", "rel"):
        return [tag, e[1]] + [to_json(x) for x in e[2:]]
    if tag == "ccond":
        raise ValueError("ccond does not occur in generated code")
    return [tag] + [to_json(x) for x in e[1:]]


def fv(e, acc=None):
    if acc is None:
        acc = []
    tag = e[0]
    if tag == "var":
        if e[1] not in acc:
            acc.append(e[1])
    elif tag in ("num", "pi", "int"):
        pass
    elif tag in ("fn", "rel", "ccond", "call"):
        for x in e[2:]:
            fv(x, acc)
    else:
        for x in e[1:]:
            fv(x, acc)
    return acc


def size(e):
    tag = e[0]
    if tag in ("num", "pi", "int", "var"):
        return 1
    if tag in ("fn", "rel", "ccond", "call"):
        return 1 + sum(size(x) for x in e[2:])
    return 1 + sum(size(x) for x in e[1:])


def ops(e, acc):
    tag = e[0]
    key = tag if tag not in ("fn", "rel") else f"{tag}:{e[1]}"
    acc[key] = acc.get(key, 0) + 1
    if tag in ("num", "pi", "int", "var"):
        return
    for x in (e[2:] if tag in ("fn", "rel", "ccond", "call") else e[1:]):
        ops(x, acc)


def rename(e, f):
    tag = e[0]
    if tag == "var":
        return ("var", f(e[1]))
    if tag in ("num", "pi", "int"):
        return e
    if tag in ("fn", "rel", "ccond", "call"):
        return (tag, e[1]) + tuple(rename(x, f) for x in e[2:])
    return (tag,) + tuple(rename(x, f) for x in e[1:])


# ---------------------------------------------------------------- reference evaluator
NAN = mpf("nan")
INF = mpf("inf")
BIG = mpf("1e300")


class Unbound(KeyError):
    pass


def _fin(x):
    return mpmath.isfinite(x)


def _real(z):
    if isinstance(z, mpmath.mpc):
        return NAN
    return z


def hp_div(a, b):
    if b == 0:
        if a == 0 or mpmath.isnan(a):
            return NAN
        return INF if (a > 0) else -INF
    return a / b


def hp_pow(a, b):
    try:
        if a == 0 and b < 0:
            return INF
        if _fin(a) and _fin(b) and a > 0 and abs(b * mpmath.log(a)) > mpf("1e7"):
            # 2**(1e23): beyond every float range (mpmath would try to build the number)
            return INF if b * mpmath.log(a) > 0 else mpf(0)
        r = mpmath.power(a, b)
    except ZeroDivisionError:
        return INF
    except (ValueError, OverflowError, MemoryError):
        return NAN
    return _real(r)


def hp_mod(a, b):
    """floored modulo: sign follows the divisor (sympy Mod / Python %)"""
    if b == 0 or not _fin(a) or not _fin(b):
        return NAN
    return a - b * mpmath.floor(a / b)


def hp_fn(f, a):
    try:
        if f == "exp":
            if _fin(a) and abs(a) > mpf("1e7"):
                # beyond every float range; mpmath would try to build the number (MemoryError for exp(1e23))
                return INF if a > 0 else mpf(0)
            return mpmath.exp(a)
        if f == "log":
            if a == 0:
                return -INF
            if a < 0:
                return NAN
            return mpmath.log(a)
        if f == "sqrt":
            return NAN if a < 0 else mpmath.sqrt(a)
        if f == "sin":
            return mpmath.sin(a) if _fin(a) else NAN
        if f == "cos":
            return mpmath.cos(a) if _fin(a) else NAN
        if f == "tan":
            return mpmath.tan(a) if _fin(a) else NAN
        if f == "asin":
            return NAN if abs(a) > 1 else mpmath.asin(a)
        if f == "acos":
            return NAN if abs(a) > 1 else mpmath.acos(a)
        if f == "atan":
            return mpmath.atan(a)
        if f == "abs":
            return abs(a)
        if f == "floor":
            return mpmath.floor(a) if _fin(a) else a
        if f == "sign":
            return mpf(1) if a > 0 else (mpf(-1) if a < 0 else (mpf(0) if a == 0 else NAN))
    except (ValueError, OverflowError, ZeroDivisionError, MemoryError):
        return NAN
    raise ValueError(f)


def hp_rel(r, a, b):
    if mpmath.isnan(a) or mpmath.isnan(b):
        return r == "ne"
    return {"lt": a < b, "gt": a > b, "le": a <= b, "ge": a >= b, "eq": a == b, "ne": a != b}[r]


def _bare(e) -> bool:
    """a variable, a literal or a negated literal"""
    return e[0] in ("var", "num", "int") or (e[0] == "neg" and e[1][0] in ("num", "int"))


class HP:
    """Reference evaluator: `eval` of the Lean model instantiated at 50-digit reals.
    With `noise` (a `random.Random`) every literal and every primitive result is
    perturbed by a relative error of at most 2**-52 (stochastic rounding): the spread
    over a few such runs estimates the float64 conditioning of the evaluation and
    exposes samples sitting on a discontinuity."""

    def __init__(self, noise: random.Random | None = None):
        self.noise = noise
        self.overflow = False     # some node left the float64 range (or is not finite)
        self.unstable = False     # some node sits exactly on a discontinuity (floor / Mod at an integer)

    def r(self, x):
        if not _fin(x) or abs(x) > BIG:
            self.overflow = True
            return x
        if self.noise is None:
            return x
        return x * (1 + mpf(self.noise.uniform(-1, 1)) * mpf(2) ** -52)

    def _on_jump(self, a, arg_expr):
        """floor / Mod evaluated exactly at an integer coming from a computation: any rounding flips it"""
        if arg_expr[0] in ("num", "int") or not _fin(a):
            return
        # exactly at, or within 1e-25 of, an integer (sin(pi) at 50 digits is 1e-51, not 0)
        if abs(a - mpmath.nint(a)) <= mpf("1e-25") * (1 + abs(a)):
            self.unstable = True

    def ev(self, e, env):
        tag = e[0]
        r = self.r
        if tag == "num":
            v = mpf(e[1]) * mpf(10) ** e[2]
            if self.noise is None and abs(v) < BIG and (v == 0 or abs(v) > mpf("1e-300")):
                # the float64 meaning of a literal is the nearest double (so that a state equal to
                # the double 0.9 *is* equal to the literal 0.9); the noisy runs perturb the decimal value
                v = mpf(float(v))
            return r(v)
        if tag == "int":
            return mpf(e[1])
        if tag == "var":
            try:
                return env[e[1]]
            except KeyError:
                raise Unbound(e[1])
        if tag == "pi":
            return r(+mp.pi)
        if tag == "neg":
            return -self.ev(e[1], env)
        if tag == "add":
            return r(self.ev(e[1], env) + self.ev(e[2], env))
        if tag == "sub":
            return r(self.ev(e[1], env) - self.ev(e[2], env))
        if tag == "mul":
            return r(self.ev(e[1], env) * self.ev(e[2], env))
        if tag == "div":
            return r(hp_div(self.ev(e[1], env), self.ev(e[2], env)))
        if tag == "pow":
            return r(hp_pow(self.ev(e[1], env), self.ev(e[2], env)))
        if tag == "mod":
            a, b = self.ev(e[1], env), self.ev(e[2], env)
            if _fin(a) and _fin(b) and b != 0:
                self._on_jump(a / b, ("div",))
            return r(hp_mod(a, b))
        if tag == "fn":
            a = self.ev(e[2], env)
            if e[1] == "floor":
                self._on_jump(a, e[2])
            if e[1] in ("abs", "sign") and a == 0 and e[2][0] not in ("num", "int"):
                self.unstable = self.unstable or e[1] == "sign"
            v = hp_fn(e[1], a)
            if e[1] in ("sin", "cos", "tan") and _fin(v) and v != 0 and abs(v) < mpf("1e-40") and abs(a) > mpf("1e-3"):
                # sin(pi), cos(pi/2 + pi): zero in exact arithmetic (sympy evaluates them to 0), 1e-51 at 50 digits;
                # a quotient by such a value is a division by zero, not a number of size 1e50
                v = mpf(0)
            return r(v)
        if tag == "rel":
            if _bare(e[2]) and _bare(e[3]):
                # an input compared with a literal or another input: both sides are exact doubles in every
                # faithful implementation, so the comparison is exact too (Ge vs Gt differ only here)
                keep, self.noise = self.noise, None
                try:
                    a, b = self.ev(e[2], env), self.ev(e[3], env)
                finally:
                    self.noise = keep
            else:
                a, b = self.ev(e[2], env), self.ev(e[3], env)
            if _fin(a) and _fin(b) and a != b and abs(a - b) <= mpf("1e-25") * (abs(a) + abs(b)):
                self.unstable = True   # equal up to the working precision only: the comparison is meaningless
            return mpf(1) if hp_rel(e[1], a, b) else mpf(0)
        if tag == "not":
            return mpf(0) if self.ev(e[1], env) != 0 else mpf(1)
        if tag == "and":
            a = self.ev(e[1], env)
            b = self.ev(e[2], env)
            return mpf(1) if (a != 0 and b != 0) else mpf(0)
        if tag == "or":
            a = self.ev(e[1], env)
            b = self.ev(e[2], env)
            return mpf(1) if (a != 0 or b != 0) else mpf(0)
        if tag == "cond":
            # the value of the selected branch; what the other branch does at this point (sqrt of a negative number
            # behind a guard, a quotient by zero) is not part of the meaning
            c = self.ev(e[1], env)
            return self.ev(e[2], env) if c != 0 else self.ev(e[3], env)
        if tag == "ccond":
            rel = e[1]
            x, y, a, b, s = (self.ev(t, env) for t in e[2:])
            H = r(hp_div(mpf(1), r(1 + r(hp_fn("exp", r(hp_div(r(x - y), s)))))))
            if rel in ("gt", "ge"):
                return r(r(a * r(1 - H)) + r(b * H))
            return r(r(a * H) + r(b * r(1 - H)))
        raise ValueError(f"bad tag {tag}")


def eval_model(assigns: dict, order: list, base: dict, noise=None, info=None):
    """values of all assignments (dict name -> mpf); `order` is any topological order"""
    hp = HP(noise)
    env = dict(base)
    for n in order:
        env[n] = hp.ev(assigns[n], env)
    if info is not None:
        info["defined"] = not hp.overflow
        info["unstable"] = hp.unstable
    return env


def reference(assigns: dict, order: list, base: dict, seed: int, runs: int = 3, info=None):
    """exact values plus, per name, the spread under stochastic rounding.  `info` receives
    defined (every node finite and inside the float64 range) / unstable (on a discontinuity)."""
    exact = eval_model(assigns, order, base, info=info)
    spread = {n: mpf(0) for n in order}
    for k in range(runs):
        pert = eval_model(assigns, order, base, random.Random(seed * 7919 + k))
        for n in order:
            a, b = exact[n], pert[n]
            if _fin(a) and _fin(b):
                d = abs(a - b)
            elif (mpmath.isnan(a) and mpmath.isnan(b)) or a == b:
                d = mpf(0)
            else:
                d = INF
            if d > spread[n]:
                spread[n] = d
    return exact, spread


U = mpf(2) ** -53


def agrees(v, ref, spread, k=64, floor_ulps=8):
    """float64 value `v` vs reference `ref` with conditioning `spread`.
    Returns 'ok' | 'bad' | 'skip' (reference undefined / unstable)."""
    if not _fin(ref) or not _fin(spread):
        return "skip"
    if ref != 0 and spread > abs(ref) * mpf("1e-6"):
        return "skip"
    if ref == 0 and spread > mpf("1e-300"):
        return "skip"
    try:
        if isinstance(v, complex) or hasattr(v, "imag") and getattr(v, "dtype", None) is not None and getattr(v.dtype, "kind", "") == "c":
            # a complex constant in an unselected branch (asin(10) behind a guard) makes the whole array complex:
            # x + 0j is the number x; a non-zero imaginary part is a wrong value
            if v.imag != 0:
                return "bad"
            v = v.real
        vv = mpf(float(v)) if not isinstance(v, (int, float)) and hasattr(v, "dtype") else mpf(v)
    except Exception:
        return "bad"
    if not _fin(vv):
        # overflow of a finite reference beyond float64 range is not a disagreement
        if abs(ref) > mpf("1e300"):
            return "skip"
        return "bad"
    tol = k * spread + floor_ulps * 2 * U * abs(ref) + mpf("1e-320")
    return "ok" if abs(vv - ref) <= tol else "bad"


# ---------------------------------------------------------------- rendering to .ode text
def num_text(m: int, e: int, rng: random.Random | None = None) -> str:
    """a literal the grammar's SCIENTIFIC_NUMBER accepts and sympy can read"""
    if e == 0:
        return str(m)
    if e > 0:
        if rng is not None and rng.random() < 0.5 and e <= 6:
            return str(m * 10 ** e)
        return f"{m}{'e' if rng is None or rng.random() < 0.7 else 'E'}{e}"
    digits = str(m)
    if -e <= 8 and (rng is None or rng.random() < 0.7):
        if len(digits) <= -e:
            digits = "0" * (-e - len(digits) + 1) + digits
        return digits[:e] + "." + digits[e:]
    return f"{m}{'e' if rng is None or rng.random() < 0.7 else 'E'}{e}"


REL_NAME = {"lt": "Lt", "gt": "Gt", "le": "Le", "ge": "Ge", "eq": "Eq"}
FN_NAME = {"abs": "abs", "log": "log"}


def render(e, lvl: int = 0, rng: random.Random | None = None) -> str:
    """minimal-parenthesis Python-style text; lvl: 0 expression, 1 term, 2 factor, 3 atom"""

    def par(need, s):
        return f"({s})" if need else s

    tag = e[0]
    if tag == "num":
        return num_text(e[1], e[2], rng)
    if tag == "var":
        return e[1]
    if tag == "pi":
        return "pi"
    if tag == "add":
        return par(lvl > 0, f"{render(e[1], 0, rng)} + {render(e[2], 1, rng)}")
    if tag == "sub":
        return par(lvl > 0, f"{render(e[1], 0, rng)} - {render(e[2], 1, rng)}")
    if tag == "mul":
        return par(lvl > 1, f"{render(e[1], 1, rng)}*{render(e[2], 2, rng)}")
    if tag == "div":
        return par(lvl > 1, f"{render(e[1], 1, rng)}/{render(e[2], 2, rng)}")
    if tag == "neg":
        return par(lvl > 2, f"-{render(e[1], 2, rng)}")
    if tag == "pow":
        return par(lvl > 2, f"{render(e[1], 3, rng)}**{render(e[2], 2, rng)}")
    if tag == "fn":
        name = e[1]
        if name == "abs" and rng is not None and rng.random() < 0.5:
            name = "Abs"
        if name == "log" and rng is not None and rng.random() < 0.3:
            name = "ln"
        return f"{name}({render(e[2], 0, rng)})"
    if tag == "mod":
        return f"Mod({render(e[1], 0, rng)}, {render(e[2], 0, rng)})"
    if tag == "rel":
        return f"{REL_NAME[e[1]]}({render(e[2], 0, rng)}, {render(e[3], 0, rng)})"
    if tag == "not":
        return f"Not({render(e[1], 0, rng)})"
    if tag in ("and", "or"):
        # flatten right-nested connectives back to the n-ary form
        name = "And" if tag == "and" else "Or"
        args = []
        cur = e
        while cur[0] == tag:
            args.append(cur[1])
            cur = cur[2]
        args.append(cur)
        return f"{name}({', '.join(render(a, 0, rng) for a in args)})"
    if tag == "cond":
        return f"Conditional({render(e[1], 0, rng)}, {render(e[2], 0, rng)}, {render(e[3], 0, rng)})"
    if tag == "ccond":
        return (f"ContinuousConditional({REL_NAME[e[1]]}({render(e[2], 0, rng)}, {render(e[3], 0, rng)}), "
                f"{render(e[4], 0, rng)}, {render(e[5], 0, rng)}, {render(e[6], 0, rng)})")
    raise ValueError(tag)
