"""Translate what gotranx emitted back into the harness / Lean IR.

* `py_module(code)`  : NumPy / JAX module text -> {function name: PyFunc}
* `c_module(code)`   : C translation unit text -> {function name: CFunc}
* `lark_items(tree)` : raw lark tree -> the canonical item list the Lean parser prints

A statement is ('U', name, array, index) | ('D', name, expr) | ('S', slot, expr).
Anything outside the straight-line shape is recorded in `.other` (never silently dropped).
"""
from __future__ import annotations

import ast
import re
from dataclasses import dataclass, field
from decimal import Decimal

from . import sexp

ARRAYS = ("states", "parameters", "missing_variables")

NP_FN = {"exp": "exp", "log": "log", "sqrt": "sqrt", "sin": "sin", "cos": "cos", "tan": "tan",
         "arcsin": "asin", "arccos": "acos", "arctan": "atan", "asin": "asin", "acos": "acos", "atan": "atan",
         "abs": "abs", "fabs": "abs", "absolute": "abs", "floor": "floor", "sign": "sign"}


class Untranslatable(Exception):
    pass


@dataclass
class PyFunc:
    name: str
    args: list
    stmts: list = field(default_factory=list)
    other: list = field(default_factory=list)      # source of statements outside the IR shape
    returned: list | None = None                   # JAX: indices i of `_values_i` in the returned array
    ret_name: str | None = None
    scalar_only: list = field(default_factory=list)  # constructs that are not array-safe (C14)
    decorators: list = field(default_factory=list)


def _num_from_const(v):
    if isinstance(v, bool):
        return ("num", 1 if v else 0, 0)
    if isinstance(v, int):
        if v < 0:
            return ("neg", ("num",) + sexp.norm_num(-v, 0))
        return ("num",) + sexp.norm_num(v, 0)
    if isinstance(v, float):
        if v != v or v in (float("inf"), float("-inf")):
            raise Untranslatable(f"non-finite literal {v}")
        d = Decimal(repr(v))
        sign, digits, exp = d.as_tuple()
        m = int("".join(map(str, digits)))
        e = ("num",) + sexp.norm_num(m, exp)
        return ("neg", e) if sign else e
    raise Untranslatable(f"constant {v!r}")


class PyExprTranslator:
    def __init__(self, notes: list):
        self.notes = notes

    def tr(self, n: ast.AST):
        if isinstance(n, ast.Constant):
            return _num_from_const(n.value)
        if isinstance(n, ast.Name):
            return ("var", n.id)
        if isinstance(n, ast.Attribute):
            if isinstance(n.value, ast.Name) and n.value.id in ("numpy", "math"):
                if n.attr == "pi":
                    return ("pi",)
                if n.attr == "e":
                    return ("fn", "exp", ("num", 1, 0))
            raise Untranslatable(ast.unparse(n))
        if isinstance(n, ast.UnaryOp):
            a = self.tr(n.operand)
            if isinstance(n.op, ast.USub):
                return ("neg", a)
            if isinstance(n.op, ast.UAdd):
                return a
            if isinstance(n.op, ast.Not):
                self.notes.append("python-not")
                return ("not", a)
            raise Untranslatable(ast.unparse(n))
        if isinstance(n, ast.BinOp):
            a, b = self.tr(n.left), self.tr(n.right)
            op = {ast.Add: "add", ast.Sub: "sub", ast.Mult: "mul", ast.Div: "div", ast.Pow: "pow", ast.Mod: "mod"}.get(type(n.op))
            if op is None:
                raise Untranslatable(ast.unparse(n))
            return (op, a, b)
        if isinstance(n, ast.Compare):
            if len(n.ops) != 1:
                self.notes.append("chained-comparison")
                raise Untranslatable(ast.unparse(n))
            r = {ast.Lt: "lt", ast.Gt: "gt", ast.LtE: "le", ast.GtE: "ge", ast.Eq: "eq", ast.NotEq: "ne"}.get(type(n.ops[0]))
            if r is None:
                raise Untranslatable(ast.unparse(n))
            return ("rel", r, self.tr(n.left), self.tr(n.comparators[0]))
        if isinstance(n, ast.BoolOp):
            self.notes.append("python-and-or")
            tag = "and" if isinstance(n.op, ast.And) else "or"
            vals = [self.tr(v) for v in n.values]
            out = vals[-1]
            for v in reversed(vals[:-1]):
                out = (tag, v, out)
            return out
        if isinstance(n, ast.IfExp):
            self.notes.append("python-ifexp")
            # the printer's sign(): (0.0 if (e == 0) else numpy.copysign(1, e))
            t, b, o = n.test, n.body, n.orelse
            if (isinstance(o, ast.Call) and ast.unparse(o.func).endswith("copysign") and isinstance(t, ast.Compare)
                    and ast.unparse(t.left) == ast.unparse(o.args[1])):
                return ("fn", "sign", self.tr(t.left))
            return ("cond", self.tr(t), self.tr(b), self.tr(o))
        if isinstance(n, ast.Call):
            fn = ast.unparse(n.func)
            args = n.args
            if fn.startswith(("numpy.", "math.", "jax.numpy.", "jnp.")):
                short = fn.split(".")[-1]
                full = fn.split(".", 1)[1] if fn.startswith(("numpy.", "math.")) else short
                if full in ("logical_and.reduce", "logical_or.reduce"):
                    tag = "and" if "and" in full else "or"
                    if len(args) == 1 and isinstance(args[0], (ast.Tuple, ast.List)):
                        vals = [self.tr(v) for v in args[0].elts]
                        self.notes.append(f"reduce-{type(args[0]).__name__.lower()}")
                        out = vals[-1]
                        for v in reversed(vals[:-1]):
                            out = (tag, v, out)
                        return out
                    raise Untranslatable(ast.unparse(n))
                if short in NP_FN and len(args) == 1:
                    return ("fn", NP_FN[short], self.tr(args[0]))
                if short == "where" and len(args) == 3:
                    return ("cond", self.tr(args[0]), self.tr(args[1]), self.tr(args[2]))
                if short == "logical_and" and len(args) == 2:
                    return ("and", self.tr(args[0]), self.tr(args[1]))
                if short == "logical_or" and len(args) == 2:
                    return ("or", self.tr(args[0]), self.tr(args[1]))
                if short == "logical_not" and len(args) == 1:
                    return ("not", self.tr(args[0]))
                if short in ("mod", "fmod", "remainder") and len(args) == 2:
                    if short == "fmod":
                        self.notes.append("fmod")
                    return ("mod", self.tr(args[0]), self.tr(args[1]))
                if short in ("power", "pow") and len(args) == 2:
                    return ("pow", self.tr(args[0]), self.tr(args[1]))
                if short == "copysign" and len(args) == 2:
                    return ("mul", ("fn", "abs", self.tr(args[0])), ("fn", "sign", self.tr(args[1])))
                if short in ("float64", "asarray", "array") and len(args) == 1:
                    return self.tr(args[0])
            raise Untranslatable(ast.unparse(n))
        raise Untranslatable(ast.unparse(n))


def py_function(fd: ast.FunctionDef) -> PyFunc:
    f = PyFunc(name=fd.name, args=[a.arg for a in fd.args.args],
               decorators=[ast.unparse(d) for d in fd.decorator_list])
    tr = PyExprTranslator(f.scalar_only)
    for st in fd.body:
        src = ast.unparse(st)
        if isinstance(st, ast.Expr) and isinstance(st.value, ast.Constant):
            continue  # docstring
        if isinstance(st, ast.Return):
            v = st.value
            if isinstance(v, ast.Name):
                f.ret_name = v.id
            elif isinstance(v, ast.Call) and ast.unparse(v.func).endswith("array") and v.args and isinstance(v.args[0], ast.List):
                idx = []
                for el in v.args[0].elts:
                    mm = re.fullmatch(r"_values_(\d+)", ast.unparse(el))
                    idx.append(int(mm.group(1)) if mm else -1)
                f.returned = idx
            else:
                f.other.append(src)
            continue
        if isinstance(st, ast.Assign) and len(st.targets) == 1:
            tgt = st.targets[0]
            val = st.value
            try:
                if isinstance(tgt, ast.Name):
                    if (isinstance(val, ast.Subscript) and isinstance(val.value, ast.Name) and val.value.id in ARRAYS
                            and isinstance(val.slice, ast.Constant) and isinstance(val.slice.value, int)):
                        f.stmts.append(("U", tgt.id, val.value.id, val.slice.value))
                        continue
                    mm = re.fullmatch(r"_values_(\d+)", tgt.id)
                    if mm:
                        f.stmts.append(("S", int(mm.group(1)), tr.tr(val)))
                        continue
                    if tgt.id in ("values", "shape"):
                        f.other.append(src)
                        continue
                    f.stmts.append(("D", tgt.id, tr.tr(val)))
                    continue
                if (isinstance(tgt, ast.Subscript) and isinstance(tgt.value, ast.Name) and tgt.value.id == "values"
                        and isinstance(tgt.slice, ast.Constant) and isinstance(tgt.slice.value, int)):
                    f.stmts.append(("S", tgt.slice.value, tr.tr(val)))
                    continue
            except Untranslatable as ex:
                f.other.append(f"UNTRANSLATABLE {ex}: {src}")
                continue
        f.other.append(src)
    return f


def py_module(code: str):
    """returns (functions, index dicts, top-level other)"""
    tree = ast.parse(code)
    funcs = {}
    dicts = {}
    for st in tree.body:
        if isinstance(st, ast.FunctionDef):
            funcs[st.name] = py_function(st)
        elif isinstance(st, ast.Assign) and len(st.targets) == 1 and isinstance(st.targets[0], ast.Name) and isinstance(st.value, ast.Dict):
            try:
                dicts[st.targets[0].id] = ast.literal_eval(st.value)
            except Exception:
                pass
    return funcs, dicts


def stmts_json(stmts):
    out = []
    for s in stmts:
        if s[0] == "U":
            out.append(["U", s[1], s[2], s[3]])
        elif s[0] == "D":
            out.append(["D", s[1], sexp.to_json(s[2])])
        else:
            out.append(["S", s[1], sexp.to_json(s[2])])
    return out


def skeleton(stmts):
    out = []
    for s in stmts:
        if s[0] == "U":
            out.append(f"U {s[1]} {s[2]} {s[3]}")
        elif s[0] == "D":
            out.append(f"D {s[1]}")
        else:
            out.append(f"S {s[1]}")
    return out


# ---------------------------------------------------------------- C
C_FN = {"exp": "exp", "log": "log", "sqrt": "sqrt", "sin": "sin", "cos": "cos", "tan": "tan", "asin": "asin",
        "acos": "acos", "atan": "atan", "fabs": "abs", "floor": "floor"}

_ONE, _TWO, _TEN = ("num", 1, 0), ("num", 2, 0), ("num", 1, 1)
C_CONSTANTS = {
    "M_PI": ("pi",), "M_E": ("fn", "exp", _ONE), "M_SQRT2": ("fn", "sqrt", _TWO), "M_SQRT1_2": ("div", _ONE, ("fn", "sqrt", _TWO)),
    "M_PI_2": ("div", ("pi",), _TWO), "M_PI_4": ("div", ("pi",), ("num", 4, 0)), "M_1_PI": ("div", _ONE, ("pi",)), "M_2_PI": ("div", _TWO, ("pi",)),
    "M_LN2": ("fn", "log", _TWO), "M_LN10": ("fn", "log", _TEN), "M_LOG2E": ("div", _ONE, ("fn", "log", _TWO)),
    "M_LOG10E": ("div", _ONE, ("fn", "log", _TEN)), "M_2_SQRTPI": ("div", _TWO, ("fn", "sqrt", ("pi",))),
}

_C_TOK = re.compile(r"\s*(?:(\d+\.\d*(?:[eE][+-]?\d+)?[fFlL]?|\.\d+(?:[eE][+-]?\d+)?[fFlL]?|\d+[eE][+-]?\d+[fFlL]?)|(\d+)[uUlL]*|([A-Za-z_]\w*)|(\|\||&&|==|!=|<=|>=|[-+*/%()?:,<>!\[\]]))")


class CParser:
    """expression subset emitted by sympy's C99 printer.  Integer literals keep their C type:
    ('int', n); everything else is double."""

    def __init__(self, text: str):
        self.toks = []
        pos = 0
        text = text.strip()
        while pos < len(text):
            m = _C_TOK.match(text, pos)
            if not m:
                raise Untranslatable(f"C token at {text[pos:pos+20]!r}")
            if m.group(1) is not None:
                self.toks.append(("flt", m.group(1).rstrip("fFlL")))
            elif m.group(2) is not None:
                self.toks.append(("int", m.group(2)))
            elif m.group(3) is not None:
                self.toks.append(("id", m.group(3)))
            else:
                self.toks.append(("op", m.group(4)))
            pos = m.end()
        self.i = 0

    def peek(self):
        return self.toks[self.i] if self.i < len(self.toks) else ("eof", "")

    def eat(self, kind=None, val=None):
        t = self.peek()
        if (kind and t[0] != kind) or (val and t[1] != val):
            raise Untranslatable(f"C parse: expected {val or kind}, got {t}")
        self.i += 1
        return t

    def parse(self):
        e = self.ternary()
        if self.peek()[0] != "eof":
            raise Untranslatable(f"C parse: trailing {self.peek()}")
        return e

    def ternary(self):
        c = self.lor()
        if self.peek() == ("op", "?"):
            self.eat()
            a = self.ternary()
            self.eat("op", ":")
            b = self.ternary()
            return ("cond", c, a, b)
        return c

    def lor(self):
        a = self.land()
        while self.peek() == ("op", "||"):
            self.eat()
            a = ("or", a, self.land())
        return a

    def land(self):
        a = self.equality()
        while self.peek() == ("op", "&&"):
            self.eat()
            a = ("and", a, self.equality())
        return a

    def equality(self):
        a = self.relational()
        while self.peek() in (("op", "=="), ("op", "!=")):
            op = self.eat()[1]
            a = ("rel", "eq" if op == "==" else "ne", a, self.relational())
        return a

    def relational(self):
        a = self.additive()
        while self.peek() in (("op", "<"), ("op", ">"), ("op", "<="), ("op", ">=")):
            op = self.eat()[1]
            a = ("rel", {"<": "lt", ">": "gt", "<=": "le", ">=": "ge"}[op], a, self.additive())
        return a

    def additive(self):
        a = self.mult()
        while self.peek() in (("op", "+"), ("op", "-")):
            op = self.eat()[1]
            a = ("add" if op == "+" else "sub", a, self.mult())
        return a

    def mult(self):
        a = self.unary()
        while self.peek() in (("op", "*"), ("op", "/"), ("op", "%")):
            op = self.eat()[1]
            a = ({"*": "mul", "/": "div", "%": "cmod"}[op], a, self.unary())
        return a

    def unary(self):
        t = self.peek()
        if t == ("op", "-"):
            self.eat()
            return ("neg", self.unary())
        if t == ("op", "+"):
            self.eat()
            return self.unary()
        if t == ("op", "!"):
            self.eat()
            return ("not", self.unary())
        return self.primary()

    def primary(self):
        t = self.eat()
        if t[0] == "flt":
            return ("num",) + sexp.num_from_text(t[1])
        if t[0] == "int":
            return ("int", int(t[1]))
        if t == ("op", "("):
            e = self.ternary()
            self.eat("op", ")")
            return e
        if t[0] == "id":
            name = t[1]
            if self.peek() == ("op", "("):
                self.eat()
                args = []
                if self.peek() != ("op", ")"):
                    args.append(self.ternary())
                    while self.peek() == ("op", ","):
                        self.eat()
                        args.append(self.ternary())
                self.eat("op", ")")
                if name in C_FN and len(args) == 1:
                    return ("fn", C_FN[name], args[0])
                if name == "pow" and len(args) == 2:
                    return ("pow", args[0], args[1])
                if name == "fmod" and len(args) == 2:
                    return ("fmod", args[0], args[1])
                raise Untranslatable(f"C call {name}/{len(args)}")
            if self.peek() == ("op", "["):
                self.eat()
                idx = self.eat("int")
                self.eat("op", "]")
                return ("idx", name, int(idx[1]))
            if name in C_CONSTANTS:
                return C_CONSTANTS[name]
            return ("var", name)
        raise Untranslatable(f"C primary {t}")


@dataclass
class CFunc:
    name: str
    args: str
    stmts: list = field(default_factory=list)
    other: list = field(default_factory=list)
    duplicate: bool = False


_C_FUNC = re.compile(r"^(void|int)\s+(\w+)\s*\(([^)]*)\)\s*\{", re.M)


def c_module(code: str):
    """{name: CFunc} for the `void f(...) { straight-line }` functions, plus the raw text of int-returning ones"""
    funcs: dict[str, CFunc] = {}
    dups = []
    for m in _C_FUNC.finditer(code):
        ret, name, args = m.group(1), m.group(2), m.group(3)
        # body up to the matching closing brace at column 0
        start = m.end()
        depth = 1
        i = start
        while i < len(code) and depth:
            if code[i] == "{":
                depth += 1
            elif code[i] == "}":
                depth -= 1
            i += 1
        body = code[start:i - 1]
        f = CFunc(name=name, args=args)
        if name in funcs:
            dups.append(name)
            f.duplicate = True
        if ret == "void":
            body_nc = re.sub(r"/\*.*?\*/", "", body, flags=re.S)
            body_nc = re.sub(r"//[^\n]*", "", body_nc)
            for st in body_nc.split(";"):
                st = " ".join(st.split())
                if not st:
                    continue
                try:
                    mm = re.fullmatch(r"const double (\w+) = (.*)", st)
                    if mm:
                        rhs = CParser(mm.group(2)).parse()
                        if rhs[0] == "idx" and rhs[1] in ARRAYS:
                            f.stmts.append(("U", mm.group(1), rhs[1], rhs[2]))
                        else:
                            f.stmts.append(("D", mm.group(1), rhs))
                        continue
                    mm = re.fullmatch(r"(\w+)\[(\d+)\] = (.*)", st)
                    if mm:
                        f.stmts.append(("S", int(mm.group(2)), CParser(mm.group(3)).parse(), mm.group(1)))
                        continue
                except Untranslatable as ex:
                    f.other.append(f"UNTRANSLATABLE {ex}: {st}")
                    continue
                f.other.append(st)
        else:
            f.other.append(body)
        funcs.setdefault(name, f)
        if f.duplicate:
            funcs[name + "#dup"] = f
    return funcs, dups


# ---------------------------------------------------------------- lark raw tree -> canonical items
def _fold(children, conv):
    acc = conv(children[0])
    for i in range(1, len(children), 2):
        op = {"+": "add", "-": "sub", "*": "mul", "/": "div"}[str(children[i])]
        acc = f"({op} {acc} {conv(children[i + 1])})"
    return acc


def lark_expr(t) -> str:
    """the same S-expression the Lean driver prints for a PExpr"""
    import lark
    if isinstance(t, lark.Token):
        raise Untranslatable(f"token {t!r}")
    d = t.data
    if d in ("expression", "term"):
        return _fold(t.children, lark_expr)
    if d == "factor":
        op = {"-": "neg", "+": "pos", "~": "inv"}[str(t.children[0])]
        return f"({op} {lark_expr(t.children[1])})"
    if d == "power":
        return f"(pow {lark_expr(t.children[0])} {lark_expr(t.children[1])})"
    if d == "variable":
        return f"(var {t.children[0]})"
    if d == "scientific":
        m, e = sexp.num_from_text(str(t.children[0]))
        return f"(num {m} {e})"
    if d == "constant":
        return "(pi)"
    if d in ("func", "logicalfunc"):
        return f"(call {t.children[0]}" + "".join(" " + lark_expr(c) for c in t.children[1:]) + ")"
    raise Untranslatable(f"tree {d}")


def lark_items(tree):
    """raw `Parser(parser='lalr').parse(text)` tree -> list of dicts like the Lean `parse` response"""
    import lark
    items = []
    top = tree.children if (isinstance(tree, lark.Tree) and tree.data == "ode") else [tree]
    for it in top:
        if isinstance(it, lark.Token):
            continue
        if it is None:
            continue
        if it.data == "comment":
            # several `# text` pieces in one comment node are separate comment tokens for the model
            for c in it.children:
                items.append({"k": "comment", "text": str(c)})
        elif it.data in ("states", "parameters"):
            comps, ps = [], []
            for c in it.children:
                if isinstance(c, lark.Token):
                    if c.type == "COMPONENT_NAME":
                        comps.append(str(c)[1:-1])
                elif c is not None:
                    if c.data == "param":
                        ps.append({"name": str(c.children[0]), "value": lark_expr(c.children[1]), "scalar": False, "unit": None, "desc": None})
                    else:
                        u = c.children[2]
                        dd = c.children[3]
                        ps.append({"name": str(c.children[0]), "value": lark_expr(c.children[1]), "scalar": True,
                                   "unit": None if u is None else str(u)[1:-1], "desc": None if dd is None else str(dd)[1:-1]})
            items.append({"k": it.data, "comps": comps, "ps": ps})
        elif it.data == "expressions":
            comps, asg = [], []
            for c in it.children:
                if isinstance(c, lark.Token):
                    if c.type == "COMPONENT_NAME":
                        comps.append(str(c)[1:-1])
                elif c is not None:
                    com = c.children[2] if len(c.children) > 2 else None
                    txt = None
                    if com is not None and isinstance(com, lark.Tree):
                        txt = " ".join(str(x) for x in com.children)
                    asg.append({"name": str(c.children[0]), "rhs": lark_expr(c.children[1]), "comment": txt})
            items.append({"k": "expressions", "comps": comps, "as": asg})
        elif it.data == "assignment":
            # a single bare assignment can be inlined by `?` rules
            com = it.children[2] if len(it.children) > 2 else None
            txt = " ".join(str(x) for x in com.children) if isinstance(com, lark.Tree) else None
            items.append({"k": "expressions", "comps": [], "as": [{"name": str(it.children[0]), "rhs": lark_expr(it.children[1]), "comment": txt}]})
        else:
            raise Untranslatable(f"item {it.data}")
    return items
