import GotranxProofs.Properties.C04
import GotranxProofs.GenValid
open Gx
#print axioms Gx.GenValid.genRhs_valid
#print axioms Gx.GenValid.genEuler_valid
#print axioms Gx.GenValid.slot_map_self
#print axioms Gx.C04.index_bijective
#print axioms Gx.C04.slotOf_iff
#print axioms Gx.C04.layout_counts
#print axioms Gx.C04.init_sound
#print axioms Gx.C04.init_unknown_key
#print axioms Gx.C04.monitor_slots
#print axioms Gx.C04.rhs_slots
#print axioms Gx.C04.formals_are_permutations
#print axioms Gx.checkMonitor_sound
#print axioms Gx.checkRhs_sound
#print axioms Gx.exec_agree
#print axioms Gx.exec_progress
#print axioms Gx.eval_congr
