import Lean.Data.Json
import GotranxModel
/-!
# JSON-lines driver: runs the executable model for the correspondence harness.
One request object per input line, one response object per output line.
Run with `lake env lean --run Driver.lean`.
-/
open Lean Gx

/-! ## S-expression output -/

def relName : Rel → String
  | .lt => "lt" | .gt => "gt" | .le => "le" | .ge => "ge" | .eq => "eq" | .ne => "ne"
def fnName : Fn → String
  | .exp => "exp" | .cos => "cos" | .sin => "sin" | .tan => "tan" | .acos => "acos" | .asin => "asin"
  | .atan => "atan" | .abs => "abs" | .floor => "floor" | .log => "log" | .sqrt => "sqrt" | .sign => "sign"

def normNum (m : Nat) (e : Int) : Nat × Int :=
  if m == 0 then (0, 0) else
  let rec go (fuel : Nat) (m : Nat) (e : Int) : Nat × Int :=
    match fuel with
    | 0 => (m, e)
    | f + 1 => if m % 10 == 0 then go f (m / 10) (e + 1) else (m, e)
  go 400 m e

partial def exprS : Expr → String
  | .num m e => let (m', e') := normNum m e; s!"(num {m'} {e'})"
  | .var x => s!"(var {x})"
  | .pi => "(pi)"
  | .neg a => s!"(neg {exprS a})"
  | .add a b => s!"(add {exprS a} {exprS b})"
  | .sub a b => s!"(sub {exprS a} {exprS b})"
  | .mul a b => s!"(mul {exprS a} {exprS b})"
  | .div a b => s!"(div {exprS a} {exprS b})"
  | .pow a b => s!"(pow {exprS a} {exprS b})"
  | .fn f a => s!"(fn {fnName f} {exprS a})"
  | .mod a b => s!"(mod {exprS a} {exprS b})"
  | .rel r a b => s!"(rel {relName r} {exprS a} {exprS b})"
  | .not a => s!"(not {exprS a})"
  | .and a b => s!"(and {exprS a} {exprS b})"
  | .or a b => s!"(or {exprS a} {exprS b})"
  | .cond c a b => s!"(cond {exprS c} {exprS a} {exprS b})"
  | .ccond r x y a b s => s!"(ccond {relName r} {exprS x} {exprS y} {exprS a} {exprS b} {exprS s})"

def unName : UnOp → String | .neg => "neg" | .pos => "pos" | .inv => "inv"
def binName : BinOp → String | .add => "add" | .sub => "sub" | .mul => "mul" | .div => "div" | .pow => "pow"

partial def pexprS : PExpr → String
  | .num m e => let (m', e') := normNum m e; s!"(num {m'} {e'})"
  | .var x => s!"(var {x})"
  | .pi => "(pi)"
  | .un op a => s!"({unName op} {pexprS a})"
  | .bin op a b => s!"({binName op} {pexprS a} {pexprS b})"
  | .call f args => s!"(call {f}" ++ String.join (args.map fun a => " " ++ pexprS a) ++ ")"

def jstr (s : String) : Json := Json.str s
def jstrs (l : List String) : Json := Json.arr (l.map Json.str).toArray
def jopt (o : Option String) : Json := match o with | some s => Json.str s | none => Json.null

def paramJ (p : PParam) : Json :=
  Json.mkObj [("name", jstr p.name), ("value", jstr (pexprS p.value)), ("scalar", Json.bool p.scalar),
    ("unit", jopt p.unit), ("desc", jopt p.desc)]

def itemJ : Item → Json
  | .states cs ps => Json.mkObj [("k", "states"), ("comps", jstrs cs), ("ps", Json.arr (ps.map paramJ).toArray)]
  | .parameters cs ps => Json.mkObj [("k", "parameters"), ("comps", jstrs cs), ("ps", Json.arr (ps.map paramJ).toArray)]
  | .expressions cs as => Json.mkObj [("k", "expressions"), ("comps", jstrs cs),
      ("as", Json.arr (as.map fun a => Json.mkObj [("name", jstr a.name), ("rhs", jstr (pexprS a.rhs)), ("comment", jopt a.comment)]).toArray)]
  | .comment t => Json.mkObj [("k", "comment"), ("text", jstr t)]

/-! ## JSON input of expressions / programs -/

def relOfS : String → Option Rel
  | "lt" => some .lt | "gt" => some .gt | "le" => some .le | "ge" => some .ge | "eq" => some .eq | "ne" => some .ne
  | _ => none
def fnOfS : String → Option Fn
  | "exp" => some .exp | "cos" => some .cos | "sin" => some .sin | "tan" => some .tan | "acos" => some .acos
  | "asin" => some .asin | "atan" => some .atan | "abs" => some .abs | "floor" => some .floor
  | "log" => some .log | "sqrt" => some .sqrt | "sign" => some .sign | _ => none

partial def exprOfJ (j : Json) : Except String Expr := do
  let a ← j.getArr?
  let tag ← (a[0]?.getD Json.null).getStr?
  let arg (i : Nat) : Except String Expr := exprOfJ (a[i]?.getD Json.null)
  match tag with
  | "num" => do
    let m ← (a[1]?.getD Json.null).getStr?
    let e ← (a[2]?.getD Json.null).getInt?
    match m.toNat? with
    | some mm => pure (.num mm e)
    | none => throw s!"bad mantissa {m}"
  | "var" => do pure (.var (← (a[1]?.getD Json.null).getStr?))
  | "pi" => pure .pi
  | "neg" => do pure (.neg (← arg 1))
  | "add" => do pure (.add (← arg 1) (← arg 2))
  | "sub" => do pure (.sub (← arg 1) (← arg 2))
  | "mul" => do pure (.mul (← arg 1) (← arg 2))
  | "div" => do pure (.div (← arg 1) (← arg 2))
  | "pow" => do pure (.pow (← arg 1) (← arg 2))
  | "mod" => do pure (.mod (← arg 1) (← arg 2))
  | "and" => do pure (.and (← arg 1) (← arg 2))
  | "or" => do pure (.or (← arg 1) (← arg 2))
  | "not" => do pure (.not (← arg 1))
  | "cond" => do pure (.cond (← arg 1) (← arg 2) (← arg 3))
  | "fn" => do
    let f ← (a[1]?.getD Json.null).getStr?
    match fnOfS f with
    | some fn => pure (.fn fn (← arg 2))
    | none => throw s!"bad fn {f}"
  | "rel" => do
    let r ← (a[1]?.getD Json.null).getStr?
    match relOfS r with
    | some rr => pure (.rel rr (← arg 2) (← arg 3))
    | none => throw s!"bad rel {r}"
  | t => throw s!"bad expr tag {t}"

partial def cexprOfJ (j : Json) : Except String CExpr := do
  let a ← j.getArr?
  let tag ← (a[0]?.getD Json.null).getStr?
  let arg (i : Nat) : Except String CExpr := cexprOfJ (a[i]?.getD Json.null)
  match tag with
  | "int" => do
    let m ← (a[1]?.getD Json.null).getStr?
    match m.toNat? with
    | some mm => pure (.int mm)
    | none => throw s!"bad int {m}"
  | "num" => do
    let m ← (a[1]?.getD Json.null).getStr?
    let e ← (a[2]?.getD Json.null).getInt?
    match m.toNat? with
    | some mm => pure (.num mm e)
    | none => throw s!"bad mantissa {m}"
  | "var" => do pure (.var (← (a[1]?.getD Json.null).getStr?))
  | "pi" => pure .pi
  | "neg" => do pure (.neg (← arg 1))
  | "add" => do pure (.add (← arg 1) (← arg 2))
  | "sub" => do pure (.sub (← arg 1) (← arg 2))
  | "mul" => do pure (.mul (← arg 1) (← arg 2))
  | "div" => do pure (.div (← arg 1) (← arg 2))
  | "pow" => do pure (.pow (← arg 1) (← arg 2))
  | "fmod" => do pure (.fmod (← arg 1) (← arg 2))
  | "cmod" => do pure (.imod (← arg 1) (← arg 2))
  | "and" => do pure (.and (← arg 1) (← arg 2))
  | "or" => do pure (.or (← arg 1) (← arg 2))
  | "not" => do pure (.not (← arg 1))
  | "cond" => do pure (.cond (← arg 1) (← arg 2) (← arg 3))
  | "fn" => do
    let f ← (a[1]?.getD Json.null).getStr?
    match fnOfS f with
    | some fn => pure (.fn fn (← arg 2))
    | none => throw s!"bad fn {f}"
  | "rel" => do
    let r ← (a[1]?.getD Json.null).getStr?
    match relOfS r with
    | some rr => pure (.rel rr (← arg 2) (← arg 3))
    | none => throw s!"bad rel {r}"
  | t => throw s!"bad C expr tag {t}"

def arrOfS : String → Option Arr
  | "states" => some .states | "parameters" => some .params | "missing_variables" => some .missing | _ => none

def stmtOfJ (j : Json) : Except String Stmt := do
  let a ← j.getArr?
  let tag ← (a[0]?.getD Json.null).getStr?
  match tag with
  | "U" => do
    let x ← (a[1]?.getD Json.null).getStr?
    let arr ← (a[2]?.getD Json.null).getStr?
    let i ← (a[3]?.getD Json.null).getNat?
    match arrOfS arr with
    | some ar => pure (.unpack x ar i)
    | none => throw s!"bad array {arr}"
  | "D" => do pure (.define (← (a[1]?.getD Json.null).getStr?) (← exprOfJ (a[2]?.getD Json.null)))
  | "S" => do pure (.store (← (a[1]?.getD Json.null).getNat?) (← exprOfJ (a[2]?.getD Json.null)))
  | t => throw s!"bad stmt tag {t}"

def cstmtOfJ (j : Json) : Except String CStmt := do
  let a ← j.getArr?
  let tag ← (a[0]?.getD Json.null).getStr?
  match tag with
  | "U" => do
    let x ← (a[1]?.getD Json.null).getStr?
    let arr ← (a[2]?.getD Json.null).getStr?
    let i ← (a[3]?.getD Json.null).getNat?
    match arrOfS arr with
    | some ar => pure (.unpack x ar i)
    | none => throw s!"bad array {arr}"
  | "D" => do pure (.define (← (a[1]?.getD Json.null).getStr?) (← cexprOfJ (a[2]?.getD Json.null)))
  | "S" => do pure (.store (← (a[1]?.getD Json.null).getNat?) (← cexprOfJ (a[2]?.getD Json.null)))
  | t => throw s!"bad stmt tag {t}"

def bitsOfJ (j : Json) : Except String (List Float) := do
  let a ← j.getArr?
  a.toList.mapM fun b => do
    let s ← b.getStr?
    match s.toNat? with | some n => pure (Float.ofBits n.toUInt64) | none => throw "bad bits"

def tyName : CTy → String | .int => "int" | .bool => "bool" | .dbl => "double"

def strsOfJ (j : Json) : Except String (List String) := do
  let a ← j.getArr?
  a.toList.mapM fun x => x.getStr?

def layoutOfJ (j : Json) : Except String Layout := do
  pure { state := ← strsOfJ (← j.getObjVal? "state"), param := ← strsOfJ (← j.getObjVal? "param"),
         monitor := ← strsOfJ (← j.getObjVal? "monitor"), missing := ← strsOfJ (← j.getObjVal? "missing") }

/-- dependency iteration order sent by the harness: `{name: [dep, …]}`; default first-occurrence -/
def depOrderOfJ (j : Option Json) : Impl.DepOrder := fun n e =>
  match j with
  | some o => match o.getObjVal? n with
    | .ok v => match strsOfJ v with
      | .ok l => l
      | .error _ => Impl.defaultDeps n e
    | .error _ => Impl.defaultDeps n e
  | none => Impl.defaultDeps n e

def stmtSkel : Stmt → String
  | .unpack x a i => s!"U {x} {match a with | .states => "states" | .params => "parameters" | .missing => "missing_variables"} {i}"
  | .define x _ => s!"D {x}"
  | .store i _ => s!"S {i}"

def stmtJ : Stmt → Json
  | .unpack x a i => Json.arr #["U", jstr x, jstr (match a with | .states => "states" | .params => "parameters" | .missing => "missing_variables"), Json.num i]
  | .define x e => Json.arr #["D", jstr x, jstr (exprS e)]
  | .store i e => Json.arr #["S", Json.num i, jstr (exprS e)]

def floatHex (f : Float) : String := toString f.toBits

def errJ (e : String) : Json := Json.mkObj [("ok", Json.bool false), ("err", jstr e)]

def pairsJ (l : List (Gx.Name × Expr)) : Json :=
  Json.arr (l.map fun (n, e) => Json.arr #[jstr n, jstr (exprS e)]).toArray

def modelJ (ld : Loaded) : List (String × Json) :=
  let m := ld.model
  [("states", pairsJ m.states), ("params", pairsJ m.params), ("inters", pairsJ m.inters),
   ("derivs", Json.arr (m.derivs.map fun (d, s, e) => Json.arr #[jstr d, jstr s, jstr (exprS e)]).toArray),
   ("comps", Json.arr (ld.comps.map fun c => Json.mkObj [("name", jstr c.name), ("states", jstrs c.states),
      ("params", jstrs c.params), ("inters", jstrs c.inters), ("derivs", jstrs c.derivs)]).toArray),
   ("comments", jstrs ld.comments),
   ("annots", Json.arr (ld.annots.map fun (n, k, cs, u, d, c) =>
      Json.arr #[jstr n, jstr k, jstrs cs, jopt u, jopt d, jopt c]).toArray)]

def optStmts (o : Option (List Stmt)) : Json :=
  match o with
  | some p => Json.arr (p.map stmtJ).toArray
  | none => Json.null

/-- evaluate the model at float inputs: every assignment by bounded unfolding -/
def evalAll (m : Model) (base : Env Float) : List (Gx.Name × Option Float) :=
  let fuel := m.assigns.length + 2
  m.assigns.map fun (n, _) => (n, denote NumFloat m base fuel n)

def handle (req : Json) : Except String Json := do
  let op ← (← req.getObjVal? "op").getStr?
  match op with
  | "ping" => pure (Json.mkObj [("ok", Json.bool true)])
  | "parse" =>
    let text ← (← req.getObjVal? "text").getStr?
    match parseOde text with
    | .error (.lex _) => pure (errJ "Lex")
    | .error .syntax => pure (errJ "Syntax")
    | .ok items => pure (Json.mkObj [("ok", Json.bool true), ("items", Json.arr (items.map itemJ).toArray)])
  | "parse_expr" =>
    let text ← (← req.getObjVal? "text").getStr?
    match parseExprString text with
    | none => pure (errJ "Syntax")
    | some e => match resolve e with
      | .ok e' => pure (Json.mkObj [("ok", Json.bool true), ("tree", jstr (pexprS e)), ("expr", jstr (exprS e'))])
      | .error _ => pure (Json.mkObj [("ok", Json.bool true), ("tree", jstr (pexprS e)), ("expr", Json.null)])
  | "load" =>
    let text ← (← req.getObjVal? "text").getStr?
    let π := depOrderOfJ (req.getObjVal? "deps").toOption
    match loadString text with
    | .error e => pure (Json.mkObj [("ok", Json.bool false), ("err", jstr e.toString),
        ("loader_agree", Json.bool (sameLoad (loadString text) (loadStringP text)))])
    | .ok ld =>
      let m := ld.model
      let lay := Impl.layout m π
      let layJ := match lay with
        | some L => Json.mkObj [("state", jstrs L.state), ("param", jstrs L.param), ("monitor", jstrs L.monitor), ("missing", jstrs L.missing)]
        | none => Json.null
      -- the edge-list formulation (object of the theorems) against the literal mirror of graphlib
      let addsOf (ru : Bool) : List (Gx.Name × List Gx.Name) :=
        let used := Impl.mentioned m
        let inters := if ru then m.inters.filter fun a => used.contains a.1 else m.inters
        (inters ++ m.derivs.map fun d => (d.1, d.2.2)).map fun a => (a.1, Impl.sortNames (π a.1 a.2))
      let topoAgree := staticOrder (addsOf false) == staticOrderRef (addsOf false) &&
        staticOrder (addsOf true) == staticOrderRef (addsOf true)
      -- theorem ParseRender.parse_render, evaluated with the fuel the parser really uses
      let trees : List PExpr := match parseOde text with
        | .ok items => items.flatMap fun it => match it with
          | .states _ ps => ps.map (·.value)
          | .parameters _ ps => ps.map (·.value)
          | .expressions _ as => as.map (·.rhs)
          | .comment _ => []
        | .error _ => []
      let wfTrees := trees.filter Printer.WF
      pure (Json.mkObj ([("ok", Json.bool true), ("layout", layJ), ("topo_ref_agrees", Json.bool topoAgree),
        ("loader_agree", Json.bool (sameLoad (loadString text) (loadStringP text))),
        ("no_time_name", Json.bool (noTimeNameM m)),
        ("trees", Json.num trees.length), ("trees_wf", Json.num wfTrees.length),
        ("render_roundtrip", Json.bool (wfTrees.all Printer.roundTrips)), ("wf", Json.bool (checkModelWF m)),
        ("gen_rhs_valid", Json.bool (match lay, Impl.genRhs m π false, Impl.genRhs m π true with
          | some L, some p0, some p1 => checkRhs m L p0 && checkRhs m L p1
          | _, _, _ => true)),
        ("gen_monitor_valid", Json.bool (match lay, Impl.genMonitor m π false, Impl.genMonitor m π true with
          | some L, some p0, some p1 => checkMonitor m L p0 && checkMonitor m L p1
          | _, _, _ => true)),
        ("helper_clash_free", Json.bool (Impl.checkNoHelperClash m)),
        ("gen_rl_valid", Json.bool (match lay with
          | some L =>
            let stiff := (m.stateNames.zipIdx.filter (fun x => x.2 % 2 == 0)).map (·.1)
            [false, true].all fun ru =>
              (match Impl.genGRL m π ru (.num 1 (-8)) with | some p => checkScheme m L p | none => true) &&
              (match Impl.genHybrid m π ru (.num 1 (-8)) stiff with | some p => checkScheme m L p | none => true)
          | none => true)),
        ("sorted_removed", match Impl.sortedAssignments m π true with | some l => jstrs l | none => Json.null),
        ("mentioned", jstrs (Impl.mentioned m))] ++ modelJ ld))
  | "gen" =>
    let text ← (← req.getObjVal? "text").getStr?
    let π := depOrderOfJ (req.getObjVal? "deps").toOption
    let ru := ((req.getObjVal? "remove_unused").toOption.bind (·.getBool?.toOption)).getD false
    let stiff := ((req.getObjVal? "stiff").toOption.bind (strsOfJ · |>.toOption)).getD []
    let dm := ((req.getObjVal? "delta_m").toOption.bind (·.getNat?.toOption)).getD 1
    let de := ((req.getObjVal? "delta_e").toOption.bind (·.getInt?.toOption)).getD (-8)
    match loadString text with
    | .error e => pure (errJ e.toString)
    | .ok ld =>
      let m := ld.model
      pure (Json.mkObj [("ok", Json.bool true),
        ("rhs", optStmts (Impl.genRhs m π ru)),
        ("monitor", optStmts (Impl.genMonitor m π ru)),
        ("euler", optStmts (Impl.genEuler m π ru)),
        ("grl", optStmts (Impl.genGRL m π ru (.num dm de))),
        ("hybrid", optStmts (Impl.genHybrid m π ru (.num dm de) stiff))])
  | "validate" =>
    let text ← (← req.getObjVal? "text").getStr?
    let kind ← (← req.getObjVal? "kind").getStr?
    let L ← layoutOfJ (← req.getObjVal? "layout")
    let progJ ← (← req.getObjVal? "prog").getArr?
    let prog ← progJ.toList.mapM stmtOfJ
    let reqNames := ((req.getObjVal? "req").toOption.bind (strsOfJ · |>.toOption)).getD []
    match loadString text with
    | .error e => pure (errJ e.toString)
    | .ok ld =>
      let m := ld.model
      let init := if kind == "scheme" then initBoundScheme else initBoundRhs
      let extra := if kind == "scheme" then m.derivs.map (fun d => d.1 ++ "_linearized") else []
      let n := match kind with
        | "monitor" => L.monitor.length
        | "missing" => reqNames.length
        | _ => L.state.length
      let verdict := match kind with
        | "rhs" => checkRhs m L prog
        | "monitor" => checkMonitor m L prog
        | "missing" => checkMissingValues m L reqNames prog
        | "scheme" => checkScheme m L prog
        | _ => false
      pure (Json.mkObj [("ok", Json.bool true), ("verdict", Json.bool verdict),
        ("layout_ok", Json.bool (checkLayout m L)),
        ("scoped", Json.bool (wellScoped init prog)),
        ("unpacks", Json.bool (checkUnpacks L prog)),
        ("defines", Json.bool (checkDefines m extra prog)),
        ("slots", Json.bool (slotsExact n prog))])
  | "eval" =>
    -- reference values in float64: inputs are given as arrays of IEEE bit patterns (decimal strings)
    let text ← (← req.getObjVal? "text").getStr?
    let names ← strsOfJ (← req.getObjVal? "names")
    let bitsJ ← (← req.getObjVal? "bits").getArr?
    let bits ← bitsJ.toList.mapM fun b => do
      let s ← b.getStr?
      match s.toNat? with | some n => pure n | none => throw "bad bits"
    match loadString text with
    | .error e => pure (errJ e.toString)
    | .ok ld =>
      let tbl : List (Gx.Name × Float) := (names.zip bits).map fun (n, b) => (n, Float.ofBits b.toUInt64)
      let base : Env Float := fun x => lookup tbl x
      let vals := evalAll ld.model base
      pure (Json.mkObj [("ok", Json.bool true),
        ("values", Json.arr (vals.map fun (n, v) => Json.arr #[jstr n, match v with | some f => jstr (floatHex f) | none => Json.null]).toArray)])
  | "diff" =>
    let text ← (← req.getObjVal? "text").getStr?
    match loadString text with
    | .error e => pure (errJ e.toString)
    | .ok ld =>
      let m := ld.model
      pure (Json.mkObj [("ok", Json.bool true),
        ("lin", Json.arr (m.derivs.map fun (d, s, e) => Json.arr #[jstr d, jstr s, jstr (exprS (diff s e))]).toArray)])
  | "rhs_matrix" =>
    let text ← (← req.getObjVal? "text").getStr?
    let π := depOrderOfJ (req.getObjVal? "deps").toOption
    let mt := ((req.getObjVal? "max_tries").toOption.bind (·.getNat?.toOption)).getD 20
    match loadString text with
    | .error e => pure (errJ e.toString)
    | .ok ld =>
      let m := ld.model
      pure (Json.mkObj [("ok", Json.bool true),
        ("states", match Impl.sortedStates m π with | some l => jstrs l | none => Json.null),
        ("rhs", match Impl.rhsMatrix m π mt with | some l => jstrs (l.map exprS) | none => Json.null),
        ("jac", match Impl.jacobian m π mt with
          | some rows => Json.arr (rows.map fun r => jstrs (r.map exprS)).toArray
          | none => Json.null)])
  | "split" =>
    let text ← (← req.getObjVal? "text").getStr?
    let comp ← (← req.getObjVal? "comp").getStr?
    let π := depOrderOfJ (req.getObjVal? "deps").toOption
    match loadString text with
    | .error e => pure (errJ e.toString)
    | .ok ld =>
      let m := ld.model
      let namesOf (c : Comp) : List Gx.Name := c.states ++ c.params ++ c.inters ++ c.derivs
      let subNames := (ld.comps.filter (·.name == comp)).flatMap namesOf
      let restNames := (ld.comps.filter (·.name != comp)).flatMap namesOf
      let part (names other : List Gx.Name) : Json :=
        let pm := Impl.restrict m (fun x => names.contains x)
        let om := Impl.restrict m (fun x => other.contains x)
        let reqNames := Impl.missingVariables om
        -- hypotheses of `GenValidMissing.genMissing_valid`, evaluated: well-formed part, requested names defined in it
        let hyps := checkModelWF pm && allDistinct reqNames &&
          reqNames.all fun r => pm.stateNames.contains r || pm.paramNames.contains r || pm.assignNames.contains r
        Json.mkObj [("states", jstrs pm.stateNames), ("params", jstrs pm.paramNames), ("assigns", jstrs pm.assignNames),
          ("missing", jstrs (Impl.missingVariables pm)),
          ("req", jstrs reqNames),
          ("missing_values", optStmts (Impl.genMissing pm π reqNames)),
          ("missing_hyps", Json.bool hyps),
          ("missing_valid", Json.bool (match Impl.layout pm π, Impl.genMissing pm π reqNames with
            | some L, some p => checkMissingValues pm L reqNames p
            | _, _ => true)),
          ("layout", match Impl.layout pm π with
            | some L => Json.mkObj [("state", jstrs L.state), ("param", jstrs L.param), ("monitor", jstrs L.monitor), ("missing", jstrs L.missing)]
            | none => Json.null)]
      pure (Json.mkObj [("ok", Json.bool true), ("sub", part subNames restNames), ("rest", part restNames subNames)])
  | "ctyped" =>
    -- typing verdicts for a translated C function body
    let progJ ← (← req.getObjVal? "prog").getArr?
    let prog ← progJ.toList.mapM cstmtOfJ
    let exprs := prog.filterMap fun st => match st with
      | .define _ e => some e | .store _ e => some e | _ => none
    pure (Json.mkObj [("ok", Json.bool true),
      ("all_real", Json.bool (prog.all CStmt.real)),
      ("real", Json.arr (prog.map fun st => Json.bool st.real).toArray),
      ("types", jstrs (exprs.map fun e => tyName (ctype e)))])
  | "evalc" =>
    -- run a translated C function body with C typing in float64
    let progJ ← (← req.getObjVal? "prog").getArr?
    let prog ← progJ.toList.mapM cstmtOfJ
    let st ← bitsOfJ (← req.getObjVal? "states")
    let pa ← bitsOfJ (← req.getObjVal? "parameters")
    let mi ← bitsOfJ (← req.getObjVal? "missing_variables")
    let sc ← bitsOfJ (← req.getObjVal? "scalars")   -- [t] or [t, dt]
    let inp : Inputs Float := fun a i => match a with
      | .states => st[i]? | .params => pa[i]? | .missing => mi[i]?
    let t := sc[0]?.getD 0
    let env0 : List (Gx.Name × Float) := (match sc[1]? with | some dt => [("dt", dt)] | none => []) ++ [("t", t), ("time", t)]
    match execC NumFloat fmodFloat inp ⟨env0, []⟩ prog with
    | none => pure (Json.mkObj [("ok", Json.bool true), ("out", Json.null)])
    | some s =>
      let slots := (s.out.map (·.1)).eraseDups
      pure (Json.mkObj [("ok", Json.bool true),
        ("out", Json.arr (slots.map fun (i : Nat) => Json.arr #[Json.num (i : Nat), match s.result i with
          | some f => jstr (floatHex f) | none => Json.null]).toArray)])
  | "topo" =>
    let addsJ ← (← req.getObjVal? "adds").getArr?
    let adds ← addsJ.toList.mapM fun a => do
      let p ← a.getArr?
      let n ← (p[0]?.getD Json.null).getStr?
      let ds ← strsOfJ (p[1]?.getD Json.null)
      pure (n, ds)
    pure (Json.mkObj [("ok", Json.bool true),
      ("order", match staticOrder adds with | some l => jstrs l | none => Json.null),
      ("order_ref", match staticOrderRef adds with | some l => jstrs l | none => Json.null)])
  | o => throw s!"unknown op {o}"

partial def loop (hin hout : IO.FS.Stream) : IO Unit := do
  let line ← hin.getLine
  if line.isEmpty then return ()
  let resp := match Json.parse line with
    | .error e => errJ s!"json: {e}"
    | .ok req => match handle req with
      | .ok r => r
      | .error e => errJ s!"driver: {e}"
  hout.putStrLn resp.compress
  hout.flush
  loop hin hout

def main : IO Unit := do
  loop (← IO.getStdin) (← IO.getStdout)
