import GotranxModel.Expr
import GotranxModel.IR
import GotranxModel.Model
import GotranxModel.Validate
