import GotranxModel.IR
/-!
# Typed semantics of the emitted C expressions

The C printer writes sympy integers as C `int` literals, so in the generated C text the type of
an operand decides the meaning of an operator: `1/4` is integer division (0), `pow(x, 1/2)` is
`pow(x, 0)`, `fmod` truncates towards zero while the language's `Mod` is floored.
`CExpr` keeps the literal kinds apart, `evalC` follows C's typing (integer arithmetic when both
operands are of integer type, the usual arithmetic conversions otherwise, relations and
connectives of type `int` with values 0/1), `erase` forgets the types (the reference-language
reading of the same text) and `cReal` is the executable check "no operator of this expression is
applied to integer-typed operands only, and the remainder is the floored one": for such
expressions the typed and the untyped reading coincide (`GotranxProofs.Properties.C02`).

No imports beyond the model: executable, used by the driver (`ctyped`, `evalc`).
-/
namespace Gx

inductive CExpr where
  | int (n : Nat)
  | num (m : Nat) (e : Int)
  | var (x : Name)
  | pi
  | neg (a : CExpr)
  | add (a b : CExpr)
  | sub (a b : CExpr)
  | mul (a b : CExpr)
  | div (a b : CExpr)
  | imod (a b : CExpr)
  | pow (a b : CExpr)
  | fmod (a b : CExpr)
  | fn (f : Fn) (a : CExpr)
  | rel (r : Rel) (a b : CExpr)
  | not (a : CExpr)
  | and (a b : CExpr)
  | or (a b : CExpr)
  | cond (c a b : CExpr)
deriving DecidableEq, Repr, Inhabited

/-- run-time values: C `int`, an `int` that is the 0/1 result of a relation or connective, `double` -/
inductive CVal (α : Type) where
  | int (z : Int)
  | bool (b : Bool)
  | dbl (x : α)
deriving Repr

/-- static types (`bool` is C's `int` known to be 0/1) -/
inductive CTy where
  | int | bool | dbl
deriving DecidableEq, Repr, Inhabited

def CTy.intLike : CTy → Bool
  | .dbl => false
  | _ => true

def CVal.ty {α} : CVal α → CTy
  | .int _ => .int | .bool _ => .bool | .dbl _ => .dbl

def CVal.asInt {α} : CVal α → Option Int
  | .int z => some z
  | .bool b => some (if b then 1 else 0)
  | .dbl _ => none

/-- conversion to `double` (exact for every `int`): literals convert like the literal `n.0` -/
def CVal.toDbl {α} (N : Num α) : CVal α → α
  | .int z => if z < 0 then N.neg (N.lit z.natAbs 0) else N.lit z.toNat 0
  | .bool b => N.ofBool b
  | .dbl x => x

/-- `if (v)` / `v ? … : …` / `!v`: comparison with zero -/
def CVal.truthy {α} (N : Num α) : CVal α → Bool
  | .int z => z != 0
  | .bool b => b
  | .dbl x => N.truthy x

def relInt : Rel → Int → Int → Bool
  | .lt, a, b => a < b
  | .gt, a, b => a > b
  | .le, a, b => a ≤ b
  | .ge, a, b => a ≥ b
  | .eq, a, b => a == b
  | .ne, a, b => a != b

inductive ArOp where
  | add | sub | mul | div
deriving DecidableEq, Repr

def ArOp.onInt : ArOp → Int → Int → Option Int
  | .add, a, b => some (a + b)
  | .sub, a, b => some (a - b)
  | .mul, a, b => some (a * b)
  | .div, a, b => if b = 0 then none else some (Int.tdiv a b)   -- truncation towards zero; `/0` is undefined

def ArOp.onDbl {α} (N : Num α) : ArOp → α → α → α
  | .add => N.add | .sub => N.sub | .mul => N.mul | .div => N.div

/-- binary arithmetic under the usual arithmetic conversions -/
def arith {α} (N : Num α) (op : ArOp) (a b : CVal α) : Option (CVal α) :=
  match a.asInt, b.asInt with
  | some x, some y => (op.onInt x y).map CVal.int
  | _, _ => some (.dbl (op.onDbl N (a.toDbl N) (b.toDbl N)))

/-- a relation: integer comparison on two integer operands, `double` comparison otherwise; type `int` -/
def relC {α} (N : Num α) (r : Rel) (x y : CVal α) : CVal α :=
  match x.asInt, y.asInt with
  | some p, some q => .bool (relInt r p q)
  | _, _ => .bool (N.rel r (x.toDbl N) (y.toDbl N))

/-- typed meaning; `fmodT` is C's `fmod` (result has the sign of the dividend).
`none`: unbound name, integer division by zero, `%` on a non-integer operand (does not compile). -/
def evalC {α} (N : Num α) (fmodT : α → α → α) (ρ : Env α) : CExpr → Option (CVal α)
  | .int n => some (.int n)
  | .num m e => some (.dbl (N.lit m e))
  | .var x => (ρ x).map .dbl
  | .pi => some (.dbl N.pi)
  | .neg a => (evalC N fmodT ρ a).map fun v =>
      match v.asInt with
      | some z => .int (-z)
      | none => .dbl (N.neg (v.toDbl N))
  | .add a b => do let x ← evalC N fmodT ρ a; let y ← evalC N fmodT ρ b; arith N .add x y
  | .sub a b => do let x ← evalC N fmodT ρ a; let y ← evalC N fmodT ρ b; arith N .sub x y
  | .mul a b => do let x ← evalC N fmodT ρ a; let y ← evalC N fmodT ρ b; arith N .mul x y
  | .div a b => do let x ← evalC N fmodT ρ a; let y ← evalC N fmodT ρ b; arith N .div x y
  | .imod a b => do
      let x ← evalC N fmodT ρ a; let y ← evalC N fmodT ρ b
      match x.asInt, y.asInt with
      | some p, some q => if q = 0 then none else some (.int (Int.tmod p q))
      | _, _ => none
  | .pow a b => do let x ← evalC N fmodT ρ a; let y ← evalC N fmodT ρ b; pure (.dbl (N.pow (x.toDbl N) (y.toDbl N)))
  | .fmod a b => do let x ← evalC N fmodT ρ a; let y ← evalC N fmodT ρ b; pure (.dbl (fmodT (x.toDbl N) (y.toDbl N)))
  | .fn f a => (evalC N fmodT ρ a).map fun v => .dbl (N.fn f (v.toDbl N))
  | .rel r a b => do let x ← evalC N fmodT ρ a; let y ← evalC N fmodT ρ b; pure (relC N r x y)
  | .not a => (evalC N fmodT ρ a).map fun v => .bool (!v.truthy N)
  | .and a b => do let x ← evalC N fmodT ρ a; let y ← evalC N fmodT ρ b; pure (.bool (x.truthy N && y.truthy N))
  | .or a b => do let x ← evalC N fmodT ρ a; let y ← evalC N fmodT ρ b; pure (.bool (x.truthy N || y.truthy N))
  | .cond c a b => do
      let k ← evalC N fmodT ρ c; let x ← evalC N fmodT ρ a; let y ← evalC N fmodT ρ b
      let v := if k.truthy N then x else y
      -- the type of `c ? a : b` is the common type of `a` and `b`
      if x.ty.intLike && y.ty.intLike then pure v else pure (.dbl (v.toDbl N))

/-- the reference-language reading of the same text: types forgotten, both remainders read as `Mod` -/
def erase : CExpr → Expr
  | .int n => .num n 0
  | .num m e => .num m e
  | .var x => .var x
  | .pi => .pi
  | .neg a => .neg (erase a)
  | .add a b => .add (erase a) (erase b)
  | .sub a b => .sub (erase a) (erase b)
  | .mul a b => .mul (erase a) (erase b)
  | .div a b => .div (erase a) (erase b)
  | .imod a b => .mod (erase a) (erase b)
  | .pow a b => .pow (erase a) (erase b)
  | .fmod a b => .mod (erase a) (erase b)
  | .fn f a => .fn f (erase a)
  | .rel r a b => .rel r (erase a) (erase b)
  | .not a => .not (erase a)
  | .and a b => .and (erase a) (erase b)
  | .or a b => .or (erase a) (erase b)
  | .cond c a b => .cond (erase c) (erase a) (erase b)

/-- static type of an expression -/
def ctype : CExpr → CTy
  | .int _ => .int
  | .num _ _ | .var _ | .pi => .dbl
  | .neg a => if (ctype a).intLike then .int else .dbl
  | .add a b | .sub a b | .mul a b | .div a b => if (ctype a).intLike && (ctype b).intLike then .int else .dbl
  | .imod _ _ => .int
  | .pow _ _ | .fmod _ _ | .fn _ _ => .dbl
  | .rel _ _ _ | .not _ | .and _ _ | .or _ _ => .bool
  | .cond _ a b =>
      if (ctype a).intLike && (ctype b).intLike then (if ctype a = .bool && ctype b = .bool then .bool else .int) else .dbl

def isNonzeroLit : CExpr → Bool
  | .int n => n != 0
  | _ => false

/-- **the check**: every operator has at least one `double` operand (so that C's usual arithmetic
conversions make it the real-valued operation), integer literals only occur where they are
converted at once, conditions are relations / connectives / doubles, and no truncating
remainder occurs. -/
def cReal : CExpr → Bool
  | .int _ | .num _ _ | .var _ | .pi => true
  | .neg a => cReal a && (ctype a == .dbl || isNonzeroLit a)
  | .add a b | .sub a b | .mul a b | .div a b => cReal a && cReal b && !((ctype a).intLike && (ctype b).intLike)
  | .imod _ _ => false
  | .fmod _ _ => false
  | .pow a b => cReal a && cReal b
  | .fn _ a => cReal a
  | .rel _ a b => cReal a && cReal b && !((ctype a).intLike && (ctype b).intLike)
  | .not a => cReal a && ctype a != .int
  | .and a b | .or a b => cReal a && cReal b && ctype a != .int && ctype b != .int
  | .cond c a b =>
      cReal c && cReal a && cReal b && ctype c != .int &&
      (!((ctype a).intLike && (ctype b).intLike) || ctype a == ctype b)

/-! ## C function bodies: `const double x = e;` converts to `double` -/

inductive CStmt where
  | unpack (x : Name) (arr : Arr) (i : Nat)
  | define (x : Name) (e : CExpr)
  | store (i : Nat) (e : CExpr)
deriving DecidableEq, Repr, Inhabited

def stepC {α} (N : Num α) (fmodT : α → α → α) (inp : Inputs α) (s : St α) : CStmt → Option (St α)
  | .unpack x a i => (inp a i).map fun v => { s with env := (x, v) :: s.env }
  | .define x e => (evalC N fmodT (lookup s.env) e).map fun v => { s with env := (x, v.toDbl N) :: s.env }
  | .store i e => (evalC N fmodT (lookup s.env) e).map fun v => { s with out := (i, v.toDbl N) :: s.out }

def execC {α} (N : Num α) (fmodT : α → α → α) (inp : Inputs α) : St α → List CStmt → Option (St α)
  | s, [] => some s
  | s, st :: rest => (stepC N fmodT inp s st).bind fun s' => execC N fmodT inp s' rest

def CStmt.erase : CStmt → Stmt
  | .unpack x a i => .unpack x a i
  | .define x e => .define x (Gx.erase e)
  | .store i e => .store i (Gx.erase e)

def CStmt.real : CStmt → Bool
  | .unpack _ _ _ => true
  | .define _ e => cReal e
  | .store _ e => cReal e

/-- C's `fmod` on float64: truncated quotient (exact when the quotient is below 2^53) -/
def fmodFloat (a b : Float) : Float :=
  let q := a / b
  let t := if q < 0 then Float.ceil q else Float.floor q
  a - b * t

end Gx
