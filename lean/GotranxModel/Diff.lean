import GotranxModel.Gen
/-!
# Symbolic differentiation, Rush–Larsen generators, `rhs_matrix`, singularity combinator

`diff x e` is the partial derivative of `e` with respect to the name `x`, all other names
held fixed — the `g` of the Rush–Larsen properties and the entries of the Jacobian.
Smart constructors drop syntactic zeros so that the result stays small.
-/
namespace Gx

def Expr.zero : Expr := .num 0 0
def Expr.one : Expr := .num 1 0
def Expr.two : Expr := .num 2 0

def Expr.isZero : Expr → Bool
  | .num 0 _ => true
  | _ => false

def Expr.isOne : Expr → Bool
  | .num 1 0 => true
  | _ => false

def mkNeg (a : Expr) : Expr := if a.isZero then .zero else .neg a
def mkAdd (a b : Expr) : Expr := if a.isZero then b else if b.isZero then a else .add a b
def mkSub (a b : Expr) : Expr := if b.isZero then a else if a.isZero then .neg b else .sub a b
def mkMul (a b : Expr) : Expr :=
  if a.isZero || b.isZero then .zero else if a.isOne then b else if b.isOne then a else .mul a b
def mkDiv (a b : Expr) : Expr := if a.isZero then .zero else .div a b

def mentions (x : Name) (e : Expr) : Bool := (fv e).contains x

/-- `ContinuousConditional` written out with arithmetic (what `sympytools` builds). -/
def expandCC (r : Rel) (p q a b s : Expr) : Expr :=
  let H := Expr.div .one (.add .one (.fn .exp (.div (.sub p q) s)))
  match r with
  | .gt | .ge => .add (.mul a (.sub .one H)) (.mul b H)
  | _ => .add (.mul a H) (.mul b (.sub .one H))

def diff (x : Name) : Expr → Expr
  | .num _ _ => .zero
  | .var y => if y = x then .one else .zero
  | .pi => .zero
  | .neg a => mkNeg (diff x a)
  | .add a b => mkAdd (diff x a) (diff x b)
  | .sub a b => mkSub (diff x a) (diff x b)
  | .mul a b => mkAdd (mkMul (diff x a) b) (mkMul a (diff x b))
  | .div a b => mkDiv (mkSub (mkMul (diff x a) b) (mkMul a (diff x b))) (.mul b b)
  | .pow a b =>
    if !mentions x b then mkMul (.mul b (.pow a (.sub b .one))) (diff x a)
    else if !mentions x a then mkMul (.mul (.pow a b) (.fn .log a)) (diff x b)
    else .mul (.pow a b) (mkAdd (mkMul (diff x b) (.fn .log a)) (mkDiv (mkMul b (diff x a)) a))
  | .fn .exp a => mkMul (.fn .exp a) (diff x a)
  | .fn .log a => mkDiv (diff x a) a
  | .fn .sin a => mkMul (.fn .cos a) (diff x a)
  | .fn .cos a => mkNeg (mkMul (.fn .sin a) (diff x a))
  | .fn .tan a => mkMul (.add .one (.mul (.fn .tan a) (.fn .tan a))) (diff x a)
  | .fn .asin a => mkDiv (diff x a) (.fn .sqrt (.sub .one (.mul a a)))
  | .fn .acos a => mkNeg (mkDiv (diff x a) (.fn .sqrt (.sub .one (.mul a a))))
  | .fn .atan a => mkDiv (diff x a) (.add .one (.mul a a))
  | .fn .sqrt a => mkDiv (diff x a) (.mul .two (.fn .sqrt a))
  | .fn .abs a => mkMul (.fn .sign a) (diff x a)
  | .fn .floor _ => .zero
  | .fn .sign _ => .zero
  | .mod a b => mkSub (diff x a) (mkMul (diff x b) (.fn .floor (.div a b)))
  | .rel _ _ _ | .not _ | .and _ _ | .or _ _ => .zero
  | .cond c a b =>
    let da := diff x a; let db := diff x b
    if da.isZero && db.isZero then .zero else .cond c da db
  | .ccond r p q a b s =>
    -- product/quotient rule on the expanded blend, spelled out
    let H := Expr.div .one (.add .one (.fn .exp (.div (.sub p q) s)))
    let u := Expr.div (.sub p q) s
    let du := mkDiv (mkSub (mkMul (mkSub (diff x p) (diff x q)) s) (mkMul (.sub p q) (diff x s))) (.mul s s)
    let dH := mkNeg (mkMul (mkMul (.mul H H) (.fn .exp u)) du)
    match r with
    | .gt | .ge =>
      mkAdd (mkAdd (mkMul (diff x a) (.sub .one H)) (mkMul a (mkNeg dH))) (mkAdd (mkMul (diff x b) H) (mkMul b dH))
    | _ =>
      mkAdd (mkAdd (mkMul (diff x a) H) (mkMul a dH)) (mkAdd (mkMul (diff x b) (.sub .one H)) (mkMul b (mkNeg dH)))

namespace Impl

def linName (d : Name) : Name := d ++ "_linearized"

/-- the guarded Rush–Larsen increment of `schemes.generalized_rush_larsen` -/
def rlTerm (d : Name) (delta : Expr) (guarded : Bool) : Expr :=
  let lin := Expr.var (linName d)
  let rl := Expr.mul (.div (.var d) lin) (.sub (.fn .exp (.mul lin (.var "dt"))) .one)
  if guarded then .cond (.rel .gt (.fn .abs lin) delta) rl (.mul (.var "dt") (.var d)) else rl

/-- per derivative: Euler if the state is not stiff or the linearisation is (syntactically)
zero, otherwise define `<d>_linearized` and store the guarded RL update. -/
def rlStore (stiff : Name → Bool) (delta : Expr) (s d : Name) (e : Expr) : List Stmt × Expr :=
  let g := diff s e
  if !stiff s || g.isZero then ([], eulerStore s d)
  else ([.define (linName d) g], .add (.var s) (rlTerm d delta true))

/-- `schemes.hybrid_rush_larsen` -/
def genHybrid (m : Model) (π : DepOrder) (removeUnused : Bool) (delta : Expr) (stiff : List Name) :
    Option (List Stmt) := do
  let L ← layout m π
  let order ← sortedAssignments m π removeUnused
  let used := mentioned m
  let keep : Name → Bool := fun x => !removeUnused || used.contains x
  pure (unpackStates L (fun _ => true) ++ unpackParams L keep ++ unpackMissing L ++
    bodySlots m L (rlStore (fun s => stiff.contains s) delta) order)

/-- `schemes.generalized_rush_larsen` (a second copy of the same loop in the source) -/
def genGRL (m : Model) (π : DepOrder) (removeUnused : Bool) (delta : Expr) : Option (List Stmt) := do
  let L ← layout m π
  let order ← sortedAssignments m π removeUnused
  let used := mentioned m
  let keep : Name → Bool := fun x => !removeUnused || used.contains x
  pure (unpackStates L (fun _ => true) ++ unpackParams L keep ++ unpackMissing L ++
    bodySlots m L (rlStore (fun _ => true) delta) order)

/-- `sympytools.rhs_matrix`: substitute intermediates simultaneously until none is left, at most
`maxTries` times; `none` = "Maximum number of tries used" (intermediates still present after the
loop).  The first argument counts the tries that remain. -/
def hasInter (isInter : Name → Bool) (rhs : List Expr) : Bool := rhs.any fun e => (fv e).any isInter

def rhsMatrixLoop (σ : Name → Option Expr) (isInter : Name → Bool) : Nat → List Expr → Option (List Expr)
  | 0, rhs => if hasInter isInter rhs then none else some rhs
  | remaining + 1, rhs =>
    if hasInter isInter rhs then rhsMatrixLoop σ isInter remaining (rhs.map (subst σ)) else some rhs

/-- default bound: one more than the number of intermediates -/
def defaultMaxTries (m : Model) : Nat := m.inters.length + 1

def rhsMatrix (m : Model) (π : DepOrder) (maxTries : Nat) : Option (List Expr) := do
  let order ← sortedAssignments m π false
  let rhs := order.filterMap fun d => if (m.stateOfDeriv d).isSome then m.rhsOf d else none
  rhsMatrixLoop (fun x => lookup m.inters x) (fun x => (lookup m.inters x).isSome) maxTries rhs

/-- Jacobian: rows follow the derivative order, columns the state order. -/
def jacobian (m : Model) (π : DepOrder) (maxTries : Nat) : Option (List (List Expr)) := do
  let rhs ← rhsMatrix m π maxTries
  let sts ← sortedStates m π
  pure (rhs.map fun e => sts.map fun s => diff s e)

/-- `atoms.remove_singularities` **as coded**: `piecewise_fold(sum(Conditional(Eq(x_i,v_i), r_i, expr)))`. -/
def removeSingAsCoded (e : Expr) (sing : List (Name × Expr × Expr)) : Expr :=
  match sing with
  | [] => e
  | s :: rest =>
    rest.foldl (fun acc s' => .add acc (.cond (.rel .eq (.var s'.1) s'.2.1) s'.2.2 e))
      (.cond (.rel .eq (.var s.1) s.2.1) s.2.2 e)

/-- what the property asks for: nested conditionals -/
def removeSingNested (e : Expr) : List (Name × Expr × Expr) → Expr
  | [] => e
  | s :: rest => .cond (.rel .eq (.var s.1) s.2.1) s.2.2 (removeSingNested e rest)

/-- the names the time-stepping schemes add (`dt`, `<d>_linearized` for each derivative `d`) are
not model identifiers (executable form of `GenValidRL.NoHelperClash`) -/
def checkNoHelperClash (m : Model) : Bool :=
  let known := m.stateNames ++ m.paramNames ++ m.assignNames ++ missingVariables m
  !known.contains "dt" &&
  m.derivs.all fun d => !known.contains (linName d.1) && !initBoundScheme.contains (linName d.1)

end Impl
end Gx
