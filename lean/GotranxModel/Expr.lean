/-!
# Source expression language of `.ode` files and its reference semantics

`Expr` is the abstract syntax of the right-hand sides accepted by `ode.lark`
(and, with the extra `Fn.sign`, of the expressions gotranx prints into NumPy/JAX/C code).
`eval` is the *reference meaning* the properties talk about.  It is parametric in an
arbitrary interpretation `Num α` of the primitive operations: a theorem proved for all
`Num α` holds for IEEE float64 with its real rounding as well as for ℝ.

No imports: this file is part of the executable, import-free model.
-/
namespace Gx

abbrev Name := String

inductive Rel where
  | lt | gt | le | ge | eq | ne
deriving DecidableEq, Repr, Inhabited

inductive Fn where
  | exp | cos | sin | tan | acos | asin | atan | abs | floor | log | sqrt | sign
deriving DecidableEq, Repr, Inhabited

/-- Right-hand-side expressions.  `num m e` is the literal `m · 10^e`.
`and`/`or` are binary: the n-ary `And(a,b,c)` of the grammar is `and a (and b c)`. -/
inductive Expr where
  | num (m : Nat) (e : Int)
  | var (x : Name)
  | pi
  | neg (a : Expr)
  | add (a b : Expr)
  | sub (a b : Expr)
  | mul (a b : Expr)
  | div (a b : Expr)
  | pow (a b : Expr)
  | fn (f : Fn) (a : Expr)
  | mod (a b : Expr)
  | rel (r : Rel) (a b : Expr)
  | not (a : Expr)
  | and (a b : Expr)
  | or (a b : Expr)
  | cond (c a b : Expr)
  | ccond (r : Rel) (x y a b s : Expr)
deriving DecidableEq, Repr, Inhabited

/-- An interpretation of the primitive operations.  No laws are assumed. -/
structure Num (α : Type) where
  lit : Nat → Int → α
  pi : α
  one : α
  neg : α → α
  add : α → α → α
  sub : α → α → α
  mul : α → α → α
  div : α → α → α
  pow : α → α → α
  mod : α → α → α
  fn : Fn → α → α
  rel : Rel → α → α → Bool
  ofBool : Bool → α
  truthy : α → Bool

abbrev Env (α : Type) := Name → Option α

/-- `1/(1+exp((x-y)/s))`, the weight of `ContinuousConditional`. -/
def Num.heaviside {α} (N : Num α) (x y s : α) : α :=
  N.div N.one (N.add N.one (N.fn .exp (N.div (N.sub x y) s)))

/-- The blend of `sympytools.ContinuousConditional`: `>`/`>=` weight the true value
with `1-H`, every other relation with `H`. -/
def Num.blend {α} (N : Num α) (r : Rel) (x y a b s : α) : α :=
  let H := N.heaviside x y s
  match r with
  | .gt | .ge => N.add (N.mul a (N.sub N.one H)) (N.mul b H)
  | _ => N.add (N.mul a H) (N.mul b (N.sub N.one H))

/-- Reference meaning.  `none` only when a name is unbound. Booleans are the numbers
`ofBool true / ofBool false`; a condition is read back with `truthy`. -/
def eval {α} (N : Num α) (ρ : Env α) : Expr → Option α
  | .num m e => some (N.lit m e)
  | .var x => ρ x
  | .pi => some N.pi
  | .neg a => (eval N ρ a).map N.neg
  | .add a b => do let x ← eval N ρ a; let y ← eval N ρ b; pure (N.add x y)
  | .sub a b => do let x ← eval N ρ a; let y ← eval N ρ b; pure (N.sub x y)
  | .mul a b => do let x ← eval N ρ a; let y ← eval N ρ b; pure (N.mul x y)
  | .div a b => do let x ← eval N ρ a; let y ← eval N ρ b; pure (N.div x y)
  | .pow a b => do let x ← eval N ρ a; let y ← eval N ρ b; pure (N.pow x y)
  | .fn f a => (eval N ρ a).map (N.fn f)
  | .mod a b => do let x ← eval N ρ a; let y ← eval N ρ b; pure (N.mod x y)
  | .rel r a b => do let x ← eval N ρ a; let y ← eval N ρ b; pure (N.ofBool (N.rel r x y))
  | .not a => (eval N ρ a).map fun x => N.ofBool (!N.truthy x)
  | .and a b => do let x ← eval N ρ a; let y ← eval N ρ b; pure (N.ofBool (N.truthy x && N.truthy y))
  | .or a b => do let x ← eval N ρ a; let y ← eval N ρ b; pure (N.ofBool (N.truthy x || N.truthy y))
  | .cond c a b => do
      let k ← eval N ρ c; let x ← eval N ρ a; let y ← eval N ρ b
      pure (if N.truthy k then x else y)
  | .ccond r x y a b s => do
      let vx ← eval N ρ x; let vy ← eval N ρ y
      let va ← eval N ρ a; let vb ← eval N ρ b; let vs ← eval N ρ s
      pure (N.blend r vx vy va vb vs)

/-- Names mentioned by an expression (what `Expression._find_dependencies` collects). -/
def fv : Expr → List Name
  | .num _ _ => []
  | .var x => [x]
  | .pi => []
  | .neg a => fv a
  | .add a b | .sub a b | .mul a b | .div a b | .pow a b | .mod a b => fv a ++ fv b
  | .fn _ a => fv a
  | .rel _ a b => fv a ++ fv b
  | .not a => fv a
  | .and a b | .or a b => fv a ++ fv b
  | .cond c a b => fv c ++ fv a ++ fv b
  | .ccond _ x y a b s => fv x ++ fv y ++ fv a ++ fv b ++ fv s

/-- Size (number of nodes), used for fuel bounds and evidence statistics. -/
def Expr.size : Expr → Nat
  | .num _ _ | .var _ | .pi => 1
  | .neg a | .fn _ a | .not a => a.size + 1
  | .add a b | .sub a b | .mul a b | .div a b | .pow a b | .mod a b
  | .rel _ a b | .and a b | .or a b => a.size + b.size + 1
  | .cond c a b => c.size + a.size + b.size + 1
  | .ccond _ x y a b s => x.size + y.size + a.size + b.size + s.size + 1

/-- Simultaneous substitution of names by expressions (`xreplace` on symbols). -/
def subst (σ : Name → Option Expr) : Expr → Expr
  | .num m e => .num m e
  | .var x => match σ x with | some e => e | none => .var x
  | .pi => .pi
  | .neg a => .neg (subst σ a)
  | .add a b => .add (subst σ a) (subst σ b)
  | .sub a b => .sub (subst σ a) (subst σ b)
  | .mul a b => .mul (subst σ a) (subst σ b)
  | .div a b => .div (subst σ a) (subst σ b)
  | .pow a b => .pow (subst σ a) (subst σ b)
  | .fn f a => .fn f (subst σ a)
  | .mod a b => .mod (subst σ a) (subst σ b)
  | .rel r a b => .rel r (subst σ a) (subst σ b)
  | .not a => .not (subst σ a)
  | .and a b => .and (subst σ a) (subst σ b)
  | .or a b => .or (subst σ a) (subst σ b)
  | .cond c a b => .cond (subst σ c) (subst σ a) (subst σ b)
  | .ccond r x y a b s => .ccond r (subst σ x) (subst σ y) (subst σ a) (subst σ b) (subst σ s)

/-- Consistent renaming of identifiers. -/
def rename (f : Name → Name) : Expr → Expr := subst (fun x => some (.var (f x)))

/-! ## The float64 interpretation -/

def relFloat : Rel → Float → Float → Bool
  | .lt, a, b => a < b
  | .gt, a, b => a > b
  | .le, a, b => a ≤ b
  | .ge, a, b => a ≥ b
  | .eq, a, b => a == b
  | .ne, a, b => a != b

/-- floored modulo (the sign of the result follows the divisor): `Mod` of sympy / `%` of Python. -/
def modFloat (a b : Float) : Float := a - b * Float.floor (a / b)

def signFloat (a : Float) : Float := if a > 0 then 1 else if a < 0 then -1 else if a == 0 then 0 else a

def fnFloat : Fn → Float → Float
  | .exp => Float.exp | .cos => Float.cos | .sin => Float.sin | .tan => Float.tan
  | .acos => Float.acos | .asin => Float.asin | .atan => Float.atan | .abs => Float.abs
  | .floor => Float.floor | .log => Float.log | .sqrt => Float.sqrt | .sign => signFloat

def litFloat (m : Nat) (e : Int) : Float :=
  if e ≥ 0 then Float.ofScientific (m * 10 ^ e.toNat) false 0 else Float.ofScientific m true (-e).toNat

def piFloat : Float := 3.141592653589793

def NumFloat : Num Float where
  lit := litFloat
  pi := piFloat
  one := 1
  neg := fun a => -a
  add := (· + ·)
  sub := (· - ·)
  mul := (· * ·)
  div := (· / ·)
  pow := Float.pow
  mod := modFloat
  fn := fnFloat
  rel := relFloat
  ofBool := fun b => if b then 1 else 0
  truthy := fun a => a != 0

end Gx
