import GotranxModel.Topo
import GotranxModel.Validate
/-!
# `Impl`: the generators of `codegen/base.py` and `schemes.py`, as coded

`Impl.*` mirror what gotranx does today (slot of a store = `state_index` of the state, i.e. its position in `sorted_states()`
computed *without* removal; unused filter = "mentioned by any assignment").  They produce IR programs whose
expressions are the source expressions themselves.
-/
namespace Gx
namespace Impl

/-- iteration order of the dependency set of each assignment (a permutation of the
distinct names of its expression); the default is first-occurrence order. -/
abbrev DepOrder := Name → Expr → List Name

def dedup (l : List Name) : List Name :=
  l.foldl (fun acc x => if acc.contains x then acc else acc ++ [x]) []

def defaultDeps : DepOrder := fun _ e => dedup (fv e)

/-- `sorted(dependencies)`: what reaches `sorter.add` no longer depends on set iteration order -/
def sortNames (l : List Name) : List Name := sortByName id l

/-- `ODE.dependents()` keys: every name mentioned by some assignment. -/
def mentioned (m : Model) : List Name := dedup (m.assigns.flatMap fun a => fv a.2)

/-- `ODE.sorted_assignments(remove_unused)` -/
def sortedAssignments (m : Model) (π : DepOrder) (removeUnused : Bool) : Option (List Name) :=
  let used := mentioned m
  let inters := if removeUnused then m.inters.filter fun a => used.contains a.1 else m.inters
  let adds := (inters ++ m.derivs.map fun d => (d.1, d.2.2)).map fun a => (a.1, sortNames (π a.1 a.2))
  sortAssignments adds

/-- `ODE.sorted_states()` (always computed without removal) -/
def sortedStates (m : Model) (π : DepOrder) : Option (List Name) :=
  (sortedAssignments m π false).map fun names => names.filterMap m.stateOfDeriv

/-- `ODE.missing_variables`: mentioned names that are neither atoms nor `t`/`time`, sorted. -/
def missingVariables (m : Model) : List Name :=
  let known := m.stateNames ++ m.paramNames ++ m.assignNames ++ timeNames
  sortNames ((mentioned m).filter (fun x => !known.contains x))

/-- the sub-model made of the atoms whose names satisfy `keep` (`Component.to_ode()`, `ode - C`) -/
def restrict (m : Model) (keep : Name → Bool) : Model :=
  { states := m.states.filter (fun a => keep a.1), params := m.params.filter (fun a => keep a.1),
    inters := m.inters.filter (fun a => keep a.1), derivs := m.derivs.filter (fun a => keep a.1) }

/-- The slot layout the index functions of a generated module report. -/
def layout (m : Model) (π : DepOrder) : Option Layout := do
  let st ← sortedStates m π
  let mon ← sortedAssignments m π false
  pure { state := st, param := m.paramNames, monitor := mon, missing := missingVariables m }

def enumFrom {β} : Nat → List β → List (Nat × β)
  | _, [] => []
  | n, x :: xs => (n, x) :: enumFrom (n + 1) xs

def unpackStates (L : Layout) (keep : Name → Bool) : List Stmt :=
  (enumFrom 0 L.state).filterMap fun (i, s) => if keep s then some (.unpack s .states i) else none
def unpackParams (L : Layout) (keep : Name → Bool) : List Stmt :=
  (enumFrom 0 L.param).filterMap fun (i, s) => if keep s then some (.unpack s .params i) else none
def unpackMissing (L : Layout) : List Stmt :=
  (enumFrom 0 L.missing).map fun (i, s) => .unpack s .missing i

/-- body shared by rhs and the schemes: define every sorted assignment; after a derivative,
store `mk state deriv` into the slot `state_index` reports for its state
(position in `sorted_states()`, which is computed without removal). -/
def bodySlots (m : Model) (L : Layout) (mk : Name → Name → Expr → List Stmt × Expr) : List Name → List Stmt
  | [] => []
  | x :: rest =>
    match m.rhsOf x with
    | none => bodySlots m L mk rest
    | some e =>
      match m.stateOfDeriv x with
      | none => .define x e :: bodySlots m L mk rest
      | some s =>
        let (pre, v) := mk s x e
        (.define x e :: pre) ++ [.store ((slotOf L.state s).getD 0) v] ++ bodySlots m L mk rest

/-- `CodeGenerator.rhs` -/
def genRhs (m : Model) (π : DepOrder) (removeUnused : Bool) : Option (List Stmt) := do
  let L ← layout m π
  let order ← sortedAssignments m π removeUnused
  let used := mentioned m
  let keep : Name → Bool := fun x => !removeUnused || used.contains x
  pure (unpackStates L keep ++ unpackParams L keep ++ unpackMissing L ++
    bodySlots m L (fun _ d _ => ([], .var d)) order)

/-- `CodeGenerator.monitor_values` (states always unpacked, no removal in the body) -/
def genMonitor (m : Model) (π : DepOrder) (removeUnused : Bool) : Option (List Stmt) := do
  let L ← layout m π
  let order ← sortedAssignments m π false
  let used := mentioned m
  let keep : Name → Bool := fun x => !removeUnused || used.contains x
  let body := (enumFrom 0 order).flatMap fun (i, x) =>
    match m.rhsOf x with
    | some e => [Stmt.define x e, .store i (.var x)]
    | none => []
  pure (unpackStates L (fun _ => true) ++ unpackParams L keep ++ unpackMissing L ++ body)

def eulerStore (s d : Name) : Expr := .add (.var s) (.mul (.var "dt") (.var d))

/-- `schemes.explicit_euler` -/
def genEuler (m : Model) (π : DepOrder) (removeUnused : Bool) : Option (List Stmt) := do
  let L ← layout m π
  let order ← sortedAssignments m π removeUnused
  let used := mentioned m
  let keep : Name → Bool := fun x => !removeUnused || used.contains x
  pure (unpackStates L (fun _ => true) ++ unpackParams L keep ++ unpackMissing L ++
    bodySlots m L (fun s d _ => ([], eulerStore s d)) order)


/-- head of `missing_values`: requested states and parameters are copied from the inputs -/
def missHead (req : List Name) (names : List Name) : List Stmt :=
  names.filterMap fun p => (slotOf req p).map fun i => Stmt.store i (.var p)

/-- body of `missing_values`: the sorted assignments, a store after each requested one, and the
early exit "`if n >= N: break`" (`left` = requested values still to be written) -/
def missBody (m : Model) (req : List Name) : Nat → List Name → List Stmt
  | _, [] => []
  | left, x :: rest =>
    match m.rhsOf x with
    | none => missBody m req left rest
    | some e =>
      match slotOf req x with
      | some i => .define x e :: .store i (.var x) :: (if left ≤ 1 then [] else missBody m req (left - 1) rest)
      | none => .define x e :: (if left = 0 then [] else missBody m req left rest)

/-- `CodeGenerator.missing_values` (states and parameters always unpacked) -/
def genMissing (m : Model) (π : DepOrder) (req : List Name) : Option (List Stmt) := do
  let L ← layout m π
  let order ← sortedAssignments m π false
  let head := missHead req (m.stateNames ++ m.paramNames)
  pure (unpackStates L (fun _ => true) ++ unpackParams L (fun _ => true) ++ unpackMissing L ++ head ++
    missBody m req (req.length - (stores head).length) order)

end Impl
end Gx
