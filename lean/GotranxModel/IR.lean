import GotranxModel.Expr
/-!
# Straight-line program IR of the generated functions

Every function gotranx emits (`rhs`, `monitor_values`, `missing_values`, the schemes) has the
same shape in all three backends: unpack array slots into local names, define locals by
expressions, store expressions into slots of the result array.  The harness translates the
emitted NumPy / JAX / C text into this IR; `exec` is its meaning.
-/
namespace Gx

inductive Arr where
  | states | params | missing
deriving DecidableEq, Repr, Inhabited

inductive Stmt where
  | unpack (x : Name) (arr : Arr) (i : Nat)
  | define (x : Name) (e : Expr)
  | store (i : Nat) (e : Expr)
deriving DecidableEq, Repr, Inhabited

/-- Machine state: local bindings (most recent first) and the stores performed (most recent first). -/
structure St (α : Type) where
  env : List (Name × α)
  out : List (Nat × α)

def lookup {α} (l : List (Name × α)) (x : Name) : Option α :=
  match l with
  | [] => none
  | (y, v) :: rest => if y = x then some v else lookup rest x

def lookupN {α} (l : List (Nat × α)) (i : Nat) : Option α :=
  match l with
  | [] => none
  | (j, v) :: rest => if j = i then some v else lookupN rest i

/-- The input arrays: `inp arr i` is `arr[i]`, `none` when out of range (IndexError). -/
abbrev Inputs (α : Type) := Arr → Nat → Option α

def step {α} (N : Num α) (inp : Inputs α) (s : St α) : Stmt → Option (St α)
  | .unpack x a i => (inp a i).map fun v => { s with env := (x, v) :: s.env }
  | .define x e => (eval N (lookup s.env) e).map fun v => { s with env := (x, v) :: s.env }
  | .store i e => (eval N (lookup s.env) e).map fun v => { s with out := (i, v) :: s.out }

/-- Run a program; `none` models NameError / IndexError. -/
def exec {α} (N : Num α) (inp : Inputs α) : St α → List Stmt → Option (St α)
  | s, [] => some s
  | s, st :: rest => (step N inp s st).bind fun s' => exec N inp s' rest

/-- Result array entry `i` (the last value stored there). -/
def St.result {α} (s : St α) (i : Nat) : Option α := lookupN s.out i

def Stmt.binds : Stmt → Option Name
  | .unpack x _ _ => some x
  | .define x _ => some x
  | .store _ _ => none

/-- Single assignment + definition before use, threading the list of bound names. -/
def wellScoped : List Name → List Stmt → Bool
  | _, [] => true
  | bound, .unpack x _ _ :: rest => !bound.contains x && wellScoped (x :: bound) rest
  | bound, .define x e :: rest =>
      !bound.contains x && (fv e).all bound.contains && wellScoped (x :: bound) rest
  | bound, .store _ e :: rest => (fv e).all bound.contains && wellScoped bound rest

def storeSlots : List Stmt → List Nat
  | [] => []
  | .store i _ :: rest => i :: storeSlots rest
  | _ :: rest => storeSlots rest

def defines : List Stmt → List (Name × Expr)
  | [] => []
  | .define x e :: rest => (x, e) :: defines rest
  | _ :: rest => defines rest

def unpacks : List Stmt → List (Name × Arr × Nat)
  | [] => []
  | .unpack x a i :: rest => (x, a, i) :: unpacks rest
  | _ :: rest => unpacks rest

def stores : List Stmt → List (Nat × Expr)
  | [] => []
  | .store i e :: rest => (i, e) :: stores rest
  | _ :: rest => stores rest

end Gx
