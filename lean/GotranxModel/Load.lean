import GotranxModel.Syntax
import GotranxModel.Model
/-!
# The loader: parse items → atoms → components → checked model

Mirrors `transformer.TreeToODE.ode`, `ode_component.Component._handle_assignments`,
`ode.make_ode`, `ode.ODE.__init__` **as coded**, including how duplicate detection works
(sets of attrs-equal atoms whose equality ignores the expression tree; `symbol_values`
gathered from the not-yet-resolved expression first and never for derivatives).
`WellFormed` in `Spec.lean` is what the property demands; the gap is C08's subject.
-/
namespace Gx

inductive LoadErr where
  | syntax            -- lark UnexpectedInput
  | build             -- sympy / gotranx error while building an expression (arity, `~`, …)
  | stateNotFound     -- derivative without a state in its component
  | incomplete        -- state without derivative
  | duplicate         -- DuplicateSymbolError
  | missingSymbol     -- MissingSymbolError
  | cycle             -- graphlib.CycleError (surfaces at code generation)
deriving Repr, DecidableEq, Inhabited

def LoadErr.toString : LoadErr → String
  | .syntax => "Syntax" | .build => "Build" | .stateNotFound => "StateNotFound"
  | .incomplete => "Incomplete" | .duplicate => "Duplicate" | .missingSymbol => "MissingSymbol"
  | .cycle => "Cycle"

def isBoolExpr : Expr → Bool
  | .rel _ _ _ | .not _ | .and _ _ | .or _ _ => true
  | _ => false

def relOfName : String → Option Rel
  | "Lt" => some .lt | "Gt" => some .gt | "Le" => some .le | "Ge" => some .ge | "Eq" => some .eq
  | _ => none

def fnOfName : String → Option Fn
  | "cos" => some .cos | "tan" => some .tan | "sin" => some .sin | "acos" => some .acos
  | "atan" => some .atan | "asin" => some .asin | "log" => some .log | "ln" => some .log
  | "sqrt" => some .sqrt | "exp" => some .exp | "Abs" => some .abs | "abs" => some .abs
  | "floor" => some .floor | _ => none

/-- right-nested fold of an n-ary connective -/
def foldConn (f : Expr → Expr → Expr) : List Expr → Option Expr
  | [] => none
  | [a] => some a
  | a :: rest => (foldConn f rest).map (f a)

mutual
/-- `expressions.build_expression`, with the arity / type errors sympy raises. -/
def resolve : PExpr → Except LoadErr Expr
  | .num m e => .ok (.num m e)
  | .var x => .ok (.var x)
  | .pi => .ok .pi
  | .un .neg a => do let a' ← resolve a; pure (.neg a')
  | .un .pos a => resolve a
  | .un .inv _ => .error .build
  | .bin op a b => do
    let a' ← resolve a; let b' ← resolve b
    pure (match op with
      | .add => .add a' b' | .sub => .sub a' b' | .mul => .mul a' b'
      | .div => .div a' b' | .pow => .pow a' b')
  | .call f args => do
    if f == "ContinuousConditional" then
      match args with
      | [.call r [x, y], a, b, s] =>
        match relOfName r with
        | some rel => do
          let x' ← resolve x; let y' ← resolve y
          let a' ← resolve a; let b' ← resolve b; let s' ← resolve s
          pure (.ccond rel x' y' a' b' s')
        | none => .error .build
      | _ => .error .build
    else
      let as ← resolveList args
      match fnOfName f, as with
      | some fn, [a] => pure (.fn fn a)
      | some _, _ => .error .build
      | none, _ =>
        match relOfName f, as with
        | some r, [a, b] => pure (.rel r a b)
        | some _, _ => .error .build
        | none, _ =>
          if f == "Mod" then
            match as with
            | [a, b] => pure (.mod a b)
            | _ => .error .build
          else if f == "Not" then
            match as with
            | [a] => pure (.not a)
            | _ => .error .build
          else if f == "And" then
            match foldConn .and as with | some e => pure e | none => .error .build
          else if f == "Or" then
            match foldConn .or as with | some e => pure e | none => .error .build
          else if f == "Conditional" then
            match as with
            | [c, a, b] => if isBoolExpr c then pure (.cond c a b) else .error .build
            | _ => .error .build
          else .error .build
def resolveList : List PExpr → Except LoadErr (List Expr)
  | [] => .ok []
  | a :: rest => do let a' ← resolve a; let r ← resolveList rest; pure (a' :: r)
end

/-! ## Atoms and components -/

inductive AKind where | state | param | assign
deriving DecidableEq, Repr, Inhabited

structure RawAtom where
  kind : AKind
  name : Name
  expr : Expr
  comps : List String
  unit : Option String := none
  desc : Option String := none
  comment : Option String := none
deriving Repr, Inhabited, DecidableEq

def remQuotes (s : String) : String := String.ofList (s.toList.filter fun c => c != '\'' && c != '"')

def dedupNames (l : List Name) : List Name :=
  l.foldl (fun acc x => if acc.contains x then acc else acc ++ [x]) []

def sameSet (a b : List Name) : Bool := a.all b.contains && b.all a.contains

/-- attrs equality of atoms: for assignments the tree is ignored, only the dependency
set, name, components and annotation count. -/
def RawAtom.attrsEq (a b : RawAtom) : Bool :=
  a.kind == b.kind && a.name == b.name && a.comps == b.comps && a.unit == b.unit &&
  a.desc == b.desc && a.comment == b.comment &&
  (match a.kind with
   | .assign => sameSet (fv a.expr) (fv b.expr)
   | _ => a.expr == b.expr)

/-- `transformer._same_definition` -/
def sameDefinition (a b : RawAtom) : Bool := a.attrsEq b && a.expr == b.expr

/-- sequential duplicate check of `TreeToODE.ode` with the dictionary `defined` (latest atom per name) -/
def seqCheck : List RawAtom → List RawAtom → Bool
  | _, [] => true
  | defined, a :: rest =>
    match defined.find? (·.name == a.name) with
    | some prev => sameDefinition prev a && seqCheck (a :: defined.filter (·.name != a.name)) rest
    | none => seqCheck (a :: defined) rest

def compsOf (cs : List String) : List String := if cs.isEmpty then [""] else cs.map remQuotes

def atomsOfItem : Item → Except LoadErr (List RawAtom)
  | .comment _ => .ok []
  | .states cs ps => ps.mapM fun p => do
      let v ← resolve p.value
      pure { kind := .state, name := p.name, expr := v, comps := compsOf cs,
             unit := p.unit.map remQuotes, desc := p.desc.map remQuotes }
  | .parameters cs ps => ps.mapM fun p => do
      let v ← resolve p.value
      pure { kind := .param, name := p.name, expr := v, comps := compsOf cs,
             unit := p.unit.map remQuotes, desc := p.desc.map remQuotes }
  | .expressions cs as => as.mapM fun a => do
      let v ← resolve a.rhs
      pure { kind := .assign, name := a.name, expr := v, comps := compsOf cs, comment := a.comment }

structure RawComp where
  name : String
  atoms : List RawAtom      -- a *set* under `attrsEq` (first insertion kept)
deriving Repr, Inhabited

def addToComp (cs : List RawComp) (c : String) (a : RawAtom) : List RawComp :=
  if cs.any (·.name == c) then
    cs.map fun rc =>
      if rc.name == c then
        if rc.atoms.any (·.attrsEq a) then rc else { rc with atoms := rc.atoms ++ [a] }
      else rc
  else cs ++ [{ name := c, atoms := [a] }]

def buildComps (atoms : List RawAtom) : List RawComp :=
  atoms.foldl (fun cs a => a.comps.foldl (fun cs c => addToComp cs c a) cs) []

/-- `STATE_DERIV_EXPR = ^d(?P<state>\w+)_dt$` -/
def derivState (n : Name) : Option Name :=
  let cs := n.toList
  if cs.length ≥ 5 && cs.head? == some 'd' && cs.drop (cs.length - 3) == ['_', 'd', 't'] then
    some (String.ofList ((cs.drop 1).take (cs.length - 4)))
  else none

structure Comp where
  name : String
  states : List Name
  params : List Name
  inters : List Name
  derivs : List Name
deriving Repr, Inhabited, DecidableEq

structure Loaded where
  model : Model
  comps : List Comp
  comments : List String
  /-- per atom: name, kind tag, components, unit, description, comment -/
  annots : List (Name × String × List String × Option String × Option String × Option String)
deriving Repr, Inhabited

/-- values gathered for one name by `gather_atoms` (states, parameters, intermediates; never
derivatives); duplicates are detected as "more than one distinct value". -/
def distinctExprs (l : List Expr) : List Expr :=
  l.foldl (fun acc x => if acc.contains x then acc else acc ++ [x]) []

def loadItems (items : List Item) : Except LoadErr Loaded := do
  let atomLists ← items.mapM atomsOfItem
  let atoms := atomLists.flatten
  -- transformer.TreeToODE.ode: a name may be written twice only with the same definition
  -- (same kind, equal attributes and, for assignments, the same expression tree)
  unless seqCheck [] atoms do throw .duplicate
  let comps := buildComps atoms
  -- Component._handle_assignments : pair derivatives with states of the same component
  let mut compsOut : List Comp := []
  for c in comps do
    let sts := (c.atoms.filter (·.kind == .state)).map (·.name)
    let mut inters : List Name := []
    let mut ders : List Name := []
    for a in c.atoms do
      if a.kind == .assign then
        match derivState a.name with
        | some s => if sts.contains s then ders := ders ++ [a.name] else throw .stateNotFound
        | none => inters := inters ++ [a.name]
    -- check_components: every state has a derivative
    for s in sts do
      unless ders.any (fun d => derivState d == some s) do throw .incomplete
    let pnames := (c.atoms.filter (·.kind == .param)).map (·.name)
    let comp : Comp := Comp.mk c.name (sortByName id (dedupNames sts)) (sortByName id (dedupNames pnames))
      (sortByName id (dedupNames inters)) (sortByName id (dedupNames ders))
    compsOut := compsOut ++ [comp]
  -- distinct atoms over all components (an atom listed in two components is one atom)
  let allAtoms : List RawAtom := comps.foldl (fun acc c =>
    c.atoms.foldl (fun acc a => if acc.contains a then acc else acc ++ [a]) acc) []
  let isDeriv (a : RawAtom) : Bool := a.kind == .assign && (derivState a.name).isSome
  let names := dedupNames (allAtoms.map (·.name))
  -- make_ode: symbol_values before resolution (every intermediate contributes `0`)
  for n in names do
    let vals := (allAtoms.filter fun a => a.name == n && !isDeriv a).map fun a =>
      if a.kind == .assign then Expr.num 0 0 else a.expr
    if (distinctExprs vals).length > 1 then throw .duplicate
  -- resolve_expressions: every mentioned symbol must exist
  let known := names ++ timeNames
  for a in allAtoms do
    if a.kind == .assign then
      for x in fv a.expr do
        unless known.contains x do throw .missingSymbol
  -- ODE.__init__: symbol_values after resolution
  for n in names do
    let vals := (allAtoms.filter fun a => a.name == n && !isDeriv a).map (·.expr)
    if (distinctExprs vals).length > 1 then throw .duplicate
  -- the model: per name the *last* atom wins in `lookup`; for well-formed texts there is one
  let pick (k : AKind) (d : Bool) : List RawAtom :=
    sortByName (·.name) ((allAtoms.filter fun a => a.kind == k && (k != .assign || isDeriv a == d)).foldl
      (fun acc a => if acc.any (·.name == a.name) then acc else acc ++ [a]) [])
  let model : Model := {
    states := (pick .state false).map (fun a => (a.name, a.expr)),
    params := (pick .param false).map (fun a => (a.name, a.expr)),
    inters := (pick .assign false).map (fun a => (a.name, a.expr)),
    derivs := (pick .assign true).map (fun a => (a.name, (derivState a.name).getD "", a.expr)) }
  let comments := items.filterMap fun | .comment t => some t | _ => none
  let kindTag (a : RawAtom) : String := match a.kind with
    | .state => "state" | .param => "param" | .assign => if isDeriv a then "deriv" else "inter"
  let annots := (sortByName (·.name) allAtoms).map fun a =>
    (a.name, kindTag a, a.comps, a.unit, a.desc, a.comment)
  pure { model, comps := compsOut, comments, annots }

def loadString (s : String) : Except LoadErr Loaded :=
  match parseOde s with
  | .error _ => .error .syntax
  | .ok items => loadItems items

end Gx
