import GotranxModel.Load
/-!
# The loader as a composition of pure steps

`loadItemsP` performs the same checks in the same order as `loadItems` (the imperative mirror of
`TreeToODE.ode` / `make_ode` / `ODE.__init__` in `Load.lean`), written as a composition of pure
functions so that theorems can be stated about it (`GotranxProofs.LoaderWF`).  The driver runs both
on every text and reports any difference.
-/
namespace Gx

/-- a derivative whose state is not declared in the component (`StateNotFoundInComponent`) -/
def orphanDeriv (c : RawComp) : Bool :=
  c.atoms.any fun a => a.kind == .assign &&
    match derivState a.name with
    | some s => !(c.atoms.any fun b => b.kind == .state && b.name == s)
    | none => false

/-- a state without derivative in the component (`ComponentNotCompleteError`) -/
def missingDeriv (c : RawComp) : Bool :=
  c.atoms.any fun b => b.kind == .state &&
    !(c.atoms.any fun a => a.kind == .assign && derivState a.name == some b.name)

/-- `Component._handle_assignments` + `check_components` for one component -/
def compOf (c : RawComp) : Except LoadErr Comp :=
  if orphanDeriv c then .error .stateNotFound else
  if missingDeriv c then .error .incomplete else
  let sts := (c.atoms.filter (·.kind == .state)).map (·.name)
  let assigns := c.atoms.filter (·.kind == .assign)
  let ders := (assigns.filter fun a => (derivState a.name).isSome).map (·.name)
  let inters := (assigns.filter fun a => (derivState a.name).isNone).map (·.name)
  let pnames := (c.atoms.filter (·.kind == .param)).map (·.name)
  .ok (Comp.mk c.name (sortByName id (dedupNames sts)) (sortByName id (dedupNames pnames))
    (sortByName id (dedupNames inters)) (sortByName id (dedupNames ders)))

def isDerivAtom (a : RawAtom) : Bool := a.kind == .assign && (derivState a.name).isSome

/-- distinct atoms over all components (an atom listed in two components is one atom) -/
def allAtomsOf (comps : List RawComp) : List RawAtom :=
  comps.foldl (fun acc c => c.atoms.foldl (fun acc a => if acc.contains a then acc else acc ++ [a]) acc) []

/-- `symbol_values` has one value per name (`unresolved`: every intermediate contributes `0`) -/
def valuesConsistent (allAtoms : List RawAtom) (names : List Name) (unresolved : Bool) : Bool :=
  names.all fun n =>
    let vals := (allAtoms.filter fun a => a.name == n && !isDerivAtom a).map fun a =>
      if unresolved && a.kind == .assign then Expr.num 0 0 else a.expr
    (distinctExprs vals).length ≤ 1

def symbolsKnown (allAtoms : List RawAtom) (names : List Name) : Bool :=
  let known := names ++ timeNames
  allAtoms.all fun a => a.kind != .assign || (fv a.expr).all known.contains

def pickAtoms (allAtoms : List RawAtom) (k : AKind) (d : Bool) : List RawAtom :=
  sortByName (·.name) ((allAtoms.filter fun a => a.kind == k && (k != .assign || isDerivAtom a == d)).foldl
    (fun acc a => if acc.any (·.name == a.name) then acc else acc ++ [a]) [])

def modelOfAtoms (allAtoms : List RawAtom) : Model :=
  { states := (pickAtoms allAtoms .state false).map (fun a => (a.name, a.expr)),
    params := (pickAtoms allAtoms .param false).map (fun a => (a.name, a.expr)),
    inters := (pickAtoms allAtoms .assign false).map (fun a => (a.name, a.expr)),
    derivs := (pickAtoms allAtoms .assign true).map (fun a => (a.name, (derivState a.name).getD "", a.expr)) }

/-- the checks of the loader on the list of atoms: duplicate test, components, one value per name,
every symbol known -/
def coreLoad (atoms : List RawAtom) : Except LoadErr (List RawAtom × List Comp) :=
  if !seqCheck [] atoms then .error .duplicate else
  match (buildComps atoms).mapM compOf with
  | .error e => .error e
  | .ok compsOut =>
    let allAtoms := allAtomsOf (buildComps atoms)
    let names := dedupNames (allAtoms.map (·.name))
    if !valuesConsistent allAtoms names true then .error .duplicate else
    if !symbolsKnown allAtoms names then .error .missingSymbol else
    if !valuesConsistent allAtoms names false then .error .duplicate else
    .ok (allAtoms, compsOut)

/-- the loader as a composition of pure steps (same checks, same order of errors as `loadItemsRef`) -/
def loadItemsP (items : List Item) : Except LoadErr Loaded := do
  let atomLists ← items.mapM atomsOfItem
  let (allAtoms, compsOut) ← coreLoad atomLists.flatten
  let comments := items.filterMap fun | .comment t => some t | _ => none
  let kindTag (a : RawAtom) : String := match a.kind with
    | .state => "state" | .param => "param" | .assign => if isDerivAtom a then "deriv" else "inter"
  let annots := (sortByName (·.name) allAtoms).map fun a =>
    (a.name, kindTag a, a.comps, a.unit, a.desc, a.comment)
  pure { model := modelOfAtoms allAtoms, comps := compsOut, comments, annots }

/-- text → model, through the pure loader -/
def loadStringP (s : String) : Except LoadErr Loaded :=
  match parseOde s with
  | .error _ => .error .syntax
  | .ok items => loadItemsP items

/-- executable side condition of `loadStringP_wf`: the time symbol is not the name of a model quantity -/
def noTimeNameM (m : Model) : Bool :=
  timeNames.all fun x => !(m.stateNames ++ m.paramNames ++ m.assignNames).contains x

def sameLoad (a b : Except LoadErr Loaded) : Bool :=
  match a, b with
  | .error e1, .error e2 => e1 == e2
  | .ok x, .ok y => x.model == y.model && x.comps == y.comps && x.comments == y.comments && x.annots == y.annots
  | _, _ => false

end Gx
