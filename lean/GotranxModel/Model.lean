import GotranxModel.IR
/-!
# Loaded models, slot layouts and the equational specification

`Model` is what `gotranx.load_ode` produces, reduced to what the properties talk about:
name-sorted states / parameters / intermediates / derivatives with their expressions.
`Solution` is the *specification*: an environment that binds every input name to the input
value and satisfies every assignment as an equation.
-/
namespace Gx

structure Model where
  /-- `(name, initial value)` sorted by name (`ODE.states`). -/
  states : List (Name × Expr)
  /-- `(name, value)` sorted by name (`ODE.parameters`). -/
  params : List (Name × Expr)
  /-- `(name, rhs)` sorted by name (`ODE.intermediates`). -/
  inters : List (Name × Expr)
  /-- `(d<state>_dt, state, rhs)` sorted by derivative name (`ODE.state_derivatives`). -/
  derivs : List (Name × Name × Expr)
deriving Repr, Inhabited, DecidableEq

def Model.assigns (m : Model) : List (Name × Expr) :=
  m.inters ++ m.derivs.map fun d => (d.1, d.2.2)

def Model.rhsOf (m : Model) (x : Name) : Option Expr := lookup m.assigns x

def Model.stateOfDeriv (m : Model) (d : Name) : Option Name :=
  lookup (m.derivs.map fun x => (x.1, x.2.1)) d

def Model.derivOfState (m : Model) (s : Name) : Option Name :=
  lookup (m.derivs.map fun x => (x.2.1, x.1)) s

def Model.stateNames (m : Model) : List Name := m.states.map (·.1)
def Model.paramNames (m : Model) : List Name := m.params.map (·.1)
def Model.assignNames (m : Model) : List Name := m.assigns.map (·.1)

/-- insertion into a name-sorted list (`sorted(..., key=name)`; stable) -/
def insertSorted {β} (key : β → Name) (x : β) : List β → List β
  | [] => [x]
  | y :: rest => if key x < key y then x :: y :: rest else y :: insertSorted key x rest

def sortByName {β} (key : β → Name) (l : List β) : List β := l.foldl (fun acc x => insertSorted key x acc) []

/-- Array layout of a generated module: slot `i` of each array holds the `i`-th name. -/
structure Layout where
  state : List Name
  param : List Name
  monitor : List Name
  missing : List Name
deriving Repr, Inhabited, DecidableEq

/-- Index function of a generated module (`state_index`, …): position of the name, `none` if unknown. -/
def slotOf : List Name → Name → Option Nat
  | [], _ => none
  | y :: rest, x => if y = x then some 0 else (slotOf rest x).map (· + 1)

/-- The time symbol is reachable under both spellings (`symbols["time"] = symbols["t"] = t`). -/
def timeNames : List Name := ["t", "time"]

/-- The specification: `ρ` is a solution of model `m` at the inputs `inp`, time `t`. -/
def Solution {α} (N : Num α) (m : Model) (L : Layout) (inp : Inputs α) (t : α) (ρ : Env α) : Prop :=
  (∀ i x, L.state[i]? = some x → ρ x = inp .states i) ∧
  (∀ i x, L.param[i]? = some x → ρ x = inp .params i) ∧
  (∀ i x, L.missing[i]? = some x → ρ x = inp .missing i) ∧
  (∀ x ∈ timeNames, ρ x = some t) ∧
  (∀ x e, (x, e) ∈ m.assigns → ρ x = eval N ρ e ∧ (ρ x).isSome)

/-- Denotation by bounded unfolding: the value of a name after `fuel` levels of definitions.
`base` gives the inputs (states, parameters, time, missing values). -/
def denote {α} (N : Num α) (m : Model) (base : Env α) : Nat → Name → Option α
  | 0, _ => none
  | fuel + 1, x =>
    match m.rhsOf x with
    | some e => eval N (denote N m base fuel) e
    | none => base x

/-- Input environment of a module with layout `L`. -/
def baseEnv {α} (L : Layout) (inp : Inputs α) (t : α) : Env α := fun x =>
  if timeNames.contains x then some t else
  match slotOf L.state x with
  | some i => inp .states i
  | none =>
    match slotOf L.param x with
    | some i => inp .params i
    | none =>
      match slotOf L.missing x with
      | some i => inp .missing i
      | none => none

/-- `rank` certificate of acyclicity: every assignment only mentions names of smaller rank
(non-assigned names have rank 0). -/
def Ranked (m : Model) (rank : Name → Nat) : Prop :=
  ∀ x e, (x, e) ∈ m.assigns → ∀ y ∈ fv e, (m.rhsOf y).isSome → rank y < rank x

end Gx
