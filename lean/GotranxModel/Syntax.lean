import GotranxModel.Expr
/-!
# Lexer and parser for the `.ode` language (`ode.lark`)

A model of what lark's LALR(1) parser with its contextual lexer does with `ode.lark`:

* blanks and tabs are ignored (`WS_INLINE`); a line break right after a token that can end an
  operand is the `NEWLINE` token `(\r?\n)+` (it ends an assignment, and a second one — e.g. after a
  line that holds only blanks — ends an `expressions("A")` block); any other white space,
  including line breaks, is ignored (`WS`);
* `#` skips whitespace (including line breaks!) and takes the rest of that line as text;
* keywords are recognised by exact match and only where the grammar can use them;
* `expression > term > factor > power > atom` is the precedence ladder
  (`-x**2 = -(x**2)`, `2**-x`, `2**3**2 = 2**(3**2)`, left-associative `+ - * /`).

The parse tree `PExpr` keeps calls generic; `resolve` (in `Load.lean`) turns it into `Expr`
with the arity checks sympy performs.
-/
namespace Gx

inductive Tok where
  | ident (s : String)
  | num (m : Nat) (e : Int)
  | str (s : String)
  | lp | rp | comma | eq | plus | minus | star | slash | pow | tilde
  | comment (text : String)
  | nl
deriving DecidableEq, Repr, Inhabited

inductive UnOp where | neg | pos | inv
deriving DecidableEq, Repr, Inhabited

inductive BinOp where | add | sub | mul | div | pow
deriving DecidableEq, Repr, Inhabited

/-- Parse tree of an expression (lark tree with `expression`/`term` folded to the left). -/
inductive PExpr where
  | num (m : Nat) (e : Int)
  | var (x : Name)
  | pi
  | un (op : UnOp) (a : PExpr)
  | bin (op : BinOp) (a b : PExpr)
  | call (f : String) (args : List PExpr)
deriving Repr, Inhabited

/-! ## Lexer (on `List Char`, with fuel) -/

def isIdStart (c : Char) : Bool := c.isAlpha || c == '_'
def isIdChar (c : Char) : Bool := c.isAlphanum || c == '_'
def isInline (c : Char) : Bool := c == ' ' || c == '\t'
def isWs (c : Char) : Bool := c == ' ' || c == '\t' || c == '\x0c' || c == '\r' || c == '\n'

def takeWhileC (p : Char → Bool) : List Char → List Char × List Char
  | [] => ([], [])
  | c :: cs => if p c then let (a, b) := takeWhileC p cs; (c :: a, b) else ([], c :: cs)

def digitsToNat (ds : List Char) : Nat := ds.foldl (fun n c => n * 10 + (c.toNat - '0'.toNat)) 0

/-- exponent part `(e|E)[+-]?digits`; returns the signed exponent and the rest, or none -/
def lexExp : List Char → Option (Int × List Char)
  | c :: cs =>
    if c == 'e' || c == 'E' then
      let (neg, cs') := match cs with
        | '+' :: r => (false, r)
        | '-' :: r => (true, r)
        | r => (false, r)
      let (ds, rest) := takeWhileC Char.isDigit cs'
      if ds.isEmpty then none
      else some ((if neg then -(digitsToNat ds : Int) else (digitsToNat ds : Int)), rest)
    else none
  | [] => none

/-- `NUMBER` of lark's `common`: `INT`, `INT.INT?`, `.INT`, each with optional exponent.
Returns mantissa, decimal exponent and the rest. -/
def lexNumber (cs : List Char) : Option (Nat × Int × List Char) :=
  let (ip, r1) := takeWhileC Char.isDigit cs
  let (fp, r2, hasDot) : List Char × List Char × Bool := match r1 with
    | '.' :: r => let (f, r') := takeWhileC Char.isDigit r; (f, r', true)
    | r => ([], r, false)
  if ip.isEmpty && fp.isEmpty then none
  else if ip.isEmpty && !hasDot then none
  else
    let m := digitsToNat (ip ++ fp)
    let e0 : Int := -(fp.length : Int)
    match lexExp r2 with
    | some (e, r3) => some (m, e0 + e, r3)
    | none => some (m, e0, r2)

/-- body of an `ESCAPED_STRING` up to the closing quote (no raw newline) -/
def lexString : List Char → Option (List Char × List Char)
  | [] => none
  | '"' :: rest => some ([], rest)
  | '\\' :: c :: rest => (lexString rest).map fun (s, r) => ('\\' :: c :: s, r)
  | '\n' :: _ => none
  | c :: rest => (lexString rest).map fun (s, r) => (c :: s, r)

/-- can the previous token end an operand (so that `NEWLINE` is acceptable after it)? -/
def Tok.endsOperand : Tok → Bool
  | .ident _ | .num _ _ | .rp | .comment _ | .nl => true
  | _ => false

/-- `(\r?\n)+` -/
def takeNewlines : List Char → List Char
  | '\r' :: '\n' :: rest => takeNewlines rest
  | '\n' :: rest => takeNewlines rest
  | cs => cs
termination_by cs => cs.length

def startsNewline : List Char → Bool
  | '\r' :: '\n' :: _ => true
  | '\n' :: _ => true
  | _ => false

inductive LexErr where | badChar | badString | badComment | badNumber
deriving Repr, DecidableEq, Inhabited

/-- `prevEnds`: the previous token can end an operand (or we are at the very start). -/
def lexAux : Nat → Bool → List Char → List Tok → Except LexErr (List Tok)
  | 0, _, _, acc => .ok acc.reverse
  | _ + 1, _, [], acc => .ok acc.reverse
  | fuel + 1, prevEnds, c :: cs, acc =>
    if isInline c then
      -- WS_INLINE: blanks and tabs only; a following line break is looked at separately
      lexAux fuel prevEnds (takeWhileC isInline cs).2 acc
    else if isWs c then
      if prevEnds && startsNewline (c :: cs) then
        lexAux fuel true (takeNewlines (c :: cs)) (.nl :: acc)
      else
        lexAux fuel prevEnds (takeWhileC isWs cs).2 acc
    else if c == '#' then
      -- skip WS (including line breaks), then the rest of the line is the text
      let rest := (takeWhileC isWs cs).2
      let (text, rest') := takeWhileC (· != '\n') rest
      if text.isEmpty then .error .badComment
      else lexAux fuel true rest' (.comment (String.ofList text) :: acc)
    else if isIdStart c then
      let (w, rest) := takeWhileC isIdChar (c :: cs)
      lexAux fuel true rest (.ident (String.ofList w) :: acc)
    else if c.isDigit || c == '.' then
      match lexNumber (c :: cs) with
      | none => .error .badNumber
      | some (m, e, rest) =>
        -- `SCIENTIFIC_NUMBER: NUMBER ((E1|E2) SIGN? NUMBER)?` : a second exponent makes a
        -- token sympy cannot read
        match rest with
        | 'e' :: r | 'E' :: r =>
          let r' := match r with | '+' :: q => q | '-' :: q => q | q => q
          match lexNumber r' with
          | some _ => .error .badNumber
          | none => lexAux fuel true rest (.num m e :: acc)
        | _ => lexAux fuel true rest (.num m e :: acc)
    else if c == '"' then
      match lexString cs with
      | none => .error .badString
      | some (s, rest) => lexAux fuel false rest (.str (String.ofList s) :: acc)
    else if c == '(' then lexAux fuel false cs (.lp :: acc)
    else if c == ')' then lexAux fuel true cs (.rp :: acc)
    else if c == ',' then lexAux fuel false cs (.comma :: acc)
    else if c == '=' then lexAux fuel false cs (.eq :: acc)
    else if c == '+' then lexAux fuel false cs (.plus :: acc)
    else if c == '-' then lexAux fuel false cs (.minus :: acc)
    else if c == '~' then lexAux fuel false cs (.tilde :: acc)
    else if c == '/' then lexAux fuel false cs (.slash :: acc)
    else if c == '*' then
      match cs with
      | '*' :: rest => lexAux fuel false rest (.pow :: acc)
      | _ => lexAux fuel false cs (.star :: acc)
    else .error .badChar

def lex (s : String) : Except LexErr (List Tok) :=
  let cs := s.toList
  lexAux (cs.length + 1) true cs []

/-! ## Parser -/

def funcNames : List String :=
  ["cos", "tan", "sin", "acos", "atan", "asin", "log", "ln", "sqrt", "exp", "Abs", "abs", "floor", "Mod"]
def logicalNames : List String :=
  ["ContinuousConditional", "Conditional", "Lt", "Gt", "Le", "Ge", "And", "Or", "Eq", "Not"]
def blockKeywords : List String := ["states", "parameters", "expressions", "component"]

mutual
/-- expression: term (("+"|"-") term)* -/
def pExpr : Nat → List Tok → Option (PExpr × List Tok)
  | 0, _ => none
  | f + 1, ts => match pTerm f ts with
    | none => none
    | some (a, ts) => eLoop f a ts
def eLoop : Nat → PExpr → List Tok → Option (PExpr × List Tok)
  | 0, _, _ => none
  | f + 1, acc, .plus :: ts => match pTerm f ts with
    | none => none
    | some (b, ts) => eLoop f (.bin .add acc b) ts
  | f + 1, acc, .minus :: ts => match pTerm f ts with
    | none => none
    | some (b, ts) => eLoop f (.bin .sub acc b) ts
  | _ + 1, acc, ts => some (acc, ts)
/-- term: factor (("*"|"/") factor)* -/
def pTerm : Nat → List Tok → Option (PExpr × List Tok)
  | 0, _ => none
  | f + 1, ts => match pFactor f ts with
    | none => none
    | some (a, ts) => tLoop f a ts
def tLoop : Nat → PExpr → List Tok → Option (PExpr × List Tok)
  | 0, _, _ => none
  | f + 1, acc, .star :: ts => match pFactor f ts with
    | none => none
    | some (b, ts) => tLoop f (.bin .mul acc b) ts
  | f + 1, acc, .slash :: ts => match pFactor f ts with
    | none => none
    | some (b, ts) => tLoop f (.bin .div acc b) ts
  | _ + 1, acc, ts => some (acc, ts)
/-- factor: ("+"|"-"|"~") factor | power ;  power: atom ("**" factor)? -/
def pFactor : Nat → List Tok → Option (PExpr × List Tok)
  | 0, _ => none
  | f + 1, .minus :: ts => match pFactor f ts with
    | none => none
    | some (a, ts) => some (.un .neg a, ts)
  | f + 1, .plus :: ts => match pFactor f ts with
    | none => none
    | some (a, ts) => some (.un .pos a, ts)
  | f + 1, .tilde :: ts => match pFactor f ts with
    | none => none
    | some (a, ts) => some (.un .inv a, ts)
  | f + 1, ts => match pAtom f ts with
    | none => none
    | some (a, .pow :: ts) => match pFactor f ts with
      | none => none
      | some (b, ts) => some (.bin .pow a b, ts)
    | some (a, ts) => some (a, ts)
/-- atom: number | variable | pi | "(" expression ")" | name "(" args ")" -/
def pAtom : Nat → List Tok → Option (PExpr × List Tok)
  | 0, _ => none
  | _ + 1, .num m e :: ts => some (.num m e, ts)
  | f + 1, .ident s :: ts =>
    if s == "pi" then some (.pi, ts)
    else if funcNames.contains s then
      match ts with
      | .lp :: ts => match pArgs f ts with
        | none => none
        | some (args, ts) => match skipCommas true ts with
          | .rp :: ts => some (.call s args, ts)
          | _ => none
      | _ => none
    else if logicalNames.contains s then
      match ts with
      | .lp :: ts => match pArgs f ts with
        | none => none
        | some (args, ts) => match skipCommas false ts with
          | .rp :: ts => some (.call s args, ts)
          | _ => none
      | _ => none
    else some (.var s, ts)
  | f + 1, .lp :: ts => match pExpr f ts with
    | some (a, .rp :: ts) => some (a, ts)
    | _ => none
  | _ + 1, _ => none
/-- expression ("," expression)*  (a comma not followed by an expression is left to the caller) -/
def pArgs : Nat → List Tok → Option (List PExpr × List Tok)
  | 0, _ => none
  | f + 1, ts => match pExpr f ts with
    | none => none
    | some (a, .comma :: ts) =>
      match pArgs f ts with
      | some (as, ts') => some (a :: as, ts')
      | none => some ([a], .comma :: ts)
    | some (a, ts) => some ([a], ts)
/-- `(",")*` for func, `(",")?` for logicalfunc -/
def skipCommas : Bool → List Tok → List Tok
  | true, .comma :: ts => skipCommas true ts
  | false, .comma :: ts => ts
  | _, ts => ts
end

/-- One `name = value` entry of a `states(...)`/`parameters(...)` block. -/
structure PParam where
  name : Name
  value : PExpr
  scalar : Bool := false
  unit : Option String := none
  desc : Option String := none
deriving Repr, Inhabited

structure PAssign where
  name : Name
  rhs : PExpr
  comment : Option String := none
deriving Repr, Inhabited

inductive Item where
  | states (comps : List String) (ps : List PParam)
  | parameters (comps : List String) (ps : List PParam)
  | expressions (comps : List String) (as : List PAssign)
  | comment (text : String)
deriving Repr, Inhabited

def exprFuel (ts : List Tok) : Nat := 6 * ts.length + 8

def skipNl : List Tok → List Tok
  | .nl :: ts => skipNl ts
  | ts => ts

/-- parameter: NAME "=" expression | NAME "=" "ScalarParam" "(" expression ["," "unit" "=" STR] ["," "description" "=" STR] ")" -/
def pParam (ts : List Tok) : Option (PParam × List Tok) :=
  match ts with
  | .ident n :: ts1 =>
    match skipNl ts1 with
    | .eq :: .ident "ScalarParam" :: ts2 =>
      match ts2 with
      | .lp :: ts3 =>
        match pExpr (exprFuel ts3) ts3 with
        | none => none
        | some (v, ts4) =>
          let (unit, ts5) : Option String × List Tok := match ts4 with
            | .comma :: .ident "unit" :: .eq :: .str u :: r => (some u, r)
            | r => (none, r)
          let (desc, ts6) : Option String × List Tok := match ts5 with
            | .comma :: .ident "description" :: .eq :: .str d :: r => (some d, r)
            | r => (none, r)
          match ts6 with
          | .rp :: r => some ({ name := n, value := v, scalar := true, unit := unit, desc := desc }, r)
          | _ => none
      | _ => none
    | .eq :: ts2 =>
      match pExpr (exprFuel ts2) ts2 with
      | none => none
      | some (v, r) => some ({ name := n, value := v }, r)
    | _ => none
  | _ => none

/-- (COMPONENT_NAME ",")* -/
def pCompPrefix : List Tok → List String × List Tok
  | .str s :: .comma :: ts => let (cs, r) := pCompPrefix ts; (s :: cs, r)
  | ts => ([], ts)

/-- parameter ("," parameter)* -/
def pParams : Nat → List Tok → Option (List PParam × List Tok)
  | 0, _ => none
  | f + 1, ts => match pParam ts with
    | none => none
    | some (p, .comma :: ts') => (pParams f ts').map fun (ps, r) => (p :: ps, r)
    | some (p, ts') => some ([p], ts')

/-- "(" (COMPONENT_NAME ",")* parameter ("," parameter)* [NEWLINE] ")" -/
def pDeclBlock (ts : List Tok) : Option (List String × List PParam × List Tok) :=
  match ts with
  | .lp :: ts1 =>
    let (comps, ts2) := pCompPrefix ts1
    match pParams (ts2.length + 1) ts2 with
    | none => none
    | some (ps, ts3) =>
      match ts3 with
      | .nl :: .rp :: r => some (comps, ps, r)
      | .rp :: r => some (comps, ps, r)
      | _ => none
  | _ => none

/-- COMPONENT_NAME ("," COMPONENT_NAME)* ")" -/
def pCompList : Nat → List Tok → Option (List String × List Tok)
  | 0, _ => none
  | f + 1, .str s :: .comma :: ts => (pCompList f ts).map fun (cs, r) => (s :: cs, r)
  | _ + 1, .str s :: .rp :: ts => some ([s], ts)
  | _ + 1, _ => none

/-- assignment: VARIABLE "=" expression [comment] [NEWLINE] -/
def pAssign (ts : List Tok) : Option (PAssign × List Tok) :=
  match ts with
  | .ident n :: ts1 =>
    if blockKeywords.contains n then none else
    match skipNl ts1 with
    | .eq :: ts2 =>
      match pExpr (exprFuel ts2) ts2 with
      | none => none
      | some (v, ts3) =>
        let (c, ts4) : Option String × List Tok := match ts3 with
          | .comment t :: r => (some t, r)
          | r => (none, r)
        let ts5 := match ts4 with | .nl :: r => r | r => r
        some ({ name := n, rhs := v, comment := c }, ts5)
    | _ => none
  | _ => none

/-- (assignment)+ ; stops at the first token that cannot start an assignment -/
def pAssigns : Nat → List Tok → Option (List PAssign × List Tok)
  | 0, _ => none
  | f + 1, ts => match pAssign ts with
    | none => none
    | some (a, ts') =>
      match ts' with
      | .ident n :: _ =>
        if blockKeywords.contains n then some ([a], ts')
        else (pAssigns f ts').map fun (as, r) => (a :: as, r)
      | _ => some ([a], ts')

inductive ParseErr where
  | lex (e : LexErr)
  | syntax
deriving Repr, DecidableEq, Inhabited

/-- ode: (parameters | states | expressions | comment | NEWLINE)* -/
def pItems : Nat → List Tok → List Item → Except ParseErr (List Item)
  | 0, _, _ => .error .syntax
  | _ + 1, [], acc => .ok acc.reverse
  | f + 1, .nl :: ts, acc => pItems f ts acc
  | f + 1, .comment t :: ts, acc => pItems f ts (.comment t :: acc)
  | f + 1, .ident "states" :: ts, acc =>
    match pDeclBlock ts with
    | some (cs, ps, r) => pItems f r (.states cs ps :: acc)
    | none => .error .syntax
  | f + 1, .ident "parameters" :: ts, acc =>
    match pDeclBlock ts with
    | some (cs, ps, r) => pItems f r (.parameters cs ps :: acc)
    | none => .error .syntax
  | f + 1, .ident "expressions" :: .lp :: ts, acc
  | f + 1, .ident "component" :: .lp :: ts, acc =>
    match pCompList (ts.length + 1) ts with
    | none => .error .syntax
    | some (cs, r) =>
      match pAssigns (r.length + 1) (skipNl r) with
      | none => .error .syntax
      | some (as, r') => pItems f r' (.expressions cs as :: acc)
  | f + 1, .ident n :: ts, acc =>
    match pAssigns (ts.length + 2) (.ident n :: ts) with
    | none => .error .syntax
    | some (as, r') => pItems f r' (.expressions [] as :: acc)
  | _ + 1, _, _ => .error .syntax

def parseOde (s : String) : Except ParseErr (List Item) :=
  match lex s with
  | .error e => .error (.lex e)
  | .ok ts => pItems (ts.length + 2) ts []

def parseExprString (s : String) : Option PExpr :=
  match lex s with
  | .error _ => none
  | .ok ts => match pExpr (exprFuel ts) ts with
    | some (e, []) => some e
    | some (e, [.nl]) => some e
    | _ => none

namespace Printer
/-! ## The minimal-parenthesis printer (inverse of the parser: `GotranxProofs.ParseRender`) -/

def prec : PExpr → Nat
  | .bin .add _ _ | .bin .sub _ _ => 0
  | .bin .mul _ _ | .bin .div _ _ => 1
  | .un _ _ | .bin .pow _ _ => 2
  | _ => 3

def unTok : UnOp → Tok | .neg => .minus | .pos => .plus | .inv => .tilde

mutual
/-- tokens of `e` without outer parentheses -/
def toks : PExpr → List Tok
  | .num m e => [.num m e]
  | .var x => [.ident x]
  | .pi => [.ident "pi"]
  | .un op a => unTok op :: render 2 a
  | .bin .add a b => render 0 a ++ .plus :: render 1 b
  | .bin .sub a b => render 0 a ++ .minus :: render 1 b
  | .bin .mul a b => render 1 a ++ .star :: render 2 b
  | .bin .div a b => render 1 a ++ .slash :: render 2 b
  | .bin .pow a b => render 3 a ++ .pow :: render 2 b
  | .call f args => .ident f :: .lp :: renderArgs args ++ [.rp]
/-- `e` printed where the ladder expects level `l`: parenthesised iff its own level is lower -/
def render (l : Nat) (e : PExpr) : List Tok :=
  if l ≤ prec e then toks e else .lp :: toks e ++ [.rp]
def renderArgs : List PExpr → List Tok
  | [] => []
  | [a] => render 0 a
  | a :: b :: rest => render 0 a ++ .comma :: renderArgs (b :: rest)
end

mutual
/-- well-formed trees: variable names are not keywords, calls are calls of the language's functions
with at least one argument -/
def WF : PExpr → Bool
  | .num _ _ | .pi => true
  | .var x => x != "pi" && !funcNames.contains x && !logicalNames.contains x
  | .un _ a => WF a
  | .bin _ a b => WF a && WF b
  | .call f args => f != "pi" && (funcNames.contains f || logicalNames.contains f) && !args.isEmpty && WFList args
def WFList : List PExpr → Bool
  | [] => true
  | a :: rest => WF a && WFList rest
end


/-- print, re-parse with the fuel the parser really uses, compare: the theorem `parse_render`, evaluated -/
def roundTrips (e : PExpr) : Bool :=
  match pExpr (exprFuel (render 0 e)) (render 0 e) with
  | some (e', []) => toString (repr e') == toString (repr e)
  | _ => false

end Printer

end Gx
