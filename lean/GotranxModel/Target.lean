import GotranxModel.Validate
/-!
# Target-side semantics: JAX return assembly and NumPy array (batch) evaluation

* JAX functions bind `_values_i = e` and end with `return numpy.array([_values_0, …, _values_{k-1}])`.
* NumPy functions are called with a `(n_states, N)` array: every name is a row of `N` columns.
  ufunc-style operations are pointwise; Python-level constructs (`not`, an `if`-expression such as
  the printer's `sign`) need a single truth value and raise on more than one column.
-/
namespace Gx

/-- the array a JAX function returns: entry `k` is the value last bound to `_values_{returned[k]}` -/
def jaxReturn {α} (s : St α) (returned : List Nat) : List (Option α) := returned.map s.result

/-- constructs of *translated* code that are scalar-only Python.  The NumPy printer as coded emits
`numpy.logical_not`, `numpy.sign`, `numpy.where`, `numpy.logical_and/or`: none of the source
constructs is scalar-only any more; the translator marks Python-level `not`, `and`, `or`,
`… if … else …` and chained comparisons separately (field `pyScalar` of a translated function). -/
def scalarOnly : Expr → Bool
  | .not a => scalarOnly a
  | .num _ _ | .var _ | .pi => false
  | .neg a | .fn _ a => scalarOnly a
  | .add a b | .sub a b | .mul a b | .div a b | .pow a b | .mod a b | .rel _ a b | .and a b | .or a b =>
      scalarOnly a || scalarOnly b
  | .cond c a b => scalarOnly c || scalarOnly a || scalarOnly b
  | .ccond _ x y a b s => scalarOnly x || scalarOnly y || scalarOnly a || scalarOnly b || scalarOnly s

def allSome {β} : List (Option β) → Option (List β)
  | [] => some []
  | none :: _ => none
  | some x :: rest => (allSome rest).map (x :: ·)

/-- batch evaluation: `cols` are the environments of the `N` columns.  `none` models the
`ValueError: the truth value of an array … is ambiguous` / NameError. -/
def evalVec {α} (N : Num α) (pyScalar : Bool) (cols : List (Env α)) (e : Expr) : Option (List α) :=
  if (pyScalar || scalarOnly e) && cols.length > 1 then none else allSome (cols.map fun ρ => eval N ρ e)

end Gx
