import GotranxModel.Model
/-!
# `graphlib.TopologicalSorter.static_order` and `ode.sort_assignments`, as coded

Nodes keep first-insertion order (a node is inserted before its not-yet-seen predecessors);
round 0 is every node without predecessors in insertion order; finishing a node appends each
successor that becomes ready, in the order the successor edges were added; rounds repeat.
The iteration order of every dependency set is an explicit parameter (`deps`): CPython
iterates a `frozenset[str]` in an order that depends on `PYTHONHASHSEED`.
-/
namespace Gx

structure NodeInfo where
  node : Name
  npred : Nat
  succs : List Name
deriving Repr, Inhabited, DecidableEq

abbrev Graph := List NodeInfo

def Graph.has (g : Graph) (n : Name) : Bool := g.any (·.node == n)

def Graph.ensure (g : Graph) (n : Name) : Graph :=
  if g.has n then g else g ++ [⟨n, 0, []⟩]

def Graph.modify (g : Graph) (n : Name) (f : NodeInfo → NodeInfo) : Graph :=
  g.map fun ni => if ni.node == n then f ni else ni

def Graph.get? (g : Graph) (n : Name) : Option NodeInfo := g.find? (·.node == n)

/-- `sorter.add(node, *preds)` -/
def Graph.add (g : Graph) (node : Name) (preds : List Name) : Graph :=
  let g := g.ensure node
  let g := g.modify node fun ni => { ni with npred := ni.npred + preds.length }
  preds.foldl (fun g p =>
    let g := g.ensure p
    g.modify p fun pi => { pi with succs := pi.succs ++ [node] }) g

/-- `done(n)`: decrement every successor; those reaching zero become ready, in edge order. -/
def Graph.done (acc : Graph × List Name) (n : Name) : Graph × List Name :=
  match acc.1.get? n with
  | none => acc
  | some ni =>
    ni.succs.foldl (fun (acc : Graph × List Name) s =>
      match acc.1.get? s with
      | none => acc
      | some si =>
        let k := si.npred - 1
        let g' := acc.1.modify s fun x => { x with npred := k }
        if k == 0 then (g', acc.2 ++ [s]) else (g', acc.2)) acc

def staticOrderAuxRef : Nat → Graph → List Name → List Name → List Name
  | 0, _, _, out => out
  | fuel + 1, g, ready, out =>
    if ready.isEmpty then out else
    let (g', next) := ready.foldl Graph.done (g, [])
    staticOrderAuxRef fuel g' next (out ++ ready)

/-- `tuple(sorter.static_order())`; `none` on a cycle (`CycleError`) — the literal mirror of the
CPython data structure (one `_NodeInfo` record per node).  The driver cross-checks it against the
proof-friendly formulation `staticOrder` below on every request. -/
def staticOrderRef (adds : List (Name × List Name)) : Option (List Name) :=
  let g : Graph := adds.foldl (fun g a => g.add a.1 a.2) []
  let ready := (g.filter (·.npred == 0)).map (·.node)
  let out := staticOrderAuxRef (g.length + 1) g ready []
  if out.length == g.length then some out else none


/-! ## The same algorithm over the edge list (the formulation the theorems are about)

After all `add` calls the sorter's state is determined by the list of edges `(pred, node)` in
the order the calls made them: `npredecessors(x)` is the number of edges into `x`,
`successors(x)` the targets of the edges out of `x` in that order, and the nodes are kept in
first-mention order (`add(n, *ps)` mentions `n`, then `ps`).  While `static_order` runs only the
predecessor counters change. -/

def edgesOf (adds : List (Name × List Name)) : List (Name × Name) :=
  adds.flatMap fun a => a.2.map fun p => (p, a.1)

def addNew (ns : List Name) (x : Name) : List Name := if ns.contains x then ns else ns ++ [x]

/-- nodes in first-mention order -/
def nodesOf (adds : List (Name × List Name)) : List Name :=
  adds.foldl (fun ns a => (a.1 :: a.2).foldl addNew ns) []

def succsOf (E : List (Name × Name)) (x : Name) : List Name := (E.filter (·.1 == x)).map (·.2)

def npred0 (E : List (Name × Name)) (x : Name) : Nat := E.countP (·.2 == x)

def updNat (f : Name → Nat) (x : Name) (v : Nat) : Name → Nat := fun y => if y = x then v else f y

/-- one decrement of `done`: the successor becomes ready when its counter reaches zero -/
def decr (acc : (Name → Nat) × List Name) (s : Name) : (Name → Nat) × List Name :=
  let k := acc.1 s - 1
  (updNat acc.1 s k, if k == 0 then acc.2 ++ [s] else acc.2)

/-- `done(n)` -/
def doneNode (E : List (Name × Name)) (acc : (Name → Nat) × List Name) (n : Name) : (Name → Nat) × List Name :=
  (succsOf E n).foldl decr acc

def staticOrderAux (E : List (Name × Name)) : Nat → (Name → Nat) → List Name → List Name → List Name
  | 0, _, _, out => out
  | fuel + 1, np, ready, out =>
    if ready.isEmpty then out else
    let r := ready.foldl (doneNode E) (np, [])
    staticOrderAux E fuel r.1 r.2 (out ++ ready)

/-- `tuple(sorter.static_order())`; `none` on a cycle (`CycleError`). -/
def staticOrder (adds : List (Name × List Name)) : Option (List Name) :=
  let E := edgesOf adds
  let nodes := nodesOf adds
  let ready := nodes.filter (fun x => npred0 E x == 0)
  let out := staticOrderAux E (nodes.length + 1) (npred0 E) ready []
  if out.length == nodes.length then some out else none

/-- `ode.sort_assignments(assignments, assignments_only=True)`;
`adds` = (assignment name, its dependency names in iteration order). -/
def sortAssignments (adds : List (Name × List Name)) : Option (List Name) :=
  (staticOrder adds).map fun order => order.filter fun n => adds.any (·.1 == n)

end Gx
