import GotranxModel.Model
/-!
# `graphlib.TopologicalSorter.static_order` and `ode.sort_assignments`, as coded

Nodes keep first-insertion order (a node is inserted before its not-yet-seen predecessors);
round 0 is every node without predecessors in insertion order; finishing a node appends each
successor that becomes ready, in the order the successor edges were added; rounds repeat.
The iteration order of every dependency set is an explicit parameter (`deps`): CPython
iterates a `frozenset[str]` in an order that depends on `PYTHONHASHSEED`.
-/
namespace Gx

structure NodeInfo where
  node : Name
  npred : Nat
  succs : List Name
deriving Repr, Inhabited, DecidableEq

abbrev Graph := List NodeInfo

def Graph.has (g : Graph) (n : Name) : Bool := g.any (·.node == n)

def Graph.ensure (g : Graph) (n : Name) : Graph :=
  if g.has n then g else g ++ [⟨n, 0, []⟩]

def Graph.modify (g : Graph) (n : Name) (f : NodeInfo → NodeInfo) : Graph :=
  g.map fun ni => if ni.node == n then f ni else ni

def Graph.get? (g : Graph) (n : Name) : Option NodeInfo := g.find? (·.node == n)

/-- `sorter.add(node, *preds)` -/
def Graph.add (g : Graph) (node : Name) (preds : List Name) : Graph :=
  let g := g.ensure node
  let g := g.modify node fun ni => { ni with npred := ni.npred + preds.length }
  preds.foldl (fun g p =>
    let g := g.ensure p
    g.modify p fun pi => { pi with succs := pi.succs ++ [node] }) g

/-- `done(n)`: decrement every successor; those reaching zero become ready, in edge order. -/
def Graph.done (acc : Graph × List Name) (n : Name) : Graph × List Name :=
  match acc.1.get? n with
  | none => acc
  | some ni =>
    ni.succs.foldl (fun (acc : Graph × List Name) s =>
      match acc.1.get? s with
      | none => acc
      | some si =>
        let k := si.npred - 1
        let g' := acc.1.modify s fun x => { x with npred := k }
        if k == 0 then (g', acc.2 ++ [s]) else (g', acc.2)) acc

def staticOrderAux : Nat → Graph → List Name → List Name → List Name
  | 0, _, _, out => out
  | fuel + 1, g, ready, out =>
    if ready.isEmpty then out else
    let (g', next) := ready.foldl Graph.done (g, [])
    staticOrderAux fuel g' next (out ++ ready)

/-- `tuple(sorter.static_order())`; `none` on a cycle (`CycleError`). -/
def staticOrder (adds : List (Name × List Name)) : Option (List Name) :=
  let g : Graph := adds.foldl (fun g a => g.add a.1 a.2) []
  let ready := (g.filter (·.npred == 0)).map (·.node)
  let out := staticOrderAux (g.length + 1) g ready []
  if out.length == g.length then some out else none

/-- `ode.sort_assignments(assignments, assignments_only=True)`;
`adds` = (assignment name, its dependency names in iteration order). -/
def sortAssignments (adds : List (Name × List Name)) : Option (List Name) :=
  (staticOrder adds).map fun order => order.filter fun n => adds.any (·.1 == n)

end Gx
