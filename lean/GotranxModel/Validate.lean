import GotranxModel.Model
/-!
# Executable validators for translated generated programs

Each `check…` is a decidable, structural test of a program (the IR translation of what
gotranx emitted) against the loaded model and the slot layout the module's own index
functions report.  Soundness theorems are in `GotranxProofs.Validate`.
They demand only what soundness needs (single assignment, definition before use, right
slot, every slot written once), never a particular statement order.
-/
namespace Gx

def allDistinct : List Name → Bool
  | [] => true
  | x :: rest => !rest.contains x && allDistinct rest

/-- Layout ↔ model: the index maps enumerate exactly the declared names, without repetition. -/
def checkLayout (m : Model) (L : Layout) : Bool :=
  allDistinct L.state && L.state.length == m.states.length && m.stateNames.all L.state.contains &&
  allDistinct L.param && L.param.length == m.params.length && m.paramNames.all L.param.contains &&
  allDistinct L.monitor && L.monitor.length == m.assigns.length && m.assignNames.all L.monitor.contains

def checkUnpacks (L : Layout) (p : List Stmt) : Bool :=
  (unpacks p).all fun u =>
    match u.2.1 with
    | .states => L.state[u.2.2]? == some u.1
    | .params => L.param[u.2.2]? == some u.1
    | .missing => L.missing[u.2.2]? == some u.1

/-- Every local the program defines is an assignment of the model (or one of `extra`,
the `<d>_linearized` helpers of the Rush–Larsen schemes). -/
def checkDefines (m : Model) (extra : List Name) (p : List Stmt) : Bool :=
  (defines p).all fun d => (m.rhsOf d.1).isSome || extra.contains d.1

/-- every slot `< n` is stored exactly once and nothing is stored outside -/
def slotsExact (n : Nat) (p : List Stmt) : Bool :=
  (storeSlots p).all (· < n) && (List.range n).all fun i => (storeSlots p).count i == 1

def initBoundRhs : List Name := timeNames
def initBoundScheme : List Name := "dt" :: timeNames

/-- `rhs`: stores are `values[state_index X] = dX_dt`. -/
def checkRhs (m : Model) (L : Layout) (p : List Stmt) : Bool :=
  wellScoped initBoundRhs p && checkUnpacks L p && checkDefines m [] p &&
  slotsExact L.state.length p &&
  (stores p).all fun s =>
    match s.2 with
    | .var d => match m.stateOfDeriv d with
      | some X => L.state[s.1]? == some X
      | none => false
    | _ => false

/-- `monitor_values`: stores are `values[monitor_index x] = x` for every assignment `x`. -/
def checkMonitor (m : Model) (L : Layout) (p : List Stmt) : Bool :=
  wellScoped initBoundRhs p && checkUnpacks L p && checkDefines m [] p &&
  slotsExact L.monitor.length p &&
  (stores p).all fun s =>
    match s.2 with
    | .var x => (m.rhsOf x).isSome && L.monitor[s.1]? == some x
    | _ => false

/-- `missing_values`: stores are `values[req x] = x` for exactly the requested names. -/
def checkMissingValues (m : Model) (L : Layout) (req : List Name) (p : List Stmt) : Bool :=
  wellScoped initBoundRhs p && checkUnpacks L p && checkDefines m [] p &&
  slotsExact req.length p &&
  (stores p).all fun s =>
    match s.2 with
    | .var x => req[s.1]? == some x
    | _ => false

/-- a scheme: one store per state slot; the stored expression itself is related to the
scheme formula by the expression-level hypothesis of the soundness theorem. -/
def checkScheme (m : Model) (L : Layout) (p : List Stmt) : Bool :=
  wellScoped initBoundScheme p && checkUnpacks L p &&
  checkDefines m (m.derivs.map fun d => d.1 ++ "_linearized") p &&
  slotsExact L.state.length p

/-- JAX functions end with `return numpy.array([_values_0, …, _values_{k-1}])`: the returned
array has the documented length iff `k` is that length and every `_values_i` was bound. -/
def checkArity (documented : Nat) (returned : List Nat) (p : List Stmt) : Bool :=
  returned == List.range documented && returned.all fun i => (storeSlots p).contains i

def disjointNames (a b : List Name) : Bool := a.all fun x => !b.contains x

/-- executable well-formedness of a loaded model (what `GenValid.ModelWF` states): distinct names,
no name in two roles, the time symbol is not a model name, one derivative per state -/
def checkModelWF (m : Model) : Bool :=
  allDistinct m.assignNames && allDistinct m.stateNames && allDistinct m.paramNames &&
  disjointNames m.stateNames m.paramNames && disjointNames m.stateNames m.assignNames &&
  disjointNames m.paramNames m.assignNames &&
  disjointNames timeNames (m.stateNames ++ m.paramNames ++ m.assignNames) &&
  allDistinct (m.derivs.map (·.2.1)) && (m.derivs.map (·.2.1)).all m.stateNames.contains &&
  m.stateNames.all (m.derivs.map (·.2.1)).contains

end Gx
