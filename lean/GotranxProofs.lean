import GotranxProofs.Exec
import GotranxProofs.Validate
import GotranxProofs.Pins
import GotranxProofs.Properties.C01
