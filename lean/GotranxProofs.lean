import GotranxProofs.Exec
import GotranxProofs.Validate
