import Mathlib.Analysis.SpecialFunctions.ExpDeriv
import Mathlib.Analysis.SpecialFunctions.Log.Deriv
import Mathlib.Analysis.SpecialFunctions.Trigonometric.Deriv
import Mathlib.Analysis.SpecialFunctions.Trigonometric.ArctanDeriv
import Mathlib.Analysis.SpecialFunctions.Sqrt
import Mathlib.Analysis.SpecialFunctions.Pow.Deriv
import GotranxProofs.DiffLemmas
import GotranxProofs.Exec
/-!
# Real analysis: `diff` is the derivative; Rush–Larsen is exact for affine rates

The interpretation `evalR` is `eval` at `Num ℝ` for total environments.  On the smooth fragment
(`+ − * /`, `**` with an exponent that does not mention the variable, `exp log sin cos atan sqrt`,
and any sub-expression that does not mention the variable at all) the value of `diff x e` is
the derivative of `v ↦ evalR ρ[x ↦ v] e` at `ρ x`, *all other names held fixed* — the `g` of the
Rush–Larsen properties (C06) and the entries of the Jacobian (C20).
-/
namespace Gx
noncomputable section
open Real

def litR (m : Nat) (e : Int) : ℝ := (m : ℝ) * (10 : ℝ) ^ e

def fnR : Fn → ℝ → ℝ
  | .exp => Real.exp | .cos => Real.cos | .sin => Real.sin | .tan => Real.tan
  | .acos => Real.arccos | .asin => Real.arcsin | .atan => Real.arctan | .abs => fun a => |a|
  | .floor => fun a => (⌊a⌋ : ℝ) | .log => Real.log | .sqrt => Real.sqrt
  | .sign => fun a => (SignType.sign a : ℝ)

def relR : Rel → ℝ → ℝ → Bool
  | .lt, a, b => decide (a < b) | .gt, a, b => decide (a > b) | .le, a, b => decide (a ≤ b)
  | .ge, a, b => decide (a ≥ b) | .eq, a, b => decide (a = b) | .ne, a, b => decide (a ≠ b)

/-- the reference semantics instantiated at the real numbers -/
def NumReal : Num ℝ where
  lit := litR
  pi := Real.pi
  one := 1
  neg := fun a => -a
  add := (· + ·)
  sub := (· - ·)
  mul := (· * ·)
  div := (· / ·)
  pow := fun a b => a ^ b
  mod := fun a b => a - b * (⌊a / b⌋ : ℝ)
  fn := fnR
  rel := relR
  ofBool := fun b => if b then 1 else 0
  truthy := fun a => decide (a ≠ 0)

/-- value of an expression at a total real environment -/
def evalR (ρ : Name → ℝ) (e : Expr) : ℝ := (eval NumReal (fun x => some (ρ x)) e).getD 0

theorem eval_total (ρ : Name → ℝ) (e : Expr) : ∃ v, eval NumReal (fun x => some (ρ x)) e = some v :=
  Option.isSome_iff_exists.mp (eval_isSome NumReal _ e (fun _ _ => rfl))

theorem eval_eq_evalR (ρ : Name → ℝ) (e : Expr) : eval NumReal (fun x => some (ρ x)) e = some (evalR ρ e) := by
  obtain ⟨v, hv⟩ := eval_total ρ e
  simp [evalR, hv]

/-! ### unfolding lemmas for `evalR` -/
theorem evalR_num (ρ) (m k) : evalR ρ (.num m k) = litR m k := rfl
theorem evalR_var (ρ : Name → ℝ) (x) : evalR ρ (.var x) = ρ x := rfl
theorem evalR_neg (ρ) (a) : evalR ρ (.neg a) = -evalR ρ a := by
  have ha := eval_eq_evalR ρ a
  show (eval NumReal _ (.neg a)).getD 0 = _
  simp only [eval, ha, Option.map_some, Option.getD_some]; rfl
theorem evalR_add (ρ) (a b) : evalR ρ (.add a b) = evalR ρ a + evalR ρ b := by
  have ha := eval_eq_evalR ρ a; have hb := eval_eq_evalR ρ b
  show (eval NumReal _ (.add a b)).getD 0 = _
  simp only [eval, ha, hb, Option.bind_eq_bind, Option.bind_some, Option.pure_def, Option.getD_some]; rfl
theorem evalR_sub (ρ) (a b) : evalR ρ (.sub a b) = evalR ρ a - evalR ρ b := by
  have ha := eval_eq_evalR ρ a; have hb := eval_eq_evalR ρ b
  show (eval NumReal _ (.sub a b)).getD 0 = _
  simp only [eval, ha, hb, Option.bind_eq_bind, Option.bind_some, Option.pure_def, Option.getD_some]; rfl
theorem evalR_mul (ρ) (a b) : evalR ρ (.mul a b) = evalR ρ a * evalR ρ b := by
  have ha := eval_eq_evalR ρ a; have hb := eval_eq_evalR ρ b
  show (eval NumReal _ (.mul a b)).getD 0 = _
  simp only [eval, ha, hb, Option.bind_eq_bind, Option.bind_some, Option.pure_def, Option.getD_some]; rfl
theorem evalR_div (ρ) (a b) : evalR ρ (.div a b) = evalR ρ a / evalR ρ b := by
  have ha := eval_eq_evalR ρ a; have hb := eval_eq_evalR ρ b
  show (eval NumReal _ (.div a b)).getD 0 = _
  simp only [eval, ha, hb, Option.bind_eq_bind, Option.bind_some, Option.pure_def, Option.getD_some]; rfl
theorem evalR_pow (ρ) (a b) : evalR ρ (.pow a b) = evalR ρ a ^ evalR ρ b := by
  have ha := eval_eq_evalR ρ a; have hb := eval_eq_evalR ρ b
  show (eval NumReal _ (.pow a b)).getD 0 = _
  simp only [eval, ha, hb, Option.bind_eq_bind, Option.bind_some, Option.pure_def, Option.getD_some]; rfl
theorem evalR_fn (ρ) (f a) : evalR ρ (.fn f a) = fnR f (evalR ρ a) := by
  have ha := eval_eq_evalR ρ a
  show (eval NumReal _ (.fn f a)).getD 0 = _
  simp only [eval, ha, Option.map_some, Option.getD_some]; rfl

theorem litR_zero (k : Int) : litR 0 k = 0 := by simp [litR]
theorem litR_one : litR 1 0 = 1 := by simp [litR]
theorem litR_two : litR 2 0 = 2 := by simp [litR]

theorem evalR_isZero (ρ) (e : Expr) (h : e.isZero = true) : evalR ρ e = 0 := by
  cases e with
  | num m k =>
    cases m with
    | zero => exact litR_zero k
    | succ n => simp [Expr.isZero] at h
  | _ => simp [Expr.isZero] at h

theorem evalR_isOne (ρ) (e : Expr) (h : e.isOne = true) : evalR ρ e = 1 := by
  cases e with
  | num m k =>
    match m, k, h with
    | 1, 0, _ => exact litR_one
  | _ => simp [Expr.isOne] at h

theorem evalR_mkNeg (ρ) (a) : evalR ρ (mkNeg a) = -evalR ρ a := by
  unfold mkNeg; split
  · rename_i h; simp [evalR_isZero ρ a h, Expr.zero, evalR_num, litR_zero]
  · exact evalR_neg ρ a
theorem evalR_mkAdd (ρ) (a b) : evalR ρ (mkAdd a b) = evalR ρ a + evalR ρ b := by
  unfold mkAdd; split
  · rename_i h; simp [evalR_isZero ρ a h]
  · split
    · rename_i h; simp [evalR_isZero ρ b h]
    · exact evalR_add ρ a b
theorem evalR_mkSub (ρ) (a b) : evalR ρ (mkSub a b) = evalR ρ a - evalR ρ b := by
  unfold mkSub; split
  · rename_i h; simp [evalR_isZero ρ b h]
  · split
    · rename_i h; simp [evalR_isZero ρ a h, evalR_neg]
    · exact evalR_sub ρ a b
theorem evalR_mkMul (ρ) (a b) : evalR ρ (mkMul a b) = evalR ρ a * evalR ρ b := by
  unfold mkMul; split
  · rename_i h
    simp only [Bool.or_eq_true] at h
    rcases h with h | h
    · simp [evalR_isZero ρ a h, Expr.zero, evalR_num, litR_zero]
    · simp [evalR_isZero ρ b h, Expr.zero, evalR_num, litR_zero]
  · split
    · rename_i h; simp [evalR_isOne ρ a h]
    · split
      · rename_i h; simp [evalR_isOne ρ b h]
      · exact evalR_mul ρ a b
theorem evalR_mkDiv (ρ) (a b) : evalR ρ (mkDiv a b) = evalR ρ a / evalR ρ b := by
  unfold mkDiv; split
  · rename_i h; simp [evalR_isZero ρ a h, Expr.zero, evalR_num, litR_zero]
  · exact evalR_div ρ a b

/-- update of one name -/
def upd (ρ : Name → ℝ) (x : Name) (v : ℝ) : Name → ℝ := fun y => if y = x then v else ρ y

theorem upd_self (ρ : Name → ℝ) (x : Name) : upd ρ x (ρ x) = ρ := by
  funext y; unfold upd; split <;> simp_all

theorem evalR_congr (ρ ρ' : Name → ℝ) (e : Expr) (h : ∀ y ∈ fv e, ρ y = ρ' y) : evalR ρ e = evalR ρ' e := by
  unfold evalR
  rw [eval_congr NumReal (fun x => some (ρ x)) (fun x => some (ρ' x)) e (fun y hy => by simp [h y hy])]

theorem evalR_upd_of_not_mentions (ρ : Name → ℝ) (x : Name) (v : ℝ) (e : Expr) (h : mentions x e = false) :
    evalR (upd ρ x v) e = evalR ρ e := by
  apply evalR_congr
  intro y hy
  have : y ≠ x := by
    intro hxy; subst hxy
    simp [mentions, hy] at h
  simp [upd, this]

/-- the fragment on which `diff` is shown to be the derivative, with the side conditions of each
primitive (division by non-zero, logarithm / square root of non-zero, real power of a non-zero
base or exponent at least one) -/
inductive Smooth (ρ : Name → ℝ) (x : Name) : Expr → Prop
  | const (e : Expr) : mentions x e = false → Smooth ρ x e
  | var : Smooth ρ x (.var x)
  | neg {a} : Smooth ρ x a → Smooth ρ x (.neg a)
  | add {a b} : Smooth ρ x a → Smooth ρ x b → Smooth ρ x (.add a b)
  | sub {a b} : Smooth ρ x a → Smooth ρ x b → Smooth ρ x (.sub a b)
  | mul {a b} : Smooth ρ x a → Smooth ρ x b → Smooth ρ x (.mul a b)
  | div {a b} : Smooth ρ x a → Smooth ρ x b → evalR ρ b ≠ 0 → Smooth ρ x (.div a b)
  | powc {a b} : Smooth ρ x a → mentions x b = false → (evalR ρ a ≠ 0 ∨ 1 ≤ evalR ρ b) → Smooth ρ x (.pow a b)
  | exp {a} : Smooth ρ x a → Smooth ρ x (.fn .exp a)
  | log {a} : Smooth ρ x a → evalR ρ a ≠ 0 → Smooth ρ x (.fn .log a)
  | sin {a} : Smooth ρ x a → Smooth ρ x (.fn .sin a)
  | cos {a} : Smooth ρ x a → Smooth ρ x (.fn .cos a)
  | atan {a} : Smooth ρ x a → Smooth ρ x (.fn .atan a)
  | sqrt {a} : Smooth ρ x a → evalR ρ a ≠ 0 → Smooth ρ x (.fn .sqrt a)

/-- **`diff` is the derivative.** The value of the symbolic derivative `diff x e` at `ρ` is the
derivative of `v ↦ ⟦e⟧ρ[x ↦ v]` at `ρ x`, everything else held fixed. -/
theorem diff_correct (ρ : Name → ℝ) (x : Name) (e : Expr) (h : Smooth ρ x e) :
    HasDerivAt (fun v => evalR (upd ρ x v) e) (evalR ρ (diff x e)) (ρ x) := by
  induction h with
  | const e hm =>
    have hz := evalR_isZero ρ _ (diff_zero_of_not_mentions x e hm)
    rw [hz]
    have : (fun v => evalR (upd ρ x v) e) = fun _ => evalR ρ e := by
      funext v; exact evalR_upd_of_not_mentions ρ x v e hm
    rw [this]; exact hasDerivAt_const _ _
  | var =>
    have : (fun v => evalR (upd ρ x v) (.var x)) = fun v => v := by
      funext v; simp [evalR_var, upd]
    rw [this]
    have hd : evalR ρ (diff x (.var x)) = 1 := by simp [diff, Expr.one, evalR_num, litR_one]
    rw [hd]; exact hasDerivAt_id' _
  | neg _ ih =>
    have := ih.fun_neg
    simpa [evalR_neg, diff, evalR_mkNeg] using this
  | add _ _ iha ihb =>
    have := iha.fun_add ihb
    simpa [evalR_add, diff, evalR_mkAdd] using this
  | sub _ _ iha ihb =>
    have := iha.fun_sub ihb
    simpa [evalR_sub, diff, evalR_mkSub] using this
  | @mul a b _ _ iha ihb =>
    have := iha.fun_mul ihb
    simp only [upd_self] at this
    have hd : evalR ρ (diff x (.mul a b)) = evalR ρ (diff x a) * evalR ρ b + evalR ρ a * evalR ρ (diff x b) := by
      simp [diff, evalR_mkAdd, evalR_mkMul]
    rw [hd]
    simpa [evalR_mul] using this
  | @div a b _ _ hb iha ihb =>
    have hb' : evalR (upd ρ x (ρ x)) b ≠ 0 := by rw [upd_self]; exact hb
    have := iha.fun_div ihb hb'
    simp only [upd_self] at this
    have hd : evalR ρ (diff x (.div a b)) =
        (evalR ρ (diff x a) * evalR ρ b - evalR ρ a * evalR ρ (diff x b)) / evalR ρ b ^ 2 := by
      simp [diff, evalR_mkDiv, evalR_mkSub, evalR_mkMul, evalR_mul, pow_two]
    rw [hd]
    simpa [evalR_div] using this
  | @powc a b _ hmb hcond iha =>
    have hconst : ∀ v, evalR (upd ρ x v) b = evalR ρ b := fun v => evalR_upd_of_not_mentions ρ x v b hmb
    have hcond' : evalR (upd ρ x (ρ x)) a ≠ 0 ∨ 1 ≤ evalR ρ b := by rw [upd_self]; exact hcond
    have := iha.rpow_const (p := evalR ρ b) hcond'
    simp only [upd_self] at this
    have hd : evalR ρ (diff x (.pow a b)) = evalR ρ (diff x a) * evalR ρ b * evalR ρ a ^ (evalR ρ b - 1) := by
      simp only [diff, hmb, Bool.not_false, if_true, evalR_mkMul, evalR_mul, evalR_pow, evalR_sub, Expr.one, evalR_num, litR_one]
      ring
    rw [hd]
    have hf : (fun v => evalR (upd ρ x v) (.pow a b)) = fun v => evalR (upd ρ x v) a ^ evalR ρ b := by
      funext v; rw [evalR_pow, hconst v]
    rw [hf]; exact this
  | @exp a _ ih =>
    have := ih.exp
    simp only [upd_self] at this
    have hd : evalR ρ (diff x (.fn .exp a)) = Real.exp (evalR ρ a) * evalR ρ (diff x a) := by
      simp [diff, evalR_mkMul, evalR_fn, fnR]
    rw [hd]
    simpa [evalR_fn, fnR] using this
  | @log a _ ha ih =>
    have ha' : evalR (upd ρ x (ρ x)) a ≠ 0 := by rw [upd_self]; exact ha
    have := ih.log ha'
    simp only [upd_self] at this
    have hd : evalR ρ (diff x (.fn .log a)) = evalR ρ (diff x a) / evalR ρ a := by
      simp [diff, evalR_mkDiv]
    rw [hd]
    simpa [evalR_fn, fnR] using this
  | @sin a _ ih =>
    have := ih.sin
    simp only [upd_self] at this
    have hd : evalR ρ (diff x (.fn .sin a)) = Real.cos (evalR ρ a) * evalR ρ (diff x a) := by
      simp [diff, evalR_mkMul, evalR_fn, fnR]
    rw [hd]
    simpa [evalR_fn, fnR] using this
  | @cos a _ ih =>
    have := ih.cos
    simp only [upd_self] at this
    have hd : evalR ρ (diff x (.fn .cos a)) = -Real.sin (evalR ρ a) * evalR ρ (diff x a) := by
      simp [diff, evalR_mkNeg, evalR_mkMul, evalR_fn, fnR]
    rw [hd]
    simpa [evalR_fn, fnR] using this
  | @atan a _ ih =>
    have := ih.arctan
    simp only [upd_self] at this
    have hd : evalR ρ (diff x (.fn .atan a)) = 1 / (1 + evalR ρ a ^ 2) * evalR ρ (diff x a) := by
      simp only [diff, evalR_mkDiv, evalR_add, evalR_mul, Expr.one, evalR_num, litR_one]
      ring
    rw [hd]
    simpa [evalR_fn, fnR] using this
  | @sqrt a _ ha ih =>
    have ha' : evalR (upd ρ x (ρ x)) a ≠ 0 := by rw [upd_self]; exact ha
    have := ih.sqrt ha'
    simp only [upd_self] at this
    have hd : evalR ρ (diff x (.fn .sqrt a)) = evalR ρ (diff x a) / (2 * Real.sqrt (evalR ρ a)) := by
      simp [diff, evalR_mkDiv, evalR_mul, evalR_fn, fnR, Expr.two, evalR_num, litR_two]
    rw [hd]
    simpa [evalR_fn, fnR] using this

/-! ### The Rush–Larsen update over ℝ -/

/-- the guarded update for one state: `x + (|g| > δ ? f/g·(exp(g·dt) − 1) : dt·f)` -/
def rlStep (δ x f g dt : ℝ) : ℝ := x + (if |g| > δ then f / g * (Real.exp (g * dt) - 1) else dt * f)

/-- no division by zero under the guard -/
theorem rl_guard_nonzero (δ g : ℝ) (hδ : 0 ≤ δ) (h : |g| > δ) : g ≠ 0 := by
  intro hg; subst hg; simp at h; linarith

/-- **dt = 0 returns the state** -/
theorem rl_dt_zero (δ x f g : ℝ) : rlStep δ x f g 0 = x := by
  unfold rlStep; split <;> simp

/-- **Exact for rates affine in their own state.** For `x' = a·x + b` with `|a| > δ`, the step with
`f = a·x₀ + b`, `g = a` is the exact solution `x(dt)` of the linear ODE through `x₀`:
`x(dt) = (x₀ + b/a)·exp(a·dt) − b/a`. -/
theorem rl_exact_affine (δ a b x0 dt : ℝ) (hδ : 0 ≤ δ) (ha : |a| > δ) :
    rlStep δ x0 (a * x0 + b) a dt = (x0 + b / a) * Real.exp (a * dt) - b / a := by
  have hne : a ≠ 0 := rl_guard_nonzero δ a hδ ha
  unfold rlStep
  rw [if_pos ha]
  field_simp
  ring

/-- … and that closed form indeed solves `x' = a·x + b`, `x(0) = x₀` -/
theorem affine_flow_solves (a b x0 : ℝ) (ha : a ≠ 0) (s : ℝ) :
    HasDerivAt (fun t => (x0 + b / a) * Real.exp (a * t) - b / a)
      (a * ((x0 + b / a) * Real.exp (a * s) - b / a) + b) s ∧
    (x0 + b / a) * Real.exp (a * 0) - b / a = x0 := by
  constructor
  · have h1 : HasDerivAt (fun t : ℝ => a * t) a s := by simpa using (hasDerivAt_id' s).const_mul a
    have h2 := (h1.exp).const_mul (x0 + b / a)
    have h3 := h2.sub_const (b / a)
    refine h3.congr_deriv ?_
    field_simp
    ring
  · simp

/-- **First-order agreement with explicit Euler**: as a function of `dt` the Rush–Larsen step
starts at `x` with slope `f`, exactly like `x + dt·f`; hence their difference is `o(dt)`. -/
theorem rl_first_order (δ x f g : ℝ) (hδ : 0 ≤ δ) :
    HasDerivAt (fun dt => rlStep δ x f g dt) f 0 := by
  unfold rlStep
  by_cases h : |g| > δ
  · have hg : g ≠ 0 := rl_guard_nonzero δ g hδ h
    simp only [h, if_true]
    have h1 : HasDerivAt (fun t : ℝ => g * t) g 0 := by simpa using (hasDerivAt_id' (0 : ℝ)).const_mul g
    have h2 := ((h1.exp).sub_const 1).const_mul (f / g)
    have h3 := h2.const_add x
    refine h3.congr_deriv ?_
    simp only [mul_zero, Real.exp_zero, one_mul]
    field_simp
  · simp only [h, if_false]
    have h1 : HasDerivAt (fun t : ℝ => t * f) f 0 := by simpa using (hasDerivAt_id' (0 : ℝ)).mul_const f
    exact h1.const_add x

theorem euler_first_order (x f : ℝ) : HasDerivAt (fun dt => x + dt * f) f 0 := by
  have h1 : HasDerivAt (fun t : ℝ => t * f) f 0 := by simpa using (hasDerivAt_id' (0 : ℝ)).mul_const f
  exact h1.const_add x

/-- the difference between the Rush–Larsen step and the Euler step is `o(dt)` -/
theorem rl_minus_euler_little_o (δ x f g : ℝ) (hδ : 0 ≤ δ) :
    HasDerivAt (fun dt => rlStep δ x f g dt - (x + dt * f)) 0 0 := by
  have := (rl_first_order δ x f g hδ).fun_sub (euler_first_order x f)
  simpa using this

/-- the fallback branch is the explicit Euler update -/
theorem rl_fallback_is_euler (δ x f g dt : ℝ) (h : ¬ |g| > δ) : rlStep δ x f g dt = x + dt * f := by
  unfold rlStep; rw [if_neg h]

end
end Gx
