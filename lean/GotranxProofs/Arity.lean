import GotranxProofs.GenValidMissing
import GotranxProofs.GenValidRL
import GotranxProofs.Properties.C03
/-!
# Full-size outputs of the generated functions (C03 on the `Impl` layer)

The JAX template returns `numpy.array([_values_0, …, _values_{n-1}])` with `n` the documented length.  For the programs
of the model's generators every one of these names is bound: `checkArity n (range n) p` holds, so (`C03.jaxReturn_sound`)
the returned array has the documented length and entry `i` is the value stored into slot `i`.
-/
namespace Gx
namespace Arity
open Impl Kahn GenValid

/-- a program that writes every slot below `n` exactly once binds every `_values_i`, `i < n` -/
theorem arity_of_slotsExact (n : Nat) (p : List Stmt) (h : slotsExact n p = true) :
    checkArity n (List.range n) p = true := by
  simp only [slotsExact, Bool.and_eq_true, List.all_eq_true, decide_eq_true_eq, beq_iff_eq] at h
  simp only [checkArity, Bool.and_eq_true, beq_self_eq_true, true_and, List.all_eq_true, List.contains_eq_mem,
    decide_eq_true_eq]
  intro i hi
  have := h.2 i hi
  exact List.count_pos_iff.mp (by omega)

theorem rhs_arity (m : Model) (π : DepOrder) (ru : Bool) (L : Layout) (p : List Stmt)
    (hwf : ModelWF m) (hπ : ∀ a ∈ m.assigns, ∀ y ∈ fv a.2, y ∈ π a.1 a.2)
    (hL : layout m π = some L) (hp : genRhs m π ru = some p) :
    checkArity L.state.length (List.range L.state.length) p = true := by
  have := genRhs_valid m π ru L p hwf hπ hL hp
  simp only [checkRhs, Bool.and_eq_true] at this
  exact arity_of_slotsExact _ p this.1.2

theorem monitor_arity (m : Model) (π : DepOrder) (ru : Bool) (L : Layout) (p : List Stmt)
    (hwf : ModelWF m) (hπ : ∀ a ∈ m.assigns, ∀ y ∈ fv a.2, y ∈ π a.1 a.2)
    (hL : layout m π = some L) (hp : genMonitor m π ru = some p) :
    checkArity L.monitor.length (List.range L.monitor.length) p = true := by
  have := GenValidMon.genMonitor_valid m π ru L p hwf hπ hL hp
  simp only [checkMonitor, Bool.and_eq_true] at this
  exact arity_of_slotsExact _ p this.1.2

theorem missing_arity (m : Model) (π : DepOrder) (req : List Name) (L : Layout) (p : List Stmt)
    (hwf : ModelWF m) (hπ : ∀ a ∈ m.assigns, ∀ y ∈ fv a.2, y ∈ π a.1 a.2)
    (hreq : req.Nodup) (hdefd : ∀ r ∈ req, r ∈ m.stateNames ∨ r ∈ m.paramNames ∨ r ∈ m.assignNames)
    (hL : layout m π = some L) (hp : genMissing m π req = some p) :
    checkArity req.length (List.range req.length) p = true := by
  have := GenValidMissing.genMissing_valid m π req L p hwf hπ hreq hdefd hL hp
  simp only [checkMissingValues, Bool.and_eq_true] at this
  exact arity_of_slotsExact _ p this.1.2

theorem scheme_arity (m : Model) (L : Layout) (p : List Stmt) (h : checkScheme m L p = true) :
    checkArity L.state.length (List.range L.state.length) p = true := by
  simp only [checkScheme, Bool.and_eq_true] at h
  exact arity_of_slotsExact _ p h.2

/-- **full-size output of every generated JAX function**: the array returned for a program of the model's
generators has the documented length and carries, entry by entry, the stored values. -/
theorem generated_return {α} (s : St α) (n : Nat) (p : List Stmt) (h : slotsExact n p = true) :
    (jaxReturn s (List.range n)).length = n ∧ ∀ i, i < n → (jaxReturn s (List.range n))[i]? = some (s.result i) :=
  C03.jaxReturn_sound s n (List.range n) p (arity_of_slotsExact n p h)

end Arity
end Gx
