import GotranxModel
/-!
# The symbolic derivative mentions no new names

`fv (diff x e) ⊆ fv e`: the linearisation `d(rate)/d(state)` that the Rush–Larsen generators
define as `<d>_linearized` only reads names the rate expression reads — so it is well scoped
wherever the rate is.
-/
namespace Gx
namespace DiffFv

/-- every name of `e` is in `S` -/
def Sub (e : Expr) (S : List Name) : Prop := ∀ z ∈ fv e, z ∈ S

theorem Sub.mono {e : Expr} {S S' : List Name} (h : Sub e S) (hs : ∀ z ∈ S, z ∈ S') : Sub e S' :=
  fun z hz => hs z (h z hz)

theorem sub_num (m : Nat) (k : Int) (S : List Name) : Sub (.num m k) S := by intro z hz; simp [fv] at hz
theorem sub_zero (S : List Name) : Sub Expr.zero S := sub_num 0 0 S
theorem sub_one (S : List Name) : Sub Expr.one S := sub_num 1 0 S
theorem sub_two (S : List Name) : Sub Expr.two S := sub_num 2 0 S

theorem sub_neg {a : Expr} {S : List Name} (h : Sub a S) : Sub (.neg a) S := by intro z hz; exact h z (by simpa [fv] using hz)
theorem sub_fn {a : Expr} {S : List Name} (f : Fn) (h : Sub a S) : Sub (.fn f a) S := by intro z hz; exact h z (by simpa [fv] using hz)

theorem sub_bin {a b : Expr} {S : List Name} (ha : Sub a S) (hb : Sub b S) :
    Sub (.add a b) S ∧ Sub (.sub a b) S ∧ Sub (.mul a b) S ∧ Sub (.div a b) S ∧ Sub (.pow a b) S := by
  refine ⟨?_, ?_, ?_, ?_, ?_⟩ <;>
  · intro z hz
    simp only [fv, List.mem_append] at hz
    rcases hz with h | h
    · exact ha z h
    · exact hb z h

theorem sub_add {a b : Expr} {S : List Name} (ha : Sub a S) (hb : Sub b S) : Sub (.add a b) S := (sub_bin ha hb).1
theorem sub_sub {a b : Expr} {S : List Name} (ha : Sub a S) (hb : Sub b S) : Sub (.sub a b) S := (sub_bin ha hb).2.1
theorem sub_mul {a b : Expr} {S : List Name} (ha : Sub a S) (hb : Sub b S) : Sub (.mul a b) S := (sub_bin ha hb).2.2.1
theorem sub_div {a b : Expr} {S : List Name} (ha : Sub a S) (hb : Sub b S) : Sub (.div a b) S := (sub_bin ha hb).2.2.2.1
theorem sub_pow {a b : Expr} {S : List Name} (ha : Sub a S) (hb : Sub b S) : Sub (.pow a b) S := (sub_bin ha hb).2.2.2.2

theorem sub_cond {c a b : Expr} {S : List Name} (hc : Sub c S) (ha : Sub a S) (hb : Sub b S) : Sub (.cond c a b) S := by
  intro z hz
  simp only [fv, List.mem_append] at hz
  rcases hz with (h | h) | h
  · exact hc z h
  · exact ha z h
  · exact hb z h

theorem sub_mkNeg {a : Expr} {S : List Name} (h : Sub a S) : Sub (mkNeg a) S := by
  unfold mkNeg; split
  · exact sub_zero S
  · exact sub_neg h

theorem sub_mkAdd {a b : Expr} {S : List Name} (ha : Sub a S) (hb : Sub b S) : Sub (mkAdd a b) S := by
  unfold mkAdd; split
  · exact hb
  · split
    · exact ha
    · exact sub_add ha hb

theorem sub_mkSub {a b : Expr} {S : List Name} (ha : Sub a S) (hb : Sub b S) : Sub (mkSub a b) S := by
  unfold mkSub; split
  · exact ha
  · split
    · exact sub_neg hb
    · exact sub_sub ha hb

theorem sub_mkMul {a b : Expr} {S : List Name} (ha : Sub a S) (hb : Sub b S) : Sub (mkMul a b) S := by
  unfold mkMul; split
  · exact sub_zero S
  · split
    · exact hb
    · split
      · exact ha
      · exact sub_mul ha hb

theorem sub_mkDiv {a b : Expr} {S : List Name} (ha : Sub a S) (hb : Sub b S) : Sub (mkDiv a b) S := by
  unfold mkDiv; split
  · exact sub_zero S
  · exact sub_div ha hb

theorem sub_self (e : Expr) : Sub e (fv e) := fun _ h => h

/-- **`fv (diff x e) ⊆ fv e`** -/
theorem sub_diff (x : Name) (e : Expr) : Sub (diff x e) (fv e) := by
  induction e with
  | num m k => simp only [diff]; exact sub_zero _
  | pi => simp only [diff]; exact sub_zero _
  | var y =>
    simp only [diff]
    split
    · exact sub_one _
    · exact sub_zero _
  | neg a ih => simp only [diff]; exact sub_mkNeg (ih.mono (by intro z hz; simpa [fv] using hz))
  | add a b iha ihb =>
    have la : Sub (diff x a) (fv (.add a b)) := iha.mono (by intro z hz; simp [fv, hz])
    have lb : Sub (diff x b) (fv (.add a b)) := ihb.mono (by intro z hz; simp [fv, hz])
    simp only [diff]; exact sub_mkAdd la lb
  | sub a b iha ihb =>
    have la : Sub (diff x a) (fv (.sub a b)) := iha.mono (by intro z hz; simp [fv, hz])
    have lb : Sub (diff x b) (fv (.sub a b)) := ihb.mono (by intro z hz; simp [fv, hz])
    simp only [diff]; exact sub_mkSub la lb
  | mul a b iha ihb =>
    have la : Sub (diff x a) (fv (.mul a b)) := iha.mono (by intro z hz; simp [fv, hz])
    have lb : Sub (diff x b) (fv (.mul a b)) := ihb.mono (by intro z hz; simp [fv, hz])
    have ra : Sub a (fv (.mul a b)) := by intro z hz; simp [fv, hz]
    have rb : Sub b (fv (.mul a b)) := by intro z hz; simp [fv, hz]
    simp only [diff]; exact sub_mkAdd (sub_mkMul la rb) (sub_mkMul ra lb)
  | div a b iha ihb =>
    have la : Sub (diff x a) (fv (.div a b)) := iha.mono (by intro z hz; simp [fv, hz])
    have lb : Sub (diff x b) (fv (.div a b)) := ihb.mono (by intro z hz; simp [fv, hz])
    have ra : Sub a (fv (.div a b)) := by intro z hz; simp [fv, hz]
    have rb : Sub b (fv (.div a b)) := by intro z hz; simp [fv, hz]
    simp only [diff]; exact sub_mkDiv (sub_mkSub (sub_mkMul la rb) (sub_mkMul ra lb)) (sub_mul rb rb)
  | pow a b iha ihb =>
    have la : Sub (diff x a) (fv (.pow a b)) := iha.mono (by intro z hz; simp [fv, hz])
    have lb : Sub (diff x b) (fv (.pow a b)) := ihb.mono (by intro z hz; simp [fv, hz])
    have ra : Sub a (fv (.pow a b)) := by intro z hz; simp [fv, hz]
    have rb : Sub b (fv (.pow a b)) := by intro z hz; simp [fv, hz]
    simp only [diff]
    split
    · exact sub_mkMul (sub_mul rb (sub_pow ra (sub_sub rb (sub_one _)))) la
    · split
      · exact sub_mkMul (sub_mul (sub_pow ra rb) (sub_fn .log ra)) lb
      · exact sub_mul (sub_pow ra rb) (sub_mkAdd (sub_mkMul lb (sub_fn .log ra)) (sub_mkDiv (sub_mkMul rb la) ra))
  | fn f a ih =>
    have la : Sub (diff x a) (fv (.fn f a)) := ih.mono (by intro z hz; simpa [fv] using hz)
    have ra : Sub a (fv (.fn f a)) := by intro z hz; simpa [fv] using hz
    cases f <;> simp only [diff]
    · exact sub_mkMul (sub_fn .exp ra) la
    · exact sub_mkNeg (sub_mkMul (sub_fn .sin ra) la)
    · exact sub_mkMul (sub_fn .cos ra) la
    · exact sub_mkMul (sub_add (sub_one _) (sub_mul (sub_fn .tan ra) (sub_fn .tan ra))) la
    · exact sub_mkNeg (sub_mkDiv la (sub_fn .sqrt (sub_sub (sub_one _) (sub_mul ra ra))))
    · exact sub_mkDiv la (sub_fn .sqrt (sub_sub (sub_one _) (sub_mul ra ra)))
    · exact sub_mkDiv la (sub_add (sub_one _) (sub_mul ra ra))
    · exact sub_mkMul (sub_fn .sign ra) la
    · exact sub_zero _
    · exact sub_mkDiv la ra
    · exact sub_mkDiv la (sub_mul (sub_two _) (sub_fn .sqrt ra))
    · exact sub_zero _
  | mod a b iha ihb =>
    have la : Sub (diff x a) (fv (.mod a b)) := iha.mono (by intro z hz; simp [fv, hz])
    have lb : Sub (diff x b) (fv (.mod a b)) := ihb.mono (by intro z hz; simp [fv, hz])
    have ra : Sub a (fv (.mod a b)) := by intro z hz; simp [fv, hz]
    have rb : Sub b (fv (.mod a b)) := by intro z hz; simp [fv, hz]
    simp only [diff]; exact sub_mkSub la (sub_mkMul lb (sub_fn .floor (sub_div ra rb)))
  | rel r a b _ _ => simp only [diff]; exact sub_zero _
  | not a _ => simp only [diff]; exact sub_zero _
  | and a b _ _ => simp only [diff]; exact sub_zero _
  | or a b _ _ => simp only [diff]; exact sub_zero _
  | cond c a b _ iha ihb =>
    have la : Sub (diff x a) (fv (.cond c a b)) := iha.mono (by intro z hz; simp [fv, hz])
    have lb : Sub (diff x b) (fv (.cond c a b)) := ihb.mono (by intro z hz; simp [fv, hz])
    have rc : Sub c (fv (.cond c a b)) := by intro z hz; simp [fv, hz]
    simp only [diff]
    split
    · exact sub_zero _
    · exact sub_cond rc la lb
  | ccond r p q a b s ihp ihq iha ihb ihs =>
    have S := fv (.ccond r p q a b s)
    have lp : Sub (diff x p) (fv (.ccond r p q a b s)) := ihp.mono (by intro z hz; simp [fv, hz])
    have lq : Sub (diff x q) (fv (.ccond r p q a b s)) := ihq.mono (by intro z hz; simp [fv, hz])
    have la : Sub (diff x a) (fv (.ccond r p q a b s)) := iha.mono (by intro z hz; simp [fv, hz])
    have lb : Sub (diff x b) (fv (.ccond r p q a b s)) := ihb.mono (by intro z hz; simp [fv, hz])
    have ls : Sub (diff x s) (fv (.ccond r p q a b s)) := ihs.mono (by intro z hz; simp [fv, hz])
    have rp : Sub p (fv (.ccond r p q a b s)) := by intro z hz; simp [fv, hz]
    have rq : Sub q (fv (.ccond r p q a b s)) := by intro z hz; simp [fv, hz]
    have ra : Sub a (fv (.ccond r p q a b s)) := by intro z hz; simp [fv, hz]
    have rb : Sub b (fv (.ccond r p q a b s)) := by intro z hz; simp [fv, hz]
    have rs : Sub s (fv (.ccond r p q a b s)) := by intro z hz; simp [fv, hz]
    have hH : Sub (Expr.div .one (.add .one (.fn .exp (.div (.sub p q) s)))) (fv (.ccond r p q a b s)) :=
      sub_div (sub_one _) (sub_add (sub_one _) (sub_fn .exp (sub_div (sub_sub rp rq) rs)))
    have hu : Sub (Expr.div (.sub p q) s) (fv (.ccond r p q a b s)) := sub_div (sub_sub rp rq) rs
    have hdu := sub_mkDiv (sub_mkSub (sub_mkMul (sub_mkSub lp lq) rs) (sub_mkMul (sub_sub rp rq) ls)) (sub_mul rs rs)
    have hdH := sub_mkNeg (sub_mkMul (sub_mkMul (sub_mul hH hH) (sub_fn .exp hu)) hdu)
    simp only [diff]
    cases r <;>
    first
    | exact sub_mkAdd (sub_mkAdd (sub_mkMul la (sub_sub (sub_one _) hH)) (sub_mkMul ra (sub_mkNeg hdH)))
        (sub_mkAdd (sub_mkMul lb hH) (sub_mkMul rb hdH))
    | exact sub_mkAdd (sub_mkAdd (sub_mkMul la hH) (sub_mkMul ra hdH))
        (sub_mkAdd (sub_mkMul lb (sub_sub (sub_one _) hH)) (sub_mkMul rb (sub_mkNeg hdH)))

end DiffFv
end Gx
