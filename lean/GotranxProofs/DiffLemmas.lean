import GotranxModel
/-!
# Syntactic facts about `diff` (no analysis)
-/
namespace Gx

@[simp] theorem isZero_zero : Expr.zero.isZero = true := rfl

theorem mkNeg_zero {a : Expr} (h : a.isZero = true) : (mkNeg a).isZero = true := by simp [mkNeg, h]
theorem mkAdd_zero {a b : Expr} (ha : a.isZero = true) (hb : b.isZero = true) : (mkAdd a b).isZero = true := by
  simp [mkAdd, ha, hb]
theorem mkSub_zero {a b : Expr} (ha : a.isZero = true) (hb : b.isZero = true) : (mkSub a b).isZero = true := by
  simp [mkSub, ha, hb]
theorem mkMul_zero_left {a : Expr} (b : Expr) (ha : a.isZero = true) : (mkMul a b).isZero = true := by simp [mkMul, ha]
theorem mkMul_zero_right (a : Expr) {b : Expr} (hb : b.isZero = true) : (mkMul a b).isZero = true := by simp [mkMul, hb]
theorem mkDiv_zero {a : Expr} (b : Expr) (ha : a.isZero = true) : (mkDiv a b).isZero = true := by simp [mkDiv, ha]

theorem mentions_sub {x : Name} {l₁ l₂ : List Name} (h : (l₁ ++ l₂).contains x = false) :
    l₁.contains x = false ∧ l₂.contains x = false := by
  simp only [List.contains_eq_mem, List.mem_append, decide_eq_false_iff_not, not_or] at h ⊢
  exact h

/-- **g is identically zero when the rate does not mention the state**: the linearisation of
such a rate is *syntactically* zero, so the Rush–Larsen generators emit the Euler update. -/
theorem diff_zero_of_not_mentions (x : Name) (e : Expr) (h : mentions x e = false) :
    (diff x e).isZero = true := by
  induction e with
  | num m k => rfl
  | var y =>
    have : y ≠ x := by
      intro hxy; subst hxy; simp [mentions, fv] at h
    simp [diff, this]
  | pi => rfl
  | neg a ih => exact mkNeg_zero (ih (by simpa [mentions, fv] using h))
  | add a b iha ihb =>
    obtain ⟨h1, h2⟩ := mentions_sub (by simpa [mentions, fv] using h)
    exact mkAdd_zero (iha h1) (ihb h2)
  | sub a b iha ihb =>
    obtain ⟨h1, h2⟩ := mentions_sub (by simpa [mentions, fv] using h)
    exact mkSub_zero (iha h1) (ihb h2)
  | mul a b iha ihb =>
    obtain ⟨h1, h2⟩ := mentions_sub (by simpa [mentions, fv] using h)
    exact mkAdd_zero (mkMul_zero_left _ (iha h1)) (mkMul_zero_right _ (ihb h2))
  | div a b iha ihb =>
    obtain ⟨h1, h2⟩ := mentions_sub (by simpa [mentions, fv] using h)
    exact mkDiv_zero _ (mkSub_zero (mkMul_zero_left _ (iha h1)) (mkMul_zero_right _ (ihb h2)))
  | pow a b iha ihb =>
    obtain ⟨h1, h2⟩ := mentions_sub (by simpa [mentions, fv] using h)
    have hb : mentions x b = false := h2
    simp only [diff, hb, Bool.not_false, if_true]
    exact mkMul_zero_right _ (iha h1)
  | fn f a ih =>
    have ha := ih (by simpa [mentions, fv] using h)
    cases f <;> simp only [diff] <;>
      first
        | rfl
        | exact mkMul_zero_right _ ha
        | exact mkDiv_zero _ ha
        | exact mkNeg_zero (mkMul_zero_right _ ha)
        | exact mkNeg_zero (mkDiv_zero _ ha)
  | mod a b iha ihb =>
    obtain ⟨h1, h2⟩ := mentions_sub (by simpa [mentions, fv] using h)
    exact mkSub_zero (iha h1) (mkMul_zero_left _ (ihb h2))
  | rel r a b _ _ => rfl
  | not a _ => rfl
  | and a b _ _ => rfl
  | or a b _ _ => rfl
  | cond c a b _ iha ihb =>
    have h' : ((fv c ++ fv a) ++ fv b).contains x = false := by simpa [mentions, fv] using h
    obtain ⟨h12, h3⟩ := mentions_sub h'
    obtain ⟨_, h2⟩ := mentions_sub h12
    simp [diff, iha h2, ihb h3]
  | ccond r p q a b s ihp ihq iha ihb ihs =>
    have h' : ((((fv p ++ fv q) ++ fv a) ++ fv b) ++ fv s).contains x = false := by simpa [mentions, fv] using h
    obtain ⟨h1234, h5⟩ := mentions_sub h'
    obtain ⟨h123, h4⟩ := mentions_sub h1234
    obtain ⟨h12, h3⟩ := mentions_sub h123
    obtain ⟨h1, h2⟩ := mentions_sub h12
    have zp := ihp h1; have zq := ihq h2; have za := iha h3; have zb := ihb h4; have zs := ihs h5
    have zdu : (mkDiv (mkSub (mkMul (mkSub (diff x p) (diff x q)) s) (mkMul (.sub p q) (diff x s))) (.mul s s)).isZero = true :=
      mkDiv_zero _ (mkSub_zero (mkMul_zero_left _ (mkSub_zero zp zq)) (mkMul_zero_right _ zs))
    have zdH := mkNeg_zero (mkMul_zero_right (mkMul (.mul (Expr.div .one (.add .one (.fn .exp (.div (.sub p q) s))))
      (Expr.div .one (.add .one (.fn .exp (.div (.sub p q) s))))) (.fn .exp (Expr.div (.sub p q) s))) zdu)
    cases r <;> simp only [diff] <;>
      exact mkAdd_zero (mkAdd_zero (mkMul_zero_left _ za) (mkMul_zero_right _ (by first | exact zdH | exact mkNeg_zero zdH)))
        (mkAdd_zero (mkMul_zero_left _ zb) (mkMul_zero_right _ (by first | exact zdH | exact mkNeg_zero zdH)))

end Gx
