import GotranxProofs.GenValid
import GotranxProofs.KahnComplete
/-!
# End to end on the `Impl` layer

For every well-formed, acyclic model the generators of the model *exist* (the sort succeeds, for any
dependency depth), pass the validators, run without reading an unbound name, and return the
specification's derivatives in the slots the index functions report.
-/
namespace Gx
namespace EndToEnd
open Impl Kahn GenValid

/-- the sort succeeds on every acyclic model, with and without unused-variable removal -/
theorem sortedAssignments_total (m : Model) (π : DepOrder) (ru : Bool) (rank : Name → Nat)
    (hr : Ranked m rank) (hexact : ∀ a ∈ m.assigns, ∀ y ∈ π a.1 a.2, y ∈ fv a.2) :
    (sortedAssignments m π ru).isSome = true := by
  have heq : sortedAssignments m π ru =
      sortAssignments ((keptAssigns m ru).map fun a => (a.1, sortNames (π a.1 a.2))) := rfl
  rw [heq]
  unfold sortAssignments
  have hs := staticOrder_complete ((keptAssigns m ru).map fun a => (a.1, sortNames (π a.1 a.2)))
    (fun y => if (m.rhsOf y).isSome then rank y + 1 else 0) (by
      intro a' ha' p hp
      obtain ⟨a, ha, rfl⟩ := List.mem_map.mp ha'
      have hamem := keptAssigns_sub m ru a ha
      have hp' : p ∈ fv a.2 := hexact a hamem p ((mem_sortNames _ p).mp hp)
      have hsome : (m.rhsOf a.1).isSome = true := rhsOf_isSome_of_mem m a.1 (List.mem_map.mpr ⟨a, hamem, rfl⟩)
      simp only [hsome, if_true]
      by_cases hpa : (m.rhsOf p).isSome = true
      · simp only [hpa, if_true]
        have := hr a.1 a.2 (by cases a; exact hamem) p hp' hpa
        omega
      · simp only [hpa, Bool.false_eq_true, if_false]; omega)
  cases h : staticOrder ((keptAssigns m ru).map fun a => (a.1, sortNames (π a.1 a.2))) with
  | none => simp [h] at hs
  | some o => simp

/-- **Totality of the generators**: layout and `rhs` program exist for every acyclic model -/
theorem gen_total (m : Model) (π : DepOrder) (ru : Bool) (rank : Name → Nat)
    (hr : Ranked m rank) (hexact : ∀ a ∈ m.assigns, ∀ y ∈ π a.1 a.2, y ∈ fv a.2) :
    ∃ L p, layout m π = some L ∧ genRhs m π ru = some p := by
  obtain ⟨o0, h0⟩ := Option.isSome_iff_exists.mp (sortedAssignments_total m π false rank hr hexact)
  obtain ⟨o1, h1⟩ := Option.isSome_iff_exists.mp (sortedAssignments_total m π ru rank hr hexact)
  have hL : layout m π = some ⟨o0.filterMap m.stateOfDeriv, m.paramNames, o0, missingVariables m⟩ := by
    unfold layout sortedStates; rw [h0]; rfl
  have hp : (genRhs m π ru).isSome = true := by
    unfold genRhs; rw [hL, h1]; rfl
  obtain ⟨p, hp'⟩ := Option.isSome_iff_exists.mp hp
  exact ⟨_, p, hL, hp'⟩

/-- **End to end.** For every well-formed acyclic model, every dependency traversal order that
enumerates exactly the names each assignment mentions, with and without unused-variable removal:
the generated `rhs` program exists, passes `checkRhs`, and on every input on which it runs returns
in slot `state_index X` the value the equational specification gives to `dX_dt`. -/
theorem rhs_end_to_end {α} (N : Num α) (m : Model) (π : DepOrder) (ru : Bool) (rank : Name → Nat)
    (hwf : ModelWF m) (hr : Ranked m rank)
    (hcover : ∀ a ∈ m.assigns, ∀ y ∈ fv a.2, y ∈ π a.1 a.2)
    (hexact : ∀ a ∈ m.assigns, ∀ y ∈ π a.1 a.2, y ∈ fv a.2) :
    ∃ L p, layout m π = some L ∧ genRhs m π ru = some p ∧ checkRhs m L p = true ∧
      ∀ (inp : Inputs α) (t : α) (ρ : Env α) (s' : St α), Solution N m L inp t ρ →
        exec N inp (initRhs t) p = some s' →
        ∀ i X, L.state[i]? = some X → ∃ d, m.stateOfDeriv d = some X ∧ (ρ d).isSome ∧ s'.result i = ρ d := by
  obtain ⟨L, p, hL, hp⟩ := gen_total m π ru rank hr hexact
  refine ⟨L, p, hL, hp, genRhs_valid m π ru L p hwf hcover hL hp, ?_⟩
  intro inp t ρ s' hsol hx
  exact genRhs_correct N m π ru L p inp t ρ s' hwf hcover hL hp hsol hx

/-- … and it does run: no unbound name is read when the input arrays have the lengths of the layout -/
theorem rhs_runs {α} (N : Num α) (m : Model) (π : DepOrder) (ru : Bool) (L : Layout) (p : List Stmt)
    (inp : Inputs α) (t : α) (hwf : ModelWF m) (hcover : ∀ a ∈ m.assigns, ∀ y ∈ fv a.2, y ∈ π a.1 a.2)
    (hL : layout m π = some L) (hp : genRhs m π ru = some p)
    (hin : ∀ u ∈ unpacks p, (inp u.2.1 u.2.2).isSome) :
    (exec N inp (initRhs t) p).isSome :=
  checkRhs_progress N m L inp t p (genRhs_valid m π ru L p hwf hcover hL hp) hin

/-! non-vacuity: the default traversal order is exact and covering -/
example : ∀ a ∈ C01.m0.assigns, ∀ y ∈ defaultDeps a.1 a.2, y ∈ fv a.2 := by decide
example : ∀ a ∈ C01.m0.assigns, ∀ y ∈ fv a.2, y ∈ defaultDeps a.1 a.2 := by decide

end EndToEnd
end Gx
