import GotranxProofs.EndToEnd
import GotranxProofs.SchemeEndToEnd
import GotranxProofs.GenValidMissing
/-!
# End to end for every generated function

`EndToEnd.rhs_end_to_end` says that for a well-formed acyclic model the `rhs` program exists, is accepted by its
validator and returns the specification's derivatives.  The same for `monitor_values`, the three schemes and
`missing_values`: the programs *exist* for every acyclic model (the sort succeeds), pass their validators, and return the
documented values on every input on which they run.
-/
namespace Gx
namespace EndToEnd
open Impl Kahn GenValid GenValidRL

/-- every generator of the model produces a program for every acyclic model -/
theorem all_generators_total (m : Model) (π : DepOrder) (ru : Bool) (rank : Name → Nat) (delta : Expr) (stiff req : List Name)
    (hr : Ranked m rank) (hexact : ∀ a ∈ m.assigns, ∀ y ∈ π a.1 a.2, y ∈ fv a.2) :
    ∃ L, layout m π = some L ∧ (genRhs m π ru).isSome ∧ (genMonitor m π ru).isSome ∧ (genEuler m π ru).isSome ∧
      (genGRL m π ru delta).isSome ∧ (genHybrid m π ru delta stiff).isSome ∧ (genMissing m π req).isSome := by
  obtain ⟨o0, h0⟩ := Option.isSome_iff_exists.mp (sortedAssignments_total m π false rank hr hexact)
  obtain ⟨o1, h1⟩ := Option.isSome_iff_exists.mp (sortedAssignments_total m π ru rank hr hexact)
  have hL : layout m π = some ⟨o0.filterMap m.stateOfDeriv, m.paramNames, o0, missingVariables m⟩ := by
    unfold layout sortedStates; rw [h0]; rfl
  refine ⟨_, hL, ?_, ?_, ?_, ?_, ?_, ?_⟩
  · unfold genRhs; rw [hL, h1]; rfl
  · unfold genMonitor; rw [hL, h0]; rfl
  · unfold genEuler; rw [hL, h1]; rfl
  · unfold genGRL; rw [hL, h1]; rfl
  · unfold genHybrid; rw [hL, h1]; rfl
  · unfold genMissing; rw [hL, h0]; rfl

/-- **`monitor_values`, end to end** -/
theorem monitor_end_to_end {α} (N : Num α) (m : Model) (π : DepOrder) (ru : Bool) (rank : Name → Nat)
    (hwf : ModelWF m) (hr : Ranked m rank)
    (hcover : ∀ a ∈ m.assigns, ∀ y ∈ fv a.2, y ∈ π a.1 a.2)
    (hexact : ∀ a ∈ m.assigns, ∀ y ∈ π a.1 a.2, y ∈ fv a.2) :
    ∃ L p, layout m π = some L ∧ genMonitor m π ru = some p ∧ checkMonitor m L p = true ∧
      ∀ (inp : Inputs α) (t : α) (ρ : Env α) (s' : St α), Solution N m L inp t ρ →
        exec N inp (initRhs t) p = some s' →
        ∀ i x, L.monitor[i]? = some x → (ρ x).isSome ∧ s'.result i = ρ x := by
  obtain ⟨L, hL, _, hm, _⟩ := all_generators_total m π ru rank .zero [] [] hr hexact
  obtain ⟨p, hp⟩ := Option.isSome_iff_exists.mp hm
  refine ⟨L, p, hL, hp, GenValidMon.genMonitor_valid m π ru L p hwf hcover hL hp, ?_⟩
  intro inp t ρ s' hsol hx
  exact GenValidMon.genMonitor_correct N m π ru L p inp t ρ s' hwf hcover hL hp hsol hx

/-- **explicit Euler, end to end** -/
theorem euler_end_to_end {α} (N : Num α) (m : Model) (π : DepOrder) (ru : Bool) (rank : Name → Nat)
    (hwf : ModelWF m) (hr : Ranked m rank)
    (hdtn : "dt" ∉ m.stateNames ∧ "dt" ∉ m.paramNames ∧ "dt" ∉ m.assignNames ∧ "dt" ∉ missingVariables m)
    (hcover : ∀ a ∈ m.assigns, ∀ y ∈ fv a.2, y ∈ π a.1 a.2)
    (hexact : ∀ a ∈ m.assigns, ∀ y ∈ π a.1 a.2, y ∈ fv a.2) :
    ∃ L p, layout m π = some L ∧ genEuler m π ru = some p ∧ checkScheme m L p = true ∧
      ∀ (inp : Inputs α) (t dt : α) (ρ : Env α) (s' : St α), Solution N m L inp t ρ → ρ "dt" = some dt →
        exec N inp (initScheme t dt) p = some s' →
        ∀ i X, L.state[i]? = some X → ∃ d x f, m.stateOfDeriv d = some X ∧ inp .states i = some x ∧ ρ d = some f ∧
          s'.result i = some (N.add x (N.mul dt f)) := by
  obtain ⟨L, hL, _, _, he, _⟩ := all_generators_total m π ru rank .zero [] [] hr hexact
  obtain ⟨p, hp⟩ := Option.isSome_iff_exists.mp he
  refine ⟨L, p, hL, hp, genEuler_valid m π ru L p hwf hcover hdtn hL hp, ?_⟩
  intro inp t dt ρ s' hsol hdt hx
  exact SchemeEndToEnd.genEuler_correct N m π ru L p inp t dt ρ s' hwf hcover hdtn hL hp hsol hdt hx

/-- **generalized Rush–Larsen, end to end** (for a solution extended by the helper values, `solution_withLin`) -/
theorem grl_end_to_end {α} (N : Num α) (m : Model) (π : DepOrder) (ru : Bool) (rank : Name → Nat) (dm : Nat) (de : Int)
    (hwf : ModelWF m) (hcl : NoHelperClash m) (hr : Ranked m rank)
    (hcover : ∀ a ∈ m.assigns, ∀ y ∈ fv a.2, y ∈ π a.1 a.2)
    (hexact : ∀ a ∈ m.assigns, ∀ y ∈ π a.1 a.2, y ∈ fv a.2) :
    ∃ L p, layout m π = some L ∧ genGRL m π ru (.num dm de) = some p ∧ checkScheme m L p = true ∧
      ∀ (inp : Inputs α) (t dt : α) (ρ : Env α) (s' : St α), Solution N m L inp t ρ → ρ "dt" = some dt →
        exec N inp (initScheme t dt) p = some s' →
        (∀ d X e, m.stateOfDeriv d = some X → m.rhsOf d = some e → ρ (linName d) = eval N ρ (diff X e)) →
        ∀ i X, L.state[i]? = some X →
          ∃ d e x f, m.stateOfDeriv d = some X ∧ m.rhsOf d = some e ∧ inp .states i = some x ∧ ρ d = some f ∧
            (((diff X e).isZero = true ∧ s'.result i = some (N.add x (N.mul dt f))) ∨
             ((diff X e).isZero = false ∧ ∃ g, eval N ρ (diff X e) = some g ∧
                s'.result i = some (C06.rlFormula N (N.lit dm de) x f g dt))) := by
  obtain ⟨L, hL, _, _, _, hg, _⟩ := all_generators_total m π ru rank (.num dm de) [] [] hr hexact
  obtain ⟨p, hp⟩ := Option.isSome_iff_exists.mp hg
  refine ⟨L, p, hL, hp, genGRL_valid m π ru _ L p hwf hcl hcover rfl hL hp, ?_⟩
  intro inp t dt ρ s' hsol hdt hx hlin i X hiX
  exact SchemeEndToEnd.genGRL_formula N m π ru L dm de p inp t dt ρ s' hwf hcl hcover hL hp hsol hdt hlin hx i X hiX

/-- **`missing_values`, end to end** -/
theorem missing_end_to_end {α} (N : Num α) (m : Model) (π : DepOrder) (rank : Name → Nat) (req : List Name)
    (hwf : ModelWF m) (hr : Ranked m rank)
    (hreq : req.Nodup) (hdefd : ∀ r ∈ req, r ∈ m.stateNames ∨ r ∈ m.paramNames ∨ r ∈ m.assignNames)
    (hcover : ∀ a ∈ m.assigns, ∀ y ∈ fv a.2, y ∈ π a.1 a.2)
    (hexact : ∀ a ∈ m.assigns, ∀ y ∈ π a.1 a.2, y ∈ fv a.2) :
    ∃ L p, layout m π = some L ∧ genMissing m π req = some p ∧ checkMissingValues m L req p = true ∧
      ∀ (inp : Inputs α) (t : α) (ρ : Env α) (s' : St α), Solution N m L inp t ρ →
        exec N inp (initRhs t) p = some s' →
        ∀ i x, req[i]? = some x → (ρ x).isSome ∧ s'.result i = ρ x := by
  obtain ⟨L, hL, _, _, _, _, _, hmv⟩ := all_generators_total m π false rank .zero [] req hr hexact
  obtain ⟨p, hp⟩ := Option.isSome_iff_exists.mp hmv
  refine ⟨L, p, hL, hp, GenValidMissing.genMissing_valid m π req L p hwf hcover hreq hdefd hL hp, ?_⟩
  intro inp t ρ s' hsol hx
  exact GenValidMissing.genMissing_correct N m π req L p inp t ρ s' hwf hcover hreq hdefd hL hp hsol hx

end EndToEnd

namespace SchemeEndToEnd
open Impl Kahn GenValid GenValidRL

/-- **C12 for `monitor_values` on the `Impl` layer**: with and without removal of unused parameters the program writes
the same value into every monitor slot. -/
theorem genMonitor_removal_invariant {α} (N : Num α) (m : Model) (π : DepOrder) (L : Layout) (p0 p1 : List Stmt)
    (inp : Inputs α) (t : α) (ρ : Env α) (s0 s1 : St α)
    (hwf : ModelWF m) (hπ : ∀ a ∈ m.assigns, ∀ y ∈ fv a.2, y ∈ π a.1 a.2)
    (hL : layout m π = some L) (hp0 : genMonitor m π false = some p0) (hp1 : genMonitor m π true = some p1)
    (hsol : Solution N m L inp t ρ)
    (hx0 : exec N inp (initRhs t) p0 = some s0) (hx1 : exec N inp (initRhs t) p1 = some s1) :
    ∀ i x, L.monitor[i]? = some x → s0.result i = s1.result i := by
  intro i x hix
  rw [(GenValidMon.genMonitor_correct N m π false L p0 inp t ρ s0 hwf hπ hL hp0 hsol hx0 i x hix).2,
      (GenValidMon.genMonitor_correct N m π true L p1 inp t ρ s1 hwf hπ hL hp1 hsol hx1 i x hix).2]

/-- **a step of size zero gives the states back** (C05: "with dt = 0 the input states are returned"; also what C04's
slot check observes on the real code) -/
theorem genEuler_dt_zero {α} (N : Num α) (z : α) (hz : C05.ZeroLaws N z) (m : Model) (π : DepOrder) (ru : Bool) (L : Layout)
    (p : List Stmt) (inp : Inputs α) (t : α) (ρ : Env α) (s' : St α)
    (hwf : ModelWF m) (hπ : ∀ a ∈ m.assigns, ∀ y ∈ fv a.2, y ∈ π a.1 a.2)
    (hdtn : "dt" ∉ m.stateNames ∧ "dt" ∉ m.paramNames ∧ "dt" ∉ m.assignNames ∧ "dt" ∉ missingVariables m)
    (hL : layout m π = some L) (hp : genEuler m π ru = some p)
    (hsol : Solution N m L inp t ρ) (hdt : ρ "dt" = some z)
    (hx : exec N inp (initScheme t z) p = some s') :
    ∀ i X, L.state[i]? = some X → s'.result i = inp .states i := by
  intro i X hiX
  obtain ⟨d, x, f, _, hx', _, hres⟩ := genEuler_correct N m π ru L p inp t z ρ s' hwf hπ hdtn hL hp hsol hdt hx i X hiX
  rw [hres, hx', C05.euler_dt_zero N z hz x f]

end SchemeEndToEnd
end Gx
