import GotranxModel
/-!
# Core lemmas about `eval`, `exec` and well-scoped programs
-/
namespace Gx

theorem eval_congr {α} (N : Num α) (ρ ρ' : Env α) (e : Expr)
    (h : ∀ x ∈ fv e, ρ x = ρ' x) : eval N ρ e = eval N ρ' e := by
  induction e with
  | num m e => rfl
  | var x => exact h x (by simp [fv])
  | pi => rfl
  | neg a ih => simp only [eval]; rw [ih (fun x hx => h x (by simpa [fv] using hx))]
  | fn f a ih => simp only [eval]; rw [ih (fun x hx => h x (by simpa [fv] using hx))]
  | not a ih => simp only [eval]; rw [ih (fun x hx => h x (by simpa [fv] using hx))]
  | add a b iha ihb | sub a b iha ihb | mul a b iha ihb | div a b iha ihb | pow a b iha ihb
  | mod a b iha ihb | and a b iha ihb | or a b iha ihb =>
    simp only [eval]
    rw [iha (fun x hx => h x (by simp [fv, hx])), ihb (fun x hx => h x (by simp [fv, hx]))]
  | rel r a b iha ihb =>
    simp only [eval]
    rw [iha (fun x hx => h x (by simp [fv, hx])), ihb (fun x hx => h x (by simp [fv, hx]))]
  | cond c a b ihc iha ihb =>
    simp only [eval]
    rw [ihc (fun x hx => h x (by simp [fv, hx])), iha (fun x hx => h x (by simp [fv, hx])),
      ihb (fun x hx => h x (by simp [fv, hx]))]
  | ccond r x y a b s ihx ihy iha ihb ihs =>
    simp only [eval]
    rw [ihx (fun z hz => h z (by simp [fv, hz])), ihy (fun z hz => h z (by simp [fv, hz])),
      iha (fun z hz => h z (by simp [fv, hz])), ihb (fun z hz => h z (by simp [fv, hz])),
      ihs (fun z hz => h z (by simp [fv, hz]))]

/-- An expression all of whose names are bound has a value (no NameError). -/
theorem eval_isSome {α} (N : Num α) (ρ : Env α) (e : Expr)
    (h : ∀ x ∈ fv e, (ρ x).isSome) : (eval N ρ e).isSome := by
  induction e with
  | num m e => simp [eval]
  | var x => exact h x (by simp [fv])
  | pi => simp [eval]
  | neg a ih | fn f a ih | not a ih =>
    have := ih (fun x hx => h x (by simpa [fv] using hx))
    obtain ⟨v, hv⟩ := Option.isSome_iff_exists.mp this
    simp [eval, hv]
  | add a b iha ihb | sub a b iha ihb | mul a b iha ihb | div a b iha ihb | pow a b iha ihb
  | mod a b iha ihb | and a b iha ihb | or a b iha ihb | rel r a b iha ihb =>
    obtain ⟨va, hva⟩ := Option.isSome_iff_exists.mp (iha (fun x hx => h x (by simp [fv, hx])))
    obtain ⟨vb, hvb⟩ := Option.isSome_iff_exists.mp (ihb (fun x hx => h x (by simp [fv, hx])))
    simp [eval, hva, hvb]
  | cond c a b ihc iha ihb =>
    obtain ⟨vc, hvc⟩ := Option.isSome_iff_exists.mp (ihc (fun x hx => h x (by simp [fv, hx])))
    obtain ⟨va, hva⟩ := Option.isSome_iff_exists.mp (iha (fun x hx => h x (by simp [fv, hx])))
    obtain ⟨vb, hvb⟩ := Option.isSome_iff_exists.mp (ihb (fun x hx => h x (by simp [fv, hx])))
    simp [eval, hvc, hva, hvb]
  | ccond r x y a b s ihx ihy iha ihb ihs =>
    obtain ⟨vx, hvx⟩ := Option.isSome_iff_exists.mp (ihx (fun z hz => h z (by simp [fv, hz])))
    obtain ⟨vy, hvy⟩ := Option.isSome_iff_exists.mp (ihy (fun z hz => h z (by simp [fv, hz])))
    obtain ⟨va, hva⟩ := Option.isSome_iff_exists.mp (iha (fun z hz => h z (by simp [fv, hz])))
    obtain ⟨vb, hvb⟩ := Option.isSome_iff_exists.mp (ihb (fun z hz => h z (by simp [fv, hz])))
    obtain ⟨vs, hvs⟩ := Option.isSome_iff_exists.mp (ihs (fun z hz => h z (by simp [fv, hz])))
    simp [eval, hvx, hvy, hva, hvb, hvs]

@[simp] theorem lookup_cons_eq {α} (l : List (Name × α)) (x : Name) (v : α) :
    lookup ((x, v) :: l) x = some v := by simp [lookup]

theorem lookup_cons_ne {α} (l : List (Name × α)) (x y : Name) (v : α) (h : x ≠ y) :
    lookup ((x, v) :: l) y = lookup l y := by simp [lookup, h]

theorem contains_iff_mem (l : List Name) (x : Name) : l.contains x = true ↔ x ∈ l := by
  simp

/-- What a program binds, in order. -/
def bindsOf : List Stmt → List Name
  | [] => []
  | .unpack x _ _ :: rest => x :: bindsOf rest
  | .define x _ :: rest => x :: bindsOf rest
  | .store _ _ :: rest => bindsOf rest

/-- **Core invariant.** If `ρ` satisfies every unpack and every define of a well-scoped
program as an equation, then running the program from an environment that agrees with `ρ`
on the bound names ends in an environment that agrees with `ρ` on all names bound so far,
and every store holds the value `ρ` gives to the stored expression. -/
theorem exec_agree {α} (N : Num α) (inp : Inputs α) (ρ : Env α) :
    ∀ (p : List Stmt) (bound : List Name) (s s' : St α),
      (∀ u ∈ unpacks p, ρ u.1 = inp u.2.1 u.2.2) →
      (∀ d ∈ defines p, ρ d.1 = eval N ρ d.2) →
      (∀ x ∈ bound, lookup s.env x = ρ x) →
      wellScoped bound p = true →
      exec N inp s p = some s' →
      (∀ x ∈ bound ++ bindsOf p, lookup s'.env x = ρ x) ∧
      (∀ i v, (i, v) ∈ s'.out → (i, v) ∈ s.out ∨ ∃ e, (i, e) ∈ stores p ∧ eval N ρ e = some v) ∧
      (∀ i e, (i, e) ∈ stores p → ∃ v, eval N ρ e = some v ∧ (i, v) ∈ s'.out) ∧
      (∀ q, q ∈ s.out → q ∈ s'.out) := by
  intro p
  induction p with
  | nil =>
    intro bound s s' _ _ h0 _ hx
    simp [exec] at hx; subst hx
    refine ⟨by simpa [bindsOf] using h0, fun i v h => Or.inl h, by simp [stores], fun q h => h⟩
  | cons st rest ih =>
    intro bound s s' hU hD h0 hw hx
    cases st with
    | store i e =>
      simp only [wellScoped, Bool.and_eq_true, List.all_eq_true] at hw
      simp only [exec, step] at hx
      have hagree : eval N (lookup s.env) e = eval N ρ e :=
        eval_congr N _ _ e (fun x hx' => h0 x (by simpa using hw.1 x hx'))
      cases hev : eval N (lookup s.env) e with
      | none => simp [hev] at hx
      | some v =>
        simp only [hev, Option.map_some, Option.bind_some] at hx
        have := ih bound { s with out := (i, v) :: s.out } s'
          (by simpa [unpacks] using hU) (by simpa [defines] using hD) h0 hw.2 hx
        obtain ⟨h1, h2, h3, h4⟩ := this
        refine ⟨by simpa [bindsOf] using h1, ?_, ?_, ?_⟩
        · intro j w hjw
          rcases h2 j w hjw with hh | ⟨e', he', hv'⟩
          · simp only [List.mem_cons] at hh
            rcases hh with hh | hh
            · right; refine ⟨e, ?_, ?_⟩
              · simp only [Prod.mk.injEq] at hh; simp [stores, hh.1]
              · simp only [Prod.mk.injEq] at hh; rw [← hagree, hev, hh.2]
            · exact Or.inl hh
          · right; exact ⟨e', by simp [stores, he'], hv'⟩
        · intro j e' hje
          simp only [stores, List.mem_cons, Prod.mk.injEq] at hje
          rcases hje with ⟨rfl, rfl⟩ | hje
          · exact ⟨v, by rw [← hagree, hev], h4 _ (by simp)⟩
          · exact h3 j e' hje
        · intro q hq; exact h4 q (by simp [hq])
    | unpack x a i =>
      simp only [wellScoped, Bool.and_eq_true, Bool.not_eq_true', ] at hw
      simp only [exec, step] at hx
      cases hin : inp a i with
      | none => simp [hin] at hx
      | some v =>
        simp only [hin, Option.map_some, Option.bind_some] at hx
        have hρx : ρ x = some v := by
          have := hU (x, a, i) (by simp [unpacks]); simpa [hin] using this
        have hnot : x ∉ bound := by
          intro hmem; have := hw.1; simp [hmem] at this
        have h0' : ∀ y ∈ x :: bound, lookup ((x, v) :: s.env) y = ρ y := by
          intro y hy
          by_cases hxy : x = y
          · subst hxy; simp [hρx]
          · rw [lookup_cons_ne _ _ _ _ hxy]
            exact h0 y (by simpa [Ne.symm hxy] using hy)
        have := ih (x :: bound) { s with env := (x, v) :: s.env } s'
          (fun u hu => hU u (by simp [unpacks, hu])) (by simpa [defines] using hD) h0' hw.2 hx
        obtain ⟨h1, h2, h3, h4⟩ := this
        refine ⟨?_, ?_, ?_, h4⟩
        · intro y hy
          apply h1
          simp only [bindsOf, List.mem_append, List.mem_cons] at hy ⊢
          rcases hy with hy | hy | hy
          · exact Or.inl (Or.inr hy)
          · exact Or.inl (Or.inl hy)
          · exact Or.inr hy
        · intro j w hjw; simpa [stores] using h2 j w hjw
        · intro j e' hje; exact h3 j e' (by simpa [stores] using hje)
    | define x e =>
      simp only [wellScoped, Bool.and_eq_true, Bool.not_eq_true', List.all_eq_true] at hw
      simp only [exec, step] at hx
      have hagree : eval N (lookup s.env) e = eval N ρ e :=
        eval_congr N _ _ e (fun y hy => h0 y (by simpa using hw.1.2 y hy))
      cases hev : eval N (lookup s.env) e with
      | none => simp [hev] at hx
      | some v =>
        simp only [hev, Option.map_some, Option.bind_some] at hx
        have hρx : ρ x = some v := by
          have := hD (x, e) (by simp [defines]); simp only at this; rw [this, ← hagree, hev]
        have hnot : x ∉ bound := by
          intro hmem; have := hw.1.1; simp [hmem] at this
        have h0' : ∀ y ∈ x :: bound, lookup ((x, v) :: s.env) y = ρ y := by
          intro y hy
          by_cases hxy : x = y
          · subst hxy; simp [hρx]
          · rw [lookup_cons_ne _ _ _ _ hxy]
            exact h0 y (by simpa [Ne.symm hxy] using hy)
        have := ih (x :: bound) { s with env := (x, v) :: s.env } s'
          (by simpa [unpacks] using hU) (fun d hd => hD d (by simp [defines, hd])) h0' hw.2 hx
        obtain ⟨h1, h2, h3, h4⟩ := this
        refine ⟨?_, ?_, ?_, h4⟩
        · intro y hy
          apply h1
          simp only [bindsOf, List.mem_append, List.mem_cons] at hy ⊢
          rcases hy with hy | hy | hy
          · exact Or.inl (Or.inr hy)
          · exact Or.inl (Or.inl hy)
          · exact Or.inr hy
        · intro j w hjw; simpa [stores] using h2 j w hjw
        · intro j e' hje; exact h3 j e' (by simpa [stores] using hje)

/-- **Progress.** A well-scoped program whose unpacked slots exist never fails
(no NameError, no IndexError), whatever the interpretation of the primitives. -/
theorem exec_progress {α} (N : Num α) (inp : Inputs α) :
    ∀ (p : List Stmt) (bound : List Name) (s : St α),
      (∀ u ∈ unpacks p, (inp u.2.1 u.2.2).isSome) →
      (∀ x ∈ bound, (lookup s.env x).isSome) →
      wellScoped bound p = true →
      (exec N inp s p).isSome := by
  intro p
  induction p with
  | nil => intro _ _ _ _ _; simp [exec]
  | cons st rest ih =>
    intro bound s hU h0 hw
    cases st with
    | store i e =>
      simp only [wellScoped, Bool.and_eq_true, List.all_eq_true] at hw
      obtain ⟨v, hv⟩ := Option.isSome_iff_exists.mp
        (eval_isSome N (lookup s.env) e (fun x hx => h0 x (by simpa using hw.1 x hx)))
      simp only [exec, step, hv, Option.map_some, Option.bind_some]
      exact ih bound _ (by simpa [unpacks] using hU) h0 hw.2
    | unpack x a i =>
      simp only [wellScoped, Bool.and_eq_true, Bool.not_eq_true'] at hw
      obtain ⟨v, hv⟩ := Option.isSome_iff_exists.mp (hU (x, a, i) (by simp [unpacks]))
      simp only at hv
      simp only [exec, step, hv, Option.map_some, Option.bind_some]
      refine ih (x :: bound) _ (fun u hu => hU u (by simp [unpacks, hu])) ?_ hw.2
      intro y hy
      by_cases hxy : x = y
      · subst hxy; simp
      · rw [lookup_cons_ne _ _ _ _ hxy]; exact h0 y (by simpa [Ne.symm hxy] using hy)
    | define x e =>
      simp only [wellScoped, Bool.and_eq_true, Bool.not_eq_true', List.all_eq_true] at hw
      obtain ⟨v, hv⟩ := Option.isSome_iff_exists.mp
        (eval_isSome N (lookup s.env) e (fun y hy => h0 y (by simpa using hw.1.2 y hy)))
      simp only [exec, step, hv, Option.map_some, Option.bind_some]
      refine ih (x :: bound) _ (by simpa [unpacks] using hU) ?_ hw.2
      intro y hy
      by_cases hxy : x = y
      · subst hxy; simp
      · rw [lookup_cons_ne _ _ _ _ hxy]; exact h0 y (by simpa [Ne.symm hxy] using hy)

end Gx
