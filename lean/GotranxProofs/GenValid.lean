import GotranxProofs.Kahn
import GotranxProofs.Validate
import GotranxProofs.Sorting
import GotranxProofs.Properties.C04
import GotranxProofs.Properties.C12
import GotranxProofs.Properties.C01
/-!
# The generators of the `Impl` layer produce programs that pass the validators

`Impl.genRhs m π ru` (the model of `CodeGenerator.rhs`: unpack, then define every sorted
assignment, storing after each derivative) passes `checkRhs` for **every** well-formed model,
every traversal order of the dependency sets and both settings of unused-variable removal;
likewise `Impl.genEuler` passes `checkScheme`.  The load-bearing step is the correctness of the
topological sort (`Kahn.staticOrder_correct`): every assignment is defined after everything it
mentions, whatever the dependency shape or nesting depth.
Together with `checkRhs_sound` this closes the loop on the model side: the generator of the
model computes the specification's derivatives in the slots `state_index` reports.
-/
namespace Gx
namespace GenValid
open Impl Kahn

/-! ## list lemmas -/

theorem wellScoped_congr (p : List Stmt) : ∀ (b₁ b₂ : List Name), (∀ x, x ∈ b₁ ↔ x ∈ b₂) →
    wellScoped b₁ p = wellScoped b₂ p := by
  induction p with
  | nil => intros; rfl
  | cons st rest ih =>
    intro b₁ b₂ h
    have hc : ∀ x, b₁.contains x = b₂.contains x := by
      intro x
      by_cases hx : x ∈ b₁
      · simp [hx, (h x).mp hx]
      · have : x ∉ b₂ := fun h' => hx ((h x).mpr h')
        simp [hx, this]
    have hall : ∀ e : Expr, (fv e).all b₁.contains = (fv e).all b₂.contains := by
      intro e; congr 1; funext x; exact hc x
    cases st with
    | unpack x a i =>
      simp only [wellScoped, hc x]
      rw [ih (x :: b₁) (x :: b₂) (by intro y; simp [h y])]
    | define x e =>
      simp only [wellScoped, hc x, hall e]
      rw [ih (x :: b₁) (x :: b₂) (by intro y; simp [h y])]
    | store i e =>
      simp only [wellScoped, hall e]
      rw [ih b₁ b₂ h]

theorem wellScoped_append (p q : List Stmt) : ∀ (bound : List Name),
    wellScoped bound (p ++ q) = (wellScoped bound p && wellScoped ((bindsOf p).reverse ++ bound) q) := by
  induction p with
  | nil => intro bound; simp [wellScoped, bindsOf]
  | cons st rest ih =>
    intro bound
    cases st with
    | unpack x a i =>
      simp only [List.cons_append, wellScoped, bindsOf, ih, Bool.and_assoc]
      rw [wellScoped_congr q ((bindsOf rest).reverse ++ x :: bound) ((x :: bindsOf rest).reverse ++ bound)
        (by intro y; simp only [List.mem_append, List.mem_reverse, List.mem_cons]; grind)]
    | define x e =>
      simp only [List.cons_append, wellScoped, bindsOf, ih, Bool.and_assoc]
      rw [wellScoped_congr q ((bindsOf rest).reverse ++ x :: bound) ((x :: bindsOf rest).reverse ++ bound)
        (by intro y; simp only [List.mem_append, List.mem_reverse, List.mem_cons]; grind)]
    | store i e =>
      simp only [List.cons_append, wellScoped, bindsOf, ih, Bool.and_assoc]

theorem mem_enumFrom {β} (l : List β) (n i : Nat) (x : β) (h : (i, x) ∈ enumFrom n l) :
    n ≤ i ∧ l[i - n]? = some x := by
  induction l generalizing n with
  | nil => simp [enumFrom] at h
  | cons y rest ih =>
    simp only [enumFrom, List.mem_cons, Prod.mk.injEq] at h
    rcases h with ⟨rfl, rfl⟩ | h
    · simp
    · obtain ⟨h1, h2⟩ := ih (n + 1) h
      refine ⟨by omega, ?_⟩
      have : i - n = (i - (n + 1)) + 1 := by omega
      rw [this]; simpa using h2

theorem enumFrom_snd {β} (l : List β) (n : Nat) : (enumFrom n l).map (·.2) = l := by
  induction l generalizing n with
  | nil => rfl
  | cons y rest ih => simp [enumFrom, ih]

/-- in a duplicate-free list the position of an element is unique -/
theorem split_unique {β} (l a a' b b' : List β) (x : β) (hnd : l.Nodup)
    (h1 : l = a ++ x :: b) (h2 : l = a' ++ x :: b') : a = a' := by
  subst h1
  induction a generalizing a' with
  | nil =>
    cases a' with
    | nil => rfl
    | cons y ys =>
      simp only [List.nil_append, List.cons_append, List.cons.injEq] at h2
      obtain ⟨rfl, hb⟩ := h2
      have : x ∈ b := by rw [hb]; simp
      simp only [List.nil_append, List.nodup_cons] at hnd
      exact absurd this hnd.1
  | cons z zs ih =>
    cases a' with
    | nil =>
      simp only [List.nil_append, List.cons_append, List.cons.injEq] at h2
      obtain ⟨rfl, hb⟩ := h2
      have hmem : z ∈ zs ++ z :: b := by simp
      simp only [List.cons_append, List.nodup_cons] at hnd
      exact absurd hmem hnd.1
    | cons y ys =>
      simp only [List.cons_append, List.cons.injEq] at h2
      obtain ⟨rfl, h2⟩ := h2
      simp only [List.cons_append, List.nodup_cons] at hnd
      rw [ih ys hnd.2 h2]

/-- filtering keeps the relative order of the elements that are kept -/
theorem before_filter (l : List Name) (keep : Name → Bool) (p n : Name) (h : Before l p n)
    (hp : keep p = true) (hn : keep n = true) : Before (l.filter keep) p n := by
  obtain ⟨pre, post, rfl, hmem⟩ := h
  exact ⟨pre.filter keep, post.filter keep, by simp [List.filter_append, hn],
    List.mem_filter.mpr ⟨hmem, hp⟩⟩

/-! ## the body shared by `rhs` and the schemes -/

theorem lookup_of_mem_nodup {β} (l : List (Name × β)) (x : Name) (v : β)
    (hnd : (l.map (·.1)).Nodup) (h : (x, v) ∈ l) : lookup l x = some v := by
  induction l with
  | nil => simp at h
  | cons a rest ih =>
    obtain ⟨y, w⟩ := a
    simp only [List.map_cons, List.nodup_cons] at hnd
    simp only [List.mem_cons, Prod.mk.injEq] at h
    rcases h with ⟨rfl, rfl⟩ | h
    · simp [lookup]
    · have hne : y ≠ x := by
        intro hh; subst hh
        exact hnd.1 (List.mem_map.mpr ⟨(y, v), h, rfl⟩)
      simp only [lookup, hne, if_false]
      exact ih hnd.2 h

/-- the body binds exactly the names it is given (when each has a definition and `mk` adds no helper) -/
theorem body_structure (m : Model) (L : Layout) (mk : Name → Name → Expr → List Stmt × Expr) :
    ∀ (names : List Name), (∀ x ∈ names, (m.rhsOf x).isSome) →
    (∀ x ∈ names, ∀ s e, m.stateOfDeriv x = some s → m.rhsOf x = some e → (mk s x e).1 = []) →
    bindsOf (bodySlots m L mk names) = names ∧
    unpacks (bodySlots m L mk names) = [] ∧
    (∀ d ∈ defines (bodySlots m L mk names), m.rhsOf d.1 = some d.2) ∧
    storeSlots (bodySlots m L mk names) =
      (names.filterMap m.stateOfDeriv).map (fun s => (slotOf L.state s).getD 0) ∧
    (∀ st ∈ stores (bodySlots m L mk names), ∃ x s e, x ∈ names ∧ m.stateOfDeriv x = some s ∧ m.rhsOf x = some e ∧
        st = ((slotOf L.state s).getD 0, (mk s x e).2)) := by
  intro names
  induction names with
  | nil => intro _ _; simp [bodySlots, bindsOf, unpacks, defines, storeSlots, stores]
  | cons x rest ih =>
    intro hdef hmk
    obtain ⟨e, he⟩ := Option.isSome_iff_exists.mp (hdef x (by simp))
    obtain ⟨ih1, ih2, ih3, ih4, ih5⟩ := ih (fun y hy => hdef y (by simp [hy]))
      (fun y hy => hmk y (by simp [hy]))
    cases hs : m.stateOfDeriv x with
    | none =>
      simp only [bodySlots, he, hs, bindsOf, unpacks, defines, storeSlots, stores, List.filterMap_cons]
      refine ⟨by rw [ih1], ih2, ?_, ih4, ?_⟩
      · intro d hd
        simp only [List.mem_cons] at hd
        rcases hd with rfl | hd
        · exact he
        · exact ih3 d hd
      · intro st hst
        obtain ⟨y, s, e', hy, h1, h2, h3⟩ := ih5 st hst
        exact ⟨y, s, e', by simp [hy], h1, h2, h3⟩
    | some s =>
      have hpre := hmk x (by simp) s e hs he
      have hbody : bodySlots m L mk (x :: rest) =
          .define x e :: .store ((slotOf L.state s).getD 0) (mk s x e).2 :: bodySlots m L mk rest := by
        simp only [bodySlots, he, hs]
        rw [hpre]; rfl
      rw [hbody]
      simp only [bindsOf, unpacks, defines, storeSlots, stores, List.filterMap_cons, hs, List.map_cons]
      refine ⟨by rw [ih1], ih2, ?_, by rw [ih4], ?_⟩
      · intro d hd
        simp only [List.mem_cons] at hd
        rcases hd with rfl | hd
        · exact he
        · exact ih3 d hd
      · intro st hst
        simp only [List.mem_cons] at hst
        rcases hst with rfl | hst
        · exact ⟨x, s, e, by simp, hs, he, rfl⟩
        · obtain ⟨y, s', e', hy, h1, h2, h3⟩ := ih5 st hst
          exact ⟨y, s', e', by simp [hy], h1, h2, h3⟩

/-- **definition before use**: the body is well scoped when every name is new, and everything an
assignment (and the store after a derivative) mentions is bound on entry or defined earlier -/
theorem body_ws (m : Model) (L : Layout) (mk : Name → Name → Expr → List Stmt × Expr) :
    ∀ (names bound : List Name), names.Nodup → (∀ x ∈ names, x ∉ bound) →
    (∀ x ∈ names, (m.rhsOf x).isSome) →
    (∀ pre x post, names = pre ++ x :: post → ∀ e, m.rhsOf x = some e → ∀ y ∈ fv e, y ∈ bound ∨ y ∈ pre) →
    (∀ x ∈ names, ∀ s e, m.stateOfDeriv x = some s → m.rhsOf x = some e →
        (mk s x e).1 = [] ∧ ∀ y ∈ fv (mk s x e).2, y = x ∨ y ∈ bound) →
    wellScoped bound (bodySlots m L mk names) = true := by
  intro names
  induction names with
  | nil => intros; simp [bodySlots, wellScoped]
  | cons x rest ih =>
    intro bound hnd hnew hdef hdeps hmk
    obtain ⟨e, he⟩ := Option.isSome_iff_exists.mp (hdef x (by simp))
    have hxb : x ∉ bound := hnew x (by simp)
    have hfv : ∀ y ∈ fv e, y ∈ bound := by
      intro y hy
      rcases hdeps [] x rest rfl e he y hy with h | h
      · exact h
      · simp at h
    simp only [List.nodup_cons] at hnd
    have hrest : wellScoped (x :: bound) (bodySlots m L mk rest) = true := by
      apply ih (x :: bound) hnd.2
      · intro y hy hmem
        simp only [List.mem_cons] at hmem
        rcases hmem with rfl | hmem
        · exact hnd.1 hy
        · exact hnew y (by simp [hy]) hmem
      · intro y hy; exact hdef y (by simp [hy])
      · intro pre z post hsplit e' he' y hy
        rcases hdeps (x :: pre) z post (by rw [hsplit]; rfl) e' he' y hy with h | h
        · exact Or.inl (by simp [h])
        · simp only [List.mem_cons] at h
          rcases h with rfl | h
          · exact Or.inl (by simp)
          · exact Or.inr h
      · intro y hy s e' hs' he'
        obtain ⟨h1, h2⟩ := hmk y (by simp [hy]) s e' hs' he'
        refine ⟨h1, fun z hz => ?_⟩
        rcases h2 z hz with h | h
        · exact Or.inl h
        · exact Or.inr (by simp [h])
    have hall : (fv e).all bound.contains = true := by
      simp only [List.all_eq_true, List.contains_eq_mem, decide_eq_true_eq]; exact hfv
    have hnc : bound.contains x = false := by simpa using hxb
    cases hs : m.stateOfDeriv x with
    | none =>
      simp only [bodySlots, he, hs, wellScoped, hnc, hall, hrest, Bool.not_false, Bool.and_self]
    | some s =>
      obtain ⟨hpre, hst⟩ := hmk x (by simp) s e hs he
      have hbody : bodySlots m L mk (x :: rest) =
          .define x e :: .store ((slotOf L.state s).getD 0) (mk s x e).2 :: bodySlots m L mk rest := by
        simp only [bodySlots, he, hs]
        rw [hpre]; rfl
      rw [hbody]
      have hall2 : (fv (mk s x e).2).all (x :: bound).contains = true := by
        simp only [List.all_eq_true, List.contains_eq_mem, decide_eq_true_eq, List.mem_cons]
        intro y hy
        rcases hst y hy with h | h
        · exact Or.inl h
        · exact Or.inr h
      simp only [wellScoped, hnc, hall, hall2, hrest, Bool.not_false, Bool.and_self]

/-! ## what the sort guarantees -/

/-- the assignments that reach the sorter -/
def keptAssigns (m : Model) (ru : Bool) : List (Name × Expr) :=
  (if ru then m.inters.filter fun a => (mentioned m).contains a.1 else m.inters) ++
    m.derivs.map fun d => (d.1, d.2.2)

theorem keptAssigns_sub (m : Model) (ru : Bool) : ∀ a ∈ keptAssigns m ru, a ∈ m.assigns := by
  intro a ha
  unfold keptAssigns at ha
  unfold Model.assigns
  rcases List.mem_append.mp ha with h | h
  · cases ru
    · exact List.mem_append.mpr (Or.inl h)
    · simp only [if_true, List.mem_filter] at h
      exact List.mem_append.mpr (Or.inl h.1)
  · exact List.mem_append.mpr (Or.inr h)

theorem keptAssigns_sublist (m : Model) (ru : Bool) : (keptAssigns m ru).Sublist m.assigns := by
  unfold keptAssigns Model.assigns
  apply List.Sublist.append _ (List.Sublist.refl _)
  cases ru
  · exact List.Sublist.refl _
  · exact List.filter_sublist

theorem mem_sortNames (l : List Name) (x : Name) : x ∈ sortNames l ↔ x ∈ l :=
  (sortByName_perm id l).mem_iff

theorem sorted_facts (m : Model) (π : DepOrder) (ru : Bool) (order : List Name)
    (hnd : m.assignNames.Nodup) (hπ : ∀ a ∈ m.assigns, ∀ y ∈ fv a.2, y ∈ π a.1 a.2)
    (h : sortedAssignments m π ru = some order) :
    order.Nodup ∧ (∀ x, x ∈ order ↔ x ∈ (keptAssigns m ru).map (·.1)) ∧
    (∀ x e y, x ∈ order → m.rhsOf x = some e → y ∈ fv e → y ∈ (keptAssigns m ru).map (·.1) →
      Before order y x) := by
  have heq : sortedAssignments m π ru =
      sortAssignments ((keptAssigns m ru).map fun a => (a.1, sortNames (π a.1 a.2))) := rfl
  rw [heq] at h
  unfold sortAssignments at h
  cases hso : staticOrder ((keptAssigns m ru).map fun a => (a.1, sortNames (π a.1 a.2))) with
  | none => simp [hso] at h
  | some full =>
    simp only [hso, Option.map_some, Option.some.injEq] at h
    obtain ⟨hfnd, hfmem, hfbef⟩ := staticOrder_correct _ full hso
    have hkeep : ∀ n, (List.any ((keptAssigns m ru).map fun a => (a.1, sortNames (π a.1 a.2))) fun x => x.1 == n) = true ↔
        n ∈ (keptAssigns m ru).map (·.1) := by
      intro n
      simp only [List.any_map, List.any_eq_true, Function.comp, beq_iff_eq, List.mem_map]
    subst h
    refine ⟨hfnd.sublist List.filter_sublist, ?_, ?_⟩
    · intro x
      rw [List.mem_filter, hkeep x]
      constructor
      · exact fun hx => hx.2
      · intro hx
        refine ⟨?_, hx⟩
        rw [hfmem x, mem_nodesOf]
        obtain ⟨a, ha, rfl⟩ := List.mem_map.mp hx
        exact ⟨(a.1, sortNames (π a.1 a.2)), List.mem_map.mpr ⟨a, ha, rfl⟩, Or.inl rfl⟩
    · intro x e y hx he hy hyk
      have hxk : x ∈ (keptAssigns m ru).map (·.1) := by
        rw [List.mem_filter, hkeep x] at hx; exact hx.2
      obtain ⟨a, ha, hax⟩ := List.mem_map.mp hxk
      have hamem := keptAssigns_sub m ru a ha
      -- the entry of `x` among the assignments is `(x, e)`
      have hae : a = (x, e) := by
        have h1 : lookup m.assigns a.1 = some a.2 :=
          lookup_of_mem_nodup m.assigns a.1 a.2 hnd (by cases a; exact hamem)
        have h2 : m.rhsOf x = some a.2 := by rw [← hax]; exact h1
        rw [he] at h2
        cases a; simp only at hax h2 ⊢
        rw [hax, ← Option.some.inj h2]
      subst hae
      have hdep : y ∈ sortNames (π x e) := (mem_sortNames _ y).mpr (hπ (x, e) hamem y hy)
      have hb := hfbef (x, sortNames (π x e)) (List.mem_map.mpr ⟨(x, e), ha, rfl⟩) y hdep
      exact before_filter full _ y x hb ((hkeep y).mpr hyk) ((hkeep x).mpr hxk)

/-! ## the unpacking blocks and the slots -/

theorem allDistinct_iff (l : List Name) : allDistinct l = true ↔ l.Nodup := by
  induction l with
  | nil => simp [allDistinct]
  | cons x rest ih =>
    simp only [allDistinct, Bool.and_eq_true, Bool.not_eq_true', List.nodup_cons, ih]
    constructor
    · rintro ⟨h1, h2⟩; exact ⟨by simpa using h1, h2⟩
    · rintro ⟨h1, h2⟩; exact ⟨by simpa using h1, h2⟩

/-- a block `x = arr[i]` for the kept names of `l` (slots counted from `n`) -/
def unpackBlock (arr : Arr) (keep : Name → Bool) (n : Nat) (l : List Name) : List Stmt :=
  (enumFrom n l).filterMap fun (i, s) => if keep s then some (.unpack s arr i) else none

theorem unpackBlock_facts (arr : Arr) (keep : Name → Bool) : ∀ (l : List Name) (n : Nat),
    bindsOf (unpackBlock arr keep n l) = l.filter keep ∧
    defines (unpackBlock arr keep n l) = [] ∧ stores (unpackBlock arr keep n l) = [] ∧
    storeSlots (unpackBlock arr keep n l) = [] ∧
    (∀ u ∈ unpacks (unpackBlock arr keep n l), u.2.1 = arr ∧ n ≤ u.2.2 ∧ l[u.2.2 - n]? = some u.1) ∧
    (∀ bound, l.Nodup → (∀ x ∈ l, x ∉ bound) → wellScoped bound (unpackBlock arr keep n l) = true) := by
  intro l
  induction l with
  | nil => intro n; simp [unpackBlock, enumFrom, bindsOf, defines, stores, storeSlots, unpacks, wellScoped]
  | cons x rest ih =>
    intro n
    obtain ⟨h1, h2, h3, h4, h5, h6⟩ := ih (n + 1)
    by_cases hk : keep x = true
    · have hb : unpackBlock arr keep n (x :: rest) = .unpack x arr n :: unpackBlock arr keep (n + 1) rest := by
        simp [unpackBlock, enumFrom, hk]
      rw [hb]
      refine ⟨by simp [bindsOf, h1, hk], by simp [defines, h2], by simp [stores, h3], by simp [storeSlots, h4], ?_, ?_⟩
      · intro u hu
        simp only [unpacks, List.mem_cons] at hu
        rcases hu with rfl | hu
        · simp
        · obtain ⟨a, b, c⟩ := h5 u hu
          refine ⟨a, by omega, ?_⟩
          have : u.2.2 - n = (u.2.2 - (n + 1)) + 1 := by omega
          rw [this]; simpa using c
      · intro bound hnd hnew
        simp only [List.nodup_cons] at hnd
        have hxb : bound.contains x = false := by simpa using hnew x (by simp)
        simp only [wellScoped, hxb, Bool.not_false, Bool.true_and]
        apply h6 (x :: bound) hnd.2
        intro y hy hmem
        simp only [List.mem_cons] at hmem
        rcases hmem with rfl | hmem
        · exact hnd.1 hy
        · exact hnew y (by simp [hy]) hmem
    · have hb : unpackBlock arr keep n (x :: rest) = unpackBlock arr keep (n + 1) rest := by
        simp [unpackBlock, enumFrom, hk]
      rw [hb]
      refine ⟨by simp [h1, hk], h2, h3, h4, ?_, ?_⟩
      · intro u hu
        obtain ⟨a, b, c⟩ := h5 u hu
        refine ⟨a, by omega, ?_⟩
        have : u.2.2 - n = (u.2.2 - (n + 1)) + 1 := by omega
        rw [this]; simpa using c
      · intro bound hnd hnew
        simp only [List.nodup_cons] at hnd
        exact h6 bound hnd.2 (fun y hy => hnew y (by simp [hy]))

theorem slotOf_some_of_mem (l : List Name) (x : Name) (h : x ∈ l) : ∃ i, slotOf l x = some i := by
  induction l with
  | nil => simp at h
  | cons y rest ih =>
    by_cases hy : y = x
    · exact ⟨0, by simp [slotOf, hy]⟩
    · simp only [List.mem_cons] at h
      rcases h with rfl | h
      · exact absurd rfl hy
      · obtain ⟨i, hi⟩ := ih h
        exact ⟨i + 1, by simp [slotOf, hy, hi]⟩

/-- the index function of a duplicate-free list numbers its elements `0, 1, 2, …` -/
theorem slot_map_self (l : List Name) (hnd : l.Nodup) :
    l.map (fun s => (slotOf l s).getD 0) = List.range l.length := by
  induction l with
  | nil => rfl
  | cons y rest ih =>
    simp only [List.nodup_cons] at hnd
    rw [List.map_cons, List.length_cons, List.range_succ_eq_map]
    congr 1
    · simp [slotOf]
    · rw [← ih hnd.2, List.map_map]
      apply List.map_congr_left
      intro x hx
      have hne : y ≠ x := fun h => hnd.1 (h ▸ hx)
      obtain ⟨i, hi⟩ := slotOf_some_of_mem rest x hx
      simp [slotOf, hne, hi]

/-- a permutation of the index list hits every slot exactly once -/
theorem slotsExact_of_perm (n : Nat) (p : List Stmt) (h : (storeSlots p).Perm (List.range n)) :
    slotsExact n p = true := by
  unfold slotsExact
  simp only [Bool.and_eq_true, List.all_eq_true, decide_eq_true_eq, beq_iff_eq]
  refine ⟨fun i hi => ?_, fun i hi => ?_⟩
  · have := h.mem_iff.mp hi; simpa using this
  · rw [h.count_eq i]
    have hnd : (List.range n).Nodup := List.nodup_range
    rw [hnd.count]
    simp [hi]

/-! ## well-formed models (what the loader guarantees) -/

structure ModelWF (m : Model) : Prop where
  assigns_nodup : m.assignNames.Nodup
  states_nodup : m.stateNames.Nodup
  params_nodup : m.paramNames.Nodup
  sp : ∀ x ∈ m.stateNames, x ∉ m.paramNames
  sa : ∀ x ∈ m.stateNames, x ∉ m.assignNames
  pa : ∀ x ∈ m.paramNames, x ∉ m.assignNames
  time : ∀ x ∈ timeNames, x ∉ m.stateNames ∧ x ∉ m.paramNames ∧ x ∉ m.assignNames
  /-- every state has exactly one derivative -/
  derivs : (m.derivs.map (·.2.1)).Perm m.stateNames

theorem assignNames_eq (m : Model) : m.assignNames = m.inters.map (·.1) ++ m.derivs.map (·.1) := by
  simp [Model.assignNames, Model.assigns, List.map_append, List.map_map, Function.comp_def]

theorem rhsOf_isSome_of_mem (m : Model) (x : Name) (h : x ∈ m.assignNames) : (m.rhsOf x).isSome := by
  unfold Model.assignNames at h
  obtain ⟨a, ha, rfl⟩ := List.mem_map.mp h
  unfold Model.rhsOf
  generalize m.assigns = l at ha
  induction l with
  | nil => simp at ha
  | cons b rest ih =>
    obtain ⟨y, w⟩ := b
    by_cases hy : y = a.1
    · simp [lookup, hy]
    · simp only [lookup, hy, if_false]
      simp only [List.mem_cons] at ha
      rcases ha with rfl | ha
      · exact absurd rfl hy
      · exact ih ha

theorem mem_of_rhsOf (m : Model) (x : Name) (e : Expr) (h : m.rhsOf x = some e) : x ∈ m.assignNames :=
  List.mem_map.mpr ⟨(x, e), lookup_mem _ _ _ h, rfl⟩

/-- `stateOfDeriv` on the names of the assignments: `none` on intermediates, the state on derivatives -/
theorem stateOfDeriv_facts (m : Model) (hnd : m.assignNames.Nodup) :
    (∀ a ∈ m.inters, m.stateOfDeriv a.1 = none) ∧
    (∀ d ∈ m.derivs, m.stateOfDeriv d.1 = some d.2.1) ∧
    (∀ x s, m.stateOfDeriv x = some s → ∃ d ∈ m.derivs, d.1 = x ∧ d.2.1 = s) := by
  rw [assignNames_eq] at hnd
  have hnd' := List.nodup_append.mp hnd
  have hd : ((m.derivs.map fun x => (x.1, x.2.1)).map (·.1)).Nodup := by
    simpa [List.map_map, Function.comp_def] using hnd'.2.1
  refine ⟨?_, ?_, ?_⟩
  · intro a ha
    cases h : m.stateOfDeriv a.1 with
    | none => rfl
    | some s =>
      have := lookup_mem _ _ _ h
      obtain ⟨d, hdm, hde⟩ := List.mem_map.mp this
      simp only [Prod.mk.injEq] at hde
      exact absurd hde.1 (fun hh => hnd'.2.2 a.1 (List.mem_map.mpr ⟨a, ha, rfl⟩) d.1 (List.mem_map.mpr ⟨d, hdm, rfl⟩) hh.symm)
  · intro d hdm
    exact lookup_of_mem_nodup _ d.1 d.2.1 hd (List.mem_map.mpr ⟨d, hdm, rfl⟩)
  · intro x s h
    have := lookup_mem _ _ _ h
    obtain ⟨d, hdm, hde⟩ := List.mem_map.mp this
    simp only [Prod.mk.injEq] at hde
    exact ⟨d, hdm, hde.1, hde.2⟩

/-- the states of the derivatives, read off any duplicate-free enumeration of the kept assignments,
are a permutation of the declared states -/
theorem states_of_order (m : Model) (hwf : ModelWF m) (ru : Bool) (order : List Name)
    (hnd : order.Nodup) (hmem : ∀ x, x ∈ order ↔ x ∈ (keptAssigns m ru).map (·.1)) :
    (order.filterMap m.stateOfDeriv).Perm m.stateNames := by
  have hkn : ((keptAssigns m ru).map (·.1)).Nodup := by
    have := (keptAssigns_sublist m ru).map (·.1)
    exact hwf.assigns_nodup.sublist this
  have hperm : order.Perm ((keptAssigns m ru).map (·.1)) := (List.perm_ext_iff_of_nodup hnd hkn).mpr hmem
  refine (hperm.filterMap m.stateOfDeriv).trans ?_
  obtain ⟨f1, f2, _⟩ := stateOfDeriv_facts m hwf.assigns_nodup
  unfold keptAssigns
  rw [List.map_append, List.filterMap_append]
  have h1 : List.filterMap m.stateOfDeriv (List.map (·.1)
      (if ru = true then List.filter (fun a => (mentioned m).contains a.1) m.inters else m.inters)) = [] := by
    rw [List.filterMap_eq_nil_iff]
    intro x hx
    obtain ⟨a, ha, rfl⟩ := List.mem_map.mp hx
    apply f1 a
    cases ru
    · exact ha
    · simp only [if_true, List.mem_filter] at ha; exact ha.1
  have h2 : List.filterMap m.stateOfDeriv (List.map (·.1) (List.map (fun d => (d.1, d.2.2)) m.derivs)) =
      m.derivs.map (·.2.1) := by
    rw [List.map_map, List.filterMap_map]
    have : ∀ l : List (Name × Name × Expr), (∀ d ∈ l, m.stateOfDeriv d.1 = some d.2.1) →
        List.filterMap (m.stateOfDeriv ∘ (fun x => x.1) ∘ fun d => (d.1, d.2.2)) l = l.map (·.2.1) := by
      intro l
      induction l with
      | nil => intro _; rfl
      | cons d rest ih =>
        intro h
        simp only [List.filterMap_cons, Function.comp, h d (by simp), List.map_cons]
        rw [← ih (fun d' hd' => h d' (by simp [hd']))]
    exact this m.derivs f2
  rw [h1, h2, List.nil_append]
  exact hwf.derivs

/-- every name an assignment mentions is bound when the body starts, or is a kept assignment -/
theorem mentioned_cases (m : Model) (ru : Bool) (x : Name) (e : Expr) (y : Name)
    (hxe : (x, e) ∈ m.assigns) (hy : y ∈ fv e) :
    y ∈ timeNames ∨ (y ∈ m.stateNames ∧ (mentioned m).contains y = true) ∨
    (y ∈ m.paramNames ∧ (mentioned m).contains y = true) ∨ y ∈ missingVariables m ∨
    y ∈ (keptAssigns m ru).map (·.1) := by
  have hment : y ∈ mentioned m := C12.mentioned_complete m y (x, e) hxe hy
  have hc : (mentioned m).contains y = true := by simpa using hment
  by_cases h1 : y ∈ timeNames
  · exact Or.inl h1
  by_cases h2 : y ∈ m.stateNames
  · exact Or.inr (Or.inl ⟨h2, hc⟩)
  by_cases h3 : y ∈ m.paramNames
  · exact Or.inr (Or.inr (Or.inl ⟨h3, hc⟩))
  by_cases h4 : y ∈ m.assignNames
  · refine Or.inr (Or.inr (Or.inr (Or.inr ?_)))
    rw [assignNames_eq] at h4
    unfold keptAssigns
    rw [List.map_append, List.mem_append]
    rcases List.mem_append.mp h4 with h | h
    · left
      obtain ⟨a, ha, rfl⟩ := List.mem_map.mp h
      cases ru
      · exact List.mem_map.mpr ⟨a, ha, rfl⟩
      · exact List.mem_map.mpr ⟨a, by simp only [if_true, List.mem_filter]; exact ⟨ha, hc⟩, rfl⟩
    · right
      obtain ⟨d, hd, rfl⟩ := List.mem_map.mp h
      exact List.mem_map.mpr ⟨(d.1, d.2.2), List.mem_map.mpr ⟨d, hd, rfl⟩, rfl⟩
  · refine Or.inr (Or.inr (Or.inr (Or.inl ?_)))
    unfold missingVariables
    rw [mem_sortNames, List.mem_filter]
    refine ⟨hment, ?_⟩
    simp only [Bool.not_eq_true', List.contains_eq_mem, List.mem_append, decide_eq_false_iff_not]
    intro h
    rcases h with ((h | h) | h) | h
    · exact h2 h
    · exact h3 h
    · exact h4 h
    · exact h1 h

/-! ## assembling the program -/

theorem bindsOf_append (p q : List Stmt) : bindsOf (p ++ q) = bindsOf p ++ bindsOf q := by
  induction p with
  | nil => rfl
  | cons st rest ih => cases st <;> simp [bindsOf, ih]

theorem unpacks_append (p q : List Stmt) : unpacks (p ++ q) = unpacks p ++ unpacks q := by
  induction p with
  | nil => rfl
  | cons st rest ih => cases st <;> simp [unpacks, ih]

theorem defines_append (p q : List Stmt) : defines (p ++ q) = defines p ++ defines q := by
  induction p with
  | nil => rfl
  | cons st rest ih => cases st <;> simp [defines, ih]

theorem stores_append (p q : List Stmt) : stores (p ++ q) = stores p ++ stores q := by
  induction p with
  | nil => rfl
  | cons st rest ih => cases st <;> simp [stores, ih]

theorem storeSlots_append (p q : List Stmt) : storeSlots (p ++ q) = storeSlots p ++ storeSlots q := by
  induction p with
  | nil => rfl
  | cons st rest ih => cases st <;> simp [storeSlots, ih]

theorem dedup_nodup (l : List Name) : (dedup l).Nodup := by
  unfold dedup
  have key : ∀ (l acc : List Name), acc.Nodup →
      (l.foldl (fun acc x => if acc.contains x then acc else acc ++ [x]) acc).Nodup := by
    intro l
    induction l with
    | nil => intro acc h; exact h
    | cons x rest ih =>
      intro acc h
      simp only [List.foldl_cons]
      apply ih
      by_cases hc : x ∈ acc
      · simp [hc, h]
      · simp only [List.contains_eq_mem, hc, decide_false, Bool.false_eq_true, if_false]
        refine List.nodup_append.mpr ⟨h, by simp, ?_⟩
        intro a ha b hb hab
        simp only [List.mem_singleton] at hb
        subst hb; subst hab; exact hc ha
  exact key l [] List.nodup_nil

theorem missing_nodup (m : Model) : (missingVariables m).Nodup := by
  unfold missingVariables
  exact (sortByName_perm id _).nodup_iff.mpr ((dedup_nodup _).sublist List.filter_sublist)

theorem missing_not_known (m : Model) (x : Name) (h : x ∈ missingVariables m) :
    x ∉ m.stateNames ∧ x ∉ m.paramNames ∧ x ∉ m.assignNames ∧ x ∉ timeNames := by
  unfold missingVariables at h
  rw [mem_sortNames, List.mem_filter] at h
  have := h.2
  simp only [Bool.not_eq_true', List.contains_eq_mem, List.mem_append, decide_eq_false_iff_not, not_or] at this
  exact ⟨this.1.1.1, this.1.1.2, this.1.2, this.2⟩

theorem unpackStates_eq (L : Layout) (keep : Name → Bool) : unpackStates L keep = unpackBlock .states keep 0 L.state := rfl
theorem unpackParams_eq (L : Layout) (keep : Name → Bool) : unpackParams L keep = unpackBlock .params keep 0 L.param := rfl
theorem unpackMissing_eq (L : Layout) : unpackMissing L = unpackBlock .missing (fun _ => true) 0 L.missing := by
  unfold unpackMissing unpackBlock
  generalize enumFrom 0 L.missing = l
  induction l with
  | nil => rfl
  | cons a rest ih =>
    obtain ⟨i, s⟩ := a
    show Stmt.unpack s .missing i :: List.map _ rest = List.filterMap _ ((i, s) :: rest)
    rw [ih]
    rfl

/-- the layout the index functions report, spelled out -/
theorem layout_fields (m : Model) (π : DepOrder) (L : Layout) (h : layout m π = some L) :
    ∃ order0, sortedAssignments m π false = some order0 ∧ L.state = order0.filterMap m.stateOfDeriv ∧
      L.param = m.paramNames ∧ L.monitor = order0 ∧ L.missing = missingVariables m := by
  unfold layout sortedStates at h
  cases h0 : sortedAssignments m π false with
  | none => simp [h0] at h
  | some order0 =>
    rw [h0] at h
    have h' : some (Layout.mk (order0.filterMap m.stateOfDeriv) m.paramNames order0 (missingVariables m)) = some L := h
    cases h'
    exact ⟨order0, rfl, rfl, rfl, rfl, rfl⟩

/-- **Core.** The program "unpack states, parameters and missing values; then the sorted body" of a
well-formed model is well scoped, unpacks and defines what the layout and the model say, and stores
into every state slot exactly once — for every admissible store expression `mk`. -/
theorem gen_core (m : Model) (π : DepOrder) (ru : Bool) (L : Layout) (order init : List Name)
    (mk : Name → Name → Expr → List Stmt × Expr) (keepS keepP : Name → Bool)
    (hwf : ModelWF m) (hπ : ∀ a ∈ m.assigns, ∀ y ∈ fv a.2, y ∈ π a.1 a.2)
    (hL : layout m π = some L) (hord : sortedAssignments m π ru = some order)
    (hkS : ∀ y, (mentioned m).contains y = true → keepS y = true)
    (hkP : ∀ y, (mentioned m).contains y = true → keepP y = true)
    (htime : ∀ x ∈ timeNames, x ∈ init)
    (hinit : ∀ x ∈ init, x ∉ m.stateNames ∧ x ∉ m.paramNames ∧ x ∉ m.assignNames ∧ x ∉ missingVariables m)
    (hmk : ∀ x ∈ order, ∀ s e, m.stateOfDeriv x = some s → m.rhsOf x = some e →
      (mk s x e).1 = [] ∧ ∀ y ∈ fv (mk s x e).2, y = x ∨ y ∈ init ∨ (y = s ∧ keepS s = true)) :
    let p := unpackStates L keepS ++ unpackParams L keepP ++ unpackMissing L ++ bodySlots m L mk order
    wellScoped init p = true ∧ checkUnpacks L p = true ∧ checkDefines m [] p = true ∧
    slotsExact L.state.length p = true ∧
    (∀ st ∈ stores p, ∃ x s e, x ∈ order ∧ m.stateOfDeriv x = some s ∧ m.rhsOf x = some e ∧
        L.state[st.1]? = some s ∧ st.2 = (mk s x e).2) := by
  intro p
  obtain ⟨order0, hord0, hLs, hLp, _, hLm⟩ := layout_fields m π L hL
  obtain ⟨hnd0, hmem0, _⟩ := sorted_facts m π false order0 hwf.assigns_nodup hπ hord0
  obtain ⟨hnd, hmem, hbef⟩ := sorted_facts m π ru order hwf.assigns_nodup hπ hord
  have hSperm : L.state.Perm m.stateNames := by rw [hLs]; exact states_of_order m hwf false order0 hnd0 hmem0
  have hSnd : L.state.Nodup := hSperm.nodup_iff.mpr hwf.states_nodup
  have hSmem : ∀ x, x ∈ L.state ↔ x ∈ m.stateNames := fun x => hSperm.mem_iff
  have hordA : ∀ x ∈ order, x ∈ m.assignNames := by
    intro x hx
    obtain ⟨a, ha, rfl⟩ := List.mem_map.mp ((hmem x).mp hx)
    exact List.mem_map.mpr ⟨a, keptAssigns_sub m ru a ha, rfl⟩
  have hdef : ∀ x ∈ order, (m.rhsOf x).isSome := fun x hx => rhsOf_isSome_of_mem m x (hordA x hx)
  obtain ⟨uS1, uS2, uS3, uS4, uS5, uS6⟩ := unpackBlock_facts .states keepS L.state 0
  obtain ⟨uP1, uP2, uP3, uP4, uP5, uP6⟩ := unpackBlock_facts .params keepP L.param 0
  obtain ⟨uM1, uM2, uM3, uM4, uM5, uM6⟩ := unpackBlock_facts .missing (fun _ => true) L.missing 0
  obtain ⟨b1, b2, b3, b4, b5⟩ := body_structure m L mk order hdef (fun x hx s e hs he => (hmk x hx s e hs he).1)
  have hp : p = unpackBlock .states keepS 0 L.state ++ unpackBlock .params keepP 0 L.param ++
      unpackBlock .missing (fun _ => true) 0 L.missing ++ bodySlots m L mk order := by
    show unpackStates L keepS ++ unpackParams L keepP ++ unpackMissing L ++ bodySlots m L mk order = _
    rw [unpackStates_eq, unpackParams_eq, unpackMissing_eq]
  rw [hp]
  -- names bound when the body starts
  have hBmem : ∀ y, y ∈ (bindsOf (unpackBlock .states keepS 0 L.state ++ unpackBlock .params keepP 0 L.param ++
      unpackBlock .missing (fun _ => true) 0 L.missing)).reverse ++ init ↔
      (y ∈ m.stateNames ∧ keepS y = true) ∨ (y ∈ m.paramNames ∧ keepP y = true) ∨ y ∈ missingVariables m ∨ y ∈ init := by
    intro y
    rw [bindsOf_append, bindsOf_append, uS1, uP1, uM1, hLp, hLm]
    simp only [List.mem_append, List.mem_reverse, List.mem_filter, hSmem, and_true]
    constructor
    · rintro (((h | h) | h) | h)
      · exact Or.inl h
      · exact Or.inr (Or.inl h)
      · exact Or.inr (Or.inr (Or.inl h))
      · exact Or.inr (Or.inr (Or.inr h))
    · rintro (h | h | h | h)
      · exact Or.inl (Or.inl (Or.inl h))
      · exact Or.inl (Or.inl (Or.inr h))
      · exact Or.inl (Or.inr h)
      · exact Or.inr h
  refine ⟨?_, ?_, ?_, ?_, ?_⟩
  · -- well scoped
    rw [wellScoped_append, wellScoped_append, wellScoped_append]
    simp only [Bool.and_eq_true]
    refine ⟨⟨⟨?_, ?_⟩, ?_⟩, ?_⟩
    · exact uS6 init hSnd (fun x hx hi => (hinit x hi).1 ((hSmem x).mp hx))
    · apply uP6 _ (by rw [hLp]; exact hwf.params_nodup)
      intro x hx hmem'
      rw [hLp] at hx
      rw [uS1] at hmem'
      simp only [List.mem_append, List.mem_reverse, List.mem_filter] at hmem'
      rcases hmem' with h | h
      · exact hwf.sp x ((hSmem x).mp h.1) hx
      · exact (hinit x h).2.1 hx
    · apply uM6 _ (by rw [hLm]; exact missing_nodup m)
      intro x hx hmem'
      rw [hLm] at hx
      obtain ⟨n1, n2, _, n4⟩ := missing_not_known m x hx
      rw [bindsOf_append, uS1, uP1] at hmem'
      have hm2 : (x ∈ L.state ∧ keepS x = true) ∨ (x ∈ L.param ∧ keepP x = true) ∨ x ∈ init := by
        simp only [List.mem_append, List.mem_reverse, List.mem_filter] at hmem'
        rcases hmem' with (h | h) | h
        · first | exact Or.inl h | exact Or.inr (Or.inl h)
        · first | exact Or.inl h | exact Or.inr (Or.inl h)
        · exact Or.inr (Or.inr h)
      rcases hm2 with h | h | h
      · exact n1 ((hSmem x).mp h.1)
      · rw [hLp] at h; exact n2 h.1
      · exact (hinit x h).2.2.2 hx
    · apply body_ws m L mk order _ hnd
      · intro x hx hb
        have hxa := hordA x hx
        rcases (hBmem x).mp hb with h | h | h | h
        · exact hwf.sa x h.1 hxa
        · exact hwf.pa x h.1 hxa
        · exact (missing_not_known m x h).2.2.1 hxa
        · exact (hinit x h).2.2.1 hxa
      · exact hdef
      · intro pre x post hsplit e he y hy
        have hx : x ∈ order := by rw [hsplit]; simp
        have hxe : (x, e) ∈ m.assigns := lookup_mem _ _ _ he
        rcases mentioned_cases m ru x e y hxe hy with h | h | h | h | h
        · exact Or.inl ((hBmem y).mpr (Or.inr (Or.inr (Or.inr (htime y h)))))
        · exact Or.inl ((hBmem y).mpr (Or.inl ⟨h.1, hkS y h.2⟩))
        · exact Or.inl ((hBmem y).mpr (Or.inr (Or.inl ⟨h.1, hkP y h.2⟩)))
        · exact Or.inl ((hBmem y).mpr (Or.inr (Or.inr (Or.inl h))))
        · obtain ⟨pre', post', hs', hy'⟩ := hbef x e y hx he hy h
          have := split_unique order pre pre' post post' x hnd hsplit hs'
          exact Or.inr (this ▸ hy')
      · intro x hx s e hs he
        obtain ⟨h1, h2⟩ := hmk x hx s e hs he
        refine ⟨h1, fun y hy => ?_⟩
        rcases h2 y hy with h | h | ⟨rfl, hk⟩
        · exact Or.inl h
        · exact Or.inr ((hBmem y).mpr (Or.inr (Or.inr (Or.inr h))))
        · obtain ⟨d, hd, _, hds⟩ := (stateOfDeriv_facts m hwf.assigns_nodup).2.2 x y hs
          have : y ∈ m.stateNames := hwf.derivs.mem_iff.mp (List.mem_map.mpr ⟨d, hd, hds⟩)
          exact Or.inr ((hBmem y).mpr (Or.inl ⟨this, hk⟩))
  · -- unpacks
    unfold checkUnpacks
    rw [unpacks_append, unpacks_append, unpacks_append, b2, List.append_nil]
    simp only [List.all_append, Bool.and_eq_true, List.all_eq_true]
    refine ⟨⟨?_, ?_⟩, ?_⟩
    · intro u hu
      obtain ⟨h1, _, h3⟩ := uS5 u hu
      rw [h1]; simpa using h3
    · intro u hu
      obtain ⟨h1, _, h3⟩ := uP5 u hu
      rw [h1]; simpa using h3
    · intro u hu
      obtain ⟨h1, _, h3⟩ := uM5 u hu
      rw [h1]; simpa using h3
  · -- defines
    unfold checkDefines
    rw [defines_append, defines_append, defines_append, uS2, uP2, uM2]
    simp only [List.nil_append, List.all_eq_true, Bool.or_eq_true]
    intro d hd
    exact Or.inl (by rw [b3 d hd]; rfl)
  · -- every slot once
    apply slotsExact_of_perm
    rw [storeSlots_append, storeSlots_append, storeSlots_append, uS4, uP4, uM4, b4]
    simp only [List.nil_append]
    have hperm : (order.filterMap m.stateOfDeriv).Perm L.state :=
      (states_of_order m hwf ru order hnd hmem).trans hSperm.symm
    rw [← slot_map_self L.state hSnd]
    exact hperm.map _
  · -- the stores
    intro st hst
    rw [stores_append, stores_append, stores_append, uS3, uP3, uM3] at hst
    simp only [List.nil_append] at hst
    obtain ⟨x, s, e, hx, hs, he, rfl⟩ := b5 st hst
    refine ⟨x, s, e, hx, hs, he, ?_, rfl⟩
    obtain ⟨d, hd, _, hds⟩ := (stateOfDeriv_facts m hwf.assigns_nodup).2.2 x s hs
    have hsm : s ∈ L.state := (hSmem s).mpr (hwf.derivs.mem_iff.mp (List.mem_map.mpr ⟨d, hd, hds⟩))
    obtain ⟨i, hi⟩ := slotOf_some_of_mem L.state s hsm
    simp only [hi, Option.getD_some]
    exact (C04.slotOf_iff L.state ((allDistinct_iff _).mpr hSnd) s i).mp hi

/-! ## the theorems -/

theorem time_not_missing (m : Model) : ∀ x ∈ timeNames, x ∉ missingVariables m :=
  fun x hx hm => (missing_not_known m x hm).2.2.2 hx

/-- **`Impl.genRhs` always passes `checkRhs`.** For every well-formed model, every traversal order
of the dependency sets that covers the names each assignment mentions, with and without
unused-variable removal: whenever the sort succeeds (no cycle), the generated `rhs` program is
accepted by the validator — definitions before uses, every state slot written exactly once with
the derivative of the state that `state_index` maps to it. -/
theorem genRhs_valid (m : Model) (π : DepOrder) (ru : Bool) (L : Layout) (p : List Stmt)
    (hwf : ModelWF m) (hπ : ∀ a ∈ m.assigns, ∀ y ∈ fv a.2, y ∈ π a.1 a.2)
    (hL : layout m π = some L) (hp : genRhs m π ru = some p) : checkRhs m L p = true := by
  unfold genRhs at hp
  rw [hL] at hp
  cases hord : sortedAssignments m π ru with
  | none => simp [hord] at hp
  | some order =>
    simp only [hord, Option.bind_eq_bind, Option.bind_some, Option.pure_def, Option.some.injEq] at hp
    have hk : ∀ y, (mentioned m).contains y = true → (!ru || (mentioned m).contains y) = true := by
      intro y hy; rw [hy]; simp
    obtain ⟨h1, h2, h3, h4, h5⟩ := gen_core m π ru L order initBoundRhs (fun _ d _ => ([], .var d))
      (fun x => !ru || (mentioned m).contains x) (fun x => !ru || (mentioned m).contains x)
      hwf hπ hL hord hk hk (fun x hx => hx)
      (fun x hx => ⟨(hwf.time x hx).1, (hwf.time x hx).2.1, (hwf.time x hx).2.2, time_not_missing m x hx⟩)
      (fun x _ s e _ _ => ⟨rfl, fun y hy => Or.inl (by simpa [fv] using hy)⟩)
    subst hp
    unfold checkRhs
    simp only [Bool.and_eq_true, List.all_eq_true]
    refine ⟨⟨⟨⟨h1, h2⟩, h3⟩, h4⟩, ?_⟩
    intro st hst
    obtain ⟨x, s, e, _, hs, _, hslot, hexpr⟩ := h5 st hst
    rw [hexpr]
    simp only [hs, hslot, beq_self_eq_true]

/-- the generator emits the model's own expressions, so the expression-level interface assumption
is a theorem on the `Impl` layer -/
theorem genRhs_exprOK {α} (N : Num α) (m : Model) (π : DepOrder) (ru : Bool) (L : Layout) (p : List Stmt)
    (ρ : Env α) (hwf : ModelWF m) (hπ : ∀ a ∈ m.assigns, ∀ y ∈ fv a.2, y ∈ π a.1 a.2)
    (hL : layout m π = some L) (hp : genRhs m π ru = some p) : ExprOK N m ρ p := by
  unfold ExprOK
  intro d hd
  unfold genRhs at hp
  rw [hL] at hp
  cases hord : sortedAssignments m π ru with
  | none => simp [hord] at hp
  | some order =>
    simp only [hord, Option.bind_eq_bind, Option.bind_some, Option.pure_def, Option.some.injEq] at hp
    subst hp
    rw [defines_append, defines_append, defines_append, unpackStates_eq, unpackParams_eq, unpackMissing_eq,
      (unpackBlock_facts _ _ _ 0).2.1, (unpackBlock_facts _ _ _ 0).2.1, (unpackBlock_facts _ _ _ 0).2.1] at hd
    simp only [List.nil_append] at hd
    obtain ⟨hnd, hmem, _⟩ := sorted_facts m π ru order hwf.assigns_nodup hπ hord
    have hdef : ∀ x ∈ order, (m.rhsOf x).isSome := by
      intro x hx
      obtain ⟨a, ha, rfl⟩ := List.mem_map.mp ((hmem x).mp hx)
      exact rhsOf_isSome_of_mem m a.1 (List.mem_map.mpr ⟨a, keptAssigns_sub m ru a ha, rfl⟩)
    have := (body_structure m L (fun _ d _ => ([], .var d)) order hdef (fun _ _ _ _ _ _ => rfl)).2.2.1 d hd
    intro e he
    rw [this] at he
    cases he; rfl

/-- **… hence computes the specification.** The `rhs` program of the model's generator returns,
in slot `state_index X`, the value the equational specification gives to `dX_dt` — for every
well-formed acyclic model, input and interpretation of the primitives. -/
theorem genRhs_correct {α} (N : Num α) (m : Model) (π : DepOrder) (ru : Bool) (L : Layout) (p : List Stmt)
    (inp : Inputs α) (t : α) (ρ : Env α) (s' : St α)
    (hwf : ModelWF m) (hπ : ∀ a ∈ m.assigns, ∀ y ∈ fv a.2, y ∈ π a.1 a.2)
    (hL : layout m π = some L) (hp : genRhs m π ru = some p)
    (hsol : Solution N m L inp t ρ) (hx : exec N inp (initRhs t) p = some s') :
    ∀ i X, L.state[i]? = some X → ∃ d, m.stateOfDeriv d = some X ∧ (ρ d).isSome ∧ s'.result i = ρ d := by
  have hchk := genRhs_valid m π ru L p hwf hπ hL hp
  have hok : ExprOK N m ρ p := genRhs_exprOK N m π ru L p ρ hwf hπ hL hp
  exact checkRhs_sound N m L inp t ρ p s' hchk hsol hok hx

/-- **`Impl.genEuler` always passes `checkScheme`** (provided `dt` is not a model identifier, which
the code generator refuses). -/
theorem genEuler_valid (m : Model) (π : DepOrder) (ru : Bool) (L : Layout) (p : List Stmt)
    (hwf : ModelWF m) (hπ : ∀ a ∈ m.assigns, ∀ y ∈ fv a.2, y ∈ π a.1 a.2)
    (hdt : "dt" ∉ m.stateNames ∧ "dt" ∉ m.paramNames ∧ "dt" ∉ m.assignNames ∧ "dt" ∉ missingVariables m)
    (hL : layout m π = some L) (hp : genEuler m π ru = some p) : checkScheme m L p = true := by
  unfold genEuler at hp
  rw [hL] at hp
  cases hord : sortedAssignments m π ru with
  | none => simp [hord] at hp
  | some order =>
    simp only [hord, Option.bind_eq_bind, Option.bind_some, Option.pure_def, Option.some.injEq] at hp
    have hk : ∀ y, (mentioned m).contains y = true → (!ru || (mentioned m).contains y) = true := by
      intro y hy; rw [hy]; simp
    obtain ⟨h1, h2, h3, h4, _⟩ := gen_core m π ru L order initBoundScheme (fun s d _ => ([], eulerStore s d))
      (fun _ => true) (fun x => !ru || (mentioned m).contains x)
      hwf hπ hL hord (fun _ _ => rfl) hk (fun x hx => by simp [initBoundScheme, hx])
      (fun x hx => by
        simp only [initBoundScheme, List.mem_cons] at hx
        rcases hx with rfl | hx
        · exact hdt
        · exact ⟨(hwf.time x hx).1, (hwf.time x hx).2.1, (hwf.time x hx).2.2, time_not_missing m x hx⟩)
      (fun x _ s e _ _ => ⟨rfl, fun y hy => by
        simp only [eulerStore, fv, List.mem_append, List.mem_cons, List.not_mem_nil, or_false] at hy
        rcases hy with rfl | rfl | rfl
        · exact Or.inr (Or.inr ⟨rfl, rfl⟩)
        · exact Or.inr (Or.inl (by simp [initBoundScheme]))
        · exact Or.inl rfl⟩)
    subst hp
    unfold checkScheme
    simp only [Bool.and_eq_true]
    refine ⟨⟨⟨h1, h2⟩, ?_⟩, h4⟩
    -- checkDefines with the extra `_linearized` names is implied by the one without
    simp only [checkDefines, List.all_eq_true, Bool.or_eq_true] at h3 ⊢
    intro d hd
    rcases h3 d hd with h | h
    · exact Or.inl h
    · simp at h

/-- the executable check decides `ModelWF` (used by the driver on every loaded model) -/
theorem checkModelWF_sound (m : Model) (h : checkModelWF m = true) : ModelWF m := by
  simp only [checkModelWF, Bool.and_eq_true, disjointNames, List.all_eq_true, Bool.not_eq_true',
    List.contains_eq_mem, decide_eq_false_iff_not, decide_eq_true_eq, List.mem_append, not_or] at h
  obtain ⟨⟨⟨⟨⟨⟨⟨⟨⟨h1, h2⟩, h3⟩, h4⟩, h5⟩, h6⟩, h7⟩, h8⟩, h9⟩, h10⟩ := h
  have n8 := (allDistinct_iff _).mp h8
  have n2 := (allDistinct_iff _).mp h2
  refine ⟨(allDistinct_iff _).mp h1, n2, (allDistinct_iff _).mp h3, h4, h5, h6,
    fun x hx => ⟨(h7 x hx).1.1, (h7 x hx).1.2, (h7 x hx).2⟩, ?_⟩
  exact (List.perm_ext_iff_of_nodup n8 n2).mpr fun x => ⟨fun hx => h9 x hx, fun hx => h10 x hx⟩

/-- each state has one derivative -/
theorem derivsFunctional (m : Model) (hwf : ModelWF m) : C12.DerivsFunctional m := by
  intro d d' X h1 h2
  obtain ⟨e1, he1, rfl, hs1⟩ := (stateOfDeriv_facts m hwf.assigns_nodup).2.2 d X h1
  obtain ⟨e2, he2, rfl, hs2⟩ := (stateOfDeriv_facts m hwf.assigns_nodup).2.2 d' X h2
  have hnd : (m.derivs.map (·.2.1)).Nodup := hwf.derivs.nodup_iff.mpr hwf.states_nodup
  have key : ∀ (l : List (Name × Name × Expr)), (l.map (·.2.1)).Nodup → ∀ a ∈ l, ∀ b ∈ l, a.2.1 = b.2.1 → a = b := by
    intro l
    induction l with
    | nil => intro _ a ha; simp at ha
    | cons c rest ih =>
      intro hn a ha b hb hab
      simp only [List.map_cons, List.nodup_cons] at hn
      simp only [List.mem_cons] at ha hb
      rcases ha with rfl | ha <;> rcases hb with rfl | hb
      · rfl
      · exact absurd (List.mem_map.mpr ⟨b, hb, hab.symm⟩) hn.1
      · exact absurd (List.mem_map.mpr ⟨a, ha, hab⟩) hn.1
      · exact ih hn.2 a ha b hb hab
  rw [key m.derivs hnd e1 he1 e2 he2 (by rw [hs1, hs2])]

/-- **C12 on the `Impl` layer.** The generator's `rhs` with and without unused-variable removal
return the same value in every state slot, for every well-formed model, input and interpretation. -/
theorem genRhs_removal_invariant {α} (N : Num α) (m : Model) (π : DepOrder) (L : Layout) (p0 p1 : List Stmt)
    (inp : Inputs α) (t : α) (ρ : Env α) (s0 s1 : St α)
    (hwf : ModelWF m) (hπ : ∀ a ∈ m.assigns, ∀ y ∈ fv a.2, y ∈ π a.1 a.2)
    (hL : layout m π = some L) (hp0 : genRhs m π false = some p0) (hp1 : genRhs m π true = some p1)
    (hsol : Solution N m L inp t ρ)
    (hx0 : exec N inp (initRhs t) p0 = some s0) (hx1 : exec N inp (initRhs t) p1 = some s1) :
    ∀ i, i < L.state.length → s0.result i = s1.result i :=
  C12.unused_equiv_rhs N m L inp t ρ p0 p1 s0 s1 (derivsFunctional m hwf)
    (genRhs_valid m π false L p0 hwf hπ hL hp0) (genRhs_valid m π true L p1 hwf hπ hL hp1) hsol
    (genRhs_exprOK N m π false L p0 ρ hwf hπ hL hp0) (genRhs_exprOK N m π true L p1 ρ hwf hπ hL hp1) hx0 hx1

/-! non-vacuity: the two-state model of C01 is well formed and its generated `rhs` is the validated program -/
example : ModelWF C01.m0 := by
  refine ⟨by decide, by decide, by decide, by decide, by decide, by decide, by decide, ?_⟩
  decide
example : (genRhs C01.m0 defaultDeps false).isSome = true := by decide +kernel
example : checkModelWF C01.m0 = true := by decide

end GenValid
end Gx
