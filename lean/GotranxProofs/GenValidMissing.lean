import GotranxProofs.GenValidMon
/-!
# `Impl.genMissing` passes `checkMissingValues`

The model of `CodeGenerator.missing_values` — unpack every state, parameter and missing value; copy the
requested states and parameters; then define the sorted assignments one by one, store each requested one
into its slot and leave the loop as soon as every requested value has been written (`if n >= N: break`) —
produces a program accepted by `checkMissingValues` for every well-formed model and every list of distinct
requested names the model defines.  The point of the proof: the early exit never cuts a requested value off
(`missBody_facts`: while `left` bounds the number of requested names still ahead, the stores of the truncated
body are the stores of the whole body).
-/
namespace Gx
namespace GenValidMissing
open Impl Kahn GenValid

/-- the requested names among `names` -/
def reqIn (req names : List Name) : List Name := names.filter fun x => (slotOf req x).isSome

theorem missHead_facts (req : List Name) : ∀ names : List Name,
    unpacks (missHead req names) = [] ∧ defines (missHead req names) = [] ∧ bindsOf (missHead req names) = [] ∧
    stores (missHead req names) = (reqIn req names).map (fun x => ((slotOf req x).getD 0, Expr.var x)) ∧
    (∀ bound, (∀ x ∈ names, x ∈ bound) → wellScoped bound (missHead req names) = true) := by
  intro names
  induction names with
  | nil => simp [missHead, reqIn, unpacks, defines, bindsOf, stores, wellScoped]
  | cons x rest ih =>
    obtain ⟨i1, i2, i3, i4, i5⟩ := ih
    cases hx : slotOf req x with
    | none =>
      have hb : missHead req (x :: rest) = missHead req rest := by simp [missHead, hx]
      have hr : reqIn req (x :: rest) = reqIn req rest := by simp [reqIn, hx]
      rw [hb, hr]
      exact ⟨i1, i2, i3, i4, fun bound h => i5 bound (fun y hy => h y (by simp [hy]))⟩
    | some i =>
      have hb : missHead req (x :: rest) = .store i (.var x) :: missHead req rest := by simp [missHead, hx]
      have hr : reqIn req (x :: rest) = x :: reqIn req rest := by simp [reqIn, hx]
      rw [hb, hr]
      refine ⟨by simpa [unpacks] using i1, by simpa [defines] using i2, by simpa [bindsOf] using i3, ?_, ?_⟩
      · simp [stores, i4, hx]
      · intro bound h
        have := i5 bound (fun y hy => h y (by simp [hy]))
        simp [wellScoped, fv, this, h x (by simp)]

theorem missBody_facts (m : Model) (req : List Name) : ∀ (names : List Name) (left : Nat),
    (∀ x ∈ names, (m.rhsOf x).isSome) → (reqIn req names).length ≤ left →
    unpacks (missBody m req left names) = [] ∧
    (∀ d ∈ defines (missBody m req left names), m.rhsOf d.1 = some d.2) ∧
    stores (missBody m req left names) = (reqIn req names).map (fun x => ((slotOf req x).getD 0, Expr.var x)) := by
  intro names
  induction names with
  | nil => intro left _ _; simp [missBody, reqIn, unpacks, defines, stores]
  | cons x rest ih =>
    intro left hdef hlen
    obtain ⟨e, he⟩ := Option.isSome_iff_exists.mp (hdef x (by simp))
    have hdef' : ∀ y ∈ rest, (m.rhsOf y).isSome := fun y hy => hdef y (by simp [hy])
    cases hx : slotOf req x with
    | none =>
      have hr : reqIn req (x :: rest) = reqIn req rest := by simp [reqIn, hx]
      rw [hr] at hlen ⊢
      by_cases h0 : left = 0
      · have hb : missBody m req left (x :: rest) = [.define x e] := by simp [missBody, he, hx, h0]
        have hnil : reqIn req rest = [] := List.eq_nil_of_length_eq_zero (by omega)
        rw [hb, hnil]
        refine ⟨rfl, ?_, rfl⟩
        intro d hd
        simp only [defines, List.mem_singleton] at hd
        subst hd; exact he
      · have hb : missBody m req left (x :: rest) = .define x e :: missBody m req left rest := by
          simp [missBody, he, hx, h0]
        obtain ⟨i1, i2, i3⟩ := ih left hdef' hlen
        rw [hb]
        refine ⟨by simpa [unpacks] using i1, ?_, by simpa [stores] using i3⟩
        intro d hd
        simp only [defines, List.mem_cons] at hd
        rcases hd with rfl | hd
        · exact he
        · exact i2 d hd
    | some i =>
      have hr : reqIn req (x :: rest) = x :: reqIn req rest := by simp [reqIn, hx]
      rw [hr] at hlen ⊢
      simp only [List.length_cons] at hlen
      by_cases h1 : left ≤ 1
      · have hb : missBody m req left (x :: rest) = [.define x e, .store i (.var x)] := by
          simp [missBody, he, hx, h1]
        have hnil : reqIn req rest = [] := List.eq_nil_of_length_eq_zero (by omega)
        rw [hb, hnil]
        refine ⟨rfl, ?_, by simp [stores, hx]⟩
        intro d hd
        simp only [defines, List.mem_singleton] at hd
        subst hd; exact he
      · have hb : missBody m req left (x :: rest) = .define x e :: .store i (.var x) :: missBody m req (left - 1) rest := by
          simp [missBody, he, hx, h1]
        obtain ⟨i1, i2, i3⟩ := ih (left - 1) hdef' (by omega)
        rw [hb]
        refine ⟨by simpa [unpacks] using i1, ?_, by simp [stores, i3, hx]⟩
        intro d hd
        simp only [defines, List.mem_cons] at hd
        rcases hd with rfl | hd
        · exact he
        · exact i2 d hd

theorem missBody_ws (m : Model) (req : List Name) : ∀ (names : List Name) (left : Nat) (bound : List Name), names.Nodup →
    (∀ x ∈ names, x ∉ bound) → (∀ x ∈ names, (m.rhsOf x).isSome) →
    (∀ pre x post, names = pre ++ x :: post → ∀ e, m.rhsOf x = some e → ∀ y ∈ fv e, y ∈ bound ∨ y ∈ pre) →
    wellScoped bound (missBody m req left names) = true := by
  intro names
  induction names with
  | nil => intros; simp [missBody, wellScoped]
  | cons x rest ih =>
    intro left bound hnd hnew hdef hdeps
    obtain ⟨e, he⟩ := Option.isSome_iff_exists.mp (hdef x (by simp))
    simp only [List.nodup_cons] at hnd
    have hxb : x ∉ bound := hnew x (by simp)
    have hall : (fv e).all bound.contains = true := by
      simp only [List.all_eq_true, List.contains_eq_mem, decide_eq_true_eq]
      intro y hy
      rcases hdeps [] x rest rfl e he y hy with h | h
      · exact h
      · simp at h
    have hrest : ∀ left', wellScoped (x :: bound) (missBody m req left' rest) = true := by
      intro left'
      apply ih left' (x :: bound) hnd.2
      · intro y hy hmem
        simp only [List.mem_cons] at hmem
        rcases hmem with rfl | hmem
        · exact hnd.1 hy
        · exact hnew y (by simp [hy]) hmem
      · intro y hy; exact hdef y (by simp [hy])
      · intro pre z post hsplit e' he' y hy
        rcases hdeps (x :: pre) z post (by rw [hsplit]; rfl) e' he' y hy with h | h
        · exact Or.inl (by simp [h])
        · simp only [List.mem_cons] at h
          rcases h with rfl | h
          · exact Or.inl (by simp)
          · exact Or.inr h
    cases hx : slotOf req x with
    | none =>
      by_cases h0 : left = 0
      · simp [missBody, he, hx, h0, wellScoped, hxb, hall]
      · simp [missBody, he, hx, h0, wellScoped, hxb, hall, hrest left]
    | some i =>
      by_cases h1 : left ≤ 1
      · simp [missBody, he, hx, h1, wellScoped, hxb, hall, fv]
      · simp [missBody, he, hx, h1, wellScoped, hxb, hall, fv, hrest (left - 1)]

theorem slotOf_isSome_iff (l : List Name) (x : Name) : (slotOf l x).isSome ↔ x ∈ l := by
  induction l with
  | nil => simp [slotOf]
  | cons y rest ih =>
    by_cases hy : y = x
    · simp [slotOf, hy]
    · simp only [slotOf, hy, if_false, Option.isSome_map, ih, List.mem_cons]
      constructor
      · intro h; exact Or.inr h
      · rintro (h | h)
        · exact absurd h.symm hy
        · exact h

theorem mem_reqIn (req names : List Name) (x : Name) : x ∈ reqIn req names ↔ x ∈ names ∧ x ∈ req := by
  simp [reqIn, slotOf_isSome_iff]

/-- **`Impl.genMissing` passes `checkMissingValues`** for every well-formed model and every list of
distinct requested names that the model defines (states, parameters, assignments): every requested
slot is written exactly once — the early exit of the loop never cuts a requested value off. -/
theorem genMissing_valid (m : Model) (π : DepOrder) (req : List Name) (L : Layout) (p : List Stmt)
    (hwf : ModelWF m) (hπ : ∀ a ∈ m.assigns, ∀ y ∈ fv a.2, y ∈ π a.1 a.2)
    (hreq : req.Nodup) (hdefd : ∀ r ∈ req, r ∈ m.stateNames ∨ r ∈ m.paramNames ∨ r ∈ m.assignNames)
    (hL : layout m π = some L) (hp : genMissing m π req = some p) : checkMissingValues m L req p = true := by
  obtain ⟨order, hord, hLs, hLp, hLmon, hLm⟩ := layout_fields m π L hL
  unfold genMissing at hp
  rw [hL] at hp
  simp only [hord, Option.bind_eq_bind, Option.bind_some, Option.pure_def, Option.some.injEq] at hp
  obtain ⟨hnd, hmem, hbef⟩ := sorted_facts m π false order hwf.assigns_nodup hπ hord
  have hSperm : L.state.Perm m.stateNames := by rw [hLs]; exact states_of_order m hwf false order hnd hmem
  have hSnd : L.state.Nodup := hSperm.nodup_iff.mpr hwf.states_nodup
  have hSmem : ∀ x, x ∈ L.state ↔ x ∈ m.stateNames := fun x => hSperm.mem_iff
  have hkept : keptAssigns m false = m.assigns := rfl
  have hordA : ∀ x, x ∈ order ↔ x ∈ m.assignNames := by
    intro x; rw [hmem x, hkept]; rfl
  have hdef : ∀ x ∈ order, (m.rhsOf x).isSome := fun x hx => rhsOf_isSome_of_mem m x ((hordA x).mp hx)
  have hinit : ∀ x ∈ initBoundRhs, x ∉ m.stateNames ∧ x ∉ m.paramNames ∧ x ∉ m.assignNames ∧
      x ∉ missingVariables m := fun x hx =>
    ⟨(hwf.time x hx).1, (hwf.time x hx).2.1, (hwf.time x hx).2.2, time_not_missing m x hx⟩
  obtain ⟨uS1, uS2, uS3, uS4, uS5, uS6⟩ := unpackBlock_facts .states (fun _ => true) L.state 0
  obtain ⟨uP1, uP2, uP3, uP4, uP5, uP6⟩ := unpackBlock_facts .params (fun _ => true) L.param 0
  obtain ⟨uM1, uM2, uM3, uM4, uM5, uM6⟩ := unpackBlock_facts .missing (fun _ => true) L.missing 0
  obtain ⟨h1, h2, h3, h4, h5⟩ := missHead_facts req (m.stateNames ++ m.paramNames)
  -- the stored names: requested states and parameters, then requested assignments
  have hheadnd : (reqIn req (m.stateNames ++ m.paramNames)).Nodup := by
    apply List.Nodup.sublist (List.filter_sublist)
    exact List.nodup_append.mpr ⟨hwf.states_nodup, hwf.params_nodup, fun x hx y hy hxy => hwf.sp x hx (hxy ▸ hy)⟩
  have hbodynd : (reqIn req order).Nodup := List.Nodup.sublist (List.filter_sublist) hnd
  have hSnd' : (reqIn req (m.stateNames ++ m.paramNames) ++ reqIn req order).Nodup := by
    refine List.nodup_append.mpr ⟨hheadnd, hbodynd, ?_⟩
    intro x hx y hy hxy
    subst hxy
    have hx' := ((mem_reqIn _ _ x).mp hx).1
    have hy' := (hordA x).mp ((mem_reqIn _ _ x).mp hy).1
    simp only [List.mem_append] at hx'
    rcases hx' with h | h
    · exact hwf.sa x h hy'
    · exact hwf.pa x h hy'
  have hSperm' : (reqIn req (m.stateNames ++ m.paramNames) ++ reqIn req order).Perm req := by
    rw [List.perm_ext_iff_of_nodup hSnd' hreq]
    intro x
    simp only [List.mem_append, mem_reqIn]
    constructor
    · rintro (⟨_, h⟩ | ⟨_, h⟩) <;> exact h
    · intro hx
      rcases hdefd x hx with h | h | h
      · exact Or.inl ⟨Or.inl h, hx⟩
      · exact Or.inl ⟨Or.inr h, hx⟩
      · exact Or.inr ⟨(hordA x).mpr h, hx⟩
  have hlen : (reqIn req order).length ≤ req.length - (stores (missHead req (m.stateNames ++ m.paramNames))).length := by
    rw [h4, List.length_map]
    have := hSperm'.length_eq
    simp only [List.length_append] at this
    omega
  obtain ⟨b1, b2, b3⟩ := missBody_facts m req order _ hdef hlen
  have hp' : p = unpackBlock .states (fun _ => true) 0 L.state ++ unpackBlock .params (fun _ => true) 0 L.param ++
      unpackBlock .missing (fun _ => true) 0 L.missing ++ missHead req (m.stateNames ++ m.paramNames) ++
      missBody m req (req.length - (stores (missHead req (m.stateNames ++ m.paramNames))).length) order := by
    rw [← hp, unpackStates_eq, unpackParams_eq, unpackMissing_eq]
  rw [hp']
  have hBmem : ∀ y, y ∈ (bindsOf (unpackBlock .states (fun _ => true) 0 L.state ++ unpackBlock .params (fun _ => true) 0 L.param ++
      unpackBlock .missing (fun _ => true) 0 L.missing)).reverse ++ initBoundRhs ↔
      y ∈ m.stateNames ∨ y ∈ m.paramNames ∨ y ∈ missingVariables m ∨ y ∈ initBoundRhs := by
    intro y
    rw [bindsOf_append, bindsOf_append, uS1, uP1, uM1, hLp, hLm]
    simp only [List.mem_append, List.mem_reverse, List.mem_filter, hSmem, and_true]
    constructor
    · rintro (((h | h) | h) | h)
      · exact Or.inl h
      · exact Or.inr (Or.inl h)
      · exact Or.inr (Or.inr (Or.inl h))
      · exact Or.inr (Or.inr (Or.inr h))
    · rintro (h | h | h | h)
      · exact Or.inl (Or.inl (Or.inl h))
      · exact Or.inl (Or.inl (Or.inr h))
      · exact Or.inl (Or.inr h)
      · exact Or.inr h
  unfold checkMissingValues
  simp only [Bool.and_eq_true]
  refine ⟨⟨⟨⟨?_, ?_⟩, ?_⟩, ?_⟩, ?_⟩
  · -- well scoped
    rw [wellScoped_append, wellScoped_append, wellScoped_append, wellScoped_append]
    simp only [Bool.and_eq_true]
    refine ⟨⟨⟨⟨?_, ?_⟩, ?_⟩, ?_⟩, ?_⟩
    · exact uS6 initBoundRhs hSnd (fun x hx hi => (hinit x hi).1 ((hSmem x).mp hx))
    · apply uP6 _ (by rw [hLp]; exact hwf.params_nodup)
      intro x hx hmem'
      rw [hLp] at hx
      rw [uS1] at hmem'
      simp only [List.mem_append, List.mem_reverse, List.mem_filter] at hmem'
      rcases hmem' with h | h
      · exact hwf.sp x ((hSmem x).mp h.1) hx
      · exact (hinit x h).2.1 hx
    · apply uM6 _ (by rw [hLm]; exact missing_nodup m)
      intro x hx hmem'
      rw [hLm] at hx
      obtain ⟨n1, n2, _, n4⟩ := missing_not_known m x hx
      rw [bindsOf_append, uS1, uP1] at hmem'
      simp only [List.mem_append, List.mem_reverse, List.mem_filter, and_true] at hmem'
      rcases hmem' with (h | h) | h
      · exact n1 ((hSmem x).mp h)
      · rw [hLp] at h; exact n2 h
      · exact (hinit x h).2.2.2 hx
    · apply h5
      intro x hx
      simp only [List.mem_append] at hx
      rcases hx with h | h
      · exact (hBmem x).mpr (Or.inl h)
      · exact (hBmem x).mpr (Or.inr (Or.inl h))
    · rw [bindsOf_append, h3, List.reverse_append, List.reverse_nil, List.nil_append]
      apply missBody_ws m req order _ _ hnd
      · intro x hx hb
        have hxa := (hordA x).mp hx
        rcases (hBmem x).mp hb with h | h | h | h
        · exact hwf.sa x h hxa
        · exact hwf.pa x h hxa
        · exact (missing_not_known m x h).2.2.1 hxa
        · exact (hinit x h).2.2.1 hxa
      · exact hdef
      · intro pre x post hsplit e he y hy
        have hx : x ∈ order := by rw [hsplit]; simp
        have hxe : (x, e) ∈ m.assigns := lookup_mem _ _ _ he
        rcases mentioned_cases m false x e y hxe hy with h | h | h | h | h
        · exact Or.inl ((hBmem y).mpr (Or.inr (Or.inr (Or.inr h))))
        · exact Or.inl ((hBmem y).mpr (Or.inl h.1))
        · exact Or.inl ((hBmem y).mpr (Or.inr (Or.inl h.1)))
        · exact Or.inl ((hBmem y).mpr (Or.inr (Or.inr (Or.inl h))))
        · obtain ⟨pre', post', hs', hy'⟩ := hbef x e y hx he hy h
          have := split_unique order pre pre' post post' x hnd hsplit hs'
          exact Or.inr (this ▸ hy')
  · -- unpacks
    unfold checkUnpacks
    rw [unpacks_append, unpacks_append, unpacks_append, unpacks_append, b1, h1, List.append_nil, List.append_nil]
    simp only [List.all_append, Bool.and_eq_true, List.all_eq_true]
    refine ⟨⟨?_, ?_⟩, ?_⟩
    · intro u hu
      obtain ⟨e1, _, e3⟩ := uS5 u hu
      rw [e1]; simpa using e3
    · intro u hu
      obtain ⟨e1, _, e3⟩ := uP5 u hu
      rw [e1]; simpa using e3
    · intro u hu
      obtain ⟨e1, _, e3⟩ := uM5 u hu
      rw [e1]; simpa using e3
  · -- defines
    unfold checkDefines
    rw [defines_append, defines_append, defines_append, defines_append, uS2, uP2, uM2, h2]
    simp only [List.nil_append, List.all_eq_true, Bool.or_eq_true]
    intro d hd
    exact Or.inl (by rw [b2 d hd]; rfl)
  · -- every requested slot once
    apply slotsExact_of_perm
    have hslots : ∀ q : List Stmt, storeSlots q = (stores q).map (·.1) := by
      intro q
      induction q with
      | nil => rfl
      | cons st rest ih => cases st <;> simp [storeSlots, stores, ih]
    rw [hslots, stores_append, stores_append, stores_append, stores_append, uS3, uP3, uM3, b3, h4]
    simp only [List.nil_append, List.map_append, List.map_map]
    rw [← List.map_append, ← slot_map_self req hreq]
    exact hSperm'.map _
  · -- the stores
    rw [stores_append, stores_append, stores_append, stores_append, uS3, uP3, uM3, b3, h4]
    simp only [List.nil_append, List.all_eq_true, List.mem_append, List.mem_map]
    intro st hst
    have key : ∀ x, x ∈ req → (match (Expr.var x : Expr) with
        | .var y => req[(slotOf req x).getD 0]? == some y
        | _ => false) = true := by
      intro x hx
      obtain ⟨i, hi⟩ := slotOf_some_of_mem req x hx
      simp only [hi, Option.getD_some, beq_iff_eq]
      exact (C04.slotOf_iff req ((allDistinct_iff _).mpr hreq) x i).mp hi
    rcases hst with ⟨x, hx, rfl⟩ | ⟨x, hx, rfl⟩
    · exact key x ((mem_reqIn _ _ x).mp hx).2
    · exact key x ((mem_reqIn _ _ x).mp hx).2

theorem genMissing_exprOK {α} (N : Num α) (m : Model) (π : DepOrder) (req : List Name) (L : Layout) (p : List Stmt)
    (ρ : Env α) (hwf : ModelWF m) (hπ : ∀ a ∈ m.assigns, ∀ y ∈ fv a.2, y ∈ π a.1 a.2)
    (hreq : req.Nodup) (hdefd : ∀ r ∈ req, r ∈ m.stateNames ∨ r ∈ m.paramNames ∨ r ∈ m.assignNames)
    (hL : layout m π = some L) (hp : genMissing m π req = some p) : ExprOK N m ρ p := by
  have hchk := genMissing_valid m π req L p hwf hπ hreq hdefd hL hp
  unfold ExprOK
  intro d hd e he
  -- `checkDefines` only says the name is an assignment; the generator emits the model's own expression
  obtain ⟨order, hord, _, _, _, _⟩ := layout_fields m π L hL
  unfold genMissing at hp
  rw [hL] at hp
  simp only [hord, Option.bind_eq_bind, Option.bind_some, Option.pure_def, Option.some.injEq] at hp
  subst hp
  obtain ⟨hnd, hmem, _⟩ := sorted_facts m π false order hwf.assigns_nodup hπ hord
  have hdef : ∀ x ∈ order, (m.rhsOf x).isSome := by
    intro x hx
    obtain ⟨a, ha, rfl⟩ := List.mem_map.mp ((hmem x).mp hx)
    exact rhsOf_isSome_of_mem m a.1 (List.mem_map.mpr ⟨a, keptAssigns_sub m false a ha, rfl⟩)
  rw [defines_append, defines_append, defines_append, defines_append, unpackStates_eq, unpackParams_eq, unpackMissing_eq,
    (unpackBlock_facts _ _ _ 0).2.1, (unpackBlock_facts _ _ _ 0).2.1, (unpackBlock_facts _ _ _ 0).2.1,
    (missHead_facts req _).2.1] at hd
  simp only [List.nil_append] at hd
  -- the defines of any prefix of the body are the model's equations (no bound on `left` needed)
  have key : ∀ (names : List Name) (left : Nat), (∀ x ∈ names, (m.rhsOf x).isSome) →
      ∀ d ∈ defines (missBody m req left names), m.rhsOf d.1 = some d.2 := by
    intro names
    induction names with
    | nil => intro left _ d hd; simp [missBody, defines] at hd
    | cons x rest ih =>
      intro left hdef d hd
      obtain ⟨e', he'⟩ := Option.isSome_iff_exists.mp (hdef x (by simp))
      have hdef' : ∀ y ∈ rest, (m.rhsOf y).isSome := fun y hy => hdef y (by simp [hy])
      cases hx : slotOf req x with
      | none =>
        by_cases h0 : left = 0
        · simp only [missBody, he', hx, h0, if_true, defines, List.mem_singleton] at hd
          subst hd; exact he'
        · simp only [missBody, he', hx, h0, if_false, defines, List.mem_cons] at hd
          rcases hd with rfl | hd
          · exact he'
          · exact ih left hdef' d hd
      | some i =>
        by_cases h1 : left ≤ 1
        · simp only [missBody, he', hx, h1, if_true, defines, List.mem_singleton] at hd
          subst hd; exact he'
        · simp only [missBody, he', hx, h1, if_false, defines, List.mem_cons] at hd
          rcases hd with rfl | hd
          · exact he'
          · exact ih (left - 1) hdef' d hd
  have := key order _ hdef d hd
  rw [this] at he
  cases he; rfl

/-- **… hence computes the specification**: slot `i` of the `missing_values` program holds the value the
equational specification gives to the `i`-th requested name. -/
theorem genMissing_correct {α} (N : Num α) (m : Model) (π : DepOrder) (req : List Name) (L : Layout) (p : List Stmt)
    (inp : Inputs α) (t : α) (ρ : Env α) (s' : St α)
    (hwf : ModelWF m) (hπ : ∀ a ∈ m.assigns, ∀ y ∈ fv a.2, y ∈ π a.1 a.2)
    (hreq : req.Nodup) (hdefd : ∀ r ∈ req, r ∈ m.stateNames ∨ r ∈ m.paramNames ∨ r ∈ m.assignNames)
    (hL : layout m π = some L) (hp : genMissing m π req = some p)
    (hsol : Solution N m L inp t ρ) (hx : exec N inp (initRhs t) p = some s') :
    ∀ i x, req[i]? = some x → (ρ x).isSome ∧ s'.result i = ρ x :=
  checkMissingValues_sound N m L inp t ρ req p s' (genMissing_valid m π req L p hwf hπ hreq hdefd hL hp) hsol
    (genMissing_exprOK N m π req L p ρ hwf hπ hreq hdefd hL hp) hx

end GenValidMissing
end Gx
