import GotranxProofs.GenValid
/-!
# `Impl.genMonitor` passes `checkMonitor`

The model of `CodeGenerator.monitor_values` — unpack all states, the kept parameters and the
missing values, then for the `i`-th sorted assignment `x` emit `x = rhs; values[i] = x` — produces a
program accepted by `checkMonitor` for every well-formed model, every covering dependency order and
both settings of unused-parameter removal.  With `checkMonitor_sound` this gives: slot
`monitor_index x` of the program's result is the specification's value of `x`.
-/
namespace Gx
namespace GenValidMon
open Impl Kahn GenValid

/-- one monitored assignment -/
def monStep (m : Model) : Nat × Name → List Stmt := fun (i, x) =>
  match m.rhsOf x with
  | some e => [Stmt.define x e, .store i (.var x)]
  | none => []

theorem monBody_cons (m : Model) (n : Nat) (x : Name) (rest : List Name) (e : Expr) (he : m.rhsOf x = some e) :
    (enumFrom n (x :: rest)).flatMap (monStep m) =
      .define x e :: .store n (.var x) :: (enumFrom (n + 1) rest).flatMap (monStep m) := by
  simp [enumFrom, List.flatMap_cons, monStep, he]

theorem monBody_facts (m : Model) : ∀ (names : List Name) (n : Nat), (∀ x ∈ names, (m.rhsOf x).isSome) →
    unpacks ((enumFrom n names).flatMap (monStep m)) = [] ∧
    (∀ d ∈ defines ((enumFrom n names).flatMap (monStep m)), m.rhsOf d.1 = some d.2) ∧
    storeSlots ((enumFrom n names).flatMap (monStep m)) = List.range' n names.length ∧
    (∀ st ∈ stores ((enumFrom n names).flatMap (monStep m)),
        ∃ x, st.2 = .var x ∧ (m.rhsOf x).isSome ∧ n ≤ st.1 ∧ names[st.1 - n]? = some x) := by
  intro names
  induction names with
  | nil => intro n _; simp [enumFrom, unpacks, defines, storeSlots, stores]
  | cons x rest ih =>
    intro n hdef
    obtain ⟨e, he⟩ := Option.isSome_iff_exists.mp (hdef x (by simp))
    obtain ⟨i1, i2, i3, i4⟩ := ih (n + 1) (fun y hy => hdef y (by simp [hy]))
    rw [monBody_cons m n x rest e he]
    refine ⟨by simpa [unpacks] using i1, ?_, ?_, ?_⟩
    · intro d hd
      simp only [defines, List.mem_cons] at hd
      rcases hd with rfl | hd
      · exact he
      · exact i2 d hd
    · simp only [storeSlots, i3, List.length_cons]
      rw [List.range'_succ]
    · intro st hst
      simp only [stores, List.mem_cons] at hst
      rcases hst with rfl | hst
      · exact ⟨x, rfl, hdef x (by simp), Nat.le_refl _, by simp⟩
      · obtain ⟨y, h1, h2, h3, h4⟩ := i4 st hst
        refine ⟨y, h1, h2, by omega, ?_⟩
        have : st.1 - n = (st.1 - (n + 1)) + 1 := by omega
        rw [this]; simpa using h4

theorem monBody_ws (m : Model) : ∀ (names : List Name) (n : Nat) (bound : List Name), names.Nodup →
    (∀ x ∈ names, x ∉ bound) → (∀ x ∈ names, (m.rhsOf x).isSome) →
    (∀ pre x post, names = pre ++ x :: post → ∀ e, m.rhsOf x = some e → ∀ y ∈ fv e, y ∈ bound ∨ y ∈ pre) →
    wellScoped bound ((enumFrom n names).flatMap (monStep m)) = true := by
  intro names
  induction names with
  | nil => intros; simp [enumFrom, wellScoped]
  | cons x rest ih =>
    intro n bound hnd hnew hdef hdeps
    obtain ⟨e, he⟩ := Option.isSome_iff_exists.mp (hdef x (by simp))
    rw [monBody_cons m n x rest e he]
    simp only [List.nodup_cons] at hnd
    have hxb : x ∉ bound := hnew x (by simp)
    have hall : (fv e).all bound.contains = true := by
      simp only [List.all_eq_true, List.contains_eq_mem, decide_eq_true_eq]
      intro y hy
      rcases hdeps [] x rest rfl e he y hy with h | h
      · exact h
      · simp at h
    have hrest : wellScoped (x :: bound) ((enumFrom (n + 1) rest).flatMap (monStep m)) = true := by
      apply ih (n + 1) (x :: bound) hnd.2
      · intro y hy hmem
        simp only [List.mem_cons] at hmem
        rcases hmem with rfl | hmem
        · exact hnd.1 hy
        · exact hnew y (by simp [hy]) hmem
      · intro y hy; exact hdef y (by simp [hy])
      · intro pre z post hsplit e' he' y hy
        rcases hdeps (x :: pre) z post (by rw [hsplit]; rfl) e' he' y hy with h | h
        · exact Or.inl (by simp [h])
        · simp only [List.mem_cons] at h
          rcases h with rfl | h
          · exact Or.inl (by simp)
          · exact Or.inr h
    simp [wellScoped, hxb, hall, hrest, fv]

theorem flatMap_monStep (m : Model) (l : List (Nat × Name)) :
    (l.flatMap fun (x : Nat × Name) => match m.rhsOf x.2 with
      | some e => [Stmt.define x.2 e, .store x.1 (.var x.2)]
      | none => []) = l.flatMap (monStep m) := rfl

/-- **`Impl.genMonitor` always passes `checkMonitor`.** -/
theorem genMonitor_valid (m : Model) (π : DepOrder) (ru : Bool) (L : Layout) (p : List Stmt)
    (hwf : ModelWF m) (hπ : ∀ a ∈ m.assigns, ∀ y ∈ fv a.2, y ∈ π a.1 a.2)
    (hL : layout m π = some L) (hp : genMonitor m π ru = some p) : checkMonitor m L p = true := by
  obtain ⟨order, hord, hLs, hLp, hLmon, hLm⟩ := layout_fields m π L hL
  unfold genMonitor at hp
  rw [hL] at hp
  simp only [hord, Option.bind_eq_bind, Option.bind_some, Option.pure_def, Option.some.injEq] at hp
  obtain ⟨hnd, hmem, hbef⟩ := sorted_facts m π false order hwf.assigns_nodup hπ hord
  have hSperm : L.state.Perm m.stateNames := by rw [hLs]; exact states_of_order m hwf false order hnd hmem
  have hSnd : L.state.Nodup := hSperm.nodup_iff.mpr hwf.states_nodup
  have hSmem : ∀ x, x ∈ L.state ↔ x ∈ m.stateNames := fun x => hSperm.mem_iff
  have hordA : ∀ x ∈ order, x ∈ m.assignNames := by
    intro x hx
    obtain ⟨a, ha, rfl⟩ := List.mem_map.mp ((hmem x).mp hx)
    exact List.mem_map.mpr ⟨a, keptAssigns_sub m false a ha, rfl⟩
  have hdef : ∀ x ∈ order, (m.rhsOf x).isSome := fun x hx => rhsOf_isSome_of_mem m x (hordA x hx)
  have hinit : ∀ x ∈ initBoundRhs, x ∉ m.stateNames ∧ x ∉ m.paramNames ∧ x ∉ m.assignNames ∧
      x ∉ missingVariables m := fun x hx =>
    ⟨(hwf.time x hx).1, (hwf.time x hx).2.1, (hwf.time x hx).2.2, time_not_missing m x hx⟩
  let keepP : Name → Bool := fun x => !ru || (mentioned m).contains x
  have hkP : ∀ y, (mentioned m).contains y = true → keepP y = true := by
    intro y hy; show (!ru || (mentioned m).contains y) = true; rw [hy]; simp
  obtain ⟨uS1, uS2, uS3, uS4, uS5, uS6⟩ := unpackBlock_facts .states (fun _ => true) L.state 0
  obtain ⟨uP1, uP2, uP3, uP4, uP5, uP6⟩ := unpackBlock_facts .params keepP L.param 0
  obtain ⟨uM1, uM2, uM3, uM4, uM5, uM6⟩ := unpackBlock_facts .missing (fun _ => true) L.missing 0
  obtain ⟨b1, b2, b3, b4⟩ := monBody_facts m order 0 hdef
  have hp' : p = unpackBlock .states (fun _ => true) 0 L.state ++ unpackBlock .params keepP 0 L.param ++
      unpackBlock .missing (fun _ => true) 0 L.missing ++ (enumFrom 0 order).flatMap (monStep m) := by
    rw [← hp, unpackStates_eq, unpackParams_eq, unpackMissing_eq]; rfl
  rw [hp']
  have hBmem : ∀ y, y ∈ (bindsOf (unpackBlock .states (fun _ => true) 0 L.state ++ unpackBlock .params keepP 0 L.param ++
      unpackBlock .missing (fun _ => true) 0 L.missing)).reverse ++ initBoundRhs ↔
      y ∈ m.stateNames ∨ (y ∈ m.paramNames ∧ keepP y = true) ∨ y ∈ missingVariables m ∨ y ∈ initBoundRhs := by
    intro y
    rw [bindsOf_append, bindsOf_append, uS1, uP1, uM1, hLp, hLm]
    simp only [List.mem_append, List.mem_reverse, List.mem_filter, hSmem, and_true]
    constructor
    · rintro (((h | h) | h) | h)
      · exact Or.inl h
      · exact Or.inr (Or.inl h)
      · exact Or.inr (Or.inr (Or.inl h))
      · exact Or.inr (Or.inr (Or.inr h))
    · rintro (h | h | h | h)
      · exact Or.inl (Or.inl (Or.inl h))
      · exact Or.inl (Or.inl (Or.inr h))
      · exact Or.inl (Or.inr h)
      · exact Or.inr h
  unfold checkMonitor
  simp only [Bool.and_eq_true]
  refine ⟨⟨⟨⟨?_, ?_⟩, ?_⟩, ?_⟩, ?_⟩
  · -- well scoped
    rw [wellScoped_append, wellScoped_append, wellScoped_append]
    simp only [Bool.and_eq_true]
    refine ⟨⟨⟨?_, ?_⟩, ?_⟩, ?_⟩
    · exact uS6 initBoundRhs hSnd (fun x hx hi => (hinit x hi).1 ((hSmem x).mp hx))
    · apply uP6 _ (by rw [hLp]; exact hwf.params_nodup)
      intro x hx hmem'
      rw [hLp] at hx
      rw [uS1] at hmem'
      simp only [List.mem_append, List.mem_reverse, List.mem_filter] at hmem'
      rcases hmem' with h | h
      · exact hwf.sp x ((hSmem x).mp h.1) hx
      · exact (hinit x h).2.1 hx
    · apply uM6 _ (by rw [hLm]; exact missing_nodup m)
      intro x hx hmem'
      rw [hLm] at hx
      obtain ⟨n1, n2, _, n4⟩ := missing_not_known m x hx
      rw [bindsOf_append, uS1, uP1] at hmem'
      have hm2 : (x ∈ L.state) ∨ (x ∈ L.param ∧ keepP x = true) ∨ x ∈ initBoundRhs := by
        simp only [List.mem_append, List.mem_reverse, List.mem_filter, and_true] at hmem'
        rcases hmem' with (h | h) | h
        · first | exact Or.inl h | exact Or.inr (Or.inl h)
        · first | exact Or.inl h | exact Or.inr (Or.inl h)
        · exact Or.inr (Or.inr h)
      rcases hm2 with h | h | h
      · exact n1 ((hSmem x).mp h)
      · rw [hLp] at h; exact n2 h.1
      · exact (hinit x h).2.2.2 hx
    · apply monBody_ws m order 0 _ hnd
      · intro x hx hb
        have hxa := hordA x hx
        rcases (hBmem x).mp hb with h | h | h | h
        · exact hwf.sa x h hxa
        · exact hwf.pa x h.1 hxa
        · exact (missing_not_known m x h).2.2.1 hxa
        · exact (hinit x h).2.2.1 hxa
      · exact hdef
      · intro pre x post hsplit e he y hy
        have hx : x ∈ order := by rw [hsplit]; simp
        have hxe : (x, e) ∈ m.assigns := lookup_mem _ _ _ he
        rcases mentioned_cases m false x e y hxe hy with h | h | h | h | h
        · exact Or.inl ((hBmem y).mpr (Or.inr (Or.inr (Or.inr h))))
        · exact Or.inl ((hBmem y).mpr (Or.inl h.1))
        · exact Or.inl ((hBmem y).mpr (Or.inr (Or.inl ⟨h.1, hkP y h.2⟩)))
        · exact Or.inl ((hBmem y).mpr (Or.inr (Or.inr (Or.inl h))))
        · obtain ⟨pre', post', hs', hy'⟩ := hbef x e y hx he hy h
          have := split_unique order pre pre' post post' x hnd hsplit hs'
          exact Or.inr (this ▸ hy')
  · -- unpacks
    unfold checkUnpacks
    rw [unpacks_append, unpacks_append, unpacks_append, b1, List.append_nil]
    simp only [List.all_append, Bool.and_eq_true, List.all_eq_true]
    refine ⟨⟨?_, ?_⟩, ?_⟩
    · intro u hu
      obtain ⟨h1, _, h3⟩ := uS5 u hu
      rw [h1]; simpa using h3
    · intro u hu
      obtain ⟨h1, _, h3⟩ := uP5 u hu
      rw [h1]; simpa using h3
    · intro u hu
      obtain ⟨h1, _, h3⟩ := uM5 u hu
      rw [h1]; simpa using h3
  · -- defines
    unfold checkDefines
    rw [defines_append, defines_append, defines_append, uS2, uP2, uM2]
    simp only [List.nil_append, List.all_eq_true, Bool.or_eq_true]
    intro d hd
    exact Or.inl (by rw [b2 d hd]; rfl)
  · -- every monitor slot once
    apply slotsExact_of_perm
    rw [storeSlots_append, storeSlots_append, storeSlots_append, uS4, uP4, uM4, b3, hLmon]
    simp only [List.nil_append]
    rw [List.range_eq_range']
  · -- the stores
    rw [stores_append, stores_append, stores_append, uS3, uP3, uM3]
    simp only [List.nil_append, List.all_eq_true]
    intro st hst
    obtain ⟨x, h1, h2, _, h4⟩ := b4 st hst
    rw [h1]
    simp only [h2, Bool.true_and, beq_iff_eq, hLmon]
    simpa using h4

/-- the generator emits the model's own expressions -/
theorem genMonitor_exprOK {α} (N : Num α) (m : Model) (π : DepOrder) (ru : Bool) (L : Layout) (p : List Stmt)
    (ρ : Env α) (hwf : ModelWF m) (hπ : ∀ a ∈ m.assigns, ∀ y ∈ fv a.2, y ∈ π a.1 a.2)
    (hL : layout m π = some L) (hp : genMonitor m π ru = some p) : ExprOK N m ρ p := by
  unfold ExprOK
  intro d hd
  obtain ⟨order, hord, _, _, _, _⟩ := layout_fields m π L hL
  unfold genMonitor at hp
  rw [hL] at hp
  simp only [hord, Option.bind_eq_bind, Option.bind_some, Option.pure_def, Option.some.injEq] at hp
  subst hp
  rw [defines_append, defines_append, defines_append, unpackStates_eq, unpackParams_eq, unpackMissing_eq,
    (unpackBlock_facts _ _ _ 0).2.1, (unpackBlock_facts _ _ _ 0).2.1, (unpackBlock_facts _ _ _ 0).2.1] at hd
  simp only [List.nil_append] at hd
  obtain ⟨hnd, hmem, _⟩ := sorted_facts m π false order hwf.assigns_nodup hπ hord
  have hdef : ∀ x ∈ order, (m.rhsOf x).isSome := by
    intro x hx
    obtain ⟨a, ha, rfl⟩ := List.mem_map.mp ((hmem x).mp hx)
    exact rhsOf_isSome_of_mem m a.1 (List.mem_map.mpr ⟨a, keptAssigns_sub m false a ha, rfl⟩)
  have := (monBody_facts m order 0 hdef).2.1 d hd
  intro e he
  rw [this] at he
  cases he; rfl

/-- **… hence computes the specification**: slot `monitor_index x` of the `monitor_values` program of
the model's generator holds the value the equational specification gives to `x`, for every
assignment `x` (intermediates and derivatives alike). -/
theorem genMonitor_correct {α} (N : Num α) (m : Model) (π : DepOrder) (ru : Bool) (L : Layout) (p : List Stmt)
    (inp : Inputs α) (t : α) (ρ : Env α) (s' : St α)
    (hwf : ModelWF m) (hπ : ∀ a ∈ m.assigns, ∀ y ∈ fv a.2, y ∈ π a.1 a.2)
    (hL : layout m π = some L) (hp : genMonitor m π ru = some p)
    (hsol : Solution N m L inp t ρ) (hx : exec N inp (initRhs t) p = some s') :
    ∀ i x, L.monitor[i]? = some x → (ρ x).isSome ∧ s'.result i = ρ x :=
  checkMonitor_sound N m L inp t ρ p s' (genMonitor_valid m π ru L p hwf hπ hL hp) hsol
    (genMonitor_exprOK N m π ru L p ρ hwf hπ hL hp) hx

end GenValidMon
end Gx
