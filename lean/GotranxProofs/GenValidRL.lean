import GotranxProofs.GenValid
import GotranxProofs.DiffFv
/-!
# The Rush–Larsen generators of the `Impl` layer pass `checkScheme`

`Impl.genGRL` and `Impl.genHybrid` (the models of `schemes.generalized_rush_larsen` /
`hybrid_rush_larsen`: after a derivative of a stiff state whose linearisation is not syntactically
zero, define `<d>_linearized` and store the guarded exponential update; otherwise store the Euler
update) produce programs that pass `checkScheme` for every well-formed model, every stiff set, every
`delta` — provided no model quantity is called `dt` or `<d>_linearized` (the code generator refuses
such models).  The step that is specific to these schemes: the linearisation only reads names the
rate reads (`DiffFv.sub_diff`), so it is bound wherever the rate is.
-/
namespace Gx
namespace GenValidRL
open Impl Kahn GenValid

/-- what a store-maker may put after a derivative `x` of state `s`: nothing but the store, or the
definition of `<x>_linearized` followed by a store that may read it -/
def PreC (m : Model) (mk : Name → Name → Expr → List Stmt × Expr) (names bound : List Name) : Prop :=
  ∀ x ∈ names, ∀ s e, m.stateOfDeriv x = some s → m.rhsOf x = some e →
    (((mk s x e).1 = [] ∧ ∀ y ∈ fv (mk s x e).2, y = x ∨ y ∈ bound) ∨
     (∃ g, (mk s x e).1 = [.define (linName x) g] ∧ (∀ y ∈ fv g, y = x ∨ y ∈ bound ∨ y ∈ fv e) ∧
        ∀ y ∈ fv (mk s x e).2, y = x ∨ y = linName x ∨ y ∈ bound))

theorem PreC.mono {m mk names bound bound'} (h : PreC m mk names bound) (hb : ∀ y ∈ bound, y ∈ bound')
    (names' : List Name) (hn : ∀ x ∈ names', x ∈ names) : PreC m mk names' bound' := by
  intro x hx s e hs he
  rcases h x (hn x hx) s e hs he with ⟨h1, h2⟩ | ⟨g, h1, h2, h3⟩
  · exact Or.inl ⟨h1, fun y hy => (h2 y hy).imp id (hb y)⟩
  · exact Or.inr ⟨g, h1, fun y hy => (h2 y hy).imp id (Or.imp (hb y) id), fun y hy => (h3 y hy).imp id (Or.imp id (hb y))⟩

/-- structure of the body when helpers may be defined -/
theorem body_structure2 (m : Model) (L : Layout) (mk : Name → Name → Expr → List Stmt × Expr) :
    ∀ (names bound : List Name), (∀ x ∈ names, (m.rhsOf x).isSome) → PreC m mk names bound →
    unpacks (bodySlots m L mk names) = [] ∧
    (∀ d ∈ defines (bodySlots m L mk names), m.rhsOf d.1 = some d.2 ∨
        ∃ x ∈ names, (m.stateOfDeriv x).isSome ∧ d.1 = linName x) ∧
    storeSlots (bodySlots m L mk names) =
      (names.filterMap m.stateOfDeriv).map (fun s => (slotOf L.state s).getD 0) := by
  intro names
  induction names with
  | nil => intro _ _ _; simp [bodySlots, unpacks, defines, storeSlots]
  | cons x rest ih =>
    intro bound hdef hmk
    obtain ⟨e, he⟩ := Option.isSome_iff_exists.mp (hdef x (by simp))
    obtain ⟨ih2, ih3, ih4⟩ := ih bound (fun y hy => hdef y (by simp [hy]))
      (hmk.mono (fun _ h => h) rest (fun y hy => by simp [hy]))
    have lift : ∀ d : Name × Expr, (m.rhsOf d.1 = some d.2 ∨ ∃ y ∈ rest, (m.stateOfDeriv y).isSome ∧ d.1 = linName y) →
        (m.rhsOf d.1 = some d.2 ∨ ∃ y ∈ x :: rest, (m.stateOfDeriv y).isSome ∧ d.1 = linName y) := by
      intro d h
      rcases h with h | ⟨y, hy, h1, h2⟩
      · exact Or.inl h
      · exact Or.inr ⟨y, by simp [hy], h1, h2⟩
    cases hs : m.stateOfDeriv x with
    | none =>
      simp only [bodySlots, he, hs, unpacks, defines, storeSlots, List.filterMap_cons]
      refine ⟨ih2, ?_, ih4⟩
      intro d hd
      simp only [List.mem_cons] at hd
      rcases hd with rfl | hd
      · exact Or.inl he
      · exact lift d (ih3 d hd)
    | some s =>
      rcases hmk x (by simp) s e hs he with ⟨hpre, _⟩ | ⟨g, hpre, _, _⟩
      · have hbody : bodySlots m L mk (x :: rest) =
            .define x e :: .store ((slotOf L.state s).getD 0) (mk s x e).2 :: bodySlots m L mk rest := by
          simp only [bodySlots, he, hs]; rw [hpre]; rfl
        rw [hbody]
        simp only [unpacks, defines, storeSlots, List.filterMap_cons, hs, List.map_cons]
        refine ⟨ih2, ?_, by rw [ih4]⟩
        intro d hd
        simp only [List.mem_cons] at hd
        rcases hd with rfl | hd
        · exact Or.inl he
        · exact lift d (ih3 d hd)
      · have hbody : bodySlots m L mk (x :: rest) =
            .define x e :: .define (linName x) g :: .store ((slotOf L.state s).getD 0) (mk s x e).2 ::
              bodySlots m L mk rest := by
          simp only [bodySlots, he, hs]; rw [hpre]; rfl
        rw [hbody]
        simp only [unpacks, defines, storeSlots, List.filterMap_cons, hs, List.map_cons]
        refine ⟨ih2, ?_, by rw [ih4]⟩
        intro d hd
        simp only [List.mem_cons] at hd
        rcases hd with rfl | rfl | hd
        · exact Or.inl he
        · exact Or.inr ⟨x, by simp, by simp [hs], rfl⟩
        · exact lift d (ih3 d hd)

theorem linName_inj (x y : Name) (h : linName x = linName y) : x = y := by
  unfold linName at h
  have := congrArg String.toList h
  simp only [String.toList_append] at this
  exact String.toList_injective (List.append_cancel_right this)

/-- definition before use, with helpers (freshness of `<x>_linearized` is only asked for derivatives) -/
theorem body_ws2 (m : Model) (L : Layout) (mk : Name → Name → Expr → List Stmt × Expr) :
    ∀ (names bound : List Name), names.Nodup →
    (∀ x ∈ names, x ∉ bound) →
    (∀ x ∈ names, (m.stateOfDeriv x).isSome → linName x ∉ bound ∧ ∀ y ∈ names, linName x ≠ y) →
    (∀ x ∈ names, (m.rhsOf x).isSome) →
    (∀ pre x post, names = pre ++ x :: post → ∀ e, m.rhsOf x = some e → ∀ y ∈ fv e, y ∈ bound ∨ y ∈ pre) →
    PreC m mk names bound →
    wellScoped bound (bodySlots m L mk names) = true := by
  intro names
  induction names with
  | nil => intros; simp [bodySlots, wellScoped]
  | cons x rest ih =>
    intro bound hnd hnew hlin hdef hdeps hmk
    obtain ⟨e, he⟩ := Option.isSome_iff_exists.mp (hdef x (by simp))
    have hxb : x ∉ bound := hnew x (by simp)
    have hfv : ∀ y ∈ fv e, y ∈ bound := by
      intro y hy
      rcases hdeps [] x rest rfl e he y hy with h | h
      · exact h
      · simp at h
    simp only [List.nodup_cons] at hnd
    -- the rest of the body, after `x` and possibly its helper have been bound
    have hrest : ∀ extra : List Name, (extra = [] ∨ (extra = [linName x] ∧ (m.stateOfDeriv x).isSome = true)) →
        wellScoped (extra ++ x :: bound) (bodySlots m L mk rest) = true := by
      intro extra hex
      have hmemx : ∀ y, y ∈ extra ++ x :: bound → y = x ∨ y ∈ bound ∨ (y = linName x ∧ (m.stateOfDeriv x).isSome = true) := by
        intro y hy
        simp only [List.mem_append, List.mem_cons] at hy
        rcases hy with h | h | h
        · rcases hex with rfl | ⟨rfl, hd⟩
          · simp at h
          · simp only [List.mem_singleton] at h; exact Or.inr (Or.inr ⟨h, hd⟩)
        · exact Or.inl h
        · exact Or.inr (Or.inl h)
      apply ih (extra ++ x :: bound) hnd.2
      · intro y hy hmem
        have hyx : y ≠ x := fun h => hnd.1 (h ▸ hy)
        rcases hmemx y hmem with h | h | ⟨h, hd⟩
        · exact hyx h
        · exact hnew y (by simp [hy]) h
        · exact (hlin x (by simp) hd).2 y (by simp [hy]) h.symm
      · intro y hy hyd
        have hyx : y ≠ x := fun h => hnd.1 (h ▸ hy)
        obtain ⟨h1, h2⟩ := hlin y (by simp [hy]) hyd
        refine ⟨?_, fun z hz => h2 z (by simp [hz])⟩
        intro hmem
        rcases hmemx (linName y) hmem with h | h | ⟨h, _⟩
        · exact h2 x (by simp) h
        · exact h1 h
        · exact hyx (linName_inj y x h)
      · intro y hy; exact hdef y (by simp [hy])
      · intro pre z post hsplit e' he' y hy
        rcases hdeps (x :: pre) z post (by rw [hsplit]; rfl) e' he' y hy with h | h
        · exact Or.inl (by simp [h])
        · simp only [List.mem_cons] at h
          rcases h with rfl | h
          · exact Or.inl (by simp)
          · exact Or.inr h
      · exact hmk.mono (fun y hy => by simp [hy]) rest (fun y hy => by simp [hy])
    have hall : (fv e).all bound.contains = true := by
      simp only [List.all_eq_true, List.contains_eq_mem, decide_eq_true_eq]; exact hfv
    have hnc : bound.contains x = false := by simpa using hxb
    have hr0 : wellScoped (x :: bound) (bodySlots m L mk rest) = true := by simpa using hrest [] (Or.inl rfl)
    cases hs : m.stateOfDeriv x with
    | none =>
      simp only [bodySlots, he, hs, wellScoped, hnc, hall, hr0, Bool.not_false, Bool.and_self]
    | some s =>
      rcases hmk x (by simp) s e hs he with ⟨hpre, hst⟩ | ⟨g, hpre, hg, hst⟩
      · have hbody : bodySlots m L mk (x :: rest) =
            .define x e :: .store ((slotOf L.state s).getD 0) (mk s x e).2 :: bodySlots m L mk rest := by
          simp only [bodySlots, he, hs]; rw [hpre]; rfl
        rw [hbody]
        have hall2 : (fv (mk s x e).2).all (x :: bound).contains = true := by
          simp only [List.all_eq_true, List.contains_eq_mem, decide_eq_true_eq, List.mem_cons]
          intro y hy
          rcases hst y hy with h | h
          · exact Or.inl h
          · exact Or.inr h
        simp only [wellScoped, hnc, hall, hall2, hr0, Bool.not_false, Bool.and_self]
      · have hbody : bodySlots m L mk (x :: rest) =
            .define x e :: .define (linName x) g :: .store ((slotOf L.state s).getD 0) (mk s x e).2 ::
              bodySlots m L mk rest := by
          simp only [bodySlots, he, hs]; rw [hpre]; rfl
        rw [hbody]
        have hd : (m.stateOfDeriv x).isSome = true := by simp [hs]
        obtain ⟨hlb, hlnames⟩ := hlin x (by simp) hd
        have hlx : linName x ≠ x := hlnames x (by simp)
        have hnl : (x :: bound).contains (linName x) = false := by
          simp only [List.contains_eq_mem, List.mem_cons, decide_eq_false_iff_not, not_or]
          exact ⟨hlx, hlb⟩
        have hallg : (fv g).all (x :: bound).contains = true := by
          simp only [List.all_eq_true, List.contains_eq_mem, decide_eq_true_eq, List.mem_cons]
          intro y hy
          rcases hg y hy with h | h | h
          · exact Or.inl h
          · exact Or.inr h
          · exact Or.inr (hfv y h)
        have hall2 : (fv (mk s x e).2).all (linName x :: x :: bound).contains = true := by
          simp only [List.all_eq_true, List.contains_eq_mem, decide_eq_true_eq, List.mem_cons]
          intro y hy
          rcases hst y hy with h | h | h
          · exact Or.inr (Or.inl h)
          · exact Or.inl h
          · exact Or.inr (Or.inr h)
        have hr1 : wellScoped (linName x :: x :: bound) (bodySlots m L mk rest) = true := by
          simpa using hrest [linName x] (Or.inr ⟨rfl, hd⟩)
        simp only [wellScoped, hnc, hall, hnl, hallg, hall2, hr1, Bool.not_false, Bool.and_self]

/-- the names the schemes add must be free: the generator refuses models using them -/
structure NoHelperClash (m : Model) : Prop where
  dt : "dt" ∉ m.stateNames ∧ "dt" ∉ m.paramNames ∧ "dt" ∉ m.assignNames ∧ "dt" ∉ missingVariables m
  lin : ∀ d ∈ m.derivs, linName d.1 ∉ m.stateNames ∧ linName d.1 ∉ m.paramNames ∧
    linName d.1 ∉ m.assignNames ∧ linName d.1 ∉ missingVariables m ∧ linName d.1 ∉ initBoundScheme

theorem gen_core2 (m : Model) (π : DepOrder) (ru : Bool) (L : Layout) (order : List Name)
    (mk : Name → Name → Expr → List Stmt × Expr) (keepP : Name → Bool)
    (hwf : ModelWF m) (hcl : NoHelperClash m) (hπ : ∀ a ∈ m.assigns, ∀ y ∈ fv a.2, y ∈ π a.1 a.2)
    (hL : layout m π = some L) (hord : sortedAssignments m π ru = some order)
    (hkP : ∀ y, (mentioned m).contains y = true → keepP y = true)
    (hmk : ∀ bound : List Name, (∀ y, y ∈ m.stateNames → y ∈ bound) → (∀ y ∈ initBoundScheme, y ∈ bound) →
      PreC m mk order bound) :
    checkScheme m L (unpackStates L (fun _ => true) ++ unpackParams L keepP ++ unpackMissing L ++
      bodySlots m L mk order) = true := by
  obtain ⟨order0, hord0, hLs, hLp, _, hLm⟩ := layout_fields m π L hL
  obtain ⟨hnd0, hmem0, _⟩ := sorted_facts m π false order0 hwf.assigns_nodup hπ hord0
  obtain ⟨hnd, hmem, hbef⟩ := sorted_facts m π ru order hwf.assigns_nodup hπ hord
  have hSperm : L.state.Perm m.stateNames := by rw [hLs]; exact states_of_order m hwf false order0 hnd0 hmem0
  have hSnd : L.state.Nodup := hSperm.nodup_iff.mpr hwf.states_nodup
  have hSmem : ∀ x, x ∈ L.state ↔ x ∈ m.stateNames := fun x => hSperm.mem_iff
  have hordA : ∀ x ∈ order, x ∈ m.assignNames := by
    intro x hx
    obtain ⟨a, ha, rfl⟩ := List.mem_map.mp ((hmem x).mp hx)
    exact List.mem_map.mpr ⟨a, keptAssigns_sub m ru a ha, rfl⟩
  have hdef : ∀ x ∈ order, (m.rhsOf x).isSome := fun x hx => rhsOf_isSome_of_mem m x (hordA x hx)
  have hinit : ∀ x ∈ initBoundScheme, x ∉ m.stateNames ∧ x ∉ m.paramNames ∧ x ∉ m.assignNames ∧
      x ∉ missingVariables m := by
    intro x hx
    simp only [initBoundScheme, List.mem_cons] at hx
    rcases hx with rfl | hx
    · exact hcl.dt
    · exact ⟨(hwf.time x hx).1, (hwf.time x hx).2.1, (hwf.time x hx).2.2, time_not_missing m x hx⟩
  obtain ⟨uS1, uS2, uS3, uS4, uS5, uS6⟩ := unpackBlock_facts .states (fun _ => true) L.state 0
  obtain ⟨uP1, uP2, uP3, uP4, uP5, uP6⟩ := unpackBlock_facts .params keepP L.param 0
  obtain ⟨uM1, uM2, uM3, uM4, uM5, uM6⟩ := unpackBlock_facts .missing (fun _ => true) L.missing 0
  have hp : unpackStates L (fun _ => true) ++ unpackParams L keepP ++ unpackMissing L ++ bodySlots m L mk order =
      unpackBlock .states (fun _ => true) 0 L.state ++ unpackBlock .params keepP 0 L.param ++
      unpackBlock .missing (fun _ => true) 0 L.missing ++ bodySlots m L mk order := by
    rw [unpackStates_eq, unpackParams_eq, unpackMissing_eq]
  rw [hp]
  have hBmem : ∀ y, y ∈ (bindsOf (unpackBlock .states (fun _ => true) 0 L.state ++ unpackBlock .params keepP 0 L.param ++
      unpackBlock .missing (fun _ => true) 0 L.missing)).reverse ++ initBoundScheme ↔
      y ∈ m.stateNames ∨ (y ∈ m.paramNames ∧ keepP y = true) ∨ y ∈ missingVariables m ∨ y ∈ initBoundScheme := by
    intro y
    rw [bindsOf_append, bindsOf_append, uS1, uP1, uM1, hLp, hLm]
    simp only [List.mem_append, List.mem_reverse, List.mem_filter, hSmem, and_true]
    constructor
    · rintro (((h | h) | h) | h)
      · exact Or.inl h
      · exact Or.inr (Or.inl h)
      · exact Or.inr (Or.inr (Or.inl h))
      · exact Or.inr (Or.inr (Or.inr h))
    · rintro (h | h | h | h)
      · exact Or.inl (Or.inl (Or.inl h))
      · exact Or.inl (Or.inl (Or.inr h))
      · exact Or.inl (Or.inr h)
      · exact Or.inr h
  have hPre := hmk _ (fun y hy => (hBmem y).mpr (Or.inl hy))
    (fun y hy => (hBmem y).mpr (Or.inr (Or.inr (Or.inr hy))))
  obtain ⟨b2, b3, b4⟩ := body_structure2 m L mk order _ hdef hPre
  have hderivOf : ∀ x, (m.stateOfDeriv x).isSome = true → ∃ d ∈ m.derivs, d.1 = x := by
    intro x hx
    obtain ⟨s, hs⟩ := Option.isSome_iff_exists.mp hx
    obtain ⟨d, hd, h1, _⟩ := (stateOfDeriv_facts m hwf.assigns_nodup).2.2 x s hs
    exact ⟨d, hd, h1⟩
  unfold checkScheme
  simp only [Bool.and_eq_true]
  refine ⟨⟨⟨?_, ?_⟩, ?_⟩, ?_⟩
  · -- well scoped
    rw [wellScoped_append, wellScoped_append, wellScoped_append]
    simp only [Bool.and_eq_true]
    refine ⟨⟨⟨?_, ?_⟩, ?_⟩, ?_⟩
    · exact uS6 initBoundScheme hSnd (fun x hx hi => (hinit x hi).1 ((hSmem x).mp hx))
    · apply uP6 _ (by rw [hLp]; exact hwf.params_nodup)
      intro x hx hmem'
      rw [hLp] at hx
      rw [uS1] at hmem'
      simp only [List.mem_append, List.mem_reverse, List.mem_filter] at hmem'
      rcases hmem' with h | h
      · exact hwf.sp x ((hSmem x).mp h.1) hx
      · exact (hinit x h).2.1 hx
    · apply uM6 _ (by rw [hLm]; exact missing_nodup m)
      intro x hx hmem'
      rw [hLm] at hx
      obtain ⟨n1, n2, _, n4⟩ := missing_not_known m x hx
      rw [bindsOf_append, uS1, uP1] at hmem'
      have hm2 : (x ∈ L.state) ∨ (x ∈ L.param ∧ keepP x = true) ∨ x ∈ initBoundScheme := by
        simp only [List.mem_append, List.mem_reverse, List.mem_filter, and_true] at hmem'
        rcases hmem' with (h | h) | h
        · first | exact Or.inl h | exact Or.inr (Or.inl h)
        · first | exact Or.inl h | exact Or.inr (Or.inl h)
        · exact Or.inr (Or.inr h)
      rcases hm2 with h | h | h
      · exact n1 ((hSmem x).mp h)
      · rw [hLp] at h; exact n2 h.1
      · exact (hinit x h).2.2.2 hx
    · apply body_ws2 m L mk order _ hnd
      · intro x hx hb
        have hxa := hordA x hx
        rcases (hBmem x).mp hb with h | h | h | h
        · exact hwf.sa x h hxa
        · exact hwf.pa x h.1 hxa
        · exact (missing_not_known m x h).2.2.1 hxa
        · exact (hinit x h).2.2.1 hxa
      · intro x hx hxd
        obtain ⟨d, hd, rfl⟩ := hderivOf x hxd
        obtain ⟨c1, c2, c3, c4, c5⟩ := hcl.lin d hd
        refine ⟨fun hb => ?_, fun y hy h => c3 (h ▸ hordA y hy)⟩
        rcases (hBmem _).mp hb with h | h | h | h
        · exact c1 h
        · exact c2 h.1
        · exact c4 h
        · exact c5 h
      · exact hdef
      · intro pre x post hsplit e he y hy
        have hx : x ∈ order := by rw [hsplit]; simp
        have hxe : (x, e) ∈ m.assigns := lookup_mem _ _ _ he
        rcases mentioned_cases m ru x e y hxe hy with h | h | h | h | h
        · exact Or.inl ((hBmem y).mpr (Or.inr (Or.inr (Or.inr (by simp [initBoundScheme, h])))))
        · exact Or.inl ((hBmem y).mpr (Or.inl h.1))
        · exact Or.inl ((hBmem y).mpr (Or.inr (Or.inl ⟨h.1, hkP y h.2⟩)))
        · exact Or.inl ((hBmem y).mpr (Or.inr (Or.inr (Or.inl h))))
        · obtain ⟨pre', post', hs', hy'⟩ := hbef x e y hx he hy h
          have := split_unique order pre pre' post post' x hnd hsplit hs'
          exact Or.inr (this ▸ hy')
      · exact hPre
  · -- unpacks
    unfold checkUnpacks
    rw [unpacks_append, unpacks_append, unpacks_append, b2, List.append_nil]
    simp only [List.all_append, Bool.and_eq_true, List.all_eq_true]
    refine ⟨⟨?_, ?_⟩, ?_⟩
    · intro u hu
      obtain ⟨h1, _, h3⟩ := uS5 u hu
      rw [h1]; simpa using h3
    · intro u hu
      obtain ⟨h1, _, h3⟩ := uP5 u hu
      rw [h1]; simpa using h3
    · intro u hu
      obtain ⟨h1, _, h3⟩ := uM5 u hu
      rw [h1]; simpa using h3
  · -- defines: model assignments and the `_linearized` helpers of derivatives
    unfold checkDefines
    rw [defines_append, defines_append, defines_append, uS2, uP2, uM2]
    simp only [List.nil_append, List.all_eq_true, Bool.or_eq_true]
    intro d hd
    rcases b3 d hd with h | ⟨x, _, hxd, hdx⟩
    · exact Or.inl (by rw [h]; rfl)
    · obtain ⟨d', hd', rfl⟩ := hderivOf x hxd
      refine Or.inr ?_
      simp only [List.contains_eq_mem, List.mem_map, decide_eq_true_eq]
      exact ⟨d', hd', by rw [hdx]; rfl⟩
  · -- every slot once
    apply slotsExact_of_perm
    rw [storeSlots_append, storeSlots_append, storeSlots_append, uS4, uP4, uM4, b4]
    simp only [List.nil_append]
    have hperm : (order.filterMap m.stateOfDeriv).Perm L.state :=
      (states_of_order m hwf ru order hnd hmem).trans hSperm.symm
    rw [← slot_map_self L.state hSnd]
    exact hperm.map _

/-- what `rlStore` puts after a derivative is admissible: the linearisation reads only what the
rate reads (`sub_diff`), the store reads the state, `dt`, the derivative and the helper -/
theorem rlStore_preC (m : Model) (hwf : ModelWF m) (stiff : Name → Bool) (delta : Expr) (hδ : fv delta = [])
    (order bound : List Name) (hS : ∀ y, y ∈ m.stateNames → y ∈ bound) (hI : ∀ y ∈ initBoundScheme, y ∈ bound) :
    PreC m (rlStore stiff delta) order bound := by
  intro x _ s e hs _
  have hsb : s ∈ bound := by
    obtain ⟨d, hd, _, hds⟩ := (stateOfDeriv_facts m hwf.assigns_nodup).2.2 x s hs
    exact hS s (hwf.derivs.mem_iff.mp (List.mem_map.mpr ⟨d, hd, hds⟩))
  have hdt : "dt" ∈ bound := hI "dt" (by simp [initBoundScheme])
  unfold rlStore
  by_cases hc : (!stiff s || (diff s e).isZero) = true
  · left
    simp only [hc, if_true, true_and]
    intro y hy
    simp only [eulerStore, fv, List.mem_append, List.mem_cons, List.not_mem_nil, or_false] at hy
    rcases hy with rfl | rfl | rfl
    · exact Or.inr hsb
    · exact Or.inr hdt
    · exact Or.inl rfl
  · right
    simp only [hc]
    refine ⟨diff s e, rfl, fun y hy => Or.inr (Or.inr (DiffFv.sub_diff s e y hy)), ?_⟩
    intro y hy
    have hy' : y ∈ fv (Expr.add (.var s) (rlTerm x delta true)) := hy
    simp only [rlTerm, Expr.one, fv, hδ, if_true, List.mem_append, List.mem_cons, List.not_mem_nil,
      or_false, List.append_nil] at hy'
    have h4 : y = s ∨ y = x ∨ y = linName x ∨ y = "dt" := by grind
    rcases h4 with rfl | rfl | rfl | rfl
    · exact Or.inr (Or.inr hsb)
    · exact Or.inl rfl
    · exact Or.inr (Or.inl rfl)
    · exact Or.inr (Or.inr hdt)

/-- **`Impl.genGRL` always passes `checkScheme`** -/
theorem genGRL_valid (m : Model) (π : DepOrder) (ru : Bool) (delta : Expr) (L : Layout) (p : List Stmt)
    (hwf : ModelWF m) (hcl : NoHelperClash m) (hπ : ∀ a ∈ m.assigns, ∀ y ∈ fv a.2, y ∈ π a.1 a.2)
    (hδ : fv delta = []) (hL : layout m π = some L) (hp : genGRL m π ru delta = some p) :
    checkScheme m L p = true := by
  unfold genGRL at hp
  rw [hL] at hp
  cases hord : sortedAssignments m π ru with
  | none => simp [hord] at hp
  | some order =>
    simp only [hord, Option.bind_eq_bind, Option.bind_some, Option.pure_def, Option.some.injEq] at hp
    subst hp
    exact gen_core2 m π ru L order _ _ hwf hcl hπ hL hord (fun y hy => by rw [hy]; simp)
      (fun bound hS hI => rlStore_preC m hwf _ delta hδ order bound hS hI)

/-- **`Impl.genHybrid` always passes `checkScheme`**, for every stiff set -/
theorem genHybrid_valid (m : Model) (π : DepOrder) (ru : Bool) (delta : Expr) (stiff : List Name)
    (L : Layout) (p : List Stmt)
    (hwf : ModelWF m) (hcl : NoHelperClash m) (hπ : ∀ a ∈ m.assigns, ∀ y ∈ fv a.2, y ∈ π a.1 a.2)
    (hδ : fv delta = []) (hL : layout m π = some L) (hp : genHybrid m π ru delta stiff = some p) :
    checkScheme m L p = true := by
  unfold genHybrid at hp
  rw [hL] at hp
  cases hord : sortedAssignments m π ru with
  | none => simp [hord] at hp
  | some order =>
    simp only [hord, Option.bind_eq_bind, Option.bind_some, Option.pure_def, Option.some.injEq] at hp
    subst hp
    exact gen_core2 m π ru L order _ _ hwf hcl hπ hL hord (fun y hy => by rw [hy]; simp)
      (fun bound hS hI => rlStore_preC m hwf _ delta hδ order bound hS hI)

/-- the executable check decides `NoHelperClash` (the driver evaluates it on every loaded model) -/
theorem checkNoHelperClash_sound (m : Model) (h : checkNoHelperClash m = true) : NoHelperClash m := by
  simp only [checkNoHelperClash, Bool.and_eq_true, Bool.not_eq_true', List.all_eq_true,
    List.contains_eq_mem, decide_eq_false_iff_not, List.mem_append, not_or] at h
  obtain ⟨⟨⟨⟨h1, h2⟩, h3⟩, h4⟩, hl⟩ := h
  refine ⟨⟨h1, h2, h3, h4⟩, fun d hd => ?_⟩
  obtain ⟨⟨⟨⟨l1, l2⟩, l3⟩, l4⟩, l5⟩ := hl d hd
  exact ⟨l1, l2, l3, l4, l5⟩

/-- in the form the driver evaluates: on a model that passes the two executable checks, both
Rush–Larsen generators produce a program accepted by `checkScheme` -/
theorem rl_generators_valid (m : Model) (π : DepOrder) (ru : Bool) (dm : Nat) (de : Int) (stiff : List Name)
    (L : Layout) (hwf : checkModelWF m = true) (hcl : checkNoHelperClash m = true)
    (hπ : ∀ a ∈ m.assigns, ∀ y ∈ fv a.2, y ∈ π a.1 a.2) (hL : layout m π = some L) :
    (∀ p, genGRL m π ru (.num dm de) = some p → checkScheme m L p = true) ∧
    (∀ p, genHybrid m π ru (.num dm de) stiff = some p → checkScheme m L p = true) :=
  ⟨fun p hp => genGRL_valid m π ru _ L p (checkModelWF_sound m hwf) (checkNoHelperClash_sound m hcl) hπ rfl hL hp,
   fun p hp => genHybrid_valid m π ru _ stiff L p (checkModelWF_sound m hwf) (checkNoHelperClash_sound m hcl) hπ rfl hL hp⟩

end GenValidRL
end Gx
