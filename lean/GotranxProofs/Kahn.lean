import GotranxModel
import Batteries.Data.List.Perm
/-!
# Correctness of `static_order` (Kahn's algorithm as `graphlib` runs it)

`staticOrder adds = some out` implies that `out` lists every node exactly once and that every
node comes after all the predecessors it was `add`ed with — for every sequence of `add` calls:
any number of nodes, any dependency shape, repeated edges, nodes mentioned only as predecessors.
The proof follows the run: `cnt E D x` counts the edges into `x` whose source is not yet in the
finished list `D`; the counters of the sorter equal `cnt E out` at the head of every round, a node
enters a ready list exactly when its counter reaches zero, and a counter that is zero is never
decremented again (so truncated subtraction never bites and no node is emitted twice).
-/
namespace Gx
namespace Kahn

/-- edges into `x` whose source is not in `D` -/
def cnt (E : List (Name × Name)) (D : List Name) (x : Name) : Nat :=
  E.countP fun e => e.2 == x && !D.contains e.1

/-- multiplicity of the edge `r → x` -/
def mult (E : List (Name × Name)) (r x : Name) : Nat :=
  E.countP fun e => e.1 == r && e.2 == x

/-- `p` is emitted before `n` -/
def Before (out : List Name) (p n : Name) : Prop := ∃ pre post, out = pre ++ n :: post ∧ p ∈ pre

theorem count_succsOf (E : List (Name × Name)) (r x : Name) : (succsOf E r).count x = mult E r x := by
  unfold succsOf mult
  induction E with
  | nil => rfl
  | cons e rest ih =>
    simp only [List.filter_cons, List.countP_cons]
    by_cases h1 : (e.1 == r) = true
    · simp only [h1, if_true, List.map_cons, List.count_cons, Bool.true_and]
      rw [ih]
    · simp only [h1, Bool.false_eq_true, if_false, Bool.false_and]
      rw [ih]; simp

theorem cnt_nil (E : List (Name × Name)) (x : Name) : cnt E [] x = npred0 E x := by
  unfold cnt npred0
  congr 1
  funext e
  simp

theorem cnt_split (E : List (Name × Name)) (D : List Name) (r x : Name) (hr : r ∉ D) :
    cnt E D x = cnt E (D ++ [r]) x + mult E r x := by
  unfold cnt mult
  induction E with
  | nil => rfl
  | cons e rest ih =>
    simp only [List.countP_cons]
    rw [ih]
    by_cases hx : (e.2 == x) = true
    · by_cases her : e.1 = r
      · have h1 : D.contains e.1 = false := by rw [her]; simpa using hr
        have h2 : (D ++ [r]).contains e.1 = true := by rw [her]; simp
        have h5 : (e.1 == r) = true := by simpa using her
        simp only [hx, h1, h2, h5, Bool.true_and, Bool.not_false, Bool.not_true, if_true,
          Bool.false_eq_true, if_false]
        omega
      · have h3 : (D ++ [r]).contains e.1 = D.contains e.1 := by
          simp only [List.contains_eq_mem, List.mem_append, List.mem_singleton, her, or_false]
        have h4 : (e.1 == r) = false := by simpa using her
        simp only [hx, h3, h4, Bool.true_and, Bool.false_and, Bool.false_eq_true, if_false]
        omega
    · simp only [hx, Bool.false_and, Bool.and_false, Bool.false_eq_true, if_false]
      omega

theorem cnt_antitone (E : List (Name × Name)) (D D' : List Name) (x : Name) (h : ∀ y ∈ D, y ∈ D') :
    cnt E D' x ≤ cnt E D x := by
  unfold cnt
  apply List.countP_mono_left
  intro e _ he
  simp only [Bool.and_eq_true, Bool.not_eq_true', List.contains_eq_mem, decide_eq_false_iff_not] at he ⊢
  exact ⟨he.1, fun hm => he.2 (h _ hm)⟩

theorem cnt_zero_preds (E : List (Name × Name)) (D : List Name) (x : Name) (h : cnt E D x = 0)
    (p : Name) (hp : (p, x) ∈ E) : p ∈ D := by
  unfold cnt at h
  rw [List.countP_eq_zero] at h
  have := h (p, x) hp
  simpa using this

/-! ### one `done(r)`: the inner fold over the successors of `r` -/

theorem decr_fold (c : Name → Nat) : ∀ (ss : List Name) (np : Name → Nat) (nx : List Name),
    (∀ x, np x = c x + ss.count x) →
    ∃ L, (ss.foldl decr (np, nx)).2 = nx ++ L ∧ (∀ x, (ss.foldl decr (np, nx)).1 x = c x) ∧
      L.Nodup ∧ ∀ t ∈ L, c t = 0 ∧ t ∈ ss ∧ 0 < np t := by
  intro ss
  induction ss with
  | nil =>
    intro np nx h
    exact ⟨[], by simp, fun x => by simpa using h x, List.nodup_nil, fun t ht => by simp at ht⟩
  | cons s rest ih =>
    intro np nx h
    have hs : np s = c s + rest.count s + 1 := by
      have := h s; simp only [List.count_cons_self] at this; omega
    simp only [List.foldl_cons]
    -- the state after the first decrement
    have hk : np s - 1 = c s + rest.count s := by omega
    have hadd : ∀ x, (updNat np s (np s - 1)) x = c x + rest.count x := by
      intro x
      unfold updNat
      by_cases hx : x = s
      · subst hx; simp only [if_true]; exact hk
      · have hsx : (s == x) = false := by simpa using fun h' => hx h'.symm
        simp only [hx, if_false]
        have := h x
        simp only [List.count_cons, hsx, Bool.false_eq_true, if_false] at this
        omega
    by_cases hz : (np s - 1 == 0) = true
    · -- `s` becomes ready
      have hz' : np s - 1 = 0 := by simpa using hz
      obtain ⟨L', h2, h1, hnd, hL'⟩ := ih (updNat np s (np s - 1)) (nx ++ [s]) hadd
      have hdecr : decr (np, nx) s = (updNat np s (np s - 1), nx ++ [s]) := by
        simp only [decr, hz, if_true]
      rw [hdecr]
      refine ⟨s :: L', by rw [h2]; simp, h1, ?_, ?_⟩
      · refine List.nodup_cons.mpr ⟨?_, hnd⟩
        intro hmem
        have := (hL' s hmem).2.2
        unfold updNat at this
        simp only [if_true] at this
        omega
      · intro t ht
        simp only [List.mem_cons] at ht
        rcases ht with rfl | ht
        · exact ⟨by omega, by simp, by omega⟩
        · obtain ⟨h0, hmem, hpos⟩ := hL' t ht
          refine ⟨h0, List.mem_cons_of_mem _ hmem, ?_⟩
          unfold updNat at hpos
          by_cases hts : t = s
          · subst hts; omega
          · simpa [hts] using hpos
    · have hdecr : decr (np, nx) s = (updNat np s (np s - 1), nx) := by
        simp only [decr, hz, Bool.false_eq_true, if_false]
      rw [hdecr]
      obtain ⟨L', h2, h1, hnd, hL'⟩ := ih (updNat np s (np s - 1)) nx hadd
      refine ⟨L', h2, h1, hnd, ?_⟩
      intro t ht
      obtain ⟨h0, hmem, hpos⟩ := hL' t ht
      refine ⟨h0, List.mem_cons_of_mem _ hmem, ?_⟩
      unfold updNat at hpos
      by_cases hts : t = s
      · subst hts; omega
      · simpa [hts] using hpos

/-! ### one round: `done(*ready)` -/

theorem done_fold (E : List (Name × Name)) : ∀ (rs D : List Name) (np : Name → Nat) (nx : List Name),
    (∀ x, np x = cnt E D x) → (D ++ rs).Nodup →
    ∃ L, (rs.foldl (doneNode E) (np, nx)).2 = nx ++ L ∧
      (∀ x, (rs.foldl (doneNode E) (np, nx)).1 x = cnt E (D ++ rs) x) ∧ L.Nodup ∧
      ∀ t ∈ L, cnt E (D ++ rs) t = 0 ∧ 0 < np t ∧ ∃ r ∈ rs, t ∈ succsOf E r := by
  intro rs
  induction rs with
  | nil =>
    intro D np nx h _
    exact ⟨[], by simp, fun x => by simpa using h x, List.nodup_nil, fun t ht => by simp at ht⟩
  | cons r rest ih =>
    intro D np nx h hnd
    have hrD : r ∉ D := by
      intro hm
      have := List.nodup_append.mp hnd
      exact this.2.2 r hm r (by simp) rfl
    simp only [List.foldl_cons]
    have hadd : ∀ x, np x = cnt E (D ++ [r]) x + (succsOf E r).count x := by
      intro x; rw [h x, count_succsOf, cnt_split E D r x hrD]
    obtain ⟨L1, h12, h11, hnd1, hL1⟩ := decr_fold (cnt E (D ++ [r])) (succsOf E r) np nx hadd
    have hst : doneNode E (np, nx) r = ((doneNode E (np, nx) r).1, nx ++ L1) := by
      unfold doneNode; rw [← h12]
    rw [hst]
    have hnd' : ((D ++ [r]) ++ rest).Nodup := by simpa [List.append_assoc] using hnd
    obtain ⟨L2, h22, h21, hnd2, hL2⟩ := ih (D ++ [r]) (doneNode E (np, nx) r).1 (nx ++ L1)
      (by intro x; unfold doneNode; exact h11 x) hnd'
    have happ : D ++ [r] ++ rest = D ++ r :: rest := by simp
    refine ⟨L1 ++ L2, by rw [h22]; simp, ?_, ?_, ?_⟩
    · intro x; rw [h21 x, happ]
    · refine List.nodup_append.mpr ⟨hnd1, hnd2, ?_⟩
      intro a ha b hb hab
      subst hab
      have h0 := (hL1 a ha).1
      have hpos := (hL2 a hb).2.1
      have : (doneNode E (np, nx) r).1 a = cnt E (D ++ [r]) a := by unfold doneNode; exact h11 a
      omega
    · intro t ht
      rcases List.mem_append.mp ht with ht | ht
      · obtain ⟨h0, hmem, hpos⟩ := hL1 t ht
        refine ⟨?_, hpos, r, by simp, hmem⟩
        have := cnt_antitone E (D ++ [r]) (D ++ r :: rest) t (by intro y hy; simp at hy ⊢; rcases hy with hy | hy; exact Or.inl hy; exact Or.inr (Or.inl hy))
        omega
      · obtain ⟨h0, hpos, r', hr', hmem⟩ := hL2 t ht
        refine ⟨by rw [← happ]; exact h0, ?_, r', List.mem_cons_of_mem _ hr', hmem⟩
        have h1 : (doneNode E (np, nx) r).1 t = cnt E (D ++ [r]) t := by unfold doneNode; exact h11 t
        have h2 := cnt_antitone E D (D ++ [r]) t (by intro y hy; simp [hy])
        rw [h t]; omega

/-! ### the rounds -/

structure Inv (E : List (Name × Name)) (nodes : List Name) (np : Name → Nat) (ready out : List Name) : Prop where
  cnt_eq : ∀ x, np x = cnt E out x
  nodup : (out ++ ready).Nodup
  zero : ∀ x ∈ out ++ ready, np x = 0
  ordered : ∀ p n, (p, n) ∈ E → n ∈ out → Before out p n
  sub : ∀ x ∈ out ++ ready, x ∈ nodes

def Good (E : List (Name × Name)) (nodes : List Name) (res : List Name) : Prop :=
  res.Nodup ∧ (∀ p n, (p, n) ∈ E → n ∈ res → Before res p n) ∧ ∀ x ∈ res, x ∈ nodes

theorem mem_succsOf (E : List (Name × Name)) (r t : Name) (h : t ∈ succsOf E r) : (r, t) ∈ E := by
  unfold succsOf at h
  simp only [List.mem_map, List.mem_filter] at h
  obtain ⟨e, ⟨he, her⟩, het⟩ := h
  have : e = (r, t) := by
    have h1 : e.1 = r := by simpa using her
    cases e; simp_all
  rw [← this]; exact he

theorem aux_good (E : List (Name × Name)) (nodes : List Name) (hE : ∀ p n, (p, n) ∈ E → n ∈ nodes) :
    ∀ fuel np ready out, Inv E nodes np ready out → Good E nodes (staticOrderAux E fuel np ready out) := by
  intro fuel
  induction fuel with
  | zero =>
    intro np ready out inv
    unfold staticOrderAux
    exact ⟨(List.nodup_append.mp inv.nodup).1, inv.ordered, fun x hx => inv.sub x (by simp [hx])⟩
  | succ fuel ih =>
    intro np ready out inv
    unfold staticOrderAux
    by_cases hre : ready.isEmpty = true
    · simp only [hre, if_true]
      exact ⟨(List.nodup_append.mp inv.nodup).1, inv.ordered, fun x hx => inv.sub x (by simp [hx])⟩
    · simp only [hre, Bool.false_eq_true, if_false]
      obtain ⟨L, h2, h1, hndL, hL⟩ := done_fold E ready out np [] inv.cnt_eq inv.nodup
      simp only [List.nil_append] at h2
      rw [h2]
      apply ih
      refine ⟨h1, ?_, ?_, ?_, ?_⟩
      · -- no node is emitted twice
        refine List.nodup_append.mpr ⟨inv.nodup, hndL, ?_⟩
        intro a ha b hb hab
        subst hab
        have := inv.zero a ha
        have := (hL a hb).2.1
        omega
      · intro x hx
        rcases List.mem_append.mp hx with hx | hx
        · have h0 := inv.zero x hx
          have := cnt_antitone E out (out ++ ready) x (by intro y hy; simp [hy])
          rw [h1 x]; rw [inv.cnt_eq x] at h0; omega
        · rw [h1 x]; exact (hL x hx).1
      · -- predecessors first
        intro p n hpn hn
        rcases List.mem_append.mp hn with hn | hn
        · obtain ⟨pre, post, hout, hp⟩ := inv.ordered p n hpn hn
          exact ⟨pre, post ++ ready, by rw [hout]; simp, hp⟩
        · have h0 := inv.zero n (by simp [hn])
          rw [inv.cnt_eq n] at h0
          have hp := cnt_zero_preds E out n h0 p hpn
          obtain ⟨a, b, hab⟩ := List.append_of_mem hn
          exact ⟨out ++ a, b, by rw [hab]; simp, by simp [hp]⟩
      · intro x hx
        rcases List.mem_append.mp hx with hx | hx
        · exact inv.sub x hx
        · obtain ⟨_, _, r, _, hmem⟩ := hL x hx
          exact hE r x (mem_succsOf E r x hmem)

/-! ### the nodes -/

theorem mem_addNew (ns : List Name) (x y : Name) : y ∈ addNew ns x ↔ y ∈ ns ∨ y = x := by
  by_cases h : x ∈ ns
  · simp only [addNew, List.contains_eq_mem, h, decide_true, if_true]
    constructor
    · exact Or.inl
    · rintro (h' | rfl)
      · exact h'
      · exact h
  · simp [addNew, h]

theorem nodup_addNew (ns : List Name) (x : Name) (h : ns.Nodup) : (addNew ns x).Nodup := by
  by_cases hc : x ∈ ns
  · simp [addNew, hc, h]
  · simp only [addNew, List.contains_eq_mem, hc, decide_false, Bool.false_eq_true, if_false]
    refine List.nodup_append.mpr ⟨h, by simp, ?_⟩
    intro a ha b hb hab
    simp only [List.mem_singleton] at hb
    subst hb; subst hab
    exact hc ha

theorem foldl_addNew (l ns : List Name) :
    (∀ y, y ∈ l.foldl addNew ns ↔ y ∈ ns ∨ y ∈ l) ∧ (ns.Nodup → (l.foldl addNew ns).Nodup) := by
  induction l generalizing ns with
  | nil => simp
  | cons x rest ih =>
    simp only [List.foldl_cons]
    obtain ⟨h1, h2⟩ := ih (addNew ns x)
    refine ⟨?_, fun h => h2 (nodup_addNew ns x h)⟩
    intro y
    rw [h1 y, mem_addNew]
    simp only [List.mem_cons]
    constructor
    · rintro ((h | h) | h)
      · exact Or.inl h
      · exact Or.inr (Or.inl h)
      · exact Or.inr (Or.inr h)
    · rintro (h | h | h)
      · exact Or.inl (Or.inl h)
      · exact Or.inl (Or.inr h)
      · exact Or.inr h

theorem nodes_fold (adds : List (Name × List Name)) (ns : List Name) :
    (∀ y, y ∈ adds.foldl (fun ns a => (a.1 :: a.2).foldl addNew ns) ns ↔
      y ∈ ns ∨ ∃ a ∈ adds, y = a.1 ∨ y ∈ a.2) ∧
    (ns.Nodup → (adds.foldl (fun ns a => (a.1 :: a.2).foldl addNew ns) ns).Nodup) := by
  induction adds generalizing ns with
  | nil => simp
  | cons a rest ih =>
    rw [List.foldl_cons]
    obtain ⟨h1, h2⟩ := ih ((a.1 :: a.2).foldl addNew ns)
    obtain ⟨g1, g2⟩ := foldl_addNew (a.1 :: a.2) ns
    refine ⟨?_, fun h => h2 (g2 h)⟩
    intro y
    rw [h1 y, g1 y]
    simp only [List.mem_cons, exists_eq_or_imp]
    constructor
    · rintro ((h | h) | h)
      · exact Or.inl h
      · exact Or.inr (Or.inl h)
      · exact Or.inr (Or.inr h)
    · rintro (h | h | h)
      · exact Or.inl (Or.inl h)
      · exact Or.inl (Or.inr h)
      · exact Or.inr h

theorem nodesOf_nodup (adds : List (Name × List Name)) : (nodesOf adds).Nodup :=
  (nodes_fold adds []).2 List.nodup_nil

theorem mem_nodesOf (adds : List (Name × List Name)) (y : Name) :
    y ∈ nodesOf adds ↔ ∃ a ∈ adds, y = a.1 ∨ y ∈ a.2 := by
  unfold nodesOf
  rw [(nodes_fold adds []).1 y]
  simp

theorem mem_edgesOf (adds : List (Name × List Name)) (p n : Name) :
    (p, n) ∈ edgesOf adds ↔ ∃ a ∈ adds, n = a.1 ∧ p ∈ a.2 := by
  unfold edgesOf
  simp only [List.mem_flatMap, List.mem_map, Prod.mk.injEq]
  constructor
  · rintro ⟨a, ha, q, hq, rfl, rfl⟩
    exact ⟨a, ha, rfl, hq⟩
  · rintro ⟨a, ha, rfl, hp⟩
    exact ⟨a, ha, p, hp, rfl, rfl⟩

/-- **Correctness of `static_order`.** If the sorter returns an order (no `CycleError`), the
order lists every node exactly once, and every node comes after each predecessor it was added
with. -/
theorem staticOrder_correct (adds : List (Name × List Name)) (out : List Name)
    (h : staticOrder adds = some out) :
    out.Nodup ∧ (∀ y, y ∈ out ↔ y ∈ nodesOf adds) ∧
    ∀ a ∈ adds, ∀ p ∈ a.2, Before out p a.1 := by
  unfold staticOrder at h
  simp only at h
  split at h
  · rename_i hlen
    injection h with h
    have hlen' : (staticOrderAux (edgesOf adds) ((nodesOf adds).length + 1) (npred0 (edgesOf adds))
        (List.filter (fun x => npred0 (edgesOf adds) x == 0) (nodesOf adds)) []).length = (nodesOf adds).length := by
      simpa using hlen
    rw [h] at hlen'
    have hE : ∀ p n, (p, n) ∈ edgesOf adds → n ∈ nodesOf adds := by
      intro p n hpn
      obtain ⟨a, ha, rfl, _⟩ := (mem_edgesOf adds p n).mp hpn
      exact (mem_nodesOf adds _).mpr ⟨a, ha, Or.inl rfl⟩
    have inv : Inv (edgesOf adds) (nodesOf adds) (npred0 (edgesOf adds))
        (List.filter (fun x => npred0 (edgesOf adds) x == 0) (nodesOf adds)) [] := by
      refine ⟨fun x => (cnt_nil _ x).symm, ?_, ?_, ?_, ?_⟩
      · rw [List.nil_append]; exact List.Nodup.sublist List.filter_sublist (nodesOf_nodup adds)
      · intro x hx
        simp only [List.nil_append, List.mem_filter] at hx
        simpa using hx.2
      · intro p n _ hn; simp at hn
      · intro x hx
        simp only [List.nil_append, List.mem_filter] at hx
        exact hx.1
    have good := aux_good (edgesOf adds) (nodesOf adds) hE ((nodesOf adds).length + 1) _ _ _ inv
    rw [h] at good
    obtain ⟨hnd, hord, hsub⟩ := good
    have hperm : out.Perm (nodesOf adds) :=
      (List.subperm_of_subset hnd hsub).perm_of_length_le (by omega)
    refine ⟨hnd, fun y => hperm.mem_iff, ?_⟩
    intro a ha p hp
    have hedge : (p, a.1) ∈ edgesOf adds := (mem_edgesOf adds p a.1).mpr ⟨a, ha, rfl, hp⟩
    have hmem : a.1 ∈ out := hperm.mem_iff.mpr ((mem_nodesOf adds _).mpr ⟨a, ha, Or.inl rfl⟩)
    exact hord p a.1 hedge hmem
  · cases h

end Kahn
end Gx
