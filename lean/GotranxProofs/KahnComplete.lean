import GotranxProofs.Kahn
/-!
# `static_order` succeeds on every acyclic graph

Completeness of the sorter model: if the edges admit a rank function (`rank p < rank n` for every
edge `p → n`) then `staticOrder` returns an order (no `CycleError`), whatever the number of nodes
or the depth of the dependency chains.  Together with `Kahn.staticOrder_correct` the sort is
total and correct on acyclic inputs, and `none` is returned only for cyclic ones.

Extra invariant: every node whose counter is zero is in `out ++ ready`; the fuel
`|nodes| + 1` is enough because every round with a non-empty ready list emits at least one node.
-/
namespace Gx
namespace Kahn

theorem decr_mono (acc : (Name → Nat) × List Name) (t z : Name) (hz : z ∈ acc.2) : z ∈ (decr acc t).2 := by
  show z ∈ (if (acc.1 t - 1 == 0) = true then acc.2 ++ [t] else acc.2)
  by_cases h : (acc.1 t - 1 == 0) = true <;> simp [h, hz]

/-- completeness of one `done(r)`: a counter that was positive and is zero afterwards put its node
on the ready list -/
theorem decr_fold_complete (c : Name → Nat) : ∀ (ss : List Name) (np : Name → Nat) (nx : List Name),
    (∀ x, np x = c x + ss.count x) →
    ∀ x, 0 < np x → c x = 0 → x ∈ (ss.foldl decr (np, nx)).2 := by
  intro ss
  induction ss with
  | nil =>
    intro np nx h x hpos hc
    have := h x; simp at this; omega
  | cons s rest ih =>
    intro np nx h x hpos hc
    have hs : np s = c s + rest.count s + 1 := by
      have := h s; simp only [List.count_cons_self] at this; omega
    simp only [List.foldl_cons]
    have hadd : ∀ y, (updNat np s (np s - 1)) y = c y + rest.count y := by
      intro y
      unfold updNat
      by_cases hy : y = s
      · subst hy; simp only [if_true]; omega
      · have hsy : (s == y) = false := by simpa using fun h' => hy h'.symm
        simp only [hy, if_false]
        have := h y
        simp only [List.count_cons, hsy, Bool.false_eq_true, if_false] at this
        omega
    -- membership in the accumulated list is monotone along the fold
    have mono : ∀ (l : List Name) (acc : (Name → Nat) × List Name) (z : Name),
        z ∈ acc.2 → z ∈ (l.foldl decr acc).2 := by
      intro l
      induction l with
      | nil => intro acc z hz; exact hz
      | cons t l' ihl =>
        intro acc z hz
        simp only [List.foldl_cons]
        exact ihl _ z (decr_mono acc t z hz)
    by_cases hz : (np s - 1 == 0) = true
    · have hdecr : decr (np, nx) s = (updNat np s (np s - 1), nx ++ [s]) := by
        simp only [decr, hz, if_true]
      rw [hdecr]
      by_cases hx : x = s
      · subst hx; exact mono rest _ x (by simp)
      · apply ih (updNat np s (np s - 1)) (nx ++ [s]) hadd x _ hc
        unfold updNat; simpa [hx] using hpos
    · have hdecr : decr (np, nx) s = (updNat np s (np s - 1), nx) := by
        simp only [decr, hz, Bool.false_eq_true, if_false]
      rw [hdecr]
      apply ih (updNat np s (np s - 1)) nx hadd x _ hc
      unfold updNat
      by_cases hx : x = s
      · subst hx
        simp only [if_true]
        have : ¬ (np x - 1 = 0) := by simpa using hz
        omega
      · simpa [hx] using hpos

theorem foldl_doneNode_mono (E : List (Name × Name)) : ∀ (l : List Name) (acc : (Name → Nat) × List Name) (z : Name),
    z ∈ acc.2 → z ∈ (l.foldl (doneNode E) acc).2 := by
  intro l
  induction l with
  | nil => intro acc z hz; exact hz
  | cons t l' ihl =>
    intro acc z hz
    simp only [List.foldl_cons]
    apply ihl
    unfold doneNode
    generalize succsOf E t = ss
    induction ss generalizing acc with
    | nil => exact hz
    | cons u ss' ihs =>
      simp only [List.foldl_cons]
      exact ihs _ (decr_mono acc u z hz)

/-- completeness of one round -/
theorem done_fold_complete (E : List (Name × Name)) : ∀ (rs D : List Name) (np : Name → Nat) (nx : List Name),
    (∀ x, np x = cnt E D x) → (D ++ rs).Nodup →
    ∀ x, 0 < np x → cnt E (D ++ rs) x = 0 → x ∈ (rs.foldl (doneNode E) (np, nx)).2 := by
  intro rs
  induction rs with
  | nil =>
    intro D np nx h _ x hpos hc
    rw [List.append_nil, ← h x] at hc; omega
  | cons r rest ih =>
    intro D np nx h hnd x hpos hc
    have hrD : r ∉ D := by
      intro hm
      have := List.nodup_append.mp hnd
      exact this.2.2 r hm r (by simp) rfl
    simp only [List.foldl_cons]
    have hadd : ∀ y, np y = cnt E (D ++ [r]) y + (succsOf E r).count y := by
      intro y; rw [h y, count_succsOf, cnt_split E D r y hrD]
    obtain ⟨L1, h12, h11, _, _⟩ := decr_fold (cnt E (D ++ [r])) (succsOf E r) np nx hadd
    have hnd' : ((D ++ [r]) ++ rest).Nodup := by simpa [List.append_assoc] using hnd
    have happ : D ++ [r] ++ rest = D ++ r :: rest := by simp
    by_cases hz : cnt E (D ++ [r]) x = 0
    · -- became ready while `r` was finished
      have hmem : x ∈ (doneNode E (np, nx) r).2 := by
        unfold doneNode
        exact decr_fold_complete (cnt E (D ++ [r])) (succsOf E r) np nx hadd x hpos hz
      exact foldl_doneNode_mono E rest _ x hmem
    · have hst : doneNode E (np, nx) r = ((doneNode E (np, nx) r).1, (doneNode E (np, nx) r).2) := rfl
      rw [hst]
      apply ih (D ++ [r]) (doneNode E (np, nx) r).1 (doneNode E (np, nx) r).2
        (by intro y; unfold doneNode; exact h11 y) hnd' x
      · have : (doneNode E (np, nx) r).1 x = cnt E (D ++ [r]) x := by unfold doneNode; exact h11 x
        omega
      · rw [happ]; exact hc

theorem cnt_zero_of_preds (E : List (Name × Name)) (D : List Name) (x : Name)
    (h : ∀ p, (p, x) ∈ E → p ∈ D) : cnt E D x = 0 := by
  unfold cnt
  rw [List.countP_eq_zero]
  intro e he
  simp only [Bool.and_eq_true, beq_iff_eq, Bool.not_eq_true', List.contains_eq_mem, decide_eq_false_iff_not, not_and]
  intro hx hn
  exact hn (h e.1 (by rw [← hx]; exact he))

/-- one round preserves the invariant of `Kahn.aux_good` and the completeness invariant -/
theorem round_step (E : List (Name × Name)) (nodes : List Name) (hE : ∀ p n, (p, n) ∈ E → n ∈ nodes)
    (np : Name → Nat) (ready out : List Name) (inv : Inv E nodes np ready out)
    (J : ∀ x ∈ nodes, np x = 0 → x ∈ out ++ ready) :
    Inv E nodes (ready.foldl (doneNode E) (np, [])).1 (ready.foldl (doneNode E) (np, [])).2 (out ++ ready) ∧
    (∀ x ∈ nodes, (ready.foldl (doneNode E) (np, [])).1 x = 0 →
      x ∈ (out ++ ready) ++ (ready.foldl (doneNode E) (np, [])).2) := by
  obtain ⟨L, h2, h1, hndL, hL⟩ := done_fold E ready out np [] inv.cnt_eq inv.nodup
  simp only [List.nil_append] at h2
  refine ⟨?_, ?_⟩
  · rw [h2]
    refine ⟨h1, ?_, ?_, ?_, ?_⟩
    · refine List.nodup_append.mpr ⟨inv.nodup, hndL, ?_⟩
      intro a ha b hb hab
      subst hab
      have := inv.zero a ha
      have := (hL a hb).2.1
      omega
    · intro x hx
      rcases List.mem_append.mp hx with hx | hx
      · have h0 := inv.zero x hx
        have := cnt_antitone E out (out ++ ready) x (by intro y hy; simp [hy])
        rw [h1 x]; rw [inv.cnt_eq x] at h0; omega
      · rw [h1 x]; exact (hL x hx).1
    · intro p n hpn hn
      rcases List.mem_append.mp hn with hn | hn
      · obtain ⟨pre, post, hout, hp⟩ := inv.ordered p n hpn hn
        exact ⟨pre, post ++ ready, by rw [hout]; simp, hp⟩
      · have h0 := inv.zero n (by simp [hn])
        rw [inv.cnt_eq n] at h0
        have hp := cnt_zero_preds E out n h0 p hpn
        obtain ⟨a, b, hab⟩ := List.append_of_mem hn
        exact ⟨out ++ a, b, by rw [hab]; simp, by simp [hp]⟩
    · intro x hx
      rcases List.mem_append.mp hx with hx | hx
      · exact inv.sub x hx
      · obtain ⟨_, _, r, _, hmem⟩ := hL x hx
        exact hE r x (mem_succsOf E r x hmem)
  · intro x hx h0
    by_cases hbefore : np x = 0
    · exact List.mem_append.mpr (Or.inl (J x hx hbefore))
    · apply List.mem_append.mpr; right
      exact done_fold_complete E ready out np [] inv.cnt_eq inv.nodup x (by omega) (by rw [← h1 x]; exact h0)

theorem length_le_of_nodup_subset (l nodes : List Name) (hnd : l.Nodup) (hsub : ∀ x ∈ l, x ∈ nodes) :
    l.length ≤ nodes.length :=
  (List.subperm_of_subset hnd hsub).length_le

/-- with a rank function, the run emits every node -/
theorem aux_complete (E : List (Name × Name)) (nodes : List Name) (hE : ∀ p n, (p, n) ∈ E → n ∈ nodes)
    (hEp : ∀ p n, (p, n) ∈ E → p ∈ nodes) (rank : Name → Nat) (hr : ∀ p n, (p, n) ∈ E → rank p < rank n) :
    ∀ fuel np ready out, Inv E nodes np ready out → (∀ x ∈ nodes, np x = 0 → x ∈ out ++ ready) →
      nodes.length + 1 ≤ fuel + out.length →
      ∀ x ∈ nodes, x ∈ staticOrderAux E fuel np ready out := by
  intro fuel
  induction fuel with
  | zero =>
    intro np ready out inv _ hfuel
    have := length_le_of_nodup_subset out nodes (List.nodup_append.mp inv.nodup).1 (fun x hx => inv.sub x (by simp [hx]))
    omega
  | succ fuel ih =>
    intro np ready out inv J hfuel
    unfold staticOrderAux
    by_cases hre : ready.isEmpty = true
    · simp only [hre, if_true]
      have hready : ready = [] := by simpa using hre
      subst hready
      -- every node is out: induction on the rank
      have key : ∀ k, ∀ x ∈ nodes, rank x ≤ k → x ∈ out := by
        intro k
        induction k using Nat.strongRecOn with
        | ind k ihk =>
          intro x hx hk
          have hc : cnt E out x = 0 := by
            apply cnt_zero_of_preds
            intro p hp
            exact ihk (rank p) (by have := hr p x hp; omega) p (hEp p x hp) (Nat.le_refl _)
          have := J x hx (by rw [inv.cnt_eq x]; exact hc)
          simpa using this
      intro x hx
      exact key (rank x) x hx (Nat.le_refl _)
    · simp only [hre, Bool.false_eq_true, if_false]
      obtain ⟨inv', J'⟩ := round_step E nodes hE np ready out inv J
      apply ih _ _ _ inv' J'
      have hne : ready ≠ [] := by simpa using hre
      have : 0 < ready.length := List.length_pos_iff.mpr hne
      simp only [List.length_append]
      omega

/-- **Completeness of `static_order`.** If the `add` calls describe an acyclic graph (a rank
function exists), the sorter returns an order. -/
theorem staticOrder_complete (adds : List (Name × List Name)) (rank : Name → Nat)
    (hr : ∀ a ∈ adds, ∀ p ∈ a.2, rank p < rank a.1) : (staticOrder adds).isSome = true := by
  have hE : ∀ p n, (p, n) ∈ edgesOf adds → n ∈ nodesOf adds := by
    intro p n hpn
    obtain ⟨a, ha, rfl, _⟩ := (mem_edgesOf adds p n).mp hpn
    exact (mem_nodesOf adds _).mpr ⟨a, ha, Or.inl rfl⟩
  have hEp : ∀ p n, (p, n) ∈ edgesOf adds → p ∈ nodesOf adds := by
    intro p n hpn
    obtain ⟨a, ha, _, hp⟩ := (mem_edgesOf adds p n).mp hpn
    exact (mem_nodesOf adds _).mpr ⟨a, ha, Or.inr hp⟩
  have hrE : ∀ p n, (p, n) ∈ edgesOf adds → rank p < rank n := by
    intro p n hpn
    obtain ⟨a, ha, rfl, hp⟩ := (mem_edgesOf adds p n).mp hpn
    exact hr a ha p hp
  have inv : Inv (edgesOf adds) (nodesOf adds) (npred0 (edgesOf adds))
      (List.filter (fun x => npred0 (edgesOf adds) x == 0) (nodesOf adds)) [] := by
    refine ⟨fun x => (cnt_nil _ x).symm, ?_, ?_, ?_, ?_⟩
    · rw [List.nil_append]; exact List.Nodup.sublist List.filter_sublist (nodesOf_nodup adds)
    · intro x hx
      simp only [List.nil_append, List.mem_filter] at hx
      simpa using hx.2
    · intro p n _ hn; simp at hn
    · intro x hx
      simp only [List.nil_append, List.mem_filter] at hx
      exact hx.1
  have J : ∀ x ∈ nodesOf adds, npred0 (edgesOf adds) x = 0 →
      x ∈ [] ++ List.filter (fun x => npred0 (edgesOf adds) x == 0) (nodesOf adds) := by
    intro x hx h0
    simp only [List.nil_append, List.mem_filter]
    exact ⟨hx, by simpa using h0⟩
  have hall := aux_complete (edgesOf adds) (nodesOf adds) hE hEp rank hrE ((nodesOf adds).length + 1) _ _ _ inv J (by simp)
  have good := aux_good (edgesOf adds) (nodesOf adds) hE ((nodesOf adds).length + 1) _ _ _ inv
  obtain ⟨hnd, _, hsub⟩ := good
  have hlen : (staticOrderAux (edgesOf adds) ((nodesOf adds).length + 1) (npred0 (edgesOf adds))
      (List.filter (fun x => npred0 (edgesOf adds) x == 0) (nodesOf adds)) []).length = (nodesOf adds).length := by
    apply Nat.le_antisymm
    · exact length_le_of_nodup_subset _ _ hnd hsub
    · exact length_le_of_nodup_subset _ _ (nodesOf_nodup adds) hall
  unfold staticOrder
  simp only [hlen, beq_self_eq_true, if_true, Option.isSome_some]

end Kahn
end Gx
