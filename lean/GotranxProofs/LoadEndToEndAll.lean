import GotranxProofs.EndToEndAll
import GotranxProofs.LoaderWF
/-!
# From the text to every generated function (model side)

`LoaderWF.load_end_to_end` composes the loader theorem with `rhs_end_to_end`.  The same composition for
`monitor_values` and explicit Euler: for every text the loader model accepts (no quantity called `t` / `time`; for the
scheme also none called `dt`) whose definitions are acyclic, the program exists, passes its validator and returns the
documented values.
-/
namespace Gx
open GenValid

theorem load_monitor_end_to_end {α} (N : Num α) (text : String) (ld : Loaded) (π : Impl.DepOrder) (ru : Bool)
    (rank : Name → Nat) (h : loadStringP text = .ok ld) (ht : noTimeName ld.model = true)
    (hr : Ranked ld.model rank)
    (hcover : ∀ a ∈ ld.model.assigns, ∀ y ∈ fv a.2, y ∈ π a.1 a.2)
    (hexact : ∀ a ∈ ld.model.assigns, ∀ y ∈ π a.1 a.2, y ∈ fv a.2) :
    ∃ L p, Impl.layout ld.model π = some L ∧ Impl.genMonitor ld.model π ru = some p ∧ checkMonitor ld.model L p = true ∧
      ∀ (inp : Inputs α) (t : α) (ρ : Env α) (s' : St α), Solution N ld.model L inp t ρ →
        exec N inp (initRhs t) p = some s' →
        ∀ i x, L.monitor[i]? = some x → (ρ x).isSome ∧ s'.result i = ρ x :=
  EndToEnd.monitor_end_to_end N ld.model π ru rank (loadStringP_wf text ld h ht) hr hcover hexact

theorem load_euler_end_to_end {α} (N : Num α) (text : String) (ld : Loaded) (π : Impl.DepOrder) (ru : Bool)
    (rank : Name → Nat) (h : loadStringP text = .ok ld) (ht : noTimeName ld.model = true)
    (hdt : Impl.checkNoHelperClash ld.model = true)
    (hr : Ranked ld.model rank)
    (hcover : ∀ a ∈ ld.model.assigns, ∀ y ∈ fv a.2, y ∈ π a.1 a.2)
    (hexact : ∀ a ∈ ld.model.assigns, ∀ y ∈ π a.1 a.2, y ∈ fv a.2) :
    ∃ L p, Impl.layout ld.model π = some L ∧ Impl.genEuler ld.model π ru = some p ∧ checkScheme ld.model L p = true ∧
      ∀ (inp : Inputs α) (t dt : α) (ρ : Env α) (s' : St α), Solution N ld.model L inp t ρ → ρ "dt" = some dt →
        exec N inp (initScheme t dt) p = some s' →
        ∀ i X, L.state[i]? = some X → ∃ d x f, ld.model.stateOfDeriv d = some X ∧ inp .states i = some x ∧ ρ d = some f ∧
          s'.result i = some (N.add x (N.mul dt f)) :=
  EndToEnd.euler_end_to_end N ld.model π ru rank (loadStringP_wf text ld h ht) hr
    (GenValidRL.checkNoHelperClash_sound ld.model hdt).dt hcover hexact

end Gx
