import GotranxProofs.LoaderPerm
import GotranxProofs.SeqCheckComplete
/-!
# Whether the loader accepts a text does not depend on the order of its atoms

`LoaderPerm.model_perm_invariant` says that two permutations of the same atoms which both load give
the same model.  This file proves that they both load or both fail (`coreLoad_accepts_perm`): every
check of the loader — the duplicate test (`C08.seqCheck_perm`), the pairing of derivatives and states
per component, one value per name, every symbol known — is a property of the *set* of atoms.
-/
namespace Gx
open GenValid C08

theorem eq_of_nodup_map {α β} (f : α → β) : ∀ (l : List α), (l.map f).Nodup → ∀ a ∈ l, ∀ b ∈ l, f a = f b → a = b := by
  intro l
  induction l with
  | nil => intro _ a ha; simp at ha
  | cons x rest ih =>
    intro h a ha b hb hab
    simp only [List.map_cons, List.nodup_cons, List.mem_map, not_exists, not_and] at h
    simp only [List.mem_cons] at ha hb
    rcases ha with rfl | ha <;> rcases hb with rfl | hb
    · rfl
    · exact absurd hab.symm (h.1 b hb)
    · exact absurd hab (h.1 a ha)
    · exact ih h.2 a ha b hb hab

/-! ### invariants of `buildComps` -/

theorem buildComps_inv (atoms : List RawAtom) (P : List RawComp → Prop) (h0 : P [])
    (hstep : ∀ cs cn a, a ∈ atoms → cn ∈ a.comps → P cs → P (addToComp cs cn a)) : P (buildComps atoms) := by
  unfold buildComps
  have inner : ∀ (a : RawAtom), a ∈ atoms → ∀ (names : List String), (∀ n ∈ names, n ∈ a.comps) → ∀ cs, P cs →
      P (names.foldl (fun cs c => addToComp cs c a) cs) := by
    intro a ha names
    induction names with
    | nil => intro _ cs h; exact h
    | cons n ns ih =>
      intro hn cs h
      simp only [List.foldl_cons]
      exact ih (fun m hm => hn m (by simp [hm])) _ (hstep cs n a ha (hn n (by simp)) h)
  have outer : ∀ (l : List RawAtom), (∀ a ∈ l, a ∈ atoms) → ∀ cs, P cs →
      P (l.foldl (fun cs a => a.comps.foldl (fun cs c => addToComp cs c a) cs) cs) := by
    intro l
    induction l with
    | nil => intro _ cs h; exact h
    | cons a rest ih =>
      intro hl cs h
      simp only [List.foldl_cons]
      exact ih (fun b hb => hl b (by simp [hb])) _ (inner a (hl a (by simp)) a.comps (fun _ h => h) cs h)
  exact outer atoms (fun _ h => h) [] h0

theorem addToComp_names (cs : List RawComp) (cn : String) (a : RawAtom) :
    (addToComp cs cn a).map (·.name) = if cs.any (·.name == cn) then cs.map (·.name) else cs.map (·.name) ++ [cn] := by
  unfold addToComp
  by_cases hany : cs.any (·.name == cn) = true
  · simp only [hany, if_true, List.map_map]
    apply List.map_congr_left
    intro rc _
    simp only [Function.comp]
    split
    · split <;> rfl
    · rfl
  · simp only [hany, Bool.false_eq_true, if_false, List.map_append, List.map_cons, List.map_nil]

/-- one component per name -/
theorem buildComps_names_nodup (atoms : List RawAtom) : ((buildComps atoms).map (·.name)).Nodup := by
  apply buildComps_inv atoms (fun cs => (cs.map (·.name)).Nodup) (by simp)
  intro cs cn a _ _ h
  rw [addToComp_names]
  by_cases hany : cs.any (·.name == cn) = true
  · simpa [hany] using h
  · simp only [hany, Bool.false_eq_true, if_false]
    refine List.nodup_append.mpr ⟨h, by simp, ?_⟩
    intro x hx y hy
    simp only [List.mem_singleton] at hy
    subst hy
    intro hxy
    subst hxy
    apply hany
    obtain ⟨c, hc, rfl⟩ := List.mem_map.mp hx
    exact List.any_eq_true.mpr ⟨c, hc, by simp⟩

/-- an atom sits only in components it names -/
theorem buildComps_comp_named (atoms : List RawAtom) :
    ∀ c ∈ buildComps atoms, ∀ x ∈ c.atoms, c.name ∈ x.comps := by
  apply buildComps_inv atoms (fun cs => ∀ c ∈ cs, ∀ x ∈ c.atoms, c.name ∈ x.comps) (by simp)
  intro cs cn a _ hcn h c hc x hx
  unfold addToComp at hc
  split at hc
  · obtain ⟨rc, hrc, rfl⟩ := List.mem_map.mp hc
    by_cases hn : (rc.name == cn) = true
    · simp only [hn, if_true] at hx ⊢
      by_cases ha : rc.atoms.any (·.attrsEq a) = true
      · simp only [ha, if_true] at hx ⊢; exact h rc hrc x hx
      · simp only [ha, Bool.false_eq_true, if_false, List.mem_append, List.mem_singleton] at hx ⊢
        rcases hx with hx | rfl
        · exact h rc hrc x hx
        · have : rc.name = cn := by simpa using hn
          rw [this]; exact hcn
    · simp only [hn, Bool.false_eq_true, if_false] at hx ⊢; exact h rc hrc x hx
  · simp only [List.mem_append, List.mem_singleton] at hc
    rcases hc with hc | rfl
    · exact h c hc x hx
    · simp only [List.mem_singleton] at hx; subst hx; exact hcn

/-- after the duplicate test two atoms with the same name are the same atom -/
theorem eq_of_same_name (atoms : List RawAtom) (hseq : seqCheck [] atoms = true) (x y : RawAtom)
    (hx : x ∈ atoms) (hy : y ∈ atoms) (h : x.name = y.name) : x = y := by
  obtain ⟨h1, h2, h3, h4, h5, h6, h7⟩ := sameDefinition_eq x y (seqCheck_pairwise atoms hseq x hx y hy h)
  cases x; cases y; simp_all

/-- the atoms of the component called `cn` are exactly the atoms of the text that name `cn` -/
theorem mem_comp_iff (atoms : List RawAtom) (hseq : seqCheck [] atoms = true) (c : RawComp)
    (hc : c ∈ buildComps atoms) (x : RawAtom) : x ∈ c.atoms ↔ x ∈ atoms ∧ c.name ∈ x.comps := by
  constructor
  · intro hx
    exact ⟨mem_buildComps atoms c hc x hx, buildComps_comp_named atoms c hc x hx⟩
  · rintro ⟨hx, hcn⟩
    obtain ⟨c', hc', hn', y, hy, hyx⟩ := buildComps_present atoms x hx c.name hcn
    have hcc : c' = c := by
      have hnd := buildComps_names_nodup atoms
      exact eq_of_nodup_map (·.name) _ hnd c' hc' c hc hn'
    subst hcc
    have hy' := mem_buildComps atoms c' hc y hy
    have := eq_of_same_name atoms hseq y x hy' hx (attrsEq_name y x hyx)
    exact this ▸ hy

/-- the component names are the names the atoms mention -/
theorem comp_name_iff (atoms : List RawAtom) (cn : String) :
    (∃ c ∈ buildComps atoms, c.name = cn) ↔ ∃ x ∈ atoms, cn ∈ x.comps := by
  constructor
  · rintro ⟨c, hc, rfl⟩
    -- a component is created with an atom inside and never loses atoms
    have hne : ∀ c ∈ buildComps atoms, c.atoms ≠ [] := by
      apply buildComps_inv atoms (fun cs => ∀ c ∈ cs, c.atoms ≠ []) (by simp)
      intro cs cn a _ _ h c hc
      unfold addToComp at hc
      split at hc
      · obtain ⟨rc, hrc, rfl⟩ := List.mem_map.mp hc
        split
        · split
          · exact h rc hrc
          · simp
        · exact h rc hrc
      · simp only [List.mem_append, List.mem_singleton] at hc
        rcases hc with hc | rfl
        · exact h c hc
        · simp
    obtain ⟨x, hx⟩ := List.exists_mem_of_ne_nil _ (hne c hc)
    exact ⟨x, mem_buildComps atoms c hc x hx, buildComps_comp_named atoms c hc x hx⟩
  · rintro ⟨x, hx, hcn⟩
    obtain ⟨c, hc, hn, _⟩ := buildComps_present atoms x hx cn hcn
    exact ⟨c, hc, hn⟩

/-! ### the checks only look at sets -/

theorem any_congr_mem {α} (p : α → Bool) (l l' : List α) (h : ∀ x, x ∈ l ↔ x ∈ l') : l.any p = l'.any p := by
  rw [Bool.eq_iff_iff]
  simp only [List.any_eq_true]
  exact ⟨fun ⟨x, hx, hp⟩ => ⟨x, (h x).mp hx, hp⟩, fun ⟨x, hx, hp⟩ => ⟨x, (h x).mpr hx, hp⟩⟩

theorem all_congr_mem {α} (p : α → Bool) (l l' : List α) (h : ∀ x, x ∈ l ↔ x ∈ l') : l.all p = l'.all p := by
  rw [Bool.eq_iff_iff]
  simp only [List.all_eq_true]
  exact ⟨fun hp x hx => hp x ((h x).mpr hx), fun hp x hx => hp x ((h x).mp hx)⟩

/-- the order-preserving deduplication used throughout the loader -/
theorem dedupFold_facts {α} [DecidableEq α] : ∀ (l acc : List α), acc.Nodup →
    (l.foldl (fun acc x => if acc.contains x then acc else acc ++ [x]) acc).Nodup ∧
    ∀ x, x ∈ l.foldl (fun acc x => if acc.contains x then acc else acc ++ [x]) acc ↔ x ∈ acc ∨ x ∈ l := by
  intro l
  induction l with
  | nil => intro acc h; simp [h]
  | cons a rest ih =>
    intro acc h
    simp only [List.foldl_cons]
    by_cases hc : a ∈ acc
    · have : acc.contains a = true := by simpa using hc
      simp only [this, if_true]
      obtain ⟨i1, i2⟩ := ih acc h
      refine ⟨i1, fun x => ?_⟩
      rw [i2 x]
      simp only [List.mem_cons]
      constructor
      · rintro (h | h)
        · exact Or.inl h
        · exact Or.inr (Or.inr h)
      · rintro (h | rfl | h)
        · exact Or.inl h
        · exact Or.inl hc
        · exact Or.inr h
    · have : acc.contains a = false := by simpa using hc
      simp only [this, Bool.false_eq_true, if_false]
      have hnd : (acc ++ [a]).Nodup := by
        refine List.nodup_append.mpr ⟨h, by simp, ?_⟩
        intro x hx y hy
        simp only [List.mem_singleton] at hy
        subst hy
        intro hxy; subst hxy; exact hc hx
      obtain ⟨i1, i2⟩ := ih (acc ++ [a]) hnd
      refine ⟨i1, fun x => ?_⟩
      rw [i2 x]
      simp only [List.mem_append, List.mem_singleton, List.mem_cons, List.not_mem_nil, or_false]
      constructor
      · rintro ((h | h) | h)
        · exact Or.inl h
        · exact Or.inr (Or.inl h)
        · exact Or.inr (Or.inr h)
      · rintro (h | h | h)
        · exact Or.inl (Or.inl h)
        · exact Or.inl (Or.inr h)
        · exact Or.inr h

theorem mem_dedupNames (l : List Name) (x : Name) : x ∈ dedupNames l ↔ x ∈ l := by
  unfold dedupNames
  have := (dedupFold_facts l [] (by simp)).2 x
  simpa using this

theorem nodup_le_one {α} (d : List α) (h : d.Nodup) : d.length ≤ 1 ↔ ∀ x ∈ d, ∀ y ∈ d, x = y := by
  match d, h with
  | [], _ => simp
  | [a], _ => simp
  | a :: b :: rest, h =>
    simp only [List.length_cons]
    constructor
    · intro hl; omega
    · intro hall
      have : a = b := hall a (by simp) b (by simp)
      simp only [List.nodup_cons, List.mem_cons, not_or] at h
      exact absurd this h.1.1

/-- at most one distinct expression = all expressions equal -/
theorem distinct_le_one (l : List Expr) : (distinctExprs l).length ≤ 1 ↔ ∀ x ∈ l, ∀ y ∈ l, x = y := by
  unfold distinctExprs
  obtain ⟨h1, h2⟩ := dedupFold_facts l [] (by simp)
  rw [nodup_le_one _ h1]
  constructor
  · intro h x hx y hy
    exact h x ((h2 x).mpr (Or.inr hx)) y ((h2 y).mpr (Or.inr hy))
  · intro h x hx y hy
    have hx' := (h2 x).mp hx
    have hy' := (h2 y).mp hy
    simp only [List.not_mem_nil, false_or] at hx' hy'
    exact h x hx' y hy'

/-- the value an atom contributes to `symbol_values` -/
def contrib (unresolved : Bool) (a : RawAtom) : Expr :=
  if unresolved && a.kind == .assign then Expr.num 0 0 else a.expr

theorem valuesConsistent_iff (all : List RawAtom) (names : List Name) (u : Bool) :
    valuesConsistent all names u = true ↔
      ∀ n ∈ names, ∀ x ∈ all, ∀ y ∈ all, x.name = n → isDerivAtom x = false → y.name = n → isDerivAtom y = false →
        contrib u x = contrib u y := by
  unfold valuesConsistent
  simp only [List.all_eq_true, decide_eq_true_eq]
  constructor
  · intro h n hn x hx y hy hxn hxd hyn hyd
    have := (distinct_le_one _).mp (h n hn)
    apply this
    · exact List.mem_map.mpr ⟨x, List.mem_filter.mpr ⟨hx, by simp [hxn, hxd]⟩, rfl⟩
    · exact List.mem_map.mpr ⟨y, List.mem_filter.mpr ⟨hy, by simp [hyn, hyd]⟩, rfl⟩
  · intro h n hn
    apply (distinct_le_one _).mpr
    intro e he e' he'
    obtain ⟨x, hx, rfl⟩ := List.mem_map.mp he
    obtain ⟨y, hy, rfl⟩ := List.mem_map.mp he'
    simp only [List.mem_filter, Bool.and_eq_true, beq_iff_eq, Bool.not_eq_true'] at hx hy
    exact h n hn x hx.1 y hy.1 hx.2.1 hx.2.2 hy.2.1 hy.2.2

theorem valuesConsistent_congr (all all' : List RawAtom) (names names' : List Name) (u : Bool)
    (ha : ∀ x, x ∈ all ↔ x ∈ all') (hn : ∀ n, n ∈ names ↔ n ∈ names') :
    valuesConsistent all names u = valuesConsistent all' names' u := by
  rw [Bool.eq_iff_iff, valuesConsistent_iff, valuesConsistent_iff]
  constructor
  · intro h n hn' x hx y hy
    exact h n ((hn n).mpr hn') x ((ha x).mpr hx) y ((ha y).mpr hy)
  · intro h n hn' x hx y hy
    exact h n ((hn n).mp hn') x ((ha x).mp hx) y ((ha y).mp hy)

theorem symbolsKnown_congr (all all' : List RawAtom) (names names' : List Name)
    (ha : ∀ x, x ∈ all ↔ x ∈ all') (hn : ∀ n, n ∈ names ↔ n ∈ names') :
    symbolsKnown all names = symbolsKnown all' names' := by
  unfold symbolsKnown
  have hk : ∀ e : Expr, (fv e).all (names ++ timeNames).contains = (fv e).all (names' ++ timeNames).contains := by
    intro e
    apply List.all_congr rfl
    intro y
    rw [Bool.eq_iff_iff]
    simp only [List.contains_eq_mem, List.mem_append, decide_eq_true_eq, hn y]
  simp only [hk]
  exact all_congr_mem _ _ _ ha

theorem orphanDeriv_congr (c c' : RawComp) (h : ∀ x, x ∈ c.atoms ↔ x ∈ c'.atoms) : orphanDeriv c = orphanDeriv c' := by
  unfold orphanDeriv
  have hin : ∀ s : Name, (c.atoms.any fun b => b.kind == .state && b.name == s) =
      (c'.atoms.any fun b => b.kind == .state && b.name == s) := fun s => any_congr_mem _ _ _ h
  simp only [hin]
  exact any_congr_mem _ _ _ h

theorem missingDeriv_congr (c c' : RawComp) (h : ∀ x, x ∈ c.atoms ↔ x ∈ c'.atoms) : missingDeriv c = missingDeriv c' := by
  unfold missingDeriv
  have hin : ∀ n : Name, (c.atoms.any fun a => a.kind == .assign && derivState a.name == some n) =
      (c'.atoms.any fun a => a.kind == .assign && derivState a.name == some n) := fun n => any_congr_mem _ _ _ h
  simp only [hin]
  exact any_congr_mem _ _ _ h

/-- a component passes `Component._handle_assignments` / `check_components` -/
def compOk (c : RawComp) : Bool := !orphanDeriv c && !missingDeriv c

theorem compOf_ok_iff (c : RawComp) : (∃ r, compOf c = .ok r) ↔ compOk c = true := by
  unfold compOf compOk
  by_cases ho : orphanDeriv c = true
  · simp [ho]
  · by_cases hm : missingDeriv c = true
    · simp [ho, hm]
    · simp [ho, hm]

theorem mapM_ok_iff {α β ε} (f : α → Except ε β) : ∀ (l : List α),
    (∃ r, l.mapM f = .ok r) ↔ ∀ x ∈ l, ∃ y, f x = .ok y := by
  intro l
  induction l with
  | nil => simp [pure, Except.pure]
  | cons a rest ih =>
    simp only [List.mapM_cons, List.mem_cons, forall_eq_or_imp]
    cases hfa : f a with
    | error e => simp [bind, Except.bind]
    | ok y =>
      cases hr : rest.mapM f with
      | error e =>
        have : ¬ ∀ x ∈ rest, ∃ y, f x = .ok y := by
          intro h; obtain ⟨r, hr'⟩ := ih.mpr h; rw [hr] at hr'; cases hr'
        simp [bind, Except.bind, pure, Except.pure, this]
      | ok r =>
        have : ∀ x ∈ rest, ∃ y, f x = .ok y := ih.mp ⟨r, hr⟩
        simp only [bind, Except.bind, pure, Except.pure, Except.ok.injEq, exists_eq', true_and]
        exact ⟨fun _ => this, fun _ => trivial⟩

/-! ### acceptance -/

/-- the loader's checks succeed on this list of atoms -/
def Accepts (atoms : List RawAtom) : Prop := ∃ r, coreLoad atoms = .ok r

theorem accepts_iff (atoms : List RawAtom) :
    Accepts atoms ↔ seqCheck [] atoms = true ∧ (∀ c ∈ buildComps atoms, compOk c = true) ∧
      valuesConsistent (allAtomsOf (buildComps atoms)) (dedupNames ((allAtomsOf (buildComps atoms)).map (·.name))) true = true ∧
      symbolsKnown (allAtomsOf (buildComps atoms)) (dedupNames ((allAtomsOf (buildComps atoms)).map (·.name))) = true ∧
      valuesConsistent (allAtomsOf (buildComps atoms)) (dedupNames ((allAtomsOf (buildComps atoms)).map (·.name))) false = true := by
  have hcomps : (∃ r, (buildComps atoms).mapM compOf = .ok r) ↔ ∀ c ∈ buildComps atoms, compOk c = true := by
    rw [mapM_ok_iff]
    exact ⟨fun h c hc => (compOf_ok_iff c).mp (h c hc), fun h c hc => (compOf_ok_iff c).mpr (h c hc)⟩
  unfold Accepts coreLoad
  by_cases hs : seqCheck [] atoms = true
  · simp only [hs, Bool.not_true, Bool.false_eq_true, if_false, true_and]
    cases hm : (buildComps atoms).mapM compOf with
    | error e =>
      have : ¬ ∀ c ∈ buildComps atoms, compOk c = true := fun h => by
        obtain ⟨r, hr⟩ := hcomps.mpr h; rw [hm] at hr; cases hr
      simp [this]
    | ok compsOut =>
      have : ∀ c ∈ buildComps atoms, compOk c = true := hcomps.mp ⟨compsOut, hm⟩
      by_cases h1 : valuesConsistent (allAtomsOf (buildComps atoms)) (dedupNames ((allAtomsOf (buildComps atoms)).map (·.name))) true = true
      · by_cases h2 : symbolsKnown (allAtomsOf (buildComps atoms)) (dedupNames ((allAtomsOf (buildComps atoms)).map (·.name))) = true
        · by_cases h3 : valuesConsistent (allAtomsOf (buildComps atoms)) (dedupNames ((allAtomsOf (buildComps atoms)).map (·.name))) false = true
          · simp [h1, h2, h3]; exact this
          · simp [h1, h2, h3]
        · simp [h1, h2]
      · simp [h1]
  · simp [hs]

theorem accepts_of_perm (atoms atoms' : List RawAtom) (hp : atoms.Perm atoms') (hne : ∀ a ∈ atoms, a.comps ≠ [])
    (h : Accepts atoms) : Accepts atoms' := by
  rw [accepts_iff] at h ⊢
  obtain ⟨hs, hc, h1, h2, h3⟩ := h
  have hs' : seqCheck [] atoms' = true := by rw [← seqCheck_perm atoms atoms' hp]; exact hs
  have hne' : ∀ a ∈ atoms', a.comps ≠ [] := fun a ha => hne a (hp.mem_iff.mpr ha)
  have hall : ∀ x, x ∈ allAtomsOf (buildComps atoms) ↔ x ∈ allAtomsOf (buildComps atoms') := by
    intro x
    rw [mem_allAtoms_iff atoms hs hne, mem_allAtoms_iff atoms' hs' hne', hp.mem_iff]
  have hnames : ∀ n, n ∈ dedupNames ((allAtomsOf (buildComps atoms)).map (·.name)) ↔
      n ∈ dedupNames ((allAtomsOf (buildComps atoms')).map (·.name)) := by
    intro n
    rw [mem_dedupNames, mem_dedupNames]
    simp only [List.mem_map]
    exact ⟨fun ⟨x, hx, hn⟩ => ⟨x, (hall x).mp hx, hn⟩, fun ⟨x, hx, hn⟩ => ⟨x, (hall x).mpr hx, hn⟩⟩
  refine ⟨hs', ?_, ?_, ?_, ?_⟩
  · intro c' hc'
    obtain ⟨x, hx, hcn⟩ := (comp_name_iff atoms' c'.name).mp ⟨c', hc', rfl⟩
    obtain ⟨c, hcm, hname⟩ := (comp_name_iff atoms c'.name).mpr ⟨x, hp.mem_iff.mpr hx, hcn⟩
    have hmem : ∀ y, y ∈ c.atoms ↔ y ∈ c'.atoms := by
      intro y
      rw [mem_comp_iff atoms hs c hcm y, mem_comp_iff atoms' hs' c' hc' y, hp.mem_iff, hname]
    have := hc c hcm
    unfold compOk at this ⊢
    rw [← orphanDeriv_congr c c' hmem, ← missingDeriv_congr c c' hmem]
    exact this
  · rw [← valuesConsistent_congr _ _ _ _ true hall hnames]; exact h1
  · rw [← symbolsKnown_congr _ _ _ _ hall hnames]; exact h2
  · rw [← valuesConsistent_congr _ _ _ _ false hall hnames]; exact h3

/-- **C10, acceptance.** Two permutations of the same atoms are both accepted or both rejected by
the loader's checks. -/
theorem coreLoad_accepts_perm (atoms atoms' : List RawAtom) (hp : atoms.Perm atoms')
    (hne : ∀ a ∈ atoms, a.comps ≠ []) : Accepts atoms ↔ Accepts atoms' :=
  ⟨accepts_of_perm atoms atoms' hp hne,
   accepts_of_perm atoms' atoms hp.symm (fun a ha => hne a (hp.mem_iff.mpr ha))⟩

/-- … and when they are accepted the models are equal (`model_perm_invariant`): the loader is a
function of the set of atoms. -/
theorem coreLoad_perm (atoms atoms' A : List RawAtom) (cs : List Comp) (hp : atoms.Perm atoms')
    (hne : ∀ a ∈ atoms, a.comps ≠ []) (h : coreLoad atoms = .ok (A, cs)) :
    ∃ A' cs', coreLoad atoms' = .ok (A', cs') ∧ modelOfAtoms A = modelOfAtoms A' := by
  obtain ⟨⟨A', cs'⟩, h'⟩ := (coreLoad_accepts_perm atoms atoms' hp hne).mp ⟨_, h⟩
  exact ⟨A', cs', h', model_perm_invariant atoms atoms' A A' cs cs' hp hne h h'⟩

/-! ### permuting the blocks of a text -/

theorem mapM_perm {α β ε} (f : α → Except ε β) {l l' : List α} (hp : l.Perm l') :
    ∀ r, l.mapM f = .ok r → ∃ r', l'.mapM f = .ok r' ∧ r.Perm r' := by
  induction hp with
  | nil => intro r h; exact ⟨r, h, List.Perm.refl _⟩
  | @cons x l₁ l₂ _ ih =>
    intro r h
    simp only [List.mapM_cons, bind, Except.bind] at h ⊢
    cases hx : f x with
    | error e => simp [hx] at h
    | ok y =>
      cases hr : l₁.mapM f with
      | error e => simp [hx, hr] at h
      | ok r₁ =>
        simp only [hx, hr, pure, Except.pure, Except.ok.injEq] at h
        obtain ⟨r₂, h₂, hp₂⟩ := ih r₁ hr
        subst h
        exact ⟨y :: r₂, by simp [h₂, pure, Except.pure], hp₂.cons y⟩
  | swap x y l =>
    intro r h
    simp only [List.mapM_cons, bind, Except.bind] at h ⊢
    cases hy : f y with
    | error e => simp [hy] at h
    | ok vy =>
      cases hx : f x with
      | error e => simp [hy, hx] at h
      | ok vx =>
        cases hr : l.mapM f with
        | error e => simp [hy, hx, hr] at h
        | ok rl =>
          simp only [hy, hx, hr, pure, Except.pure, Except.ok.injEq] at h
          subst h
          exact ⟨vx :: vy :: rl, by simp [pure, Except.pure], List.Perm.swap _ _ _⟩
  | trans _ _ ih₁ ih₂ =>
    intro r h
    obtain ⟨r₁, h₁, p₁⟩ := ih₁ r h
    obtain ⟨r₂, h₂, p₂⟩ := ih₂ r₁ h₁
    exact ⟨r₂, h₂, p₁.trans p₂⟩

theorem compsOf_ne_nil (cs : List String) : compsOf cs ≠ [] := by
  unfold compsOf
  cases cs with
  | nil => simp
  | cons a rest => simp

theorem atomsOfItem_comps (it : Item) (l : List RawAtom) (h : atomsOfItem it = .ok l) : ∀ a ∈ l, a.comps ≠ [] := by
  have key : ∀ {γ} (g : γ → Except LoadErr RawAtom) (xs : List γ) (l : List RawAtom),
      (∀ x a, g x = .ok a → a.comps ≠ []) → xs.mapM g = .ok l → ∀ a ∈ l, a.comps ≠ [] := by
    intro γ g xs
    induction xs with
    | nil => intro l _ h a ha; simp [pure, Except.pure] at h; subst h; simp at ha
    | cons x rest ih =>
      intro l hg h a ha
      simp only [List.mapM_cons, bind, Except.bind] at h
      cases hx : g x with
      | error e => simp [hx] at h
      | ok y =>
        cases hr : rest.mapM g with
        | error e => simp [hx, hr] at h
        | ok r =>
          simp only [hx, hr, pure, Except.pure, Except.ok.injEq] at h
          subst h
          simp only [List.mem_cons] at ha
          rcases ha with rfl | ha
          · exact hg x _ hx
          · exact ih r hg hr a ha
  cases it with
  | comment t => simp [atomsOfItem] at h; subst h; simp
  | states cs ps =>
    apply key _ ps l _ h
    intro p a hpa
    simp only [bind, Except.bind] at hpa
    cases hv : resolve p.value with
    | error e => simp [hv] at hpa
    | ok v => simp only [hv, pure, Except.pure, Except.ok.injEq] at hpa; subst hpa; exact compsOf_ne_nil cs
  | parameters cs ps =>
    apply key _ ps l _ h
    intro p a hpa
    simp only [bind, Except.bind] at hpa
    cases hv : resolve p.value with
    | error e => simp [hv] at hpa
    | ok v => simp only [hv, pure, Except.pure, Except.ok.injEq] at hpa; subst hpa; exact compsOf_ne_nil cs
  | expressions cs as =>
    apply key _ as l _ h
    intro p a hpa
    simp only [bind, Except.bind] at hpa
    cases hv : resolve p.rhs with
    | error e => simp [hv] at hpa
    | ok v => simp only [hv, pure, Except.pure, Except.ok.injEq] at hpa; subst hpa; exact compsOf_ne_nil cs

theorem mapM_mem {α β ε} (f : α → Except ε β) : ∀ (l : List α) (r : List β), l.mapM f = .ok r →
    ∀ y ∈ r, ∃ x ∈ l, f x = .ok y := by
  intro l
  induction l with
  | nil => intro r h y hy; simp [pure, Except.pure] at h; subst h; simp at hy
  | cons a rest ih =>
    intro r h y hy
    simp only [List.mapM_cons, bind, Except.bind] at h
    cases ha : f a with
    | error e => simp [ha] at h
    | ok v =>
      cases hr : rest.mapM f with
      | error e => simp [ha, hr] at h
      | ok r' =>
        simp only [ha, hr, pure, Except.pure, Except.ok.injEq] at h
        subst h
        simp only [List.mem_cons] at hy
        rcases hy with rfl | hy
        · exact ⟨a, by simp, ha⟩
        · obtain ⟨x, hx, hfx⟩ := ih r' hr y hy
          exact ⟨x, by simp [hx], hfx⟩

/-- **C10 for texts, model side.** If the items (declaration blocks, expression blocks, comments) of an
accepted text are permuted, the permuted text is accepted too and loads to the same model. -/
theorem loadItemsP_perm (items items' : List Item) (hp : items.Perm items') (ld : Loaded)
    (h : loadItemsP items = .ok ld) : ∃ ld', loadItemsP items' = .ok ld' ∧ ld'.model = ld.model := by
  unfold loadItemsP at h ⊢
  simp only [bind, Except.bind] at h ⊢
  cases h1 : items.mapM atomsOfItem with
  | error e => simp [h1] at h
  | ok atomLists =>
    simp only [h1] at h
    obtain ⟨atomLists', h1', hpl⟩ := mapM_perm atomsOfItem hp atomLists h1
    cases h2 : coreLoad atomLists.flatten with
    | error e => simp [h2] at h
    | ok r =>
      obtain ⟨A, cs⟩ := r
      simp only [h2, pure, Except.pure, Except.ok.injEq] at h
      have hne : ∀ a ∈ atomLists.flatten, a.comps ≠ [] := by
        intro a ha
        obtain ⟨l, hl, hal⟩ := List.mem_flatten.mp ha
        obtain ⟨it, _, hit⟩ := mapM_mem atomsOfItem items atomLists h1 l hl
        exact atomsOfItem_comps it l hit a hal
      obtain ⟨A', cs', h2', hm⟩ := coreLoad_perm atomLists.flatten atomLists'.flatten A cs hpl.flatten hne h2
      simp only [h1', h2', pure, Except.pure]
      refine ⟨_, rfl, ?_⟩
      rw [← h]
      exact hm.symm

end Gx
