import GotranxProofs.LoaderAccept
/-!
# The loader is a function of the *set* of atoms

Generalisation of `LoaderPerm` / `LoaderAccept` from permutations to lists with the same elements: writing a
definition twice (the same definition: same kind, name, components, annotations, expression) or dropping such a
repetition changes neither the verdict of the loader nor the loaded model.
-/
namespace Gx
open GenValid C08

theorem seqCheck_ext (l₁ l₂ : List RawAtom) (h : ∀ x, x ∈ l₁ ↔ x ∈ l₂) : seqCheck [] l₁ = seqCheck [] l₂ := by
  have key : ∀ l₁ l₂ : List RawAtom, (∀ x, x ∈ l₁ ↔ x ∈ l₂) → seqCheck [] l₁ = true → seqCheck [] l₂ = true := by
    intro l₁ l₂ hs h1
    rw [seqCheck_iff] at h1 ⊢
    intro a ha b hb
    exact h1 a ((hs a).mpr ha) b ((hs b).mpr hb)
  cases h1 : seqCheck [] l₁ with
  | true => exact (key l₁ l₂ h h1).symm
  | false =>
    cases h2 : seqCheck [] l₂ with
    | false => rfl
    | true => rw [key l₂ l₁ (fun x => (h x).symm) h2] at h1; cases h1

theorem accepts_of_ext (atoms atoms' : List RawAtom) (hset : ∀ x, x ∈ atoms ↔ x ∈ atoms') (hne : ∀ a ∈ atoms, a.comps ≠ [])
    (h : Accepts atoms) : Accepts atoms' := by
  rw [accepts_iff] at h ⊢
  obtain ⟨hs, hc, h1, h2, h3⟩ := h
  have hs' : seqCheck [] atoms' = true := by rw [← seqCheck_ext atoms atoms' hset]; exact hs
  have hne' : ∀ a ∈ atoms', a.comps ≠ [] := fun a ha => hne a ((hset a).mpr ha)
  have hall : ∀ x, x ∈ allAtomsOf (buildComps atoms) ↔ x ∈ allAtomsOf (buildComps atoms') := by
    intro x
    rw [mem_allAtoms_iff atoms hs hne, mem_allAtoms_iff atoms' hs' hne', hset]
  have hnames : ∀ n, n ∈ dedupNames ((allAtomsOf (buildComps atoms)).map (·.name)) ↔
      n ∈ dedupNames ((allAtomsOf (buildComps atoms')).map (·.name)) := by
    intro n
    rw [mem_dedupNames, mem_dedupNames]
    simp only [List.mem_map]
    exact ⟨fun ⟨x, hx, hn⟩ => ⟨x, (hall x).mp hx, hn⟩, fun ⟨x, hx, hn⟩ => ⟨x, (hall x).mpr hx, hn⟩⟩
  refine ⟨hs', ?_, ?_, ?_, ?_⟩
  · intro c' hc'
    obtain ⟨x, hx, hcn⟩ := (comp_name_iff atoms' c'.name).mp ⟨c', hc', rfl⟩
    obtain ⟨c, hcm, hname⟩ := (comp_name_iff atoms c'.name).mpr ⟨x, (hset x).mpr hx, hcn⟩
    have hmem : ∀ y, y ∈ c.atoms ↔ y ∈ c'.atoms := by
      intro y
      rw [mem_comp_iff atoms hs c hcm y, mem_comp_iff atoms' hs' c' hc' y, hset, hname]
    have := hc c hcm
    unfold compOk at this ⊢
    rw [← orphanDeriv_congr c c' hmem, ← missingDeriv_congr c c' hmem]
    exact this
  · rw [← valuesConsistent_congr _ _ _ _ true hall hnames]; exact h1
  · rw [← symbolsKnown_congr _ _ _ _ hall hnames]; exact h2
  · rw [← valuesConsistent_congr _ _ _ _ false hall hnames]; exact h3

/-- two lists with the same atoms are both accepted or both rejected -/
theorem coreLoad_accepts_ext (atoms atoms' : List RawAtom) (hset : ∀ x, x ∈ atoms ↔ x ∈ atoms')
    (hne : ∀ a ∈ atoms, a.comps ≠ []) : Accepts atoms ↔ Accepts atoms' :=
  ⟨accepts_of_ext atoms atoms' hset hne,
   accepts_of_ext atoms' atoms (fun x => (hset x).symm) (fun a ha => hne a ((hset a).mpr ha))⟩

/-- … and load to the same model -/
theorem model_ext_invariant (atoms atoms' A A' : List RawAtom) (cs cs' : List Comp)
    (hset : ∀ x, x ∈ atoms ↔ x ∈ atoms') (hne : ∀ a ∈ atoms, a.comps ≠ [])
    (h : coreLoad atoms = .ok (A, cs)) (h' : coreLoad atoms' = .ok (A', cs')) :
    modelOfAtoms A = modelOfAtoms A' := by
  have unpack : ∀ (at_ B : List RawAtom) (ds : List Comp), coreLoad at_ = .ok (B, ds) →
      seqCheck [] at_ = true ∧ B = allAtomsOf (buildComps at_) := by
    intro at_ B ds hc
    unfold coreLoad at hc
    split at hc
    · cases hc
    · rename_i hs
      split at hc
      · cases hc
      · simp only at hc
        split at hc
        · cases hc
        · split at hc
          · cases hc
          · split at hc
            · cases hc
            · injection hc with hc
              simp only [Prod.mk.injEq] at hc
              exact ⟨by simpa using hs, hc.1.symm⟩
  obtain ⟨hs, hA⟩ := unpack atoms A cs h
  obtain ⟨hs', hA'⟩ := unpack atoms' A' cs' h'
  have hne' : ∀ a ∈ atoms', a.comps ≠ [] := fun a ha => hne a ((hset a).mpr ha)
  have hN := allAtoms_names_nodup atoms hs
  have hN' := allAtoms_names_nodup atoms' hs'
  have hnd := (allAtomsOf_facts (buildComps atoms)).1
  have hnd' := (allAtomsOf_facts (buildComps atoms')).1
  rw [← hA] at hN hnd
  rw [← hA'] at hN' hnd'
  have hperm : A.Perm A' := by
    apply (List.perm_ext_iff_of_nodup hnd hnd').mpr
    intro x
    rw [hA, hA', mem_allAtoms_iff atoms hs hne x, mem_allAtoms_iff atoms' hs' hne' x]
    exact hset x
  have sel : ∀ (k : AKind) (d : Bool), pickAtoms A k d = pickAtoms A' k d := by
    intro k d
    unfold pickAtoms
    rw [dedupByName_id _ [] (by simp only [List.nil_append]; exact hN.sublist (List.Sublist.map _ List.filter_sublist)),
        dedupByName_id _ [] (by simp only [List.nil_append]; exact hN'.sublist (List.Sublist.map _ List.filter_sublist))]
    simp only [List.nil_append]
    apply C10.sortByName_canonical (fun a : RawAtom => a.name) _ _ (hperm.filter _)
    intro a ha b hb hab
    exact name_inj A hN a (List.mem_filter.mp ha).1 b (List.mem_filter.mp hb).1 hab
  unfold modelOfAtoms
  rw [sel .state false, sel .param false, sel .assign false, sel .assign true]

/-- **the loader is a function of the set of atoms**: same elements — in any order, with any repetitions — same
verdict and same model. -/
theorem coreLoad_ext (atoms atoms' A : List RawAtom) (cs : List Comp) (hset : ∀ x, x ∈ atoms ↔ x ∈ atoms')
    (hne : ∀ a ∈ atoms, a.comps ≠ []) (h : coreLoad atoms = .ok (A, cs)) :
    ∃ A' cs', coreLoad atoms' = .ok (A', cs') ∧ modelOfAtoms A = modelOfAtoms A' := by
  obtain ⟨⟨A', cs'⟩, h'⟩ := (coreLoad_accepts_ext atoms atoms' hset hne).mp ⟨_, h⟩
  exact ⟨A', cs', h', model_ext_invariant atoms atoms' A A' cs cs' hset hne h h'⟩

/-- in particular, stating a definition a second time changes nothing (C08: "the same definition twice" is the
one kind of repetition the loader accepts, and it is inert) -/
theorem coreLoad_repeat (atoms A : List RawAtom) (cs : List Comp) (a : RawAtom) (ha : a ∈ atoms)
    (hne : ∀ a ∈ atoms, a.comps ≠ []) (h : coreLoad atoms = .ok (A, cs)) :
    ∃ A' cs', coreLoad (atoms ++ [a]) = .ok (A', cs') ∧ modelOfAtoms A = modelOfAtoms A' :=
  coreLoad_ext atoms (atoms ++ [a]) A cs (fun x => by
    simp only [List.mem_append, List.mem_singleton]
    exact ⟨fun h => Or.inl h, fun h => h.elim id (fun e => e ▸ ha)⟩) hne h

/-- **loading what was loaded is the identity** (the abstract core of C11: the writer puts out the distinct atoms
of the model, each once; reading them back is accepted and gives the same model) -/
theorem coreLoad_idem (atoms A : List RawAtom) (cs : List Comp) (hne : ∀ a ∈ atoms, a.comps ≠ [])
    (h : coreLoad atoms = .ok (A, cs)) :
    ∃ A' cs', coreLoad A = .ok (A', cs') ∧ modelOfAtoms A = modelOfAtoms A' := by
  have hs : seqCheck [] atoms = true := ((accepts_iff atoms).mp ⟨_, h⟩).1
  have hA : A = allAtomsOf (buildComps atoms) := by
    unfold coreLoad at h
    split at h
    · cases h
    · split at h
      · cases h
      · simp only at h
        split at h
        · cases h
        · split at h
          · cases h
          · split at h
            · cases h
            · injection h with h
              simp only [Prod.mk.injEq] at h
              exact h.1.symm
  exact coreLoad_ext atoms A A cs (fun x => by rw [hA, mem_allAtoms_iff atoms hs hne x]) hne h

end Gx
