import GotranxProofs.LoaderWF
import GotranxProofs.Properties.C10
/-!
# The loaded model does not depend on the order of the atoms

If two lists of atoms are permutations of each other (blocks of the text permuted, entries inside a
declaration block permuted, assignment lines permuted) and the loader accepts both, the two loaded
models are **equal** — hence (`C09` / `C10`: everything downstream is a function of the model)
identical layout and generated programs.
-/
namespace Gx
open GenValid

theorem attrsEq_name (a b : RawAtom) (h : a.attrsEq b = true) : a.name = b.name := by
  simp only [RawAtom.attrsEq, Bool.and_eq_true, beq_iff_eq] at h
  exact h.1.1.1.1.1.2

/-- `addToComp` keeps what is there and makes the new atom present (up to `attrsEq`) in its component -/
theorem addToComp_facts (cs : List RawComp) (cn : String) (a : RawAtom) :
    (∀ c ∈ cs, ∀ x ∈ c.atoms, ∃ c' ∈ addToComp cs cn a, c'.name = c.name ∧ x ∈ c'.atoms) ∧
    (∃ c' ∈ addToComp cs cn a, c'.name = cn ∧ ∃ y ∈ c'.atoms, y.attrsEq a = true) := by
  unfold addToComp
  by_cases hany : cs.any (·.name == cn) = true
  · simp only [hany, if_true]
    constructor
    · intro c hc x hx
      refine ⟨_, List.mem_map.mpr ⟨c, hc, rfl⟩, ?_, ?_⟩
      · split
        · split <;> rfl
        · rfl
      · split
        · split
          · exact hx
          · simp [hx]
        · exact hx
    · simp only [List.any_eq_true, beq_iff_eq] at hany
      obtain ⟨c, hc, hcn⟩ := hany
      refine ⟨_, List.mem_map.mpr ⟨c, hc, rfl⟩, ?_, ?_⟩
      · simp only [hcn, beq_self_eq_true, if_true]
        split <;> first | exact hcn | rfl
      · simp only [hcn, beq_self_eq_true, if_true]
        by_cases hex : c.atoms.any (·.attrsEq a) = true
        · simp only [hex, if_true]
          simp only [List.any_eq_true] at hex
          exact hex
        · simp only [hex, Bool.false_eq_true, if_false]
          refine ⟨a, by simp, ?_⟩
          simp only [RawAtom.attrsEq, beq_self_eq_true, Bool.and_self, Bool.true_and]
          cases a.kind <;> simp [sameSet]
  · simp only [hany, Bool.false_eq_true, if_false]
    constructor
    · intro c hc x hx
      exact ⟨c, by simp [hc], rfl, hx⟩
    · refine ⟨{ name := cn, atoms := [a] }, by simp, rfl, a, by simp, ?_⟩
      simp only [RawAtom.attrsEq, beq_self_eq_true, Bool.and_self, Bool.true_and]
      cases a.kind <;> simp [sameSet]

/-- every atom is present (up to `attrsEq`) in each of its components after `buildComps` -/
theorem buildComps_present (atoms : List RawAtom) : ∀ x ∈ atoms, ∀ cn ∈ x.comps,
    ∃ c ∈ buildComps atoms, c.name = cn ∧ ∃ y ∈ c.atoms, y.attrsEq x = true := by
  unfold buildComps
  -- "present" is preserved by every later step
  have keep_inner : ∀ (a : RawAtom) (names : List String) (cs : List RawComp) (cn : String) (x : RawAtom),
      (∃ c ∈ cs, c.name = cn ∧ ∃ y ∈ c.atoms, y.attrsEq x = true) →
      ∃ c ∈ names.foldl (fun cs c => addToComp cs c a) cs, c.name = cn ∧ ∃ y ∈ c.atoms, y.attrsEq x = true := by
    intro a names
    induction names with
    | nil => intro cs cn x h; exact h
    | cons n ns ih =>
      intro cs cn x h
      simp only [List.foldl_cons]
      apply ih
      obtain ⟨c, hc, hcn, y, hy, hyx⟩ := h
      obtain ⟨c', hc', hn', hy'⟩ := (addToComp_facts cs n a).1 c hc y hy
      exact ⟨c', hc', hn'.trans hcn, y, hy', hyx⟩
  have add_inner : ∀ (a : RawAtom) (names : List String) (cs : List RawComp), ∀ cn ∈ names,
      ∃ c ∈ names.foldl (fun cs c => addToComp cs c a) cs, c.name = cn ∧ ∃ y ∈ c.atoms, y.attrsEq a = true := by
    intro a names
    induction names with
    | nil => intro cs cn h; simp at h
    | cons n ns ih =>
      intro cs cn h
      simp only [List.foldl_cons]
      simp only [List.mem_cons] at h
      rcases h with rfl | h
      · exact keep_inner a ns _ cn a (addToComp_facts cs cn a).2
      · exact ih _ cn h
  have keep_outer : ∀ (l : List RawAtom) (cs : List RawComp) (cn : String) (x : RawAtom),
      (∃ c ∈ cs, c.name = cn ∧ ∃ y ∈ c.atoms, y.attrsEq x = true) →
      ∃ c ∈ l.foldl (fun cs a => a.comps.foldl (fun cs c => addToComp cs c a) cs) cs,
        c.name = cn ∧ ∃ y ∈ c.atoms, y.attrsEq x = true := by
    intro l
    induction l with
    | nil => intro cs cn x h; exact h
    | cons a rest ih =>
      intro cs cn x h
      simp only [List.foldl_cons]
      exact ih _ cn x (keep_inner a a.comps cs cn x h)
  have main : ∀ (l : List RawAtom) (cs : List RawComp), ∀ x ∈ l, ∀ cn ∈ x.comps,
      ∃ c ∈ l.foldl (fun cs a => a.comps.foldl (fun cs c => addToComp cs c a) cs) cs,
        c.name = cn ∧ ∃ y ∈ c.atoms, y.attrsEq x = true := by
    intro l
    induction l with
    | nil => intro cs x hx; simp at hx
    | cons a rest ih =>
      intro cs x hx cn hcn
      simp only [List.foldl_cons]
      simp only [List.mem_cons] at hx
      rcases hx with rfl | hx
      · exact keep_outer rest _ cn x (add_inner x x.comps cs cn hcn)
      · exact ih _ x hx cn hcn
  exact main atoms []

/-- after the duplicate test the distinct atoms are exactly the atoms of the text -/
theorem mem_allAtoms_iff (atoms : List RawAtom) (hseq : seqCheck [] atoms = true)
    (hne : ∀ a ∈ atoms, a.comps ≠ []) (x : RawAtom) :
    x ∈ allAtomsOf (buildComps atoms) ↔ x ∈ atoms := by
  obtain ⟨_, hmem⟩ := allAtomsOf_facts (buildComps atoms)
  constructor
  · intro hx
    obtain ⟨c, hc, hxc⟩ := (hmem x).mp hx
    exact mem_buildComps atoms c hc x hxc
  · intro hx
    obtain ⟨cn, hcn⟩ := List.exists_mem_of_ne_nil _ (hne x hx)
    obtain ⟨c, hc, _, y, hy, hyx⟩ := buildComps_present atoms x hx cn hcn
    have hyA : y ∈ atoms := mem_buildComps atoms c hc y hy
    have hsd := C08.seqCheck_pairwise atoms hseq y hyA x hx (attrsEq_name y x hyx)
    have hyx' : y = x := by
      have := C08.sameDefinition_eq y x hsd
      cases y; cases x; simp_all
    subst hyx'
    exact (hmem y).mpr ⟨c, hc, hy⟩

/-- **C10 for the loader model.** Two permutations of the same atoms that both load give equal models. -/
theorem model_perm_invariant (atoms atoms' A A' : List RawAtom) (cs cs' : List Comp)
    (hp : atoms.Perm atoms') (hne : ∀ a ∈ atoms, a.comps ≠ [])
    (h : coreLoad atoms = .ok (A, cs)) (h' : coreLoad atoms' = .ok (A', cs')) :
    modelOfAtoms A = modelOfAtoms A' := by
  -- unpack the two runs
  have unpack : ∀ (at_ B : List RawAtom) (ds : List Comp), coreLoad at_ = .ok (B, ds) →
      seqCheck [] at_ = true ∧ B = allAtomsOf (buildComps at_) := by
    intro at_ B ds hc
    unfold coreLoad at hc
    split at hc
    · cases hc
    · rename_i hs
      split at hc
      · cases hc
      · simp only at hc
        split at hc
        · cases hc
        · split at hc
          · cases hc
          · split at hc
            · cases hc
            · injection hc with hc
              simp only [Prod.mk.injEq] at hc
              exact ⟨by simpa using hs, hc.1.symm⟩
  obtain ⟨hs, hA⟩ := unpack atoms A cs h
  obtain ⟨hs', hA'⟩ := unpack atoms' A' cs' h'
  have hne' : ∀ a ∈ atoms', a.comps ≠ [] := fun a ha => hne a (hp.mem_iff.mpr ha)
  have hN := allAtoms_names_nodup atoms hs
  have hN' := allAtoms_names_nodup atoms' hs'
  have hnd := (allAtomsOf_facts (buildComps atoms)).1
  have hnd' := (allAtomsOf_facts (buildComps atoms')).1
  rw [← hA] at hN hnd
  rw [← hA'] at hN' hnd'
  have hperm : A.Perm A' := by
    apply (List.perm_ext_iff_of_nodup hnd hnd').mpr
    intro x
    rw [hA, hA', mem_allAtoms_iff atoms hs hne x, mem_allAtoms_iff atoms' hs' hne' x]
    exact hp.mem_iff
  -- the four sorted selections coincide
  have sel : ∀ (k : AKind) (d : Bool), pickAtoms A k d = pickAtoms A' k d := by
    intro k d
    unfold pickAtoms
    rw [dedupByName_id _ [] (by simp only [List.nil_append]; exact hN.sublist (List.Sublist.map _ List.filter_sublist)),
        dedupByName_id _ [] (by simp only [List.nil_append]; exact hN'.sublist (List.Sublist.map _ List.filter_sublist))]
    simp only [List.nil_append]
    apply C10.sortByName_canonical (fun a : RawAtom => a.name) _ _ (hperm.filter _)
    intro a ha b hb hab
    exact name_inj A hN a (List.mem_filter.mp ha).1 b (List.mem_filter.mp hb).1 hab
  unfold modelOfAtoms
  rw [sel .state false, sel .param false, sel .assign false, sel .assign true]

end Gx
