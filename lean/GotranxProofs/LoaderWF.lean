import GotranxProofs.EndToEnd
import GotranxProofs.Properties.C08
import GotranxModel.LoadP
/-!
# The loader only produces well-formed models

`coreLoad_wf`: if the loader's checks succeed on a list of atoms (duplicate test of
`TreeToODE.ode`, derivative/state pairing per component, one value per name, every symbol known)
and no name is the time symbol, then the model built from the distinct atoms is `ModelWF` — names
are pairwise distinct, no name plays two roles, every state has exactly one derivative.  With
`GenValid` / `EndToEnd` this connects the *text* to the generated programs on the model side:
`load_end_to_end`.
-/
namespace Gx
open GenValid

theorem mem_addToComp (cs : List RawComp) (cn : String) (a : RawAtom) (c : RawComp) (x : RawAtom)
    (hc : c ∈ addToComp cs cn a) (hx : x ∈ c.atoms) : x = a ∨ ∃ c' ∈ cs, x ∈ c'.atoms := by
  unfold addToComp at hc
  split at hc
  · obtain ⟨rc, hrc, rfl⟩ := List.mem_map.mp hc
    by_cases hn : (rc.name == cn) = true
    · simp only [hn, if_true] at hx
      by_cases ha : rc.atoms.any (·.attrsEq a) = true
      · simp only [ha, if_true] at hx; exact Or.inr ⟨rc, hrc, hx⟩
      · simp only [ha, Bool.false_eq_true, if_false, List.mem_append, List.mem_singleton] at hx
        rcases hx with hx | hx
        · exact Or.inr ⟨rc, hrc, hx⟩
        · exact Or.inl hx
    · simp only [hn, Bool.false_eq_true, if_false] at hx; exact Or.inr ⟨rc, hrc, hx⟩
  · simp only [List.mem_append, List.mem_singleton] at hc
    rcases hc with hc | rfl
    · exact Or.inr ⟨c, hc, hx⟩
    · simp only [List.mem_singleton] at hx; exact Or.inl hx

theorem mem_buildComps (atoms : List RawAtom) : ∀ c ∈ buildComps atoms, ∀ x ∈ c.atoms, x ∈ atoms := by
  unfold buildComps
  have key : ∀ (l : List RawAtom) (cs : List RawComp),
      (∀ c ∈ cs, ∀ x ∈ c.atoms, x ∈ atoms) → (∀ a ∈ l, a ∈ atoms) →
      ∀ c ∈ l.foldl (fun cs a => a.comps.foldl (fun cs c => addToComp cs c a) cs) cs, ∀ x ∈ c.atoms, x ∈ atoms := by
    intro l
    induction l with
    | nil => intro cs h _; simpa using h
    | cons a rest ih =>
      intro cs h hl
      simp only [List.foldl_cons]
      apply ih _ _ (fun b hb => hl b (by simp [hb]))
      have inner : ∀ (names : List String) (cs : List RawComp), (∀ c ∈ cs, ∀ x ∈ c.atoms, x ∈ atoms) →
          ∀ c ∈ names.foldl (fun cs c => addToComp cs c a) cs, ∀ x ∈ c.atoms, x ∈ atoms := by
        intro names
        induction names with
        | nil => intro cs h; simpa using h
        | cons n ns ihn =>
          intro cs h
          simp only [List.foldl_cons]
          apply ihn
          intro c hc x hx
          rcases mem_addToComp cs n a c x hc hx with rfl | ⟨c', hc', hx'⟩
          · exact hl x (by simp)
          · exact h c' hc' x hx'
      exact inner a.comps cs h
  exact key atoms [] (by simp) (fun a ha => ha)

theorem allAtomsOf_facts (comps : List RawComp) :
    (allAtomsOf comps).Nodup ∧ (∀ x, x ∈ allAtomsOf comps ↔ ∃ c ∈ comps, x ∈ c.atoms) := by
  unfold allAtomsOf
  have inner : ∀ (l acc : List RawAtom), acc.Nodup →
      (l.foldl (fun acc a => if acc.contains a then acc else acc ++ [a]) acc).Nodup ∧
      ∀ x, x ∈ l.foldl (fun acc a => if acc.contains a then acc else acc ++ [a]) acc ↔ x ∈ acc ∨ x ∈ l := by
    intro l
    induction l with
    | nil => intro acc h; simp [h]
    | cons a rest ih =>
      intro acc h
      simp only [List.foldl_cons]
      by_cases hc : a ∈ acc
      · have hstep : (if acc.contains a = true then acc else acc ++ [a]) = acc := by simp [hc]
        rw [hstep]
        obtain ⟨h1, h2⟩ := ih acc h
        refine ⟨h1, fun x => ?_⟩
        rw [h2 x]
        simp only [List.mem_cons]
        constructor
        · rintro (h | h); exact Or.inl h; exact Or.inr (Or.inr h)
        · rintro (h | rfl | h); exact Or.inl h; exact Or.inl hc; exact Or.inr h
      · have hstep : (if acc.contains a = true then acc else acc ++ [a]) = acc ++ [a] := by simp [hc]
        rw [hstep]
        have hnd : (acc ++ [a]).Nodup := by
          refine List.nodup_append.mpr ⟨h, by simp, ?_⟩
          intro x hx y hy hxy
          simp only [List.mem_singleton] at hy
          subst hy; subst hxy; exact hc hx
        obtain ⟨h1, h2⟩ := ih (acc ++ [a]) hnd
        refine ⟨h1, fun x => ?_⟩
        rw [h2 x]
        simp only [List.mem_append, List.mem_cons, List.not_mem_nil, or_false]
        constructor
        · rintro ((h | h) | h); exact Or.inl h; exact Or.inr (Or.inl h); exact Or.inr (Or.inr h)
        · rintro (h | h | h); exact Or.inl (Or.inl h); exact Or.inl (Or.inr h); exact Or.inr h
  have outer : ∀ (cs : List RawComp) (acc : List RawAtom), acc.Nodup →
      (cs.foldl (fun acc c => c.atoms.foldl (fun acc a => if acc.contains a then acc else acc ++ [a]) acc) acc).Nodup ∧
      ∀ x, x ∈ cs.foldl (fun acc c => c.atoms.foldl (fun acc a => if acc.contains a then acc else acc ++ [a]) acc) acc ↔
        x ∈ acc ∨ ∃ c ∈ cs, x ∈ c.atoms := by
    intro cs
    induction cs with
    | nil => intro acc h; simp [h]
    | cons c rest ih =>
      intro acc h
      simp only [List.foldl_cons]
      obtain ⟨i1, i2⟩ := inner c.atoms acc h
      obtain ⟨h1, h2⟩ := ih _ i1
      refine ⟨h1, fun x => ?_⟩
      rw [h2 x, i2 x]
      simp only [List.mem_cons, exists_eq_or_imp]
      constructor
      · rintro ((h | h) | h); exact Or.inl h; exact Or.inr (Or.inl h); exact Or.inr (Or.inr h)
      · rintro (h | h | h); exact Or.inl (Or.inl h); exact Or.inl (Or.inr h); exact Or.inr h
  obtain ⟨h1, h2⟩ := outer comps [] List.nodup_nil
  exact ⟨h1, fun x => by rw [h2 x]; simp⟩

/-- after the duplicate test, the distinct atoms have pairwise distinct names -/
theorem allAtoms_names_nodup (atoms : List RawAtom) (h : seqCheck [] atoms = true) :
    ((allAtomsOf (buildComps atoms)).map (·.name)).Nodup := by
  obtain ⟨hnd, hmem⟩ := allAtomsOf_facts (buildComps atoms)
  have hsub : ∀ x ∈ allAtomsOf (buildComps atoms), x ∈ atoms := by
    intro x hx
    obtain ⟨c, hc, hxc⟩ := (hmem x).mp hx
    exact mem_buildComps atoms c hc x hxc
  have hinj : ∀ a ∈ allAtomsOf (buildComps atoms), ∀ b ∈ allAtomsOf (buildComps atoms), a.name = b.name → a = b := by
    intro a ha b hb hab
    have := C08.sameDefinition_eq a b (C08.seqCheck_pairwise atoms h a (hsub a ha) b (hsub b hb) hab)
    cases a; cases b; simp_all
  generalize allAtomsOf (buildComps atoms) = A at hnd hinj
  induction A with
  | nil => simp
  | cons a rest ih =>
    simp only [List.nodup_cons] at hnd
    simp only [List.map_cons, List.nodup_cons]
    refine ⟨?_, ih hnd.2 (fun x hx y hy => hinj x (by simp [hx]) y (by simp [hy]))⟩
    intro hm
    obtain ⟨b, hb, hbn⟩ := List.mem_map.mp hm
    have := hinj a (by simp) b (by simp [hb]) hbn.symm
    subst this; exact hnd.1 hb

end Gx

namespace Gx
open GenValid

theorem dedupByName_id : ∀ (l acc : List RawAtom), ((acc ++ l).map (·.name)).Nodup →
    l.foldl (fun acc a => if acc.any (·.name == a.name) then acc else acc ++ [a]) acc = acc ++ l := by
  intro l
  induction l with
  | nil => intro acc _; simp
  | cons a rest ih =>
    intro acc h
    simp only [List.foldl_cons]
    have hna : acc.any (·.name == a.name) = false := by
      rw [Bool.eq_false_iff]
      intro hc
      simp only [List.any_eq_true, beq_iff_eq] at hc
      obtain ⟨b, hb, hbn⟩ := hc
      simp only [List.map_append, List.map_cons] at h
      have := (List.nodup_append.mp h).2.2 b.name (List.mem_map.mpr ⟨b, hb, rfl⟩) a.name (by simp)
      exact this hbn
    simp only [hna, Bool.false_eq_true, if_false]
    rw [ih (acc ++ [a]) (by simpa [List.append_assoc] using h)]
    simp

theorem pickAtoms_perm (A : List RawAtom) (hA : (A.map (·.name)).Nodup) (k : AKind) (d : Bool) :
    (pickAtoms A k d).Perm (A.filter fun a => a.kind == k && (k != .assign || isDerivAtom a == d)) := by
  unfold pickAtoms
  rw [dedupByName_id _ [] (by
    simp only [List.nil_append]
    exact hA.sublist (List.Sublist.map _ List.filter_sublist))]
  simpa using sortByName_perm (fun a : RawAtom => a.name) _

/-- names are keys: two atoms of `A` with the same name are the same atom -/
theorem name_inj (A : List RawAtom) (hA : (A.map (·.name)).Nodup) :
    ∀ a ∈ A, ∀ b ∈ A, a.name = b.name → a = b := by
  induction A with
  | nil => intro a ha; simp at ha
  | cons x rest ih =>
    simp only [List.map_cons, List.nodup_cons] at hA
    intro a ha b hb hab
    simp only [List.mem_cons] at ha hb
    rcases ha with rfl | ha <;> rcases hb with rfl | hb
    · rfl
    · exact absurd (List.mem_map.mpr ⟨b, hb, hab.symm⟩) hA.1
    · exact absurd (List.mem_map.mpr ⟨a, ha, hab⟩) hA.1
    · exact ih hA.2 a ha b hb hab

/-- the names of two disjoint selections of `A` are disjoint and duplicate-free -/
theorem names_of_filters (A : List RawAtom) (hA : (A.map (·.name)).Nodup) (p q : RawAtom → Bool)
    (hpq : ∀ a, ¬ (p a = true ∧ q a = true)) :
    ((A.filter p).map (·.name) ++ (A.filter q).map (·.name)).Nodup := by
  refine List.nodup_append.mpr ⟨hA.sublist (List.Sublist.map _ List.filter_sublist),
    hA.sublist (List.Sublist.map _ List.filter_sublist), ?_⟩
  intro x hx y hy hxy
  obtain ⟨a, ha, rfl⟩ := List.mem_map.mp hx
  obtain ⟨b, hb, rfl⟩ := List.mem_map.mp hy
  have ha' := List.mem_filter.mp ha
  have hb' := List.mem_filter.mp hb
  have := name_inj A hA a ha'.1 b hb'.1 hxy
  subst this
  exact hpq a ⟨ha'.2, hb'.2⟩

theorem derivState_inj (n n' : Name) (s : Name) (h : derivState n = some s) (h' : derivState n' = some s) : n = n' := by
  have key : ∀ m : Name, derivState m = some s → m.toList = 'd' :: (s.toList ++ ['_', 'd', 't']) := by
    intro m hm
    unfold derivState at hm
    simp only at hm
    split at hm
    · rename_i hc
      simp only [Bool.and_eq_true, decide_eq_true_eq, beq_iff_eq] at hc
      obtain ⟨⟨hlen, hhead⟩, hlast⟩ := hc
      injection hm with hm
      subst hm
      cases hcs : m.toList with
      | nil => rw [hcs] at hlen; simp at hlen
      | cons c tail =>
        rw [hcs] at hlen hhead hlast
        simp only [List.head?_cons, Option.some.injEq] at hhead
        subst hhead
        simp only [List.length_cons] at hlen hlast ⊢
        have h1 : List.drop (tail.length + 1 - 3) ('d' :: tail) = List.drop (tail.length - 3) tail := by
          have : tail.length + 1 - 3 = (tail.length - 3) + 1 := by omega
          rw [this]; rfl
        rw [h1] at hlast
        have h2 : (List.drop 1 ('d' :: tail)).take (tail.length + 1 - 4) = tail.take (tail.length - 3) := by
          have : tail.length + 1 - 4 = tail.length - 3 := by omega
          rw [this]; rfl
        simp only [h2, String.toList_ofList]
        congr 1
        rw [← hlast]
        exact (List.take_append_drop _ _).symm
    · cases hm
  have e1 := key n h
  have e2 := key n' h'
  exact String.toList_injective (e1.trans e2.symm)

end Gx

namespace Gx
open GenValid

theorem compOf_ok (c : RawComp) (comp : Comp) (h : compOf c = .ok comp) :
    (∀ a ∈ c.atoms, a.kind = .assign → ∀ s, derivState a.name = some s → ∃ b ∈ c.atoms, b.kind = .state ∧ b.name = s) ∧
    (∀ b ∈ c.atoms, b.kind = .state → ∃ a ∈ c.atoms, a.kind = .assign ∧ derivState a.name = some b.name) := by
  unfold compOf at h
  by_cases ho : orphanDeriv c = true
  · simp [ho] at h
  by_cases hm : missingDeriv c = true
  · simp [ho, hm] at h
  constructor
  · intro a ha hk s hs
    have : ¬ (c.atoms.any fun a => a.kind == .assign &&
        match derivState a.name with
        | some s => !(c.atoms.any fun b => b.kind == .state && b.name == s)
        | none => false) = true := ho
    simp only [List.any_eq_true, not_exists, not_and] at this
    have h1 := this a ha
    simp only [hk, beq_self_eq_true, Bool.true_and, hs, Bool.not_eq_true'] at h1
    have h2 : (c.atoms.any fun b => b.kind == .state && b.name == s) = true := by
      cases hv : (c.atoms.any fun b => b.kind == .state && b.name == s) with
      | true => rfl
      | false => exact absurd hv h1
    simp only [List.any_eq_true, Bool.and_eq_true, beq_iff_eq] at h2
    obtain ⟨b, hb, hbk, hbn⟩ := h2
    exact ⟨b, hb, hbk, hbn⟩
  · intro b hb hk
    have : ¬ (c.atoms.any fun b => b.kind == .state &&
        !(c.atoms.any fun a => a.kind == .assign && derivState a.name == some b.name)) = true := hm
    simp only [List.any_eq_true, not_exists, not_and] at this
    have h1 := this b hb
    simp only [hk, beq_self_eq_true, Bool.true_and, Bool.not_eq_true'] at h1
    have h2 : (c.atoms.any fun a => a.kind == .assign && derivState a.name == some b.name) = true := by
      cases hv : (c.atoms.any fun a => a.kind == .assign && derivState a.name == some b.name) with
      | true => rfl
      | false => exact absurd hv h1
    simp only [List.any_eq_true, Bool.and_eq_true, beq_iff_eq] at h2
    obtain ⟨a, ha, hak, han⟩ := h2
    exact ⟨a, ha, hak, han⟩

theorem nodup_map_on {β γ} (f : β → γ) : ∀ (l : List β), l.Nodup → (∀ x ∈ l, ∀ y ∈ l, f x = f y → x = y) →
    (l.map f).Nodup := by
  intro l
  induction l with
  | nil => intro _ _; simp
  | cons a rest ih =>
    intro hnd hinj
    simp only [List.nodup_cons] at hnd
    simp only [List.map_cons, List.nodup_cons]
    refine ⟨?_, ih hnd.2 (fun x hx y hy => hinj x (by simp [hx]) y (by simp [hy]))⟩
    intro hm
    obtain ⟨b, hb, hbe⟩ := List.mem_map.mp hm
    have := hinj b (by simp [hb]) a (by simp) hbe
    subst this; exact hnd.1 hb

theorem mapM_ok_mem {β γ} (f : β → Except LoadErr γ) : ∀ (l : List β) (r : List γ), l.mapM f = .ok r →
    ∀ x ∈ l, ∃ y, f x = .ok y := by
  intro l
  induction l with
  | nil => intro r _ x hx; simp at hx
  | cons a rest ih =>
    intro r h x hx
    simp only [List.mapM_cons, bind, Except.bind] at h
    cases hfa : f a with
    | error e => simp [hfa] at h
    | ok y =>
      simp only [hfa] at h
      cases hrest : rest.mapM f with
      | error e => simp [hrest] at h
      | ok ys =>
        simp only [List.mem_cons] at hx
        rcases hx with rfl | hx
        · exact ⟨y, hfa⟩
        · exact ih ys hrest x hx

/-- **The loader only produces well-formed models.** If the checks of the loader succeed on a list
of atoms and no name is `t` / `time`, the model built from the distinct atoms satisfies `ModelWF`:
distinct names, no name in two roles, exactly one derivative per state. -/
theorem coreLoad_wf (atoms A : List RawAtom) (cs : List Comp) (h : coreLoad atoms = .ok (A, cs))
    (htime : ∀ x ∈ timeNames, x ∉ (modelOfAtoms A).stateNames ∧ x ∉ (modelOfAtoms A).paramNames ∧
      x ∉ (modelOfAtoms A).assignNames) : ModelWF (modelOfAtoms A) := by
  unfold coreLoad at h
  split at h
  · cases h
  · rename_i hseq
    have hseq' : seqCheck [] atoms = true := by simpa using hseq
    split at h
    · cases h
    · rename_i compsOut hcomps
      simp only at h
      split at h
      · cases h
      · split at h
        · cases h
        · split at h
          · cases h
          · injection h with h
            simp only [Prod.mk.injEq] at h
            obtain ⟨hA, _⟩ := h
            subst hA
            have hN := allAtoms_names_nodup atoms hseq'
            obtain ⟨hAnd, hmem⟩ := allAtomsOf_facts (buildComps atoms)
            generalize hAdef : allAtomsOf (buildComps atoms) = A at hN hmem htime hAnd
            have inj := name_inj A hN
            -- the four name lists are permutations of the names of disjoint selections of A
            have pS := (pickAtoms_perm A hN .state false).map (·.name)
            have pP := (pickAtoms_perm A hN .param false).map (·.name)
            have pI := (pickAtoms_perm A hN .assign false).map (·.name)
            have pD := (pickAtoms_perm A hN .assign true).map (·.name)
            have eS : (modelOfAtoms A).stateNames = (pickAtoms A .state false).map (·.name) := by
              simp [Model.stateNames, modelOfAtoms, List.map_map, Function.comp_def]
            have eP : (modelOfAtoms A).paramNames = (pickAtoms A .param false).map (·.name) := by
              simp [Model.paramNames, modelOfAtoms, List.map_map, Function.comp_def]
            have eA : (modelOfAtoms A).assignNames =
                (pickAtoms A .assign false).map (·.name) ++ (pickAtoms A .assign true).map (·.name) := by
              rw [assignNames_eq]
              simp [modelOfAtoms, List.map_map, Function.comp_def]
            have memS : ∀ x, x ∈ (modelOfAtoms A).stateNames ↔ ∃ a ∈ A, a.kind = .state ∧ a.name = x := by
              intro x; rw [eS, pS.mem_iff]
              simp only [List.mem_map, List.mem_filter, Bool.and_eq_true, beq_iff_eq]
              constructor
              · rintro ⟨a, ⟨ha, hk, _⟩, rfl⟩; exact ⟨a, ha, hk, rfl⟩
              · rintro ⟨a, ha, hk, rfl⟩; exact ⟨a, ⟨ha, hk, by simp [hk]⟩, rfl⟩
            have memP : ∀ x, x ∈ (modelOfAtoms A).paramNames ↔ ∃ a ∈ A, a.kind = .param ∧ a.name = x := by
              intro x; rw [eP, pP.mem_iff]
              simp only [List.mem_map, List.mem_filter, Bool.and_eq_true, beq_iff_eq]
              constructor
              · rintro ⟨a, ⟨ha, hk, _⟩, rfl⟩; exact ⟨a, ha, hk, rfl⟩
              · rintro ⟨a, ha, hk, rfl⟩; exact ⟨a, ⟨ha, hk, by simp [hk]⟩, rfl⟩
            have memA : ∀ x, x ∈ (modelOfAtoms A).assignNames ↔ ∃ a ∈ A, a.kind = .assign ∧ a.name = x := by
              intro x; rw [eA, List.mem_append, pI.mem_iff, pD.mem_iff]
              simp only [List.mem_map, List.mem_filter, Bool.and_eq_true, beq_iff_eq]
              constructor
              · rintro (⟨a, ⟨ha, hk, _⟩, rfl⟩ | ⟨a, ⟨ha, hk, _⟩, rfl⟩) <;> exact ⟨a, ha, hk, rfl⟩
              · rintro ⟨a, ha, hk, rfl⟩
                by_cases hd : isDerivAtom a = true
                · exact Or.inr ⟨a, ⟨ha, hk, by simp [hd]⟩, rfl⟩
                · exact Or.inl ⟨a, ⟨ha, hk, by simp [hd]⟩, rfl⟩
            refine ⟨?_, ?_, ?_, ?_, ?_, ?_, htime, ?_⟩
            · -- assignment names
              rw [eA]
              have := names_of_filters A hN (fun a => a.kind == .assign && (AKind.assign != .assign || isDerivAtom a == false))
                (fun a => a.kind == .assign && (AKind.assign != .assign || isDerivAtom a == true))
                (by intro a ⟨h1, h2⟩; simp at h1 h2; rw [h1.2] at h2; exact absurd h2.2 (by simp))
              exact (List.Perm.nodup_iff (pI.append pD)).mpr this
            · rw [eS]; exact pS.nodup_iff.mpr (hN.sublist (List.Sublist.map _ List.filter_sublist))
            · rw [eP]; exact pP.nodup_iff.mpr (hN.sublist (List.Sublist.map _ List.filter_sublist))
            · intro x hx hp
              obtain ⟨a, ha, hka, rfl⟩ := (memS x).mp hx
              obtain ⟨b, hb, hkb, hbn⟩ := (memP a.name).mp hp
              have := inj b hb a ha hbn
              subst this; rw [hka] at hkb; cases hkb
            · intro x hx hp
              obtain ⟨a, ha, hka, rfl⟩ := (memS x).mp hx
              obtain ⟨b, hb, hkb, hbn⟩ := (memA a.name).mp hp
              have := inj b hb a ha hbn
              subst this; rw [hka] at hkb; cases hkb
            · intro x hx hp
              obtain ⟨a, ha, hka, rfl⟩ := (memP x).mp hx
              obtain ⟨b, hb, hkb, hbn⟩ := (memA a.name).mp hp
              have := inj b hb a ha hbn
              subst this; rw [hka] at hkb; cases hkb
            · -- one derivative per state
              have hcompOK : ∀ c ∈ buildComps atoms, ∃ y, compOf c = .ok y := mapM_ok_mem compOf _ _ hcomps
              have eD : (modelOfAtoms A).derivs.map (·.2.1) =
                  (pickAtoms A .assign true).map (fun a => (derivState a.name).getD "") := by
                simp [modelOfAtoms, List.map_map, Function.comp_def]
              have pD' := (pickAtoms_perm A hN .assign true).map (fun a => (derivState a.name).getD "")
              rw [eD]
              have hndS : (modelOfAtoms A).stateNames.Nodup := by
                rw [eS]; exact pS.nodup_iff.mpr (hN.sublist (List.Sublist.map _ List.filter_sublist))
              have hsel : ∀ a, a ∈ A.filter (fun a => a.kind == .assign && (AKind.assign != .assign || isDerivAtom a == true)) ↔
                  a ∈ A ∧ a.kind = .assign ∧ ∃ s, derivState a.name = some s := by
                intro a
                simp only [List.mem_filter, Bool.and_eq_true, beq_iff_eq, isDerivAtom]
                constructor
                · rintro ⟨ha, hk, hd⟩
                  simp [hk] at hd
                  exact ⟨ha, hk, Option.isSome_iff_exists.mp hd⟩
                · rintro ⟨ha, hk, s, hs⟩
                  exact ⟨ha, hk, by simp [hk, hs]⟩
              have hndD : ((pickAtoms A .assign true).map (fun a => (derivState a.name).getD "")).Nodup := by
                rw [pD'.nodup_iff]
                apply nodup_map_on _ _ (hAnd.sublist List.filter_sublist)
                intro x hx y hy hxy
                obtain ⟨hxA, _, s1, hs1⟩ := (hsel x).mp hx
                obtain ⟨hyA, _, s2, hs2⟩ := (hsel y).mp hy
                simp only [hs1, hs2, Option.getD_some] at hxy
                subst hxy
                exact inj x hxA y hyA (derivState_inj x.name y.name s1 hs1 hs2)
              apply (List.perm_ext_iff_of_nodup hndD hndS).mpr
              intro s
              rw [pD'.mem_iff, memS s]
              constructor
              · intro hs
                obtain ⟨a, ha, hfa⟩ := List.mem_map.mp hs
                obtain ⟨haA, hak, s', hs'⟩ := (hsel a).mp ha
                simp only [hs', Option.getD_some] at hfa
                subst hfa
                obtain ⟨c, hc, hac⟩ := (hmem a).mp haA
                obtain ⟨y, hy⟩ := hcompOK c hc
                obtain ⟨b, hb, hbk, hbn⟩ := (compOf_ok c y hy).1 a hac hak s' hs'
                exact ⟨b, (hmem b).mpr ⟨c, hc, hb⟩, hbk, hbn⟩
              · rintro ⟨b, hbA, hbk, rfl⟩
                obtain ⟨c, hc, hbc⟩ := (hmem b).mp hbA
                obtain ⟨y, hy⟩ := hcompOK c hc
                obtain ⟨a, ha, hak, han⟩ := (compOf_ok c y hy).2 b hbc hbk
                refine List.mem_map.mpr ⟨a, (hsel a).mpr ⟨(hmem a).mpr ⟨c, hc, ha⟩, hak, b.name, han⟩, ?_⟩
                simp [han]

end Gx

namespace Gx
open GenValid

/-- the model a successful load returns is the model of the distinct atoms that passed the checks -/
theorem loadItemsP_model (items : List Item) (ld : Loaded) (h : loadItemsP items = .ok ld) :
    ∃ atoms A cs, coreLoad atoms = .ok (A, cs) ∧ ld.model = modelOfAtoms A := by
  unfold loadItemsP at h
  simp only [bind, Except.bind] at h
  cases h1 : items.mapM atomsOfItem with
  | error e => simp [h1] at h
  | ok atomLists =>
    simp only [h1] at h
    cases h2 : coreLoad atomLists.flatten with
    | error e => simp [h2] at h
    | ok r =>
      obtain ⟨A, cs⟩ := r
      simp only [h2, pure, Except.pure] at h
      injection h with h
      exact ⟨atomLists.flatten, A, cs, h2, by rw [← h]⟩

/-- executable side condition: the time symbol is not the name of a model quantity -/
def noTimeName (m : Model) : Bool :=
  disjointNames timeNames (m.stateNames ++ m.paramNames ++ m.assignNames)

/-- **Every model the loader returns is well formed** (unless it names a quantity `t` / `time`, which the
code generators refuse). -/
theorem loadStringP_wf (text : String) (ld : Loaded) (h : loadStringP text = .ok ld)
    (ht : noTimeName ld.model = true) : ModelWF ld.model := by
  unfold loadStringP at h
  cases hp : parseOde text with
  | error e => simp [hp] at h
  | ok items =>
    simp only [hp] at h
    obtain ⟨atoms, A, cs, hc, hm⟩ := loadItemsP_model items ld h
    rw [hm] at ht ⊢
    apply coreLoad_wf atoms A cs hc
    intro x hx
    simp only [noTimeName, disjointNames, List.all_eq_true, Bool.not_eq_true', List.contains_eq_mem,
      decide_eq_false_iff_not, List.mem_append, not_or] at ht
    exact ⟨(ht x hx).1.1, (ht x hx).1.2, (ht x hx).2⟩

/-- **From the text to the generated program, on the model side.** For every text the loader model
accepts whose quantities are not called `t` / `time` and whose definitions are acyclic: the `rhs`
program of the generator model exists, passes `checkRhs`, and on every input on which it runs
returns in slot `state_index X` the value the equational specification gives to `dX_dt` — for every
interpretation of the primitives, any nesting depth, dependency shape, component grouping or unused
definitions, with and without unused-variable removal. -/
theorem load_end_to_end {α} (N : Num α) (text : String) (ld : Loaded) (π : Impl.DepOrder) (ru : Bool)
    (rank : Name → Nat) (h : loadStringP text = .ok ld) (ht : noTimeName ld.model = true)
    (hr : Ranked ld.model rank)
    (hcover : ∀ a ∈ ld.model.assigns, ∀ y ∈ fv a.2, y ∈ π a.1 a.2)
    (hexact : ∀ a ∈ ld.model.assigns, ∀ y ∈ π a.1 a.2, y ∈ fv a.2) :
    ∃ L p, Impl.layout ld.model π = some L ∧ Impl.genRhs ld.model π ru = some p ∧ checkRhs ld.model L p = true ∧
      ∀ (inp : Inputs α) (t : α) (ρ : Env α) (s' : St α), Solution N ld.model L inp t ρ →
        exec N inp (initRhs t) p = some s' →
        ∀ i X, L.state[i]? = some X → ∃ d, ld.model.stateOfDeriv d = some X ∧ (ρ d).isSome ∧ s'.result i = ρ d :=
  EndToEnd.rhs_end_to_end N ld.model π ru rank (loadStringP_wf text ld h ht) hr hcover hexact

end Gx
