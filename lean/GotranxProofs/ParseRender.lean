import GotranxModel
/-!
# The parser inverts the minimal-parenthesis printer

`render l e` prints a parse tree at precedence level `l` of the ladder
`expression (0) > term (1) > factor (2) > atom (3)` with parentheses only where the ladder needs
them (`a - (b - c)`, `(a + b) * c`, `(-a) ** b`, `a ** -b`, `-a ** b = -(a ** b)`,
`a ** b ** c = a ** (b ** c)`).  Theorem `parse_render`: for every well-formed tree, at any nesting
depth, the recursive-descent parser of the model reads the printed tokens back as the same tree.
So the parser's precedence and associativity are exactly those of the printer, which is the
Python-style reading the documentation gives — and the harness generates its model texts with the
same printer (`sexp.render`), so "the text means the tree it was generated from" is a theorem on
the model side and a per-run comparison (lark tree vs model tree) on the implementation side.

Fuel: `Ev g r` says that `g F = some r` for every sufficiently large fuel `F`.
-/
namespace Gx
namespace ParseRender
open Printer

/-- `g F = some r` for all sufficiently large `F` -/
def Ev {β} (g : Nat → Option β) (r : β) : Prop := ∃ F0, ∀ F, F0 ≤ F → g F = some r

theorem Ev.of_succ {β} (g : Nat → Option β) (r : β) (h : Ev (fun F => g (F + 1)) r) : Ev g r := by
  obtain ⟨F0, h0⟩ := h
  refine ⟨F0 + 1, fun F hF => ?_⟩
  obtain ⟨k, rfl⟩ : ∃ k, F = k + 1 := ⟨F - 1, by omega⟩
  exact h0 k (by omega)

/-! ## one step of each parser function, for large fuel -/

theorem ev_pExpr (ts ts' : List Tok) (a : PExpr) (r : PExpr × List Tok)
    (h1 : Ev (fun F => pTerm F ts) (a, ts')) (h2 : Ev (fun F => eLoop F a ts') r) :
    Ev (fun F => pExpr F ts) r := by
  apply Ev.of_succ
  obtain ⟨F1, g1⟩ := h1
  obtain ⟨F2, g2⟩ := h2
  refine ⟨max F1 F2, fun F hF => ?_⟩
  simp only [pExpr, g1 F (by omega), g2 F (by omega)]

theorem ev_eLoop_stop (acc : PExpr) (ts : List Tok)
    (h : ∀ ts', ts ≠ .plus :: ts' ∧ ts ≠ .minus :: ts') : Ev (fun F => eLoop F acc ts) (acc, ts) := by
  refine ⟨1, fun F hF => ?_⟩
  obtain ⟨k, rfl⟩ : ∃ k, F = k + 1 := ⟨F - 1, by omega⟩
  cases ts with
  | nil => simp [eLoop]
  | cons t rest =>
    cases t <;> simp [eLoop] <;> first | exact absurd rfl (h rest).1 | exact absurd rfl (h rest).2

theorem ev_eLoop_plus (acc b : PExpr) (ts ts' : List Tok) (r : PExpr × List Tok)
    (h1 : Ev (fun F => pTerm F ts) (b, ts')) (h2 : Ev (fun F => eLoop F (.bin .add acc b) ts') r) :
    Ev (fun F => eLoop F acc (.plus :: ts)) r := by
  apply Ev.of_succ
  obtain ⟨F1, g1⟩ := h1
  obtain ⟨F2, g2⟩ := h2
  refine ⟨max F1 F2, fun F hF => ?_⟩
  simp only [eLoop, g1 F (by omega), g2 F (by omega)]

theorem ev_eLoop_minus (acc b : PExpr) (ts ts' : List Tok) (r : PExpr × List Tok)
    (h1 : Ev (fun F => pTerm F ts) (b, ts')) (h2 : Ev (fun F => eLoop F (.bin .sub acc b) ts') r) :
    Ev (fun F => eLoop F acc (.minus :: ts)) r := by
  apply Ev.of_succ
  obtain ⟨F1, g1⟩ := h1
  obtain ⟨F2, g2⟩ := h2
  refine ⟨max F1 F2, fun F hF => ?_⟩
  simp only [eLoop, g1 F (by omega), g2 F (by omega)]

theorem ev_pTerm (ts ts' : List Tok) (a : PExpr) (r : PExpr × List Tok)
    (h1 : Ev (fun F => pFactor F ts) (a, ts')) (h2 : Ev (fun F => tLoop F a ts') r) :
    Ev (fun F => pTerm F ts) r := by
  apply Ev.of_succ
  obtain ⟨F1, g1⟩ := h1
  obtain ⟨F2, g2⟩ := h2
  refine ⟨max F1 F2, fun F hF => ?_⟩
  simp only [pTerm, g1 F (by omega), g2 F (by omega)]

theorem ev_tLoop_stop (acc : PExpr) (ts : List Tok)
    (h : ∀ ts', ts ≠ .star :: ts' ∧ ts ≠ .slash :: ts') : Ev (fun F => tLoop F acc ts) (acc, ts) := by
  refine ⟨1, fun F hF => ?_⟩
  obtain ⟨k, rfl⟩ : ∃ k, F = k + 1 := ⟨F - 1, by omega⟩
  cases ts with
  | nil => simp [tLoop]
  | cons t rest =>
    cases t <;> simp [tLoop] <;> first | exact absurd rfl (h rest).1 | exact absurd rfl (h rest).2

theorem ev_tLoop_star (acc b : PExpr) (ts ts' : List Tok) (r : PExpr × List Tok)
    (h1 : Ev (fun F => pFactor F ts) (b, ts')) (h2 : Ev (fun F => tLoop F (.bin .mul acc b) ts') r) :
    Ev (fun F => tLoop F acc (.star :: ts)) r := by
  apply Ev.of_succ
  obtain ⟨F1, g1⟩ := h1
  obtain ⟨F2, g2⟩ := h2
  refine ⟨max F1 F2, fun F hF => ?_⟩
  simp only [tLoop, g1 F (by omega), g2 F (by omega)]

theorem ev_tLoop_slash (acc b : PExpr) (ts ts' : List Tok) (r : PExpr × List Tok)
    (h1 : Ev (fun F => pFactor F ts) (b, ts')) (h2 : Ev (fun F => tLoop F (.bin .div acc b) ts') r) :
    Ev (fun F => tLoop F acc (.slash :: ts)) r := by
  apply Ev.of_succ
  obtain ⟨F1, g1⟩ := h1
  obtain ⟨F2, g2⟩ := h2
  refine ⟨max F1 F2, fun F hF => ?_⟩
  simp only [tLoop, g1 F (by omega), g2 F (by omega)]

theorem ev_pFactor_un (op : UnOp) (a : PExpr) (ts ts' : List Tok)
    (h : Ev (fun F => pFactor F ts) (a, ts')) :
    Ev (fun F => pFactor F ((match op with | .neg => Tok.minus | .pos => .plus | .inv => .tilde) :: ts)) (.un op a, ts') := by
  apply Ev.of_succ
  obtain ⟨F1, g1⟩ := h
  refine ⟨F1, fun F hF => ?_⟩
  cases op <;> simp only [pFactor, g1 F hF]

/-- the first token of an atom is not a unary operator -/
def atomStart : List Tok → Prop
  | .num _ _ :: _ => True
  | .ident _ :: _ => True
  | .lp :: _ => True
  | _ => False

theorem ev_pFactor_atom (a : PExpr) (ts ts' : List Tok) (hs : atomStart ts)
    (h : Ev (fun F => pAtom F ts) (a, ts')) (hp : ∀ r, ts' ≠ .pow :: r) :
    Ev (fun F => pFactor F ts) (a, ts') := by
  apply Ev.of_succ
  obtain ⟨F1, g1⟩ := h
  refine ⟨F1, fun F hF => ?_⟩
  cases ts with
  | nil => simp [atomStart] at hs
  | cons t rest =>
    cases t <;> simp [atomStart] at hs <;> simp only [pFactor, g1 F hF] <;>
      (cases ts' with
       | nil => rfl
       | cons t' r' => cases t' <;> first | rfl | exact absurd rfl (hp r'))

theorem ev_pFactor_pow (a b : PExpr) (ts ts' ts'' : List Tok) (hs : atomStart ts)
    (h1 : Ev (fun F => pAtom F ts) (a, .pow :: ts')) (h2 : Ev (fun F => pFactor F ts') (b, ts'')) :
    Ev (fun F => pFactor F ts) (.bin .pow a b, ts'') := by
  apply Ev.of_succ
  obtain ⟨F1, g1⟩ := h1
  obtain ⟨F2, g2⟩ := h2
  refine ⟨max F1 F2, fun F hF => ?_⟩
  cases ts with
  | nil => simp [atomStart] at hs
  | cons t rest =>
    cases t <;> simp [atomStart] at hs <;> simp only [pFactor, g1 F (by omega), g2 F (by omega)]

theorem ev_pAtom_num (m : Nat) (e : Int) (ts : List Tok) :
    Ev (fun F => pAtom F (.num m e :: ts)) (.num m e, ts) :=
  ⟨1, fun F hF => by obtain ⟨k, rfl⟩ : ∃ k, F = k + 1 := ⟨F - 1, by omega⟩; simp [pAtom]⟩

theorem ev_pAtom_pi (ts : List Tok) : Ev (fun F => pAtom F (.ident "pi" :: ts)) (.pi, ts) :=
  ⟨1, fun F hF => by obtain ⟨k, rfl⟩ : ∃ k, F = k + 1 := ⟨F - 1, by omega⟩; simp [pAtom]⟩

theorem ev_pAtom_var (s : String) (ts : List Tok) (h1 : s ≠ "pi") (h2 : funcNames.contains s = false)
    (h3 : logicalNames.contains s = false) : Ev (fun F => pAtom F (.ident s :: ts)) (.var s, ts) :=
  ⟨1, fun F hF => by
    obtain ⟨k, rfl⟩ : ∃ k, F = k + 1 := ⟨F - 1, by omega⟩
    have : (s == "pi") = false := by simpa using h1
    simp only [pAtom, this, h2, h3, Bool.false_eq_true, if_false]⟩

theorem ev_pAtom_paren (a : PExpr) (ts ts' : List Tok) (h : Ev (fun F => pExpr F ts) (a, .rp :: ts')) :
    Ev (fun F => pAtom F (.lp :: ts)) (a, ts') := by
  apply Ev.of_succ
  obtain ⟨F1, g1⟩ := h
  exact ⟨F1, fun F hF => by simp only [pAtom, g1 F hF]⟩

theorem ev_pAtom_call (s : String) (args : List PExpr) (ts ts' : List Tok) (h1 : s ≠ "pi")
    (h2 : funcNames.contains s = true ∨ logicalNames.contains s = true)
    (h : Ev (fun F => pArgs F ts) (args, .rp :: ts')) :
    Ev (fun F => pAtom F (.ident s :: .lp :: ts)) (.call s args, ts') := by
  apply Ev.of_succ
  obtain ⟨F1, g1⟩ := h
  refine ⟨F1, fun F hF => ?_⟩
  have hpi : (s == "pi") = false := by simpa using h1
  by_cases hf : funcNames.contains s = true
  · simp only [pAtom, hpi, hf, Bool.false_eq_true, if_false, if_true, g1 F hF, skipCommas]
  · have hf' : funcNames.contains s = false := by simpa using hf
    have hl : logicalNames.contains s = true := by
      rcases h2 with h | h
      · exact absurd h hf
      · exact h
    simp only [pAtom, hpi, hf', hl, Bool.false_eq_true, if_false, if_true, g1 F hF, skipCommas]

theorem ev_pArgs_last (a : PExpr) (ts ts' : List Tok) (h : Ev (fun F => pExpr F ts) (a, ts'))
    (hc : ∀ r, ts' ≠ .comma :: r) : Ev (fun F => pArgs F ts) ([a], ts') := by
  apply Ev.of_succ
  obtain ⟨F1, g1⟩ := h
  refine ⟨F1, fun F hF => ?_⟩
  cases ts' with
  | nil => simp only [pArgs, g1 F hF]
  | cons t r =>
    cases t <;> first | exact absurd rfl (hc r) | simp only [pArgs, g1 F hF]

theorem ev_pArgs_cons (a : PExpr) (as : List PExpr) (ts ts' ts'' : List Tok)
    (h1 : Ev (fun F => pExpr F ts) (a, .comma :: ts')) (h2 : Ev (fun F => pArgs F ts') (as, ts'')) :
    Ev (fun F => pArgs F ts) (a :: as, ts'') := by
  apply Ev.of_succ
  obtain ⟨F1, g1⟩ := h1
  obtain ⟨F2, g2⟩ := h2
  refine ⟨max F1 F2, fun F hF => ?_⟩
  simp only [pArgs, g1 F (by omega), g2 F (by omega)]

mutual
def psize : PExpr → Nat
  | .num _ _ | .var _ | .pi => 1
  | .un _ a => psize a + 1
  | .bin _ a b => psize a + psize b + 1
  | .call _ args => psizeList args + 1
def psizeList : List PExpr → Nat
  | [] => 0
  | a :: rest => psize a + psizeList rest + 1
end

theorem render_le (l : Nat) (e : PExpr) (h : l ≤ prec e) : render l e = toks e := by
  unfold render; simp [h]

theorem render_gt (l : Nat) (e : PExpr) (h : prec e < l) : render l e = .lp :: toks e ++ [.rp] := by
  unfold render; simp [Nat.not_le.mpr h]

theorem prec_le_three (e : PExpr) : prec e ≤ 3 := by
  cases e with
  | bin op a b => cases op <;> simp [prec]
  | _ => simp [prec]

theorem atomStart_render3 (e : PExpr) (ts : List Tok) : atomStart (render 3 e ++ ts) := by
  by_cases h : 3 ≤ prec e
  · rw [render_le 3 e h]
    cases e with
    | num m x => simp [toks, atomStart]
    | var x => simp [toks, atomStart]
    | pi => simp [toks, atomStart]
    | call f args => simp [toks, atomStart]
    | un op a => simp [prec] at h
    | bin op a b => cases op <;> simp [prec] at h
  · rw [render_gt 3 e (by omega)]; simp [atomStart]

/-- what the four levels of the parser do with the printed form of `e` -/
def A3 (e : PExpr) : Prop := ∀ ts, Ev (fun F => pAtom F (render 3 e ++ ts)) (e, ts)
def A2 (e : PExpr) : Prop := ∀ ts, (∀ r, ts ≠ .pow :: r) → Ev (fun F => pFactor F (render 2 e ++ ts)) (e, ts)
def A1 (e : PExpr) : Prop := ∀ ts, (∀ r, ts ≠ .pow :: r) → ∀ r, Ev (fun F => tLoop F e ts) r →
  Ev (fun F => pTerm F (render 1 e ++ ts)) r
def A0 (e : PExpr) : Prop := ∀ ts, (∀ r, ts ≠ .pow :: r ∧ ts ≠ .star :: r ∧ ts ≠ .slash :: r) →
  ∀ r, Ev (fun F => eLoop F e ts) r → Ev (fun F => pExpr F (render 0 e ++ ts)) r

/-- an atom is a factor (when no `**` follows) -/
theorem A2_of_A3 (e : PExpr) (h : render 2 e = render 3 e) (h3 : A3 e) : A2 e := by
  intro ts hts
  rw [h]
  exact ev_pFactor_atom e _ ts (atomStart_render3 e ts) (h3 ts) hts

/-- a factor is a term -/
theorem A1_of_A2 (e : PExpr) (h : render 1 e = render 2 e) (h2 : A2 e) : A1 e := by
  intro ts hts r hr
  rw [h]
  exact ev_pTerm _ ts e r (h2 ts hts) hr

/-- a term is an expression -/
theorem A0_of_A1 (e : PExpr) (h : render 0 e = render 1 e) (h1 : A1 e) : A0 e := by
  intro ts hts r hr
  rw [h]
  refine ev_pExpr _ ts e r ?_ hr
  exact h1 ts (fun r => (hts r).1) (e, ts) (ev_tLoop_stop e ts (fun r => ⟨(hts r).2.1, (hts r).2.2⟩))

/-- a parenthesised expression is an atom -/
theorem A3_of_A0 (e : PExpr) (h : prec e < 3) (h0 : A0 e) : A3 e := by
  intro ts
  rw [render_gt 3 e h]
  have hr0 : render 0 e = toks e := render_le 0 e (Nat.zero_le _)
  have : (Tok.lp :: toks e ++ [Tok.rp]) ++ ts = .lp :: (render 0 e ++ .rp :: ts) := by simp [hr0]
  rw [this]
  apply ev_pAtom_paren
  apply h0 (.rp :: ts) (fun r => by simp) (e, .rp :: ts)
  exact ev_eLoop_stop e _ (fun r => by simp)

theorem WFList_mem (args : List PExpr) (h : WFList args = true) : ∀ a ∈ args, WF a = true := by
  induction args with
  | nil => intro a ha; simp at ha
  | cons x rest ih =>
    simp only [WFList, Bool.and_eq_true] at h
    intro a ha
    simp only [List.mem_cons] at ha
    rcases ha with rfl | ha
    · exact h.1
    · exact ih h.2 a ha

/-- the argument list of a call -/
theorem args_ok : ∀ (args : List PExpr), args ≠ [] → (∀ a ∈ args, A0 a) → ∀ ts,
    Ev (fun F => pArgs F (renderArgs args ++ .rp :: ts)) (args, .rp :: ts) := by
  intro args
  induction args with
  | nil => intro h; exact absurd rfl h
  | cons a rest ih =>
    intro _ hall ts
    have ha := hall a (by simp)
    cases rest with
    | nil =>
      simp only [renderArgs]
      apply ev_pArgs_last a _ (.rp :: ts) _ (fun r => by simp)
      exact ha (.rp :: ts) (fun r => by simp) (a, .rp :: ts) (ev_eLoop_stop a _ (fun r => by simp))
    | cons b rest' =>
      simp only [renderArgs, List.append_assoc, List.cons_append]
      apply ev_pArgs_cons a (b :: rest') _ (renderArgs (b :: rest') ++ .rp :: ts) (.rp :: ts)
      · exact ha _ (fun r => by simp) (a, _) (ev_eLoop_stop a _ (fun r => by simp))
      · exact ih (by simp) (fun x hx => hall x (by simp [hx])) ts

theorem psize_mem (args : List PExpr) : ∀ a ∈ args, psize a < psizeList args + 1 := by
  induction args with
  | nil => intro a ha; simp at ha
  | cons x rest ih =>
    intro a ha
    simp only [List.mem_cons] at ha
    simp only [psizeList]
    rcases ha with rfl | ha
    · omega
    · have := ih a ha; omega

/-- **Main lemma**, by induction on the size of the tree. -/
theorem all_levels : ∀ n, ∀ e, psize e ≤ n → WF e = true → A0 e ∧ A1 e ∧ A2 e ∧ A3 e := by
  intro n
  induction n with
  | zero =>
    intro e he
    cases e <;> simp [psize] at he
  | succ n ih =>
    intro e he hwf
    -- from an atom upwards
    have up3 : prec e = 3 → A3 e → A0 e ∧ A1 e ∧ A2 e ∧ A3 e := by
      intro hp h3
      have r2 : render 2 e = render 3 e := by rw [render_le 2 e (by omega), render_le 3 e (by omega)]
      have r1 : render 1 e = render 2 e := by rw [render_le 1 e (by omega), render_le 2 e (by omega)]
      have r0 : render 0 e = render 1 e := by rw [render_le 0 e (by omega), render_le 1 e (by omega)]
      have h2 := A2_of_A3 e r2 h3
      have h1 := A1_of_A2 e r1 h2
      exact ⟨A0_of_A1 e r0 h1, h1, h2, h3⟩
    -- from a factor upwards (and round through the parentheses)
    have up2 : prec e = 2 → A2 e → A0 e ∧ A1 e ∧ A2 e ∧ A3 e := by
      intro hp h2
      have r1 : render 1 e = render 2 e := by rw [render_le 1 e (by omega), render_le 2 e (by omega)]
      have r0 : render 0 e = render 1 e := by rw [render_le 0 e (by omega), render_le 1 e (by omega)]
      have h1 := A1_of_A2 e r1 h2
      have h0 := A0_of_A1 e r0 h1
      exact ⟨h0, h1, h2, A3_of_A0 e (by omega) h0⟩
    have up1 : prec e = 1 → A1 e → A0 e ∧ A1 e ∧ A2 e ∧ A3 e := by
      intro hp h1
      have r0 : render 0 e = render 1 e := by rw [render_le 0 e (by omega), render_le 1 e (by omega)]
      have h0 := A0_of_A1 e r0 h1
      have h3 := A3_of_A0 e (by omega) h0
      have r2 : render 2 e = render 3 e := by rw [render_gt 2 e (by omega), render_gt 3 e (by omega)]
      exact ⟨h0, h1, A2_of_A3 e r2 h3, h3⟩
    have up0 : prec e = 0 → A0 e → A0 e ∧ A1 e ∧ A2 e ∧ A3 e := by
      intro hp h0
      have h3 := A3_of_A0 e (by omega) h0
      have r2 : render 2 e = render 3 e := by rw [render_gt 2 e (by omega), render_gt 3 e (by omega)]
      have r1 : render 1 e = render 2 e := by rw [render_gt 1 e (by omega), render_gt 2 e (by omega)]
      have h2 := A2_of_A3 e r2 h3
      exact ⟨h0, A1_of_A2 e r1 h2, h2, h3⟩
    cases e with
    | num m x =>
      apply up3 rfl
      intro ts
      rw [render_le 3 _ (by simp [prec])]
      simpa [toks] using ev_pAtom_num m x ts
    | pi =>
      apply up3 rfl
      intro ts
      rw [render_le 3 _ (by simp [prec])]
      simpa [toks] using ev_pAtom_pi ts
    | var x =>
      apply up3 rfl
      intro ts
      rw [render_le 3 _ (by simp [prec])]
      simp only [WF, Bool.and_eq_true, bne_iff_ne, ne_eq, Bool.not_eq_true'] at hwf
      simpa [toks] using ev_pAtom_var x ts hwf.1.1 hwf.1.2 hwf.2
    | call f args =>
      apply up3 rfl
      intro ts
      rw [render_le 3 _ (by simp [prec])]
      simp only [WF, Bool.and_eq_true, bne_iff_ne, ne_eq, Bool.or_eq_true, Bool.not_eq_true', List.isEmpty_eq_false_iff] at hwf
      obtain ⟨⟨⟨hpi, hfn⟩, hne⟩, hl⟩ := hwf
      have hargs : ∀ a ∈ args, A0 a := by
        intro a ha
        have hs : psize a ≤ n := by
          have := psize_mem args a ha
          simp only [psize] at he; omega
        exact (ih a hs (WFList_mem args hl a ha)).1
      have : toks (.call f args) ++ ts = .ident f :: .lp :: (renderArgs args ++ .rp :: ts) := by simp [toks]
      rw [this]
      exact ev_pAtom_call f args _ ts hpi hfn (args_ok args hne hargs ts)
    | un op a =>
      simp only [psize] at he
      simp only [WF] at hwf
      obtain ⟨_, _, ha2, _⟩ := ih a (by omega) hwf
      apply up2 rfl
      intro ts hts
      rw [render_le 2 _ (by simp [prec])]
      have := ev_pFactor_un op a (render 2 a ++ ts) ts (ha2 ts hts)
      cases op <;> simpa [toks, unTok] using this
    | bin op a b =>
      simp only [psize] at he
      simp only [WF, Bool.and_eq_true] at hwf
      obtain ⟨ha0, ha1, ha2, ha3⟩ := ih a (by omega) hwf.1
      obtain ⟨hb0, hb1, hb2, hb3⟩ := ih b (by omega) hwf.2
      cases op with
      | pow =>
        apply up2 rfl
        intro ts hts
        rw [render_le 2 _ (by simp [prec])]
        have : toks (.bin .pow a b) ++ ts = render 3 a ++ (.pow :: (render 2 b ++ ts)) := by simp [toks]
        rw [this]
        exact ev_pFactor_pow a b _ (render 2 b ++ ts) ts (atomStart_render3 a _) (ha3 _) (hb2 ts hts)
      | mul =>
        apply up1 rfl
        intro ts hts r hr
        rw [render_le 1 _ (by simp [prec])]
        have : toks (.bin .mul a b) ++ ts = render 1 a ++ (.star :: (render 2 b ++ ts)) := by simp [toks]
        rw [this]
        exact ha1 _ (fun r => by simp) r (ev_tLoop_star a b _ ts r (hb2 ts hts) hr)
      | div =>
        apply up1 rfl
        intro ts hts r hr
        rw [render_le 1 _ (by simp [prec])]
        have : toks (.bin .div a b) ++ ts = render 1 a ++ (.slash :: (render 2 b ++ ts)) := by simp [toks]
        rw [this]
        exact ha1 _ (fun r => by simp) r (ev_tLoop_slash a b _ ts r (hb2 ts hts) hr)
      | add =>
        apply up0 rfl
        intro ts hts r hr
        rw [render_le 0 _ (by simp [prec])]
        have : toks (.bin .add a b) ++ ts = render 0 a ++ (.plus :: (render 1 b ++ ts)) := by simp [toks]
        rw [this]
        refine ha0 _ (fun r => by simp) r (ev_eLoop_plus a b _ ts r ?_ hr)
        exact hb1 ts (fun r => (hts r).1) (b, ts) (ev_tLoop_stop b ts (fun r => ⟨(hts r).2.1, (hts r).2.2⟩))
      | sub =>
        apply up0 rfl
        intro ts hts r hr
        rw [render_le 0 _ (by simp [prec])]
        have : toks (.bin .sub a b) ++ ts = render 0 a ++ (.minus :: (render 1 b ++ ts)) := by simp [toks]
        rw [this]
        refine ha0 _ (fun r => by simp) r (ev_eLoop_minus a b _ ts r ?_ hr)
        exact hb1 ts (fun r => (hts r).1) (b, ts) (ev_tLoop_stop b ts (fun r => ⟨(hts r).2.1, (hts r).2.2⟩))

/-- **The parser inverts the printer.** For every well-formed tree, at any nesting depth, and any
continuation that does not start with a binary operator: with enough fuel the parser reads the
printed tokens back as the same tree and leaves the continuation. -/
theorem parse_render (e : PExpr) (hwf : WF e = true) (rest : List Tok)
    (hrest : ∀ r, rest ≠ .pow :: r ∧ rest ≠ .star :: r ∧ rest ≠ .slash :: r ∧ rest ≠ .plus :: r ∧ rest ≠ .minus :: r) :
    ∃ F0, ∀ F, F0 ≤ F → pExpr F (render 0 e ++ rest) = some (e, rest) := by
  have h0 := (all_levels (psize e) e (Nat.le_refl _) hwf).1
  exact h0 rest (fun r => ⟨(hrest r).1, (hrest r).2.1, (hrest r).2.2.1⟩) (e, rest)
    (ev_eLoop_stop e rest (fun r => ⟨(hrest r).2.2.2.1, (hrest r).2.2.2.2⟩))

/-! ## from reference expressions to text and back

`unresolve e` is a parse tree for the reference expression `e`; `resolve` (the model of
`build_expression`) turns it back into `e`.  With `parse_render`: every expression of the source
language has a text (`render 0 (unresolve e)`) that the parser and `resolve` read as exactly `e`. -/

def relName : Rel → String
  | .lt => "Lt" | .gt => "Gt" | .le => "Le" | .ge => "Ge" | .eq => "Eq" | .ne => "Ne"

def fnName : Fn → String
  | .exp => "exp" | .cos => "cos" | .sin => "sin" | .tan => "tan" | .acos => "acos" | .asin => "asin"
  | .atan => "atan" | .abs => "abs" | .floor => "floor" | .log => "log" | .sqrt => "sqrt" | .sign => "sign"

def unresolve : Expr → PExpr
  | .num m e => .num m e
  | .var x => .var x
  | .pi => .pi
  | .neg a => .un .neg (unresolve a)
  | .add a b => .bin .add (unresolve a) (unresolve b)
  | .sub a b => .bin .sub (unresolve a) (unresolve b)
  | .mul a b => .bin .mul (unresolve a) (unresolve b)
  | .div a b => .bin .div (unresolve a) (unresolve b)
  | .pow a b => .bin .pow (unresolve a) (unresolve b)
  | .fn f a => .call (fnName f) [unresolve a]
  | .mod a b => .call "Mod" [unresolve a, unresolve b]
  | .rel r a b => .call (relName r) [unresolve a, unresolve b]
  | .not a => .call "Not" [unresolve a]
  | .and a b => .call "And" [unresolve a, unresolve b]
  | .or a b => .call "Or" [unresolve a, unresolve b]
  | .cond c a b => .call "Conditional" [unresolve c, unresolve a, unresolve b]
  | .ccond r x y a b s => .call "ContinuousConditional"
      [.call (relName r) [unresolve x, unresolve y], unresolve a, unresolve b, unresolve s]

/-- expressions the source language can write: no `sign` (a printer-only function), no `Ne`, conditions
of `Conditional` are relations / connectives, variable names are not keywords -/
def Src : Expr → Bool
  | .num _ _ | .pi => true
  | .var x => x != "pi" && !funcNames.contains x && !logicalNames.contains x
  | .neg a | .not a => Src a
  | .add a b | .sub a b | .mul a b | .div a b | .pow a b | .mod a b | .and a b | .or a b => Src a && Src b
  | .fn f a => f != .sign && Src a
  | .rel r a b => r != .ne && Src a && Src b
  | .cond c a b => isBoolExpr c && Src c && Src a && Src b
  | .ccond r x y a b s => r != .ne && Src x && Src y && Src a && Src b && Src s

theorem resolve_unresolve (e : Expr) (h : Src e = true) : resolve (unresolve e) = .ok e := by
  induction e with
  | num m x => simp [unresolve, resolve]
  | var x => simp [unresolve, resolve]
  | pi => simp [unresolve, resolve]
  | neg a ih => simp only [Src] at h; simp [unresolve, resolve, ih h, bind, Except.bind, pure, Except.pure]
  | add a b iha ihb | sub a b iha ihb | mul a b iha ihb | div a b iha ihb | pow a b iha ihb =>
    simp only [Src, Bool.and_eq_true] at h
    simp [unresolve, resolve, iha h.1, ihb h.2, bind, Except.bind, pure, Except.pure]
  | fn f a ih =>
    simp only [Src, Bool.and_eq_true, bne_iff_ne, ne_eq] at h
    cases f <;> first
      | exact absurd rfl h.1
      | simp [unresolve, resolve, resolveList, fnName, fnOfName, ih h.2, bind, Except.bind, pure, Except.pure]
  | mod a b iha ihb =>
    simp only [Src, Bool.and_eq_true] at h
    simp [unresolve, resolve, resolveList, fnOfName, relOfName, iha h.1, ihb h.2, bind, Except.bind, pure, Except.pure]
  | rel r a b iha ihb =>
    simp only [Src, Bool.and_eq_true, bne_iff_ne, ne_eq] at h
    cases r <;> first
      | exact absurd rfl h.1.1
      | simp [unresolve, resolve, resolveList, relName, fnOfName, relOfName, iha h.1.2, ihb h.2, bind, Except.bind, pure, Except.pure]
  | not a ih =>
    simp only [Src] at h
    simp [unresolve, resolve, resolveList, fnOfName, relOfName, ih h, bind, Except.bind, pure, Except.pure]
  | and a b iha ihb =>
    simp only [Src, Bool.and_eq_true] at h
    simp [unresolve, resolve, resolveList, fnOfName, relOfName, foldConn, iha h.1, ihb h.2, bind, Except.bind, pure, Except.pure]
  | or a b iha ihb =>
    simp only [Src, Bool.and_eq_true] at h
    simp [unresolve, resolve, resolveList, fnOfName, relOfName, foldConn, iha h.1, ihb h.2, bind, Except.bind, pure, Except.pure]
  | cond c a b ihc iha ihb =>
    simp only [Src, Bool.and_eq_true] at h
    simp [unresolve, resolve, resolveList, fnOfName, relOfName, ihc h.1.1.2, iha h.1.2, ihb h.2, h.1.1.1, bind, Except.bind, pure, Except.pure]
  | ccond r x y a b s ihx ihy iha ihb ihs =>
    simp only [Src, Bool.and_eq_true, bne_iff_ne, ne_eq] at h
    obtain ⟨⟨⟨⟨⟨hr, hx⟩, hy⟩, ha⟩, hb⟩, hs⟩ := h
    cases r <;> first
      | exact absurd rfl hr
      | simp [unresolve, resolve, relName, relOfName, ihx hx, ihy hy, iha ha, ihb hb, ihs hs, bind, Except.bind, pure, Except.pure]

/-- the parse tree of a source expression is well formed for the printer -/
theorem WF_unresolve (e : Expr) (h : Src e = true) : WF (unresolve e) = true := by
  induction e with
  | num m x => rfl
  | var x => simpa [unresolve, WF, Src] using h
  | pi => rfl
  | neg a ih => simp only [Src] at h; simp [unresolve, WF, ih h]
  | add a b iha ihb | sub a b iha ihb | mul a b iha ihb | div a b iha ihb | pow a b iha ihb =>
    simp only [Src, Bool.and_eq_true] at h
    simp [unresolve, WF, iha h.1, ihb h.2]
  | fn f a ih =>
    simp only [Src, Bool.and_eq_true, bne_iff_ne, ne_eq] at h
    cases f <;> first
      | exact absurd rfl h.1
      | simp [unresolve, WF, WFList, fnName, funcNames, ih h.2]
  | mod a b iha ihb =>
    simp only [Src, Bool.and_eq_true] at h
    simp [unresolve, WF, WFList, funcNames, iha h.1, ihb h.2]
  | rel r a b iha ihb =>
    simp only [Src, Bool.and_eq_true, bne_iff_ne, ne_eq] at h
    cases r <;> first
      | exact absurd rfl h.1.1
      | simp [unresolve, WF, WFList, relName, funcNames, logicalNames, iha h.1.2, ihb h.2]
  | not a ih =>
    simp only [Src] at h
    simp [unresolve, WF, WFList, funcNames, logicalNames, ih h]
  | and a b iha ihb | or a b iha ihb =>
    simp only [Src, Bool.and_eq_true] at h
    simp [unresolve, WF, WFList, funcNames, logicalNames, iha h.1, ihb h.2]
  | cond c a b ihc iha ihb =>
    simp only [Src, Bool.and_eq_true] at h
    simp [unresolve, WF, WFList, funcNames, logicalNames, ihc h.1.1.2, iha h.1.2, ihb h.2]
  | ccond r x y a b s ihx ihy iha ihb ihs =>
    simp only [Src, Bool.and_eq_true, bne_iff_ne, ne_eq] at h
    obtain ⟨⟨⟨⟨⟨hr, hx⟩, hy⟩, ha⟩, hb⟩, hs⟩ := h
    cases r <;> first
      | exact absurd rfl hr
      | simp [unresolve, WF, WFList, relName, funcNames, logicalNames, ihx hx, ihy hy, iha ha, ihb hb, ihs hs]

/-- **Text ↦ expression.** Every expression of the source language is the meaning of a text: the
tokens `render 0 (unresolve e)` parse (with enough fuel, at any nesting depth) to a tree that
`resolve` turns into exactly `e`. -/
theorem text_denotes (e : Expr) (h : Src e = true) :
    ∃ F0, ∀ F, F0 ≤ F → (pExpr F (render 0 (unresolve e))).map (fun r => (resolve r.1, r.2)) = some (.ok e, []) := by
  obtain ⟨F0, hF⟩ := parse_render (unresolve e) (WF_unresolve e h) [] (fun r => by simp)
  refine ⟨F0, fun F hle => ?_⟩
  have := hF F hle
  simp only [List.append_nil] at this
  rw [this]
  simp [resolve_unresolve e h]

/-! the precedence ladder, on concrete trees (tests of `render`, not the unbounded claim) -/
example : render 0 (.bin .sub (.var "a") (.bin .sub (.var "b") (.var "c"))) =
    [.ident "a", .minus, .lp, .ident "b", .minus, .ident "c", .rp] := by simp [render, toks, prec, unTok]
example : render 0 (.bin .sub (.bin .sub (.var "a") (.var "b")) (.var "c")) =
    [.ident "a", .minus, .ident "b", .minus, .ident "c"] := by simp [render, toks, prec, unTok]
example : render 0 (.un .neg (.bin .pow (.var "x") (.num 2 0))) = [.minus, .ident "x", .pow, .num 2 0] := by simp [render, toks, prec, unTok]
example : render 0 (.bin .pow (.un .neg (.var "x")) (.num 2 0)) = [.lp, .minus, .ident "x", .rp, .pow, .num 2 0] := by simp [render, toks, prec, unTok]
example : render 0 (.bin .pow (.var "a") (.bin .pow (.var "b") (.var "c"))) =
    [.ident "a", .pow, .ident "b", .pow, .ident "c"] := by simp [render, toks, prec, unTok]
example : render 0 (.bin .pow (.num 2 0) (.un .neg (.var "x"))) = [.num 2 0, .pow, .minus, .ident "x"] := by simp [render, toks, prec, unTok]
example : render 0 (.bin .mul (.bin .add (.var "a") (.var "b")) (.var "c")) =
    [.lp, .ident "a", .plus, .ident "b", .rp, .star, .ident "c"] := by simp [render, toks, prec, unTok]

end ParseRender
end Gx
