import GotranxModel.Generated.Params
import GotranxModel.Syntax
/-!
# Obligations over the parameters extracted from /repo's source (`Generated/Params.lean`)

Every theorem here is re-checked by `lake build` on every run of a check, against what the
source says *now*.  A source change that alters one of the extracted items either leaves these
true or breaks the build of this file (a broken proof obligation).
-/
namespace Gx.Pins
open Gx.Generated

/-- The precedence ladder of `ode.lark` is the one `Gx.pExpr … pAtom` implement. -/
theorem grammar_ladder :
    (grammarRules.filter fun r => ["expression", "term", "factor", "_unary_op", "_add_op", "_mul_op", "power",
        "signedatom", "atom", "func", "logicalfunc"].contains r.1) =
    [("expression", "term (_add_op term)*"),
     ("term", "factor (_mul_op factor)*"),
     ("factor", "_unary_op factor | power"),
     ("_unary_op", "\"+\"|\"-\"|\"~\""),
     ("_add_op", "\"+\"|\"-\""),
     ("_mul_op", "\"*\"|\"/\""),
     ("power", "signedatom (\"**\" factor)?"),
     ("signedatom", "SIGN signedatom | func | logicalfunc | atom"),
     ("atom", "scientific | variable | constant | \"(\" expression \")\""),
     ("func", "funcname \"(\" expression (\",\" expression)* (\",\")* \")\""),
     ("logicalfunc", "logicalfuncname \"(\" expression (\",\" expression)* (\",\")? \")\"")] := by
  decide +kernel

/-- Block structure of `ode.lark` as modelled by `Gx.pItems`. -/
theorem grammar_blocks :
    (grammarRules.filter fun r => ["ode", "parameter", "assignment", "comment", "parameters", "states", "expressions"].contains r.1) =
    [("ode", "(parameters | states | expressions | comment | NEWLINE) *"),
     ("parameter", "NAME \"=\" expression -> param | NAME \"=\" \"ScalarParam\" \"(\" expression [\",\" \"unit\" \"=\" UNIT_STR] [\",\" \"description\" \"=\" DESCRIPTION] \")\" -> scalarparam"),
     ("assignment", "VARIABLE \"=\" expression [ comment ] [ NEWLINE ]"),
     ("comment", "(\"#\" /.+/)+"),
     ("parameters", "\"parameters\" \"(\" (COMPONENT_NAME \",\")* parameter (\",\" parameter)* [ NEWLINE ] \")\""),
     ("states", "\"states\" \"(\" (COMPONENT_NAME \",\")* parameter (\",\" parameter)* [ NEWLINE ] \")\""),
     ("expressions", "(assignment)+ | \"expressions\" \"(\" COMPONENT_NAME (\",\" COMPONENT_NAME)* \")\" (assignment)+ | \"component\" \"(\" COMPONENT_NAME (\",\" COMPONENT_NAME)* \")\" (assignment)+")] := by
  decide +kernel

theorem grammar_no_extra_rules : grammarExtraRules = [] := by decide +kernel

theorem grammar_ignore : grammarIgnore = ["WS", "WS_INLINE"] := by decide +kernel

/-- the function / connective names the grammar accepts are the ones the parser model knows -/
theorem grammar_names :
    (grammarRules.filter fun r => ["funcname", "logicalfuncname"].contains r.1) =
    [("funcname", "COS | TAN | SIN | ACOS | ATAN | ASIN | LOG | LN | SQRT | EXP | ABS | ABSL | FLOOR | MOD"),
     ("logicalfuncname", "CONTINUOUSCONDITIONAL | CONDITIONAL | LT | GT | LE | GE | AND | OR | EQ | NOT")] := by
  decide +kernel

/-- keyword terminals spell the names `funcNames`/`logicalNames` use -/
theorem grammar_keywords :
    (["COS", "TAN", "SIN", "ACOS", "ATAN", "ASIN", "LOG", "LN", "SQRT", "EXP", "ABS", "ABSL", "FLOOR", "MOD"].map
      fun t => (grammarTerminals.lookup t)) = funcNames.map (fun n => some ("\"" ++ n ++ "\"")) ∧
    (["CONTINUOUSCONDITIONAL", "CONDITIONAL", "LT", "GT", "LE", "GE", "AND", "OR", "EQ", "NOT"].map
      fun t => (grammarTerminals.lookup t)) = logicalNames.map (fun n => some ("\"" ++ n ++ "\"")) := by
  decide +kernel

/-- Every accepted scheme name maps to the generator the property expects (C05, C06, C07). -/
theorem scheme_aliases :
    schemeAliases =
    [("forward_euler", "explicit_euler"), ("forward_explicit_euler", "explicit_euler"), ("euler", "explicit_euler"),
     ("explicit_euler", "explicit_euler"),
     ("forward_generalized_rush_larsen", "generalized_rush_larsen"), ("generalized_rush_larsen", "generalized_rush_larsen"),
     ("forward_rush_larsen", "hybrid_rush_larsen"), ("rush_larsen", "hybrid_rush_larsen"),
     ("hybrid_rush_larsen", "hybrid_rush_larsen")] := by decide +kernel

/-- every member of the `Scheme` enum is an accepted alias -/
theorem scheme_members_accepted :
    schemeMembers.all (fun m => schemeAliases.any (fun a => a.1 == m.2)) = true := by decide +kernel

theorem default_delta : defaultDelta = [("generalized_rush_larsen", "1e-08"), ("hybrid_rush_larsen", "1e-08")] := by decide +kernel

/-- C06: neither Rush–Larsen generator consults the "certainly non-zero" shortcut that would
drop the `|g| > delta` guard. -/
theorem rl_always_guarded : rlShortcut.all (fun r => r.2 == false) = true ∧ rlShortcut.length = 2 := by decide +kernel

def isPermOf (s : String) (letters : List Char) : Bool :=
  s.toList.length == letters.length && letters.all (fun c => s.toList.count c == 1)

/-- C04: the 6 rhs orders are exactly the permutations of `stp`, the 24 scheme orders those of `stpd`. -/
theorem orders_are_permutations :
    rhsOrders.length = 6 ∧ rhsOrders.all (isPermOf · ['s', 't', 'p']) = true ∧ rhsOrders.Nodup ∧
    schemeOrders.length = 24 ∧ schemeOrders.all (isPermOf · ['s', 't', 'p', 'd']) = true ∧ schemeOrders.Nodup := by
  decide +kernel

/-- C04: the letter → formal parameter maps are injective and cover every letter. -/
theorem argument_maps :
    pyRhsArgs = [("s", "'states'"), ("t", "'t'"), ("p", "'parameters'")] ∧
    pySchemeArgs = [("s", "'states'"), ("t", "'t'"), ("d", "'dt'"), ("p", "'parameters'")] ∧
    (cRhsArgs.map (·.1)) = ["s", "t", "p"] ∧ (cRhsArgs.map (·.2)).Nodup ∧
    (cSchemeArgs.map (·.1)) = ["s", "t", "d", "p"] ∧ (cSchemeArgs.map (·.2)).Nodup := by
  decide +kernel

/-- C12/C04: which filter each generated function applies. `rhs` filters the state unpacking and
the sort by the flag, `monitor_values` / `missing_values` / schemes never drop a state. -/
theorem removal_flags :
    method_rhs.lookup "sort_remove_unused" = some "self.remove_unused" ∧
    method_rhs.lookup "states_remove_unused" = some "self.remove_unused" ∧
    method_monitor_values.lookup "sort_remove_unused" = some "False" ∧
    method_monitor_values.lookup "states_remove_unused" = some "False" ∧
    method_missing_values.lookup "sort_remove_unused" = some "False" ∧
    method_missing_values.lookup "states_remove_unused" = some "False" ∧
    method_scheme.lookup "states_remove_unused" = some "False" := by decide +kernel

/-- C20: `rhs_matrix` substitutes until no intermediate is left, at most (number of
intermediates + 1) times by default, and raises only if intermediates are still present. -/
theorem max_tries_shape :
    maxTriesDefault = "None" ∧ maxTriesBound = ["len(intermediates) + 1"] ∧
    maxTriesRaise = ["any([rhs.has(k) for k in intermediates.keys()])"] ∧
    maxTriesWhile = ["any([rhs.has(k) for k in intermediates.keys()]) and num_tries < max_tries"] := by decide +kernel

/-- C17: every exception raised by the unit parser on a comment text is caught. -/
theorem unit_caught : unitCaught = ["Exception"] := by decide +kernel

/-- C11: the writer's relation names. `Ne` is *not* a name the grammar has (see `grammar_names`). -/
theorem relop_table :
    relop2str = [("<", "'Lt'"), ("<=", "'Le'"), (">", "'Gt'"), (">=", "'Ge'"), ("==", "'Eq'"), ("!=", "'Ne'")] := by decide +kernel

/-- C11: the writer spells `exp(1)` itself (sympy's `E` is not in the grammar) -/
theorem writer_overrides : odePrinterMethods.contains "_print_Exp1" = true ∧ odePrinterMethods.contains "_print_Relational" = true ∧
    odePrinterMethods.contains "_print_Piecewise" = true ∧ odePrinterMethods.contains "_print_And" = true ∧
    odePrinterMethods.contains "_print_Or" = true := by decide +kernel

/-- C18: keyword arguments `ode2py` forwards to `gotran2py.main`, and `main` to `get_code`. -/
theorem cli_ode2py_forwarding :
    cli_ode2py_forward = [("fname", "fname"), ("outname", "outname"), ("scheme", "scheme"), ("remove_unused", "remove_unused"),
      ("verbose", "verbose"), ("stiff_states", "stiff_states"), ("delta", "delta"), ("format", "format"), ("backend", "backend")] ∧
    mainForward_py = [("scheme", "scheme"), ("format", "format"), ("remove_unused", "remove_unused"),
      ("stiff_states", "stiff_states"), ("delta", "delta"), ("backend", "backend")] := by decide +kernel

/-- C18: every user-visible option of a command except the informational ones reaches `main`. -/
def forwardsAll (options : List String) (forward : List (String × String)) : Bool :=
  (options.filter fun o => !["version", "license", "config"].contains o).all fun o => forward.any (·.2 == o)

theorem cli_ode2py_complete : forwardsAll cli_ode2py_options cli_ode2py_forward = true := by decide +kernel

end Gx.Pins
