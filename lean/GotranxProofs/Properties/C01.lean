import GotranxProofs.Validate
import GotranxProofs.Spec
/-!
# C01 — the generated NumPy `rhs` computes the derivatives the model text defines

Property theorems only (helper lemmas live in `GotranxProofs/Exec.lean`, `Validate.lean`).
-/
namespace Gx.C01

/-- **C01 (main).** For every interpretation of the primitive operations (in particular IEEE
float64 and ℝ), every input and every model: a translated `rhs` program that passes the
executable validator `checkRhs` returns in slot `state_index X` exactly the value the
equational specification gives to `dX_dt` — whatever the nesting depth, dependency shape or
unused definitions — provided the emitted expressions mean what the model's expressions mean
at that solution (`ExprOK`, interface assumption A1 on sympy, validated per run). -/
theorem rhs_sound {α} (N : Num α) (m : Model) (L : Layout) (inp : Inputs α) (t : α)
    (ρ : Env α) (p : List Stmt) (s' : St α)
    (hchk : checkRhs m L p = true) (hsol : Solution N m L inp t ρ) (hok : ExprOK N m ρ p)
    (hx : exec N inp (initRhs t) p = some s') :
    ∀ i X, L.state[i]? = some X →
      ∃ d, m.stateOfDeriv d = some X ∧ (ρ d).isSome ∧ s'.result i = ρ d :=
  checkRhs_sound N m L inp t ρ p s' hchk hsol hok hx

/-- **C01 (no NameError).** A validated program never reads an unbound name. -/
theorem rhs_progress {α} (N : Num α) (m : Model) (L : Layout) (inp : Inputs α) (t : α)
    (p : List Stmt) (hchk : checkRhs m L p = true)
    (hin : ∀ u ∈ unpacks p, (inp u.2.1 u.2.2).isSome) :
    (exec N inp (initRhs t) p).isSome :=
  checkRhs_progress N m L inp t p hchk hin

/-- **The reference meaning is well defined** on acyclic models: solutions are unique … -/
theorem meaning_unique {α} (N : Num α) (m : Model) (L : Layout) (inp : Inputs α) (t : α)
    (rank : Name → Nat) (hr : Ranked m rank) (ρ ρ' : Env α)
    (h1 : Solution N m L inp t ρ) (h2 : Solution N m L inp t ρ')
    (hclosed : ∀ a ∈ m.assigns, ∀ y ∈ fv a.2, (m.rhsOf y).isSome ∨ y ∈ timeNames ∨ y ∈ L.state ∨ y ∈ L.param ∨ y ∈ L.missing) :
    ∀ x, (m.rhsOf x).isSome → ρ x = ρ' x := solution_unique' N m L inp t rank hr ρ ρ' h1 h2 hclosed

/-- … and exist: bounded unfolding satisfies every equation once the fuel exceeds the ranks -/
theorem meaning_exists {α} (N : Num α) (m : Model) (base : Env α) (rank : Name → Nat) (hr : Ranked m rank)
    (hfun : ∀ x e, (x, e) ∈ m.assigns → m.rhsOf x = some e) (n : Nat) (hn : ∀ a ∈ m.assigns, rank a.1 < n) :
    Equations N m (denote N m base (n + 1)) := denote_equations N m base rank hr hfun n hn

/-! Reference meaning of the conditional constructs, readable as equations. -/

theorem eval_cond_true {α} (N : Num α) (ρ : Env α) (c a b : Expr) (k x y : α)
    (hc : eval N ρ c = some k) (ha : eval N ρ a = some x) (hb : eval N ρ b = some y)
    (ht : N.truthy k = true) : eval N ρ (.cond c a b) = some x := by
  simp [eval, hc, ha, hb, ht]

theorem eval_cond_false {α} (N : Num α) (ρ : Env α) (c a b : Expr) (k x y : α)
    (hc : eval N ρ c = some k) (ha : eval N ρ a = some x) (hb : eval N ρ b = some y)
    (ht : N.truthy k = false) : eval N ρ (.cond c a b) = some y := by
  simp [eval, hc, ha, hb, ht]

/-- a relation used as a number is `ofBool` of the relation (0/1) -/
theorem eval_rel {α} (N : Num α) (ρ : Env α) (r : Rel) (a b : Expr) (x y : α)
    (ha : eval N ρ a = some x) (hb : eval N ρ b = some y) :
    eval N ρ (.rel r a b) = some (N.ofBool (N.rel r x y)) := by
  simp [eval, ha, hb]

/-- `ContinuousConditional(Gt(x,y), a, b, s)` weights `a` with `1-H`, `Lt` weights it with `H`. -/
theorem blend_gt {α} (N : Num α) (x y a b s : α) :
    N.blend .gt x y a b s = N.add (N.mul a (N.sub N.one (N.heaviside x y s))) (N.mul b (N.heaviside x y s)) := rfl
theorem blend_lt {α} (N : Num α) (x y a b s : α) :
    N.blend .lt x y a b s = N.add (N.mul a (N.heaviside x y s)) (N.mul b (N.sub N.one (N.heaviside x y s))) := rfl

/-! Non-vacuity: a concrete two-state model, its layout and a program that passes the validator. -/
def m0 : Model :=
  { states := [("x", .num 1 0), ("y", .num 2 0)], params := [("a", .num 5 (-1))],
    inters := [("i", .mul (.var "a") (.var "x"))],
    derivs := [("dx_dt", "x", .sub (.var "i") (.mul (.var "y") (.var "time"))),
               ("dy_dt", "y", .neg (.pow (.var "x") (.num 2 0)))] }
def L0 : Layout := { state := ["y", "x"], param := ["a"], monitor := ["i", "dy_dt", "dx_dt"], missing := [] }
def p0 : List Stmt :=
  [.unpack "y" .states 0, .unpack "x" .states 1, .unpack "a" .params 0,
   .define "i" (.mul (.var "a") (.var "x")),
   .define "dy_dt" (.neg (.pow (.var "x") (.num 2 0))), .store 0 (.var "dy_dt"),
   .define "dx_dt" (.sub (.var "i") (.mul (.var "y") (.var "time"))), .store 1 (.var "dx_dt")]

example : checkRhs m0 L0 p0 = true := by decide
example : checkLayout m0 L0 = true := by decide
/-- a store into the wrong slot is rejected -/
example : checkRhs m0 L0 (p0.map fun s => match s with | .store 0 e => .store 1 e | .store 1 e => .store 0 e | s => s) = false := by decide

end Gx.C01
