import GotranxProofs.Validate
import GotranxModel.CSem
/-!
# C02 — the generated C code computes the same real quantities as the model defines

The function bodies of the C backend have the same straight-line shape as the NumPy ones, so the
backend-independent validators (`checkRhs`, `checkMonitor`, `checkScheme`) and their soundness
theorems apply to the *type-erased* reading of the C text.  What is specific to C is typing:
this file proves that for every expression accepted by the executable check `cReal` the typed
meaning `evalC` (integer arithmetic on integer operands, usual arithmetic conversions, `int`
relations) equals the reference meaning `eval` of the erased expression — for every
interpretation of the primitives, every environment, any nesting depth — and exhibits, on the code
that exists, the expressions where they differ (`1/4`, `pow(x, 1/2)`, truncated `fmod`).
-/
namespace Gx.C02

theorem asInt_none_of_dbl {α} (v : CVal α) (h : v.ty = .dbl) : v.asInt = none := by
  cases v <;> simp_all [CVal.ty, CVal.asInt]

theorem asInt_some_of_intLike {α} (v : CVal α) (h : v.ty.intLike = true) : ∃ z, v.asInt = some z := by
  cases v <;> simp_all [CVal.ty, CVal.asInt, CTy.intLike]

theorem ty_of_asInt_none {α} (v : CVal α) (h : v.asInt = none) : v.ty = .dbl := by
  cases v <;> simp_all [CVal.ty, CVal.asInt]

/-- with at least one `double` operand the operator is the real-valued one on the converted operands -/
theorem arith_dbl {α} (N : Num α) (op : ArOp) (a b : CVal α)
    (h : (a.ty.intLike && b.ty.intLike) = false) :
    arith N op a b = some (.dbl (op.onDbl N (a.toDbl N) (b.toDbl N))) := by
  unfold arith
  cases a <;> cases b <;> simp_all [CVal.ty, CVal.asInt, CTy.intLike]

/-- in a condition position a `bool` or `double` value tests like its conversion -/
theorem truthy_toDbl {α} (N : Num α) (hB : ∀ b, N.truthy (N.ofBool b) = b) (v : CVal α)
    (h : v.ty ≠ .int) : v.truthy N = N.truthy (v.toDbl N) := by
  cases v with
  | int z => simp [CVal.ty] at h
  | bool b => simp [CVal.truthy, CVal.toDbl, hB]
  | dbl x => rfl

/-- **C02 (typing).** For every expression accepted by `cReal`, every interpretation of the
primitives in which a 0/1 truth value tests as itself (`truthy (ofBool b) = b`: true of IEEE
doubles and of ℝ), every `fmod` and every environment: the C-typed value has the static type,
and converted to `double` it is exactly the reference meaning of the type-erased expression.
So "quotients and exponents written with integer literals are real-valued" holds for *every*
such expression, at any nesting depth. -/
theorem cReal_sound {α} (N : Num α) (fm : α → α → α) (ρ : Env α)
    (hB : ∀ b, N.truthy (N.ofBool b) = b) :
    ∀ e, cReal e = true →
      (∀ v, evalC N fm ρ e = some v → v.ty = ctype e) ∧
      (evalC N fm ρ e).map (CVal.toDbl N) = eval N ρ (erase e) := by
  intro e
  induction e with
  | int n => intro _; constructor
             · intro v hv; simp [evalC] at hv; subst hv; rfl
             · have hn : ¬ ((n : Int) < 0) := by omega
               simp [evalC, erase, eval, CVal.toDbl, hn]
  | num m e => intro _; constructor
               · intro v hv; simp [evalC] at hv; subst hv; rfl
               · simp [evalC, erase, eval, CVal.toDbl]
  | var x => intro _; constructor
             · intro v hv; simp [evalC] at hv; obtain ⟨a, _, rfl⟩ := hv; rfl
             · simp [evalC, erase, eval]; cases ρ x <;> simp [CVal.toDbl]
  | pi => intro _; constructor
          · intro v hv; simp [evalC] at hv; subst hv; rfl
          · simp [evalC, erase, eval, CVal.toDbl]
  | neg a ih =>
    intro h
    simp only [cReal, Bool.and_eq_true, Bool.or_eq_true, beq_iff_eq] at h
    obtain ⟨ha, hk⟩ := h
    obtain ⟨ihT, ihV⟩ := ih ha
    rcases hk with hd | hl
    · -- double operand
      constructor
      · intro v hv
        simp only [evalC, Option.map_eq_some_iff] at hv
        obtain ⟨w, hw, rfl⟩ := hv
        have := ihT w hw
        rw [asInt_none_of_dbl w (by rw [this, hd])]
        simp [CVal.ty, ctype, hd, CTy.intLike]
      · simp only [evalC, erase, eval]
        rw [← ihV]
        cases hw : evalC N fm ρ a with
        | none => rfl
        | some w =>
          have := ihT w hw
          simp only [Option.map_some]
          rw [asInt_none_of_dbl w (by rw [this, hd])]
          simp [CVal.toDbl]
    · -- a non-zero integer literal
      cases a with
      | int n =>
        have hn : n ≠ 0 := by simpa [isNonzeroLit] using hl
        constructor
        · intro v hv; simp [evalC, CVal.asInt] at hv; subst hv; simp [CVal.ty, ctype, CTy.intLike]
        · have hneg : (-(n : Int)) < 0 := by omega
          simp [evalC, erase, eval, CVal.asInt, CVal.toDbl, hn]
      | _ => simp [isNonzeroLit] at hl
  | add a b iha ihb | sub a b iha ihb | mul a b iha ihb | div a b iha ihb =>
    intro h
    simp only [cReal, Bool.and_eq_true, Bool.not_eq_true'] at h
    obtain ⟨⟨ha, hb⟩, hk⟩ := h
    obtain ⟨iaT, iaV⟩ := iha ha
    obtain ⟨ibT, ibV⟩ := ihb hb
    constructor
    · intro v hv
      simp only [evalC, bind, Option.bind] at hv
      cases hx : evalC N fm ρ a with
      | none => simp [hx] at hv
      | some x =>
        cases hy : evalC N fm ρ b with
        | none => simp [hx, hy] at hv
        | some y =>
          simp only [hx, hy] at hv
          rw [arith_dbl N _ x y (by rw [iaT x hx, ibT y hy]; exact hk)] at hv
          cases hv
          simp [CVal.ty, ctype, hk]
    · simp only [evalC, erase, eval, bind, Option.bind]
      rw [← iaV, ← ibV]
      cases hx : evalC N fm ρ a with
      | none => rfl
      | some x =>
        cases hy : evalC N fm ρ b with
        | none => rfl
        | some y =>
          simp only [Option.map_some]
          rw [arith_dbl N _ x y (by rw [iaT x hx, ibT y hy]; exact hk)]
          rfl
  | imod a b _ _ => intro h; simp [cReal] at h
  | fmod a b _ _ => intro h; simp [cReal] at h
  | pow a b iha ihb =>
    intro h
    simp only [cReal, Bool.and_eq_true] at h
    obtain ⟨iaT, iaV⟩ := iha h.1
    obtain ⟨ibT, ibV⟩ := ihb h.2
    constructor
    · intro v hv
      simp only [evalC, bind, Option.bind, pure] at hv
      cases hx : evalC N fm ρ a with
      | none => simp [hx] at hv
      | some x =>
        cases hy : evalC N fm ρ b with
        | none => simp [hx, hy] at hv
        | some y => simp only [hx, hy] at hv; cases hv; rfl
    · simp only [evalC, erase, eval, bind, Option.bind, pure]
      rw [← iaV, ← ibV]
      cases evalC N fm ρ a <;> cases evalC N fm ρ b <;> rfl
  | fn f a ih =>
    intro h
    simp only [cReal] at h
    obtain ⟨_, iV⟩ := ih h
    constructor
    · intro v hv
      simp only [evalC, Option.map_eq_some_iff] at hv
      obtain ⟨w, _, rfl⟩ := hv; rfl
    · simp only [evalC, erase, eval]
      rw [← iV]
      cases evalC N fm ρ a <;> rfl
  | rel r a b iha ihb =>
    intro h
    simp only [cReal, Bool.and_eq_true, Bool.not_eq_true'] at h
    obtain ⟨⟨ha, hb⟩, hk⟩ := h
    obtain ⟨iaT, iaV⟩ := iha ha
    obtain ⟨ibT, ibV⟩ := ihb hb
    have key : ∀ x y, evalC N fm ρ a = some x → evalC N fm ρ b = some y →
        relC N r x y = .bool (N.rel r (x.toDbl N) (y.toDbl N)) := by
      intro x y hx hy
      have hxy : (x.ty.intLike && y.ty.intLike) = false := by rw [iaT x hx, ibT y hy]; exact hk
      unfold relC
      cases x <;> cases y <;> simp [CVal.ty, CVal.asInt, CTy.intLike] at hxy ⊢
    constructor
    · intro v hv
      simp only [evalC, bind, Option.bind, pure] at hv
      cases hx : evalC N fm ρ a with
      | none => simp [hx] at hv
      | some x =>
        cases hy : evalC N fm ρ b with
        | none => simp [hx, hy] at hv
        | some y =>
          simp only [hx, hy] at hv
          rw [key x y hx hy] at hv
          cases hv; rfl
    · simp only [evalC, erase, eval, bind, Option.bind, pure]
      rw [← iaV, ← ibV]
      cases hx : evalC N fm ρ a with
      | none => rfl
      | some x =>
        cases hy : evalC N fm ρ b with
        | none => rfl
        | some y =>
          simp only [Option.map_some]
          rw [key x y hx hy]
          rfl
  | not a ih =>
    intro h
    simp only [cReal, Bool.and_eq_true, bne_iff_ne, ne_eq] at h
    obtain ⟨iT, iV⟩ := ih h.1
    constructor
    · intro v hv
      simp only [evalC, Option.map_eq_some_iff] at hv
      obtain ⟨w, _, rfl⟩ := hv; rfl
    · simp only [evalC, erase, eval]
      rw [← iV]
      cases hx : evalC N fm ρ a with
      | none => rfl
      | some x =>
        simp only [Option.map_some]
        rw [truthy_toDbl N hB x (by rw [iT x hx]; exact h.2)]
        rfl
  | and a b iha ihb | or a b iha ihb =>
    intro h
    simp only [cReal, Bool.and_eq_true, bne_iff_ne, ne_eq] at h
    obtain ⟨⟨⟨ha, hb⟩, hta⟩, htb⟩ := h
    obtain ⟨iaT, iaV⟩ := iha ha
    obtain ⟨ibT, ibV⟩ := ihb hb
    constructor
    · intro v hv
      simp only [evalC, bind, Option.bind, pure] at hv
      cases hx : evalC N fm ρ a with
      | none => simp [hx] at hv
      | some x =>
        cases hy : evalC N fm ρ b with
        | none => simp [hx, hy] at hv
        | some y => simp only [hx, hy] at hv; cases hv; rfl
    · simp only [evalC, erase, eval, bind, Option.bind, pure]
      rw [← iaV, ← ibV]
      cases hx : evalC N fm ρ a with
      | none => rfl
      | some x =>
        cases hy : evalC N fm ρ b with
        | none => rfl
        | some y =>
          simp only [Option.map_some]
          rw [truthy_toDbl N hB x (by rw [iaT x hx]; exact hta),
              truthy_toDbl N hB y (by rw [ibT y hy]; exact htb)]
          rfl
  | cond c a b ihc iha ihb =>
    intro h
    simp only [cReal, Bool.and_eq_true, bne_iff_ne, ne_eq, Bool.or_eq_true, Bool.not_eq_true',
      beq_iff_eq] at h
    obtain ⟨⟨⟨⟨hc, ha⟩, hb⟩, htc⟩, hk⟩ := h
    obtain ⟨icT, icV⟩ := ihc hc
    obtain ⟨iaT, iaV⟩ := iha ha
    obtain ⟨ibT, ibV⟩ := ihb hb
    constructor
    · intro v hv
      simp only [evalC, bind, Option.bind, pure] at hv
      cases hk' : evalC N fm ρ c with
      | none => simp [hk'] at hv
      | some k =>
        cases hx : evalC N fm ρ a with
        | none => simp [hk', hx] at hv
        | some x =>
          cases hy : evalC N fm ρ b with
          | none => simp [hk', hx, hy] at hv
          | some y =>
            simp only [hk', hx, hy] at hv
            have tx := iaT x hx
            have ty := ibT y hy
            rcases hk with hk | hab
            · rw [tx, ty, hk] at hv
              simp only [Bool.false_eq_true, if_false] at hv
              cases hv
              simp [CVal.ty, ctype, hk]
            · by_cases hil : ((ctype a).intLike && (ctype b).intLike) = true
              · rw [tx, ty, hil] at hv
                simp only [if_true] at hv
                cases hv
                have hct : ctype (.cond c a b) = ctype a := by
                  simp only [ctype]
                  rw [← hab] at hil ⊢
                  cases hca : ctype a <;> simp [hca, CTy.intLike] at hil ⊢
                rw [hct]
                split
                · exact tx
                · rw [ty, hab]
              · have hil' : ((ctype a).intLike && (ctype b).intLike) = false := by simpa using hil
                rw [tx, ty, hil'] at hv
                simp only [Bool.false_eq_true, if_false] at hv
                cases hv
                simp [CVal.ty, ctype, hil']
    · simp only [evalC, erase, eval, bind, Option.bind, pure]
      rw [← icV, ← iaV, ← ibV]
      cases hk' : evalC N fm ρ c with
      | none => rfl
      | some k =>
        cases hx : evalC N fm ρ a with
        | none => rfl
        | some x =>
          cases hy : evalC N fm ρ b with
          | none => rfl
          | some y =>
            simp only [Option.map_some]
            rw [← truthy_toDbl N hB k (by rw [icT k hk']; exact htc)]
            split <;> split <;> simp_all [CVal.toDbl]

/-- **C02 (function bodies).** A C function body all of whose expressions pass `cReal` runs exactly
like its type-erased IR translation: same locals, same stores, for every input.  Composed with the
validator soundness theorems (which talk about the erased program) this carries C01/C04/C05-style
guarantees over to the compiled text. -/
theorem execC_eq_exec {α} (N : Num α) (fm : α → α → α) (inp : Inputs α)
    (hB : ∀ b, N.truthy (N.ofBool b) = b) (p : List CStmt) (hp : p.all CStmt.real = true) (s : St α) :
    execC N fm inp s p = exec N inp s (p.map CStmt.erase) := by
  induction p generalizing s with
  | nil => rfl
  | cons st rest ih =>
    simp only [List.all_cons, Bool.and_eq_true] at hp
    simp only [execC, List.map_cons, exec]
    have hstep : stepC N fm inp s st = step N inp s st.erase := by
      cases st with
      | unpack x a i => rfl
      | define x e =>
        simp only [stepC, CStmt.erase, step]
        rw [← (cReal_sound N fm (lookup s.env) hB e hp.1).2]
        cases evalC N fm (lookup s.env) e <;> rfl
      | store i e =>
        simp only [stepC, CStmt.erase, step]
        rw [← (cReal_sound N fm (lookup s.env) hB e hp.1).2]
        cases evalC N fm (lookup s.env) e <;> rfl
    rw [hstep]
    cases step N inp s st.erase with
    | none => rfl
    | some s' => exact ih hp.2 s'

/-- **C02 (rhs).** A C `rhs` body whose expressions pass `cReal` and whose type-erased translation
passes `checkRhs` writes into slot `state_index X` the specification's value of `dX_dt`, for every
input and interpretation (C typing included). -/
theorem c_rhs_sound {α} (N : Num α) (fm : α → α → α) (m : Model) (L : Layout) (inp : Inputs α) (t : α)
    (ρ : Env α) (p : List CStmt) (s' : St α) (hB : ∀ b, N.truthy (N.ofBool b) = b)
    (hreal : p.all CStmt.real = true) (hchk : checkRhs m L (p.map CStmt.erase) = true)
    (hsol : Solution N m L inp t ρ) (hok : ExprOK N m ρ (p.map CStmt.erase))
    (hx : execC N fm inp (initRhs t) p = some s') :
    ∀ i X, L.state[i]? = some X →
      ∃ d, m.stateOfDeriv d = some X ∧ (ρ d).isSome ∧ s'.result i = ρ d := by
  rw [execC_eq_exec N fm inp hB p hreal] at hx
  exact checkRhs_sound N m L inp t ρ _ s' hchk hsol hok hx

/-- the same for `monitor_values` -/
theorem c_monitor_sound {α} (N : Num α) (fm : α → α → α) (m : Model) (L : Layout) (inp : Inputs α) (t : α)
    (ρ : Env α) (p : List CStmt) (s' : St α) (hB : ∀ b, N.truthy (N.ofBool b) = b)
    (hreal : p.all CStmt.real = true) (hchk : checkMonitor m L (p.map CStmt.erase) = true)
    (hsol : Solution N m L inp t ρ) (hok : ExprOK N m ρ (p.map CStmt.erase))
    (hx : execC N fm inp (initRhs t) p = some s') :
    ∀ i x, L.monitor[i]? = some x → (ρ x).isSome ∧ s'.result i = ρ x := by
  rw [execC_eq_exec N fm inp hB p hreal] at hx
  exact checkMonitor_sound N m L inp t ρ _ s' hchk hsol hok hx

/-! ### The code that exists: where the typed and the real reading differ (known findings) -/

/-- `1/4` in C is integer division -/
theorem int_division_truncates {α} (N : Num α) (fm : α → α → α) (ρ : Env α) :
    evalC N fm ρ (.div (.int 1) (.int 4)) = some (.int 0) := by
  simp [evalC, arith, CVal.asInt, ArOp.onInt, bind, Option.bind]

/-- `pow(x, 1/2)` is `pow(x, 0)` -/
theorem pow_int_exponent {α} (N : Num α) (fm : α → α → α) (ρ : Env α) (x : α) (hx : ρ "x" = some x) :
    evalC N fm ρ (.pow (.var "x") (.div (.int 1) (.int 2))) = some (.dbl (N.pow x (N.lit 0 0))) := by
  simp [evalC, arith, CVal.asInt, ArOp.onInt, bind, Option.bind, hx, CVal.toDbl, pure]

/-- … and `cReal` rejects exactly these shapes -/
example : cReal (.div (.int 1) (.int 4)) = false := by decide
example : cReal (.pow (.var "x") (.div (.int 1) (.int 2))) = false := by decide
example : cReal (.fmod (.neg (.var "y")) (.int 3)) = false := by decide
/-- the truncated and the floored remainder differ for a negative dividend -/
example : Int.tmod (-1) 3 = -1 ∧ Int.fmod (-1) 3 = 2 := by decide

/-! non-vacuity: expressions the C printer emits that pass `cReal` -/
example : cReal (.div (.num 10 (-1)) (.num 40 (-1))) = true := by decide            -- 1.0/4.0
example : cReal (.mul (.int 2) (.pow (.var "x") (.int 2))) = true := by decide       -- 2*pow(x, 2)
example : cReal (.cond (.and (.rel .lt (.var "x") (.int 1)) (.not (.rel .eq (.var "y") (.num 5 (-1)))))
    (.neg (.int 3)) (.fn .exp (.var "x"))) = true := by decide
example : cReal (.mul (.rel .gt (.var "x") (.int 0)) (.num 30 (-1))) = true := by decide

end Gx.C02
