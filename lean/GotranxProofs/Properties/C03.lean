import GotranxProofs.Validate
import GotranxProofs.Pins
/-!
# C03 — JAX code computes the same values, with full-size outputs
The JAX function bodies have the same straight-line shape as the NumPy ones (stores go to
`_values_i`), so the same validators and soundness theorems apply; what is specific is the
assembly of the returned array.
-/
namespace Gx.C03

/-- **Full-size output.** If `checkArity n returned p` holds, the returned array has the
documented length `n` and its entry `i` is the value stored into slot `i`. -/
theorem jaxReturn_sound {α} (s : St α) (n : Nat) (returned : List Nat) (p : List Stmt)
    (h : checkArity n returned p = true) :
    (jaxReturn s returned).length = n ∧ ∀ i, i < n → (jaxReturn s returned)[i]? = some (s.result i) := by
  simp only [checkArity, Bool.and_eq_true, beq_iff_eq] at h
  obtain ⟨hr, _⟩ := h
  subst hr
  refine ⟨by simp [jaxReturn], ?_⟩
  intro i hi
  simp [jaxReturn, hi]

/-- a return list built from the number of states cannot serve `monitor_values` unless the two
counts agree (the defect fixed in the repository: `num_return_values` must be the length of the
array the method fills) -/
theorem arity_mismatch (documented k : Nat) (p : List Stmt) (h : k ≠ documented) :
    checkArity documented (List.range k) p = false := by
  simp only [checkArity, Bool.and_eq_false_iff]
  left
  simp only [beq_eq_false_iff_ne, ne_eq]
  intro heq
  have := congrArg List.length heq
  simp at this
  exact h this

/-- rhs values in JAX (restated: the validators are backend independent) -/
theorem rhs_sound {α} (N : Num α) (m : Model) (L : Layout) (inp : Inputs α) (t : α)
    (ρ : Env α) (p : List Stmt) (s' : St α)
    (hchk : checkRhs m L p = true) (hsol : Solution N m L inp t ρ) (hok : ExprOK N m ρ p)
    (hx : exec N inp (initRhs t) p = some s') :
    ∀ i X, L.state[i]? = some X → ∃ d, m.stateOfDeriv d = some X ∧ (ρ d).isSome ∧ s'.result i = ρ d :=
  checkRhs_sound N m L inp t ρ p s' hchk hsol hok hx

/-- the count each method hands to the template is the length of the array it fills
(extracted from `codegen/base.py`): `rhs`/schemes → number of states, `monitor_values` and
`missing_values` → the shape of their own values array. -/
theorem num_return_values_extracted :
    Generated.method_rhs.lookup "method_num_return_values" = some "rhs.num_return_values" ∧
    Generated.method_scheme.lookup "method_num_return_values" = some "rhs.num_return_values" ∧
    Generated.method_monitor_values.lookup "method_num_return_values" = some "shape" ∧
    Generated.method_missing_values.lookup "method_num_return_values" = some "shape" ∧
    Generated.pyNumReturn = [("_rhs_arguments", "self.ode.num_states"), ("_scheme_arguments", "self.ode.num_states")] := by
  decide +kernel

example : checkArity 2 [0, 1] [.store 0 (.var "a"), .store 1 (.var "b")] = true := by decide
example : checkArity 3 [0, 1] [.store 0 (.var "a"), .store 1 (.var "b"), .store 2 (.var "c")] = false := by decide

end Gx.C03
