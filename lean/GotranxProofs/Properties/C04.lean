import GotranxProofs.Validate
import GotranxProofs.Pins
/-!
# C04 — names and array slots agree across every generated function
-/
namespace Gx.C04

/-- an index function built by enumerating a duplicate-free list: `slotOf l x = some i ↔ l[i] = x` -/
theorem slotOf_iff (l : List Name) (hd : allDistinct l = true) (x : Name) (i : Nat) :
    slotOf l x = some i ↔ l[i]? = some x := by
  induction l generalizing i with
  | nil => simp [slotOf]
  | cons y rest ih =>
    simp only [allDistinct, Bool.and_eq_true, Bool.not_eq_true', List.contains_eq_mem, decide_eq_false_iff_not] at hd
    by_cases hy : y = x
    · subst hy
      cases i with
      | zero => simp [slotOf]
      | succ k =>
        simp only [slotOf, if_true, List.getElem?_cons_succ]
        constructor
        · intro h; cases h
        · intro h; exact absurd (List.mem_of_getElem? h) hd.1
    · cases i with
      | zero => simp [slotOf, hy]
      | succ k =>
        simp only [slotOf, hy, if_false, List.getElem?_cons_succ, Option.map_eq_some_iff]
        constructor
        · rintro ⟨j, hj, hjk⟩
          have : j = k := by omega
          subst this; exact (ih hd.2 j).mp hj
        · intro h; exact ⟨k, (ih hd.2 k).mpr h, rfl⟩

/-- **Index functions are injective onto `0..n-1` and refuse unknown names.** -/
theorem index_bijective (l : List Name) (hd : allDistinct l = true) :
    (∀ x y i, slotOf l x = some i → slotOf l y = some i → x = y) ∧
    (∀ i, i < l.length → ∃ x, slotOf l x = some i) ∧
    (∀ x i, slotOf l x = some i → i < l.length) ∧
    (∀ x, x ∉ l → slotOf l x = none) := by
  refine ⟨?_, ?_, ?_, ?_⟩
  · intro x y i hx hy
    have h1 := (slotOf_iff l hd x i).mp hx
    have h2 := (slotOf_iff l hd y i).mp hy
    rw [h1] at h2; exact Option.some.inj h2
  · intro i hi
    exact ⟨l[i], (slotOf_iff l hd _ i).mpr (by simp [hi])⟩
  · intro x i hx
    have h1 := (slotOf_iff l hd x i).mp hx
    rcases Nat.lt_or_ge i l.length with h | h
    · exact h
    · rw [List.getElem?_eq_none h] at h1; cases h1
  · intro x hx
    cases hs : slotOf l x with
    | none => rfl
    | some i => exact absurd (List.mem_of_getElem? ((slotOf_iff l hd x i).mp hs)) hx

/-- a layout accepted by `checkLayout` has duplicate-free index lists of the declared lengths -/
theorem layout_counts (m : Model) (L : Layout) (h : checkLayout m L = true) :
    allDistinct L.state = true ∧ L.state.length = m.states.length ∧
    allDistinct L.param = true ∧ L.param.length = m.params.length ∧
    allDistinct L.monitor = true ∧ L.monitor.length = m.assigns.length := by
  simp only [checkLayout, Bool.and_eq_true, beq_iff_eq] at h
  obtain ⟨⟨⟨⟨⟨⟨⟨⟨h1, h2⟩, _⟩, h4⟩, h5⟩, _⟩, h7⟩, h8⟩, _⟩ := h
  exact ⟨h1, h2, h4, h5, h7, h8⟩

/-! ### Initial-value functions: defaults, then keyword overrides -/

def setAt {α} : List α → Nat → α → List α
  | [], _, _ => []
  | _ :: xs, 0, v => v :: xs
  | x :: xs, k + 1, v => x :: setAt xs k v

/-- `for key, value in values.items(): arr[index(key)] = value`; unknown key ⇒ `none` (KeyError) -/
def applyOverrides {α} (names : List Name) : List α → List (Name × α) → Option (List α)
  | arr, [] => some arr
  | arr, (k, v) :: rest =>
    match slotOf names k with
    | none => none
    | some i => applyOverrides names (setAt arr i v) rest

theorem setAt_get {α} (l : List α) (k i : Nat) (v : α) (hk : k < l.length) :
    (setAt l k v)[i]? = if i = k then some v else l[i]? := by
  induction l generalizing k i with
  | nil => simp at hk
  | cons x xs ih =>
    cases k with
    | zero => cases i <;> simp [setAt]
    | succ k =>
      cases i with
      | zero => simp [setAt]
      | succ i =>
        simp only [setAt, List.getElem?_cons_succ, Nat.succ.injEq]
        exact ih k i (by simpa using hk)

theorem setAt_length {α} (l : List α) (k : Nat) (v : α) : (setAt l k v).length = l.length := by
  induction l generalizing k with
  | nil => rfl
  | cons x xs ih => cases k <;> simp [setAt, ih]

/-- the last override of the name in slot `i`, if any -/
def lastOverride {α} (names : List Name) (i : Nat) : List (Name × α) → Option α
  | [] => none
  | (k, v) :: rest =>
    match lastOverride names i rest with
    | some w => some w
    | none => if slotOf names k = some i then some v else none

/-- **init_sound.** After defaults and keyword overrides, slot `i` holds the last override of
the name with index `i`, else its default; an unknown key is an error; the length is unchanged. -/
theorem init_sound {α} (names : List Name) (hd : allDistinct names = true) (arr : List α)
    (hlen : arr.length = names.length) (ovs : List (Name × α)) (out : List α)
    (h : applyOverrides names arr ovs = some out) :
    out.length = arr.length ∧
    ∀ i, i < arr.length → out[i]? = (match lastOverride names i ovs with | some w => some w | none => arr[i]?) := by
  induction ovs generalizing arr with
  | nil => simp [applyOverrides] at h; subst h; simp [lastOverride]
  | cons kv rest ih =>
    obtain ⟨k, v⟩ := kv
    simp only [applyOverrides] at h
    cases hs : slotOf names k with
    | none => simp [hs] at h
    | some j =>
      simp only [hs] at h
      have hj : j < arr.length := by
        rw [hlen]; exact (index_bijective names hd).2.2.1 k j hs
      have := ih (setAt arr j v) (by rw [setAt_length, hlen]) h
      rw [setAt_length] at this
      refine ⟨this.1, ?_⟩
      intro i hi
      rw [this.2 i hi]
      simp only [lastOverride]
      cases hl : lastOverride names i rest with
      | some w => rfl
      | none =>
        simp only
        rw [setAt_get _ _ _ _ hj]
        by_cases hij : i = j
        · subst hij; simp [hs]
        · have : slotOf names k ≠ some i := by rw [hs]; intro hh; exact hij (Option.some.inj hh).symm
          simp [hij, this]

theorem init_unknown_key {α} (names : List Name) (arr : List α) (k : Name) (v : α) (rest : List (Name × α))
    (hk : slotOf names k = none) : applyOverrides names arr ((k, v) :: rest) = none := by
  simp [applyOverrides, hk]

/-- **Monitor slots** (restated): every intermediate and derivative is returned in the slot
`monitor_index` reports for it. -/
theorem monitor_slots {α} (N : Num α) (m : Model) (L : Layout) (inp : Inputs α) (t : α)
    (ρ : Env α) (p : List Stmt) (s' : St α)
    (hchk : checkMonitor m L p = true) (hsol : Solution N m L inp t ρ) (hok : ExprOK N m ρ p)
    (hx : exec N inp (initRhs t) p = some s') :
    ∀ i x, L.monitor[i]? = some x → (ρ x).isSome ∧ s'.result i = ρ x :=
  checkMonitor_sound N m L inp t ρ p s' hchk hsol hok hx

/-- **rhs slots** (restated) -/
theorem rhs_slots {α} (N : Num α) (m : Model) (L : Layout) (inp : Inputs α) (t : α)
    (ρ : Env α) (p : List Stmt) (s' : St α)
    (hchk : checkRhs m L p = true) (hsol : Solution N m L inp t ρ) (hok : ExprOK N m ρ p)
    (hx : exec N inp (initRhs t) p = some s') :
    ∀ i X, L.state[i]? = some X → ∃ d, m.stateOfDeriv d = some X ∧ (ρ d).isSome ∧ s'.result i = ρ d :=
  checkRhs_sound N m L inp t ρ p s' hchk hsol hok hx

/-- **The argument-order option changes only the formals**: for every extracted order the
formal list is the letter map of the order (model of `_rhs_arguments` / `_scheme_arguments`),
and it is a permutation of the same formals. -/
def formals (table : List (String × String)) (order : String) : List String :=
  order.toList.filterMap fun c => table.lookup (String.singleton c)

theorem formals_are_permutations :
    (Generated.rhsOrders.all fun o => (formals Generated.pyRhsArgs o).length == 3 && (formals Generated.pyRhsArgs o).Nodup) = true ∧
    (Generated.schemeOrders.all fun o => (formals Generated.pySchemeArgs o).length == 4 && (formals Generated.pySchemeArgs o).Nodup) = true ∧
    (Generated.rhsOrders.all fun o => (formals Generated.cRhsArgs o).length == 3 && (formals Generated.cRhsArgs o).Nodup) = true ∧
    (Generated.schemeOrders.all fun o => (formals Generated.cSchemeArgs o).length == 4 && (formals Generated.cSchemeArgs o).Nodup) = true := by
  decide +kernel

/-! non-vacuity -/
example : applyOverrides ["y", "x"] [2.0, 1.0] [("x", 5.0), ("y", 7.0), ("x", 9.0)] = some [7.0, 9.0] := by
  simp [applyOverrides, slotOf, setAt]
example : applyOverrides ["y", "x"] [2, 1] [("q", 5)] = none := by simp [applyOverrides, slotOf]

end Gx.C04
