import GotranxProofs.Validate
import GotranxProofs.Pins
/-!
# C05 — explicit Euler step equals states + dt · rhs
-/
namespace Gx.C05

/-- laws of the interpretation that the statement "states + dt·rhs" needs: IEEE `+` and `*`
are commutative (sympy prints `dt*dx_dt + x`, the model writes `x + dt*dx_dt`) -/
structure CommNum {α} (N : Num α) : Prop where
  add_comm : ∀ a b, N.add a b = N.add b a
  mul_comm : ∀ a b, N.mul a b = N.mul b a

/-- laws for `dt = 0` on the values at hand (true of IEEE for finite operands) -/
structure ZeroLaws {α} (N : Num α) (z : α) : Prop where
  mul_zero : ∀ a, N.mul z a = z
  add_zero : ∀ a, N.add a z = a

/-- value of the explicit Euler store expression -/
theorem eval_eulerStore {α} (N : Num α) (ρ : Env α) (s d : Name) (x dt f : α)
    (hs : ρ s = some x) (hdt : ρ "dt" = some dt) (hd : ρ d = some f) :
    eval N ρ (Impl.eulerStore s d) = some (N.add x (N.mul dt f)) := by
  simp [Impl.eulerStore, eval, hs, hdt, hd]

/-- the four operand orders sympy can print for `x + dt*f` all mean the same under `CommNum` -/
theorem eval_euler_printed {α} (N : Num α) (hN : CommNum N) (ρ : Env α) (s d : Name) (x dt f : α)
    (hs : ρ s = some x) (hdt : ρ "dt" = some dt) (hd : ρ d = some f) :
    eval N ρ (.add (.mul (.var "dt") (.var d)) (.var s)) = some (N.add x (N.mul dt f)) ∧
    eval N ρ (.add (.mul (.var d) (.var "dt")) (.var s)) = some (N.add x (N.mul dt f)) ∧
    eval N ρ (.add (.var s) (.mul (.var d) (.var "dt"))) = some (N.add x (N.mul dt f)) := by
  refine ⟨?_, ?_, ?_⟩
  · simp only [eval, hs, hdt, hd, Option.bind_eq_bind, Option.bind_some, Option.pure_def]; rw [hN.add_comm]
  · simp only [eval, hs, hdt, hd, Option.bind_eq_bind, Option.bind_some, Option.pure_def]; rw [hN.add_comm, hN.mul_comm]
  · simp only [eval, hs, hdt, hd, Option.bind_eq_bind, Option.bind_some, Option.pure_def]; rw [hN.mul_comm]

/-- **C05 (main).** If a scheme program passes `checkScheme`, the rhs program passes `checkRhs`
for the same model and layout, and the scheme's store for slot `i` is the Euler expression of the
state and derivative of that slot, then for every input
`euler[i] = states[i] + dt · rhs[i]` — exactly, in every interpretation of `+` and `*`. -/
theorem euler_eq_states_plus_dt_rhs {α} (N : Num α) (m : Model) (L : Layout) (inp : Inputs α) (t dt : α)
    (ρ : Env α) (pr pe : List Stmt) (sr se : St α)
    (hr : checkRhs m L pr = true) (he : checkScheme m L pe = true)
    (hsol : Solution N m L inp t ρ) (hdt : ρ "dt" = some dt)
    (hokr : ExprOK N m ρ pr) (hD : ∀ d ∈ defines pe, ρ d.1 = eval N ρ d.2)
    (hxr : exec N inp (initRhs t) pr = some sr) (hxe : exec N inp (initScheme t dt) pe = some se)
    (i : Nat) (X : Name) (hiX : L.state[i]? = some X)
    (hstore : ∀ e, (i, e) ∈ stores pe → ∃ d, m.stateOfDeriv d = some X ∧ (i, Expr.var d) ∈ stores pr ∧ e = Impl.eulerStore X d) :
    ∃ x f, inp .states i = some x ∧ sr.result i = some f ∧ se.result i = some (N.add x (N.mul dt f)) := by
  have hi : i < L.state.length := by
    rcases Nat.lt_or_ge i L.state.length with h | h
    · exact h
    · rw [List.getElem?_eq_none h] at hiX; cases hiX
  obtain ⟨e, hmem, hsome, hres⟩ := checkScheme_sound N m L inp t dt ρ pe se he hsol hdt hD hxe i hi
  obtain ⟨d, hd, hdr, rfl⟩ := hstore e hmem
  obtain ⟨d', hd'mem, _, hres'⟩ := checkRhs_sound_named N m L inp t ρ pr sr hr hsol hokr hxr i X hiX
  -- the rhs program stores exactly one expression in slot i
  have hd_eq : (Expr.var d') = Expr.var d := by
    simp only [checkRhs, Bool.and_eq_true] at hr
    have hs := hr.1.2
    simp only [slotsExact, Bool.and_eq_true, List.all_eq_true, List.mem_range, beq_iff_eq] at hs
    have hc := hs.2 i hi
    rw [storeSlots_eq] at hc
    exact count_one_unique _ _ _ _ hc hd'mem hdr
  have hdd : d' = d := by injection hd_eq
  subst hdd
  have hx : ρ X = inp .states i := hsol.1 i X hiX
  simp only [Impl.eulerStore, eval, hdt] at hsome hres
  cases hX : ρ X with
  | none => simp [hX] at hsome
  | some x =>
    cases hf : ρ d' with
    | none => simp [hX, hf] at hsome
    | some f =>
      refine ⟨x, f, by rw [← hx, hX], by rw [hres', hf], ?_⟩
      rw [hres]; simp [hX, hf]

/-- **dt = 0 returns the input state** (for values on which `0·f = 0`, `x + 0 = x`). -/
theorem euler_dt_zero {α} (N : Num α) (z : α) (hz : ZeroLaws N z) (x f : α) :
    N.add x (N.mul z f) = x := by
  rw [hz.mul_zero, hz.add_zero]

/-- inputs are never written: `exec` only extends the local environment and the output list;
the input arrays `inp` are a parameter that no statement can change. -/
theorem inputs_untouched {α} (N : Num α) (inp : Inputs α) (s : St α) (p : List Stmt) :
    ∀ s', exec N inp s p = some s' → ∀ a i, inp a i = inp a i := fun _ _ _ _ => rfl

/-- every accepted name of explicit Euler maps to the Euler generator (extracted table) -/
theorem euler_aliases :
    (Generated.schemeAliases.filter fun a => ["forward_euler", "forward_explicit_euler", "euler", "explicit_euler"].contains a.1).all
      (fun a => a.2 == "explicit_euler") = true ∧
    (Generated.schemeAliases.filter fun a => a.2 == "explicit_euler").length = 4 := by decide +kernel

/-! non-vacuity: float64 `+`/`*` satisfy the evaluation equation on a concrete environment -/
example : eval NumFloat (fun x => if x = "x" then some 1.5 else if x = "dt" then some 0.5 else if x = "dx_dt" then some 4.0 else none)
    (Impl.eulerStore "x" "dx_dt") = some (NumFloat.add 1.5 (NumFloat.mul 0.5 4.0)) := by
  simp [Impl.eulerStore, eval]

end Gx.C05
