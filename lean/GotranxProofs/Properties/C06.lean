import GotranxProofs.Validate
import GotranxProofs.Pins
import GotranxProofs.Analysis
/-!
# C06 — generalized Rush–Larsen follows the guarded exponential-integrator formula
(the real-analysis part — `diff` is the derivative, exactness for affine rates, convergence to
Euler — is in `GotranxProofs/Analysis.lean`, which imports Mathlib)
-/
namespace Gx.C06
open Impl

/-- the guarded Rush–Larsen update, in an arbitrary interpretation -/
def rlFormula {α} (N : Num α) (δ x f g dt : α) : α :=
  N.add x (if N.truthy (N.ofBool (N.rel .gt (N.fn .abs g) δ))
    then N.mul (N.div f g) (N.sub (N.fn .exp (N.mul g dt)) (N.lit 1 0))
    else N.mul dt f)

/-- **value of the emitted store**: `x + (|lin| > δ ? f/lin·(exp(lin·dt) − 1) : dt·f)` -/
theorem eval_rl_store {α} (N : Num α) (ρ : Env α) (s d : Name) (δe : Expr) (x f g dt δ : α)
    (hs : ρ s = some x) (hd : ρ d = some f) (hg : ρ (linName d) = some g) (hdt : ρ "dt" = some dt)
    (hδ : eval N ρ δe = some δ) :
    eval N ρ (.add (.var s) (rlTerm d δe true)) = some (rlFormula N δ x f g dt) := by
  simp [rlTerm, eval, hs, hd, hg, hdt, hδ, rlFormula, Expr.one]

/-- the Euler fallback is taken exactly when the guard fails -/
theorem rl_fallback {α} (N : Num α) (δ x f g dt : α)
    (h : N.truthy (N.ofBool (N.rel .gt (N.fn .abs g) δ)) = false) :
    rlFormula N δ x f g dt = N.add x (N.mul dt f) := by
  simp [rlFormula, h]

theorem rl_exponential {α} (N : Num α) (δ x f g dt : α)
    (h : N.truthy (N.ofBool (N.rel .gt (N.fn .abs g) δ)) = true) :
    rlFormula N δ x f g dt = N.add x (N.mul (N.div f g) (N.sub (N.fn .exp (N.mul g dt)) (N.lit 1 0))) := by
  simp [rlFormula, h]

/-- **`Impl` emits the guard for every non-trivially-zero linearisation** (what the property
demands; the extracted `rlShortcut` flag records that the code that exists may skip it). -/
theorem rlStore_guarded (stiff : Name → Bool) (δ : Expr) (s d : Name) (e : Expr)
    (hs : stiff s = true) (hz : (diff s e).isZero = false) :
    rlStore stiff δ s d e =
      ([.define (linName d) (diff s e)], .add (.var s) (.cond (.rel .gt (.fn .abs (.var (linName d))) δ)
        (.mul (.div (.var d) (.var (linName d))) (.sub (.fn .exp (.mul (.var (linName d)) (.var "dt"))) .one))
        (.mul (.var "dt") (.var d)))) := by
  simp [rlStore, hs, hz, rlTerm]

/-- a syntactically zero linearisation gives the Euler update -/
theorem rlStore_zero (stiff : Name → Bool) (δ : Expr) (s d : Name) (e : Expr)
    (hz : (diff s e).isZero = true) : rlStore stiff δ s d e = ([], eulerStore s d) := by
  simp [rlStore, hz]

/-- the linearisation of a rate that does not mention its own state is syntactically zero -/
theorem diff_var_other (x y : Name) (h : y ≠ x) : diff x (.var y) = .zero := by simp [diff, h]
theorem diff_var_self (x : Name) : diff x (.var x) = .one := by simp [diff]
theorem diff_num (x : Name) (m : Nat) (e : Int) : diff x (.num m e) = .zero := rfl

/-- default `delta` of both Rush–Larsen generators and their accepted names (extracted) -/
theorem grl_aliases_and_delta :
    (Generated.schemeAliases.filter fun a => a.2 == "generalized_rush_larsen").map (·.1) =
      ["forward_generalized_rush_larsen", "generalized_rush_larsen"] ∧
    Generated.defaultDelta = [("generalized_rush_larsen", "1e-08"), ("hybrid_rush_larsen", "1e-08")] := by
  decide +kernel

/-! ### Real-analysis consequences (proved in `GotranxProofs/Analysis.lean`, restated) -/

/-- `g` is the derivative of the rate with respect to the own state, everything else held fixed -/
theorem linearisation_is_derivative (ρ : Name → ℝ) (s : Name) (e : Expr) (h : Smooth ρ s e) :
    HasDerivAt (fun v => evalR (upd ρ s v) e) (evalR ρ (diff s e)) (ρ s) := diff_correct ρ s e h

/-- a rate that does not mention its own state has a syntactically zero linearisation → Euler -/
theorem zero_linearisation_gives_euler (stiff : Name → Bool) (δ : Expr) (s d : Name) (e : Expr)
    (h : mentions s e = false) : rlStore stiff δ s d e = ([], eulerStore s d) :=
  rlStore_zero stiff δ s d e (diff_zero_of_not_mentions s e h)

/-- exact for rates affine in their own state -/
theorem exact_for_affine (δ a b x0 dt : ℝ) (hδ : 0 ≤ δ) (ha : |a| > δ) :
    rlStep δ x0 (a * x0 + b) a dt = (x0 + b / a) * Real.exp (a * dt) - b / a := rl_exact_affine δ a b x0 dt hδ ha

/-- converges to the Euler step as dt → 0: same value and same slope at dt = 0 -/
theorem converges_to_euler (δ x f g : ℝ) (hδ : 0 ≤ δ) :
    rlStep δ x f g 0 = x ∧ HasDerivAt (fun dt => rlStep δ x f g dt - (x + dt * f)) 0 0 :=
  ⟨rl_dt_zero δ x f g, rl_minus_euler_little_o δ x f g hδ⟩

/-- finite (no division by zero) under the guard with δ ≥ 0 -/
theorem no_division_by_zero (δ g : ℝ) (hδ : 0 ≤ δ) (h : |g| > δ) : g ≠ 0 := rl_guard_nonzero δ g hδ h

/-! non-vacuity: float64, |g| = 2 > 1e-8 takes the exponential branch; g = 0 the Euler branch -/
example : NumFloat.truthy (NumFloat.ofBool (NumFloat.rel .gt (NumFloat.fn .abs 2.0) 1e-8)) = true := by decide +kernel
example : NumFloat.truthy (NumFloat.ofBool (NumFloat.rel .gt (NumFloat.fn .abs 0.0) 1e-8)) = false := by decide +kernel

end Gx.C06
