import GotranxProofs.Validate
import GotranxProofs.Pins
/-!
# C07 — hybrid Rush–Larsen applies RL to exactly the stiff states and Euler to the rest

`schemes.py` contains the Rush–Larsen loop twice (`generalized_rush_larsen`,
`hybrid_rush_larsen`); the `Impl` model keeps both.  The theorems are *syntactic program
equalities*: the two copies agree, for every model, sort order, option and subset.
-/
namespace Gx.C07
open Impl

theorem bodySlots_congr (m : Model) (L : Layout)
    (mk1 mk2 : Name → Name → Expr → List Stmt × Expr) :
    ∀ (l : List Name),
      (∀ x ∈ l, ∀ s e, m.stateOfDeriv x = some s → m.rhsOf x = some e → mk1 s x e = mk2 s x e) →
      bodySlots m L mk1 l = bodySlots m L mk2 l := by
  intro l
  induction l with
  | nil => intros; rfl
  | cons x rest ih =>
    intro h
    have hrest := ih (fun y hy => h y (List.mem_cons_of_mem _ hy))
    simp only [bodySlots]
    cases he : m.rhsOf x with
    | none => simp only []; exact hrest
    | some e =>
      cases hs : m.stateOfDeriv x with
      | none => simp only []; rw [hrest]
      | some s =>
        simp only []
        rw [h x (by simp) s e hs he, hrest]

/-- per-state choice: a state that is not stiff gets the explicit Euler update -/
theorem rlStore_nonstiff (stiff : Name → Bool) (δ : Expr) (s d : Name) (e : Expr) (h : stiff s = false) :
    rlStore stiff δ s d e = ([], eulerStore s d) := by
  simp [rlStore, h]

/-- per-state choice: a stiff state gets exactly what generalized Rush–Larsen emits for it -/
theorem rlStore_stiff (stiff : Name → Bool) (δ : Expr) (s d : Name) (e : Expr) (h : stiff s = true) :
    rlStore stiff δ s d e = rlStore (fun _ => true) δ s d e := by
  simp [rlStore, h]

/-- **With no stiff states the hybrid scheme is the explicit Euler program.** -/
theorem hybrid_empty_eq_euler (m : Model) (π : DepOrder) (ru : Bool) (δ : Expr) :
    genHybrid m π ru δ [] = genEuler m π ru := by
  unfold genHybrid genEuler
  cases layout m π with
  | none => rfl
  | some L =>
    cases sortedAssignments m π ru with
    | none => rfl
    | some order =>
      simp only [Option.bind_eq_bind, Option.bind_some, Option.pure_def]
      congr 2
      all_goals
        apply bodySlots_congr
        intro x _ s e _ _
        exact rlStore_nonstiff _ δ s x e (by simp)

/-- **With every state stiff the hybrid scheme is the generalized Rush–Larsen program.** -/
theorem hybrid_all_eq_grl (m : Model) (π : DepOrder) (ru : Bool) (δ : Expr) (stiff : List Name)
    (hall : ∀ d s, m.stateOfDeriv d = some s → s ∈ stiff) :
    genHybrid m π ru δ stiff = genGRL m π ru δ := by
  unfold genHybrid genGRL
  cases layout m π with
  | none => rfl
  | some L =>
    cases sortedAssignments m π ru with
    | none => rfl
    | some order =>
      simp only [Option.bind_eq_bind, Option.bind_some, Option.pure_def]
      congr 2
      apply bodySlots_congr
      intro x _ s e hs _
      exact rlStore_stiff _ δ s x e (by simpa using hall x s hs)

/-- **Names in `stiff_states` that are not states have no effect.** -/
theorem hybrid_foreign_names (m : Model) (π : DepOrder) (ru : Bool) (δ : Expr) (stiff : List Name) :
    genHybrid m π ru δ stiff =
    genHybrid m π ru δ (stiff.filter fun s => m.derivs.any fun d => d.2.1 == s) := by
  unfold genHybrid
  cases layout m π with
  | none => rfl
  | some L =>
    cases sortedAssignments m π ru with
    | none => rfl
    | some order =>
      simp only [Option.bind_eq_bind, Option.bind_some, Option.pure_def]
      congr 2
      apply bodySlots_congr
      intro x _ s e hs _
      have hmem : (m.derivs.any fun d => d.2.1 == s) = true := by
        have := lookup_mem _ _ _ hs
        simp only [List.mem_map] at this
        obtain ⟨d, hd, hde⟩ := this
        simp only [List.any_eq_true, beq_iff_eq]
        exact ⟨d, hd, by injection hde⟩
      have : (stiff.filter fun s => m.derivs.any fun d => d.2.1 == s).contains s = stiff.contains s := by
        simp [List.contains_eq_mem, List.mem_filter, hmem]
      simp only [rlStore, this]

/-- **Slot-wise**: in the hybrid program each derivative is followed by the Euler store if its
state is not stiff and by the generalized Rush–Larsen statements if it is — the same per-state
function `rlStore` that `genGRL` uses with "everything is stiff". -/
theorem hybrid_slotwise (stiff : List Name) (δ : Expr) (s d : Name) (e : Expr) :
    rlStore (fun x => stiff.contains x) δ s d e =
      if stiff.contains s then rlStore (fun _ => true) δ s d e else ([], eulerStore s d) := by
  by_cases h : s ∈ stiff
  · simp [rlStore, h]
  · simp [rlStore, h]

/-- stiff states are forwarded only to the hybrid scheme; all three accepted names map to it -/
theorem hybrid_aliases :
    (Generated.schemeAliases.filter fun a => a.2 == "hybrid_rush_larsen").map (·.1) =
      ["forward_rush_larsen", "rush_larsen", "hybrid_rush_larsen"] := by decide +kernel

/-! non-vacuity on the C01 example model -/
def m0 : Model :=
  { states := [("x", .num 1 0), ("y", .num 2 0)], params := [("a", .num 5 (-1))],
    inters := [("i", .mul (.var "a") (.var "x"))],
    derivs := [("dx_dt", "x", .sub (.var "i") (.mul (.var "y") (.var "x"))),
               ("dy_dt", "y", .neg (.pow (.var "y") (.num 2 0)))] }
example : (genHybrid m0 defaultDeps false (.num 1 (-8)) ["x"]).isSome = true := by decide +kernel
example : genHybrid m0 defaultDeps false (.num 1 (-8)) ["x"] ≠ genEuler m0 defaultDeps false := by decide +kernel

end Gx.C07
