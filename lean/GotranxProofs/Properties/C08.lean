import GotranxProofs.Sorting
/-!
# C08 — ill-formed models are rejected, never silently repaired

`seqCheck` is the duplicate test of `transformer.TreeToODE.ode` as coded: atoms are visited in
text order, a dictionary keeps the latest atom per name, and a second atom with the same name
must be "the same definition".  Theorem `seqCheck_pairwise`: if the sequential test passes then
*any two* atoms with the same name are the same definition — no conflicting definitions of any
kinds in any components survive.
-/
namespace Gx.C08

/-- `sameDefinition` is equality of everything that defines an atom: kind, name, components,
annotations and expression -/
theorem sameDefinition_eq (a b : RawAtom) (h : sameDefinition a b = true) :
    a.kind = b.kind ∧ a.name = b.name ∧ a.comps = b.comps ∧ a.expr = b.expr ∧
    a.unit = b.unit ∧ a.desc = b.desc ∧ a.comment = b.comment := by
  simp only [sameDefinition, RawAtom.attrsEq, Bool.and_eq_true, beq_iff_eq] at h
  obtain ⟨⟨⟨⟨⟨⟨⟨h1, h2⟩, h3⟩, h4⟩, h5⟩, h6⟩, _⟩, h8⟩ := h
  exact ⟨h1, h2, h3, h8, h4, h5, h6⟩

theorem sameDefinition_of_eq (a b : RawAtom)
    (h : a.kind = b.kind ∧ a.name = b.name ∧ a.comps = b.comps ∧ a.expr = b.expr ∧
      a.unit = b.unit ∧ a.desc = b.desc ∧ a.comment = b.comment) : sameDefinition a b = true := by
  obtain ⟨h1, h2, h3, h4, h5, h6, h7⟩ := h
  have hab : a = b := by
    cases a; cases b; simp_all
  subst hab
  simp only [sameDefinition, RawAtom.attrsEq, Bool.and_eq_true, beq_self_eq_true, and_self, true_and]
  cases a.kind <;> simp [sameSet]

theorem sameDefinition_trans (a b c : RawAtom) (h1 : sameDefinition a b = true) (h2 : sameDefinition b c = true) :
    sameDefinition a c = true := by
  have e1 := sameDefinition_eq a b h1
  have e2 := sameDefinition_eq b c h2
  apply sameDefinition_of_eq
  exact ⟨e1.1.trans e2.1, e1.2.1.trans e2.2.1, e1.2.2.1.trans e2.2.2.1, e1.2.2.2.1.trans e2.2.2.2.1,
    e1.2.2.2.2.1.trans e2.2.2.2.2.1, e1.2.2.2.2.2.1.trans e2.2.2.2.2.2.1, e1.2.2.2.2.2.2.trans e2.2.2.2.2.2.2⟩

theorem sameDefinition_symm (a b : RawAtom) (h : sameDefinition a b = true) : sameDefinition b a = true := by
  have e := sameDefinition_eq a b h
  apply sameDefinition_of_eq
  exact ⟨e.1.symm, e.2.1.symm, e.2.2.1.symm, e.2.2.2.1.symm, e.2.2.2.2.1.symm, e.2.2.2.2.2.1.symm, e.2.2.2.2.2.2.symm⟩

/-- invariant of the dictionary: at most one entry per name -/
def Uniq (d : List RawAtom) : Prop := ∀ x ∈ d, ∀ y ∈ d, x.name = y.name → x = y

theorem find_name (d : List RawAtom) (n : Name) (p : RawAtom) (h : d.find? (·.name == n) = some p) :
    p ∈ d ∧ p.name = n := by
  have := List.find?_some h
  exact ⟨List.mem_of_find?_eq_some h, by simpa using this⟩

/-- **C08 (duplicates).** If the sequential check passes from a dictionary `defined`, then every
atom of the remaining text is the same definition as the dictionary entry of its name (if any)
and any two atoms of the text with the same name are the same definition. -/
theorem seqCheck_sound : ∀ (rest defined : List RawAtom), Uniq defined → seqCheck defined rest = true →
    (∀ a ∈ rest, ∀ p ∈ defined, p.name = a.name → sameDefinition p a = true) ∧
    (∀ a ∈ rest, ∀ b ∈ rest, a.name = b.name → sameDefinition a b = true) := by
  intro rest
  induction rest with
  | nil => intro d _ _; exact ⟨by simp, by simp⟩
  | cons a rest ih =>
    intro d hu h
    simp only [seqCheck] at h
    -- the new dictionary after visiting `a`
    have key : ∃ d', Uniq d' ∧ seqCheck d' rest = true ∧ a ∈ d' ∧
        (∀ p ∈ d, p.name ≠ a.name → p ∈ d') ∧ (∀ p ∈ d, p.name = a.name → sameDefinition p a = true) := by
      cases hf : d.find? (·.name == a.name) with
      | none =>
        simp only [hf] at h
        refine ⟨a :: d, ?_, h, by simp, fun p hp _ => by simp [hp], ?_⟩
        · intro x hx y hy hxy
          simp only [List.mem_cons] at hx hy
          have hnone := List.find?_eq_none.mp hf
          rcases hx with rfl | hx <;> rcases hy with rfl | hy
          · rfl
          · exact absurd (by simpa using hxy.symm) (hnone y hy)
          · exact absurd (by simpa using hxy) (hnone x hx)
          · exact hu x hx y hy hxy
        · intro p hp hpn
          exact absurd (by simpa using hpn) ((List.find?_eq_none.mp hf) p hp)
      | some prev =>
        simp only [hf, Bool.and_eq_true] at h
        obtain ⟨hprev_mem, hprev_name⟩ := find_name d a.name prev hf
        refine ⟨a :: d.filter (·.name != a.name), ?_, h.2, by simp, ?_, ?_⟩
        · intro x hx y hy hxy
          simp only [List.mem_cons, List.mem_filter, bne_iff_ne, ne_eq] at hx hy
          rcases hx with rfl | hx <;> rcases hy with rfl | hy
          · rfl
          · exact absurd hxy.symm hy.2
          · exact absurd hxy hx.2
          · exact hu x hx.1 y hy.1 hxy
        · intro p hp hne
          simp only [List.mem_cons, List.mem_filter, bne_iff_ne, ne_eq]
          exact Or.inr ⟨hp, hne⟩
        · intro p hp hpn
          have : p = prev := hu p hp prev hprev_mem (hpn.trans hprev_name.symm)
          subst this; exact h.1
    obtain ⟨d', hu', hs', ha', hkeep, hsame⟩ := key
    obtain ⟨ih1, ih2⟩ := ih d' hu' hs'
    refine ⟨?_, ?_⟩
    · intro x hx p hp hpn
      simp only [List.mem_cons] at hx
      rcases hx with rfl | hx
      · exact hsame p hp hpn
      · by_cases hpa : p.name = a.name
        · -- p ~ a ~ x
          have h1 := hsame p hp hpa
          have h2 := ih1 x hx a ha' (hpa.symm.trans hpn)
          exact sameDefinition_trans p a x h1 h2
        · exact ih1 x hx p (hkeep p hp hpa) hpn
    · intro x hx y hy hxy
      simp only [List.mem_cons] at hx hy
      rcases hx with rfl | hx <;> rcases hy with rfl | hy
      · exact sameDefinition_of_eq _ _ ⟨rfl, rfl, rfl, rfl, rfl, rfl, rfl⟩
      · exact ih1 y hy x ha' hxy
      · exact sameDefinition_symm _ _ (ih1 x hx y ha' hxy.symm)
      · exact ih2 x hx y hy hxy

/-- **C08 (main, duplicates).** A text that passes the duplicate test has no name with two
differing definitions — whatever the kinds and components. -/
theorem seqCheck_pairwise (atoms : List RawAtom) (h : seqCheck [] atoms = true) :
    ∀ a ∈ atoms, ∀ b ∈ atoms, a.name = b.name → sameDefinition a b = true :=
  (seqCheck_sound atoms [] (by intro x hx; simp at hx) h).2

/-! The text-level loader on the documented faults (executable checks of the model = tests): -/
example : (loadString "states(z=1)\nx = 1\ny = x\nx = 3\ndz_dt = y\n").toOption.isNone = true := by decide +kernel
example : (loadString "states(z=1)\nparameters(a=1, b=2)\nx = a+b\nx = a*b\ndz_dt = x\n").toOption.isNone = true := by decide +kernel
example : (loadString "states(z=1)\nparameters(z=1)\ndz_dt = 1\n").toOption.isNone = true := by decide +kernel
example : (loadString "states(z=1)\ndz_dt = 1\ndz_dt = 2\n").toOption.isNone = true := by decide +kernel
example : (loadString "states(z=1, w=2)\ndz_dt = 1\n").toOption.isNone = true := by decide +kernel
example : (loadString "states(z=1)\ndz_dt = q\n").toOption.isNone = true := by decide +kernel
example : (loadString "states(z=1)\ndz_dt = 1\ndq_dt = 2\n").toOption.isNone = true := by decide +kernel
example : (loadString "states(z=1)\nx = 2\ndz_dt = x\n").toOption.isSome = true := by decide +kernel

end Gx.C08
