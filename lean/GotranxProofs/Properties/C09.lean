import GotranxProofs.Validate
import GotranxProofs.Pins
import GotranxProofs.Sorting
/-!
# C09 — generated code and slot layout are reproducible across processes

The only process-dependent input of the pipeline is the iteration order of each assignment's
dependency `frozenset` (it changes with `PYTHONHASHSEED`); in the model it is the explicit
parameter `π : DepOrder`.  The theorems say that nothing downstream depends on `π`.
-/
namespace Gx.C09
open Impl

/-- two traversal orders of the same sets: for every assignment one is a permutation of the other -/
def SameSets (m : Model) (π₁ π₂ : DepOrder) : Prop :=
  ∀ a ∈ m.assigns, (π₁ a.1 a.2).Perm (π₂ a.1 a.2)

theorem map_congr_mem {β γ} (l : List β) (f g : β → γ) (h : ∀ x ∈ l, f x = g x) : l.map f = l.map g := by
  induction l with
  | nil => rfl
  | cons x rest ih =>
    simp only [List.map_cons]
    rw [h x (by simp), ih (fun y hy => h y (List.mem_cons_of_mem _ hy))]

/-- **The sorted order of the assignments does not depend on set iteration order** (holds
because the dependencies are sorted before they reach `sorter.add`, pinned by `deps_sorted`). -/
theorem sort_iter_invariant (m : Model) (π₁ π₂ : DepOrder) (ru : Bool) (h : SameSets m π₁ π₂) :
    sortedAssignments m π₁ ru = sortedAssignments m π₂ ru := by
  unfold sortedAssignments
  dsimp only
  congr 1
  apply map_congr_mem
  intro a ha
  have hmem : a ∈ m.assigns := by
    unfold Model.assigns
    simp only [List.mem_append] at ha ⊢
    rcases ha with ha | ha
    · left
      by_cases hru : ru = true
      · simp only [hru, if_true, List.mem_filter] at ha; exact ha.1
      · simp only [hru] at ha; exact ha
    · right; exact ha
  rw [sortNames_perm _ _ (h a hmem)]

/-- **Everything downstream is a function of the sorted order and of name-sorted tuples**:
layout and all generated programs are equal for traversal orders of the same sets. -/
theorem layout_iter_invariant (m : Model) (π₁ π₂ : DepOrder) (h : SameSets m π₁ π₂) :
    layout m π₁ = layout m π₂ := by
  unfold layout sortedStates
  rw [sort_iter_invariant m π₁ π₂ false h]

theorem genRhs_iter_invariant (m : Model) (π₁ π₂ : DepOrder) (ru : Bool) (h : SameSets m π₁ π₂) :
    genRhs m π₁ ru = genRhs m π₂ ru := by
  unfold genRhs
  rw [layout_iter_invariant m π₁ π₂ h, sort_iter_invariant m π₁ π₂ ru h]

theorem genMonitor_iter_invariant (m : Model) (π₁ π₂ : DepOrder) (ru : Bool) (h : SameSets m π₁ π₂) :
    genMonitor m π₁ ru = genMonitor m π₂ ru := by
  unfold genMonitor
  rw [layout_iter_invariant m π₁ π₂ h, sort_iter_invariant m π₁ π₂ false h]

theorem genEuler_iter_invariant (m : Model) (π₁ π₂ : DepOrder) (ru : Bool) (h : SameSets m π₁ π₂) :
    genEuler m π₁ ru = genEuler m π₂ ru := by
  unfold genEuler
  rw [layout_iter_invariant m π₁ π₂ h, sort_iter_invariant m π₁ π₂ ru h]

theorem genGRL_iter_invariant (m : Model) (π₁ π₂ : DepOrder) (ru : Bool) (δ : Expr) (h : SameSets m π₁ π₂) :
    genGRL m π₁ ru δ = genGRL m π₂ ru δ := by
  unfold genGRL
  rw [layout_iter_invariant m π₁ π₂ h, sort_iter_invariant m π₁ π₂ ru h]

theorem genHybrid_iter_invariant (m : Model) (π₁ π₂ : DepOrder) (ru : Bool) (δ : Expr) (S : List Name)
    (h : SameSets m π₁ π₂) : genHybrid m π₁ ru δ S = genHybrid m π₂ ru δ S := by
  unfold genHybrid
  rw [layout_iter_invariant m π₁ π₂ h, sort_iter_invariant m π₁ π₂ ru h]

/-- the extracted flag: `sort_assignments` sorts the dependencies before `sorter.add` -/
theorem deps_sorted : Generated.depsSortedBeforeAdd = true := by decide

/-! ### History of `get_scheme` calls
Process state relevant to emitted names: the `co_name` each module-level scheme function
carries.  `get_scheme` as coded returns a renamed *copy*; the shared functions never change. -/

inductive Op where
  | getScheme (alias : String)
  | generate (viaAlias : String)
deriving Repr

/-- names carried by (explicit_euler, generalized_rush_larsen, hybrid_rush_larsen) -/
abbrev Names := String × String × String
def initNames : Names := ("explicit_euler", "generalized_rush_larsen", "hybrid_rush_larsen")

def resolve (alias : String) : Option String := Generated.schemeAliases.lookup alias

/-- one operation: new process state and the function name emitted (if any) -/
def stepH (s : Names) : Op → Names × Option String
  | .getScheme _ => (s, none)                      -- a copy is renamed, the shared state is untouched
  | .generate a => (s, (resolve a).map fun _ => a) -- emitted under the requested name

theorem history_invariant (ops : List Op) :
    (ops.foldl (fun s o => (stepH s o).1) initNames) = initNames := by
  induction ops with
  | nil => rfl
  | cons o rest ih =>
    simp only [List.foldl_cons]
    cases o <;> simpa [stepH] using ih

/-- the name a scheme is emitted under depends only on the request, never on the history -/
theorem emitted_name_history_free (s₁ s₂ : Names) (a : String) :
    (stepH s₁ (.generate a)).2 = (stepH s₂ (.generate a)).2 := rfl

/-! non-vacuity: two different traversal orders of the same dependency sets -/
def mW : Model :=
  { states := [("a", .num 1 0), ("b", .num 1 0)], params := [("p", .num 2 0)],
    inters := [("u", .add (.var "b") (.var "a")), ("v", .mul (.var "p") (.var "u"))],
    derivs := [("da_dt", "a", .add (.var "v") (.var "b")), ("db_dt", "b", .sub (.var "u") (.var "a"))] }
def rev : DepOrder := fun n e => (defaultDeps n e).reverse
example : SameSets mW defaultDeps rev := by
  intro a _; exact (List.reverse_perm _).symm
example : (sortedAssignments mW defaultDeps false).isSome = true := by decide +kernel
example : defaultDeps "u" (.add (.var "b") (.var "a")) ≠ rev "u" (.add (.var "b") (.var "a")) := by decide +kernel

end Gx.C09
