import GotranxProofs.Sorting
import GotranxProofs.Properties.C09
/-!
# C10 — the model does not depend on the order in which statements are written

The loader files atoms into per-component *sets* and every consumer reads them through
name-sorted tuples (`ODE.states`, `.parameters`, `.intermediates`, `.state_derivatives`).
Core lemma: a list with pairwise distinct names, sorted by name, is determined by its set.
Together with C09 (`sort_iter_invariant`, `layout_iter_invariant`, `gen*_iter_invariant`:
everything downstream is a function of those tuples) this gives identical layout and programs.
The statement for the whole text-level loader (`loadString (permute text) ≈ loadString text`) is
*not* proved; it is checked by running the model's loader and the real loader on permuted texts.
-/
namespace Gx.C10

/-- **Canonicity**: two permutations of a list whose names are pairwise distinct sort to the
same list (`ODE.states` etc. do not depend on the order in which atoms were written / on set
iteration order). -/
theorem sortByName_canonical {β} (key : β → Name) (l₁ l₂ : List β) (hp : l₁.Perm l₂)
    (hinj : ∀ a ∈ l₁, ∀ b ∈ l₁, key a = key b → a = b) :
    sortByName key l₁ = sortByName key l₂ := by
  have hperm : (sortByName key l₁).Perm (sortByName key l₂) :=
    (sortByName_perm key l₁).trans (hp.trans (sortByName_perm key l₂).symm)
  refine List.Perm.eq_of_pairwise (le := fun a b => key a ≤ key b) ?_
    (sortByName_sorted key l₁) (sortByName_sorted key l₂) hperm
  intro a b ha hb hab hba
  have ha' : a ∈ l₁ := (sortByName_perm key l₁).mem_iff.mp ha
  have hb' : b ∈ l₁ := hp.mem_iff.mpr ((sortByName_perm key l₂).mem_iff.mp hb)
  exact hinj a ha' b hb' (String.le_antisymm hab hba)

/-- the name-sorted tuples of a model built from permuted atom lists are equal -/
theorem model_of_perm (st₁ st₂ pa₁ pa₂ is₁ is₂ : List (Name × Expr)) (ds₁ ds₂ : List (Name × Name × Expr))
    (h1 : st₁.Perm st₂) (h2 : pa₁.Perm pa₂) (h3 : is₁.Perm is₂) (h4 : ds₁.Perm ds₂)
    (i1 : ∀ a ∈ st₁, ∀ b ∈ st₁, a.1 = b.1 → a = b) (i2 : ∀ a ∈ pa₁, ∀ b ∈ pa₁, a.1 = b.1 → a = b)
    (i3 : ∀ a ∈ is₁, ∀ b ∈ is₁, a.1 = b.1 → a = b) (i4 : ∀ a ∈ ds₁, ∀ b ∈ ds₁, a.1 = b.1 → a = b) :
    ({ states := sortByName (·.1) st₁, params := sortByName (·.1) pa₁, inters := sortByName (·.1) is₁,
       derivs := sortByName (·.1) ds₁ } : Model) =
    { states := sortByName (·.1) st₂, params := sortByName (·.1) pa₂, inters := sortByName (·.1) is₂,
      derivs := sortByName (·.1) ds₂ } := by
  rw [sortByName_canonical _ _ _ h1 i1, sortByName_canonical _ _ _ h2 i2,
    sortByName_canonical _ _ _ h3 i3, sortByName_canonical _ _ _ h4 i4]

/-- equal models give identical layouts and programs (nothing else enters the generators) -/
theorem code_of_equal_models (m₁ m₂ : Model) (π : Impl.DepOrder) (ru : Bool) (h : m₁ = m₂) :
    Impl.layout m₁ π = Impl.layout m₂ π ∧ Impl.genRhs m₁ π ru = Impl.genRhs m₂ π ru ∧
    Impl.genMonitor m₁ π ru = Impl.genMonitor m₂ π ru ∧ Impl.genEuler m₁ π ru = Impl.genEuler m₂ π ru := by
  subst h; exact ⟨rfl, rfl, rfl, rfl⟩

/-! Executable checks of the model's text-level loader on a concrete permutation (tests, not the
unbounded claim): blocks, entries and lines permuted. -/
def t1 : String := "states(\"A\", x=1, y=2)\nparameters(\"B\", a=0.5)\nexpressions(\"A\")\ni = a*x\ndx_dt = i - y\ndy_dt = -x\n"
def t2 : String := "parameters(\"B\", a=0.5)\nstates(\"A\", y=2, x=1)\nexpressions(\"A\")\ndy_dt = -x\ndx_dt = i - y\ni = a*x\n"
example : ((loadString t1).toOption.map (·.model)) = ((loadString t2).toOption.map (·.model)) := by decide +kernel
example : ((loadString t1).toOption.map (·.model)).isSome = true := by decide +kernel

end Gx.C10
