import GotranxProofs.Validate
import GotranxProofs.Pins
/-!
# C11 — saving a model to .ode and loading it back preserves the model (partial)

What is proved: the *alphabet* of the writer is inside the grammar the Lean parser implements —
every relation name the writer can emit is a `logicalfuncname` (with `!=` spelled `Not(Eq(…))`),
the writer overrides the printer methods for the sympy normal forms that have no counterpart in the
grammar (`E`), and its connectives are the grammar's.  What is *not* proved: the print/parse round
trip `parse (print e) = e` for all expressions (planned as `parse_render`); that direction is
exercised by the differential run (saved text re-parsed by the Lean parser and by the real loader,
values compared against the reference meaning).
-/
namespace Gx.C11
open Generated

/-- names the writer emits for relations; `Ne` is rewritten to `Not(Eq(…))` by the printer -/
def writerRelNames : List String := (relop2str.map (·.2)).map fun s => String.ofList (s.toList.filter (· != '\''))

theorem writer_relations_in_grammar :
    (writerRelNames.filter (· != "Ne")).all (fun n => logicalNames.contains n) = true ∧
    logicalNames.contains "Not" = true ∧ logicalNames.contains "Eq" = true ∧
    writerRelNames.length = 6 := by decide +kernel

theorem writer_connectives_in_grammar :
    ["And", "Or", "Conditional"].all (fun n => logicalNames.contains n) = true ∧
    ["exp", "log", "sqrt", "sin", "cos", "tan", "asin", "acos", "atan", "Abs", "floor", "Mod"].all (fun n => funcNames.contains n) = true := by
  decide +kernel

/-- the texts the writer produces for the two normal forms sympy introduces are accepted by the
parser model and mean what they should -/
example : (parseExprString "exp(1)*x").isSome = true := by decide +kernel
example : (parseExprString "Conditional(Not(Eq(a, x)), 1, 2)").isSome = true := by decide +kernel
example : (parseExprString "E*x").map (fun p => match resolve p with | .ok e => fv e | .error _ => []) = some ["E", "x"] := by decide +kernel
example : (parseExprString "Conditional(Ne(a, x), 1, 2)").isSome = false := by decide +kernel

/-- reloading evaluates the same: a saved expression that parses to `e'` with `eval ρ e' = eval ρ e`
keeps every validated program valid (`ExprOK` is about values, not syntax) -/
theorem reload_preserves_values {α} (N : Num α) (ρ : Env α) (e e' : Expr) (h : eval N ρ e' = eval N ρ e)
    (x : Name) (hx : ρ x = eval N ρ e) : ρ x = eval N ρ e' := by rw [h]; exact hx

end Gx.C11
