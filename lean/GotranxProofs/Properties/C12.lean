import GotranxProofs.Validate
import GotranxProofs.Pins
/-!
# C12 — removing unused variables never changes results
-/
namespace Gx.C12

/-- each state has one derivative (holds for every loaded model: the name is `d<state>_dt`) -/
def DerivsFunctional (m : Model) : Prop :=
  ∀ d d' X, m.stateOfDeriv d = some X → m.stateOfDeriv d' = some X → d = d'

/-- **C12 (rhs).** Two rhs programs for the same model and layout — e.g. generated with and
without unused-variable removal — that both pass `checkRhs` return the same value in every
state slot, for every input and interpretation. The layout does not mention the flag at all. -/
theorem unused_equiv_rhs {α} (N : Num α) (m : Model) (L : Layout) (inp : Inputs α) (t : α)
    (ρ : Env α) (p0 p1 : List Stmt) (s0 s1 : St α) (hf : DerivsFunctional m)
    (h0 : checkRhs m L p0 = true) (h1 : checkRhs m L p1 = true)
    (hsol : Solution N m L inp t ρ) (hok0 : ExprOK N m ρ p0) (hok1 : ExprOK N m ρ p1)
    (hx0 : exec N inp (initRhs t) p0 = some s0) (hx1 : exec N inp (initRhs t) p1 = some s1) :
    ∀ i, i < L.state.length → s0.result i = s1.result i := by
  intro i hi
  have hX : L.state[i]? = some L.state[i] := by simp [hi]
  obtain ⟨d0, _, hd0, hr0⟩ := checkRhs_sound_named N m L inp t ρ p0 s0 h0 hsol hok0 hx0 i _ hX
  obtain ⟨d1, _, hd1, hr1⟩ := checkRhs_sound_named N m L inp t ρ p1 s1 h1 hsol hok1 hx1 i _ hX
  have := hf d0 d1 _ hd0 hd1
  subst this
  rw [hr0, hr1]

/-- **C12 (no read of a removed name).** A program that passes the validator is well scoped,
so whatever was removed, nothing that remains reads it (no NameError). -/
theorem removed_never_read {α} (N : Num α) (m : Model) (L : Layout) (inp : Inputs α) (t : α)
    (p : List Stmt) (hchk : checkRhs m L p = true)
    (hin : ∀ u ∈ unpacks p, (inp u.2.1 u.2.2).isSome) :
    (exec N inp (initRhs t) p).isSome :=
  checkRhs_progress N m L inp t p hchk hin

/-- on the `Impl` layer: the unused filter keeps every name that some assignment mentions -/
theorem mentioned_complete (m : Model) (x : Name) (a : Name × Expr) (ha : a ∈ m.assigns) (hx : x ∈ fv a.2) :
    x ∈ Impl.mentioned m := by
  unfold Impl.mentioned Impl.dedup
  have hmem : x ∈ m.assigns.flatMap (fun a => fv a.2) := List.mem_flatMap.mpr ⟨a, ha, hx⟩
  -- dedup keeps membership
  have key : ∀ (l acc : List Name), x ∈ acc ∨ x ∈ l →
      x ∈ l.foldl (fun acc x => if acc.contains x then acc else acc ++ [x]) acc := by
    intro l
    induction l with
    | nil => intro acc h; simpa using h
    | cons y rest ih =>
      intro acc h
      simp only [List.foldl_cons]
      apply ih
      by_cases hc : acc.contains y = true
      · simp only [hc, if_true]
        rcases h with h | h
        · exact Or.inl h
        · simp only [List.mem_cons] at h
          rcases h with rfl | h
          · exact Or.inl (by simpa using hc)
          · exact Or.inr h
      · simp only [hc]
        rcases h with h | h
        · exact Or.inl (by simp [h])
        · simp only [List.mem_cons] at h
          rcases h with rfl | h
          · exact Or.inl (by simp)
          · exact Or.inr h
  exact key _ [] (Or.inr hmem)

/-- the witness of the defect the property guards against: with a running counter, dropping an
unused intermediate permutes the sort and the derivatives land in other slots, which
`checkRhs` rejects ("store of dX goes to the slot of X"). -/
def mW : Model :=
  { states := [("a", .num 1 0), ("b", .num 1 0)], params := [],
    inters := [("u", .add (.var "a") (.var "b"))],
    derivs := [("da_dt", "a", .var "b"), ("db_dt", "b", .num 2 0)] }
example : checkRhs mW { state := ["a", "b"], param := [], monitor := ["u", "da_dt", "db_dt"], missing := [] }
    [.unpack "b" .states 1, .define "db_dt" (.num 2 0), .store 0 (.var "db_dt"),
     .define "da_dt" (.var "b"), .store 1 (.var "da_dt")] = false := by decide
example : checkRhs mW { state := ["a", "b"], param := [], monitor := ["u", "da_dt", "db_dt"], missing := [] }
    [.unpack "b" .states 1, .define "db_dt" (.num 2 0), .store 1 (.var "db_dt"),
     .define "da_dt" (.var "b"), .store 0 (.var "da_dt")] = true := by decide

end Gx.C12
