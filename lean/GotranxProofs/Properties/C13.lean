import GotranxProofs.Validate
import GotranxProofs.Sorting
import GotranxProofs.Pins
/-!
# C13 — a component split yields complementary sub-models that reproduce the full model
-/
namespace Gx.C13
open Impl

theorem mem_dedup (l : List Name) (x : Name) : x ∈ dedup l ↔ x ∈ l := by
  unfold dedup
  have key : ∀ (l acc : List Name), x ∈ l.foldl (fun acc x => if acc.contains x then acc else acc ++ [x]) acc ↔ x ∈ acc ∨ x ∈ l := by
    intro l
    induction l with
    | nil => intro acc; simp
    | cons y rest ih =>
      intro acc
      simp only [List.foldl_cons]
      rw [ih]
      by_cases hc : acc.contains y = true
      · simp only [hc, if_true, List.mem_cons]
        constructor
        · rintro (h | h); exact Or.inl h; exact Or.inr (Or.inr h)
        · rintro (h | h | h)
          · exact Or.inl h
          · subst h; exact Or.inl (by simpa using hc)
          · exact Or.inr h
      · have hc' : acc.contains y = false := by simpa using hc
        simp only [hc', Bool.false_eq_true, if_false, List.mem_append, List.mem_cons, List.not_mem_nil, or_false]
        constructor
        · rintro ((h | h) | h)
          · exact Or.inl h
          · exact Or.inr (Or.inl h)
          · exact Or.inr (Or.inr h)
        · rintro (h | h | h)
          · exact Or.inl (Or.inl h)
          · exact Or.inl (Or.inr h)
          · exact Or.inr h
  simpa using key l []

/-- **Missing variables are exactly the names a (sub-)model uses but does not define.** -/
theorem missing_exact (m : Model) (x : Name) :
    x ∈ missingVariables m ↔
      (∃ a ∈ m.assigns, x ∈ fv a.2) ∧ x ∉ m.stateNames ∧ x ∉ m.paramNames ∧ x ∉ m.assignNames ∧ x ∉ timeNames := by
  unfold missingVariables sortNames
  rw [(sortByName_perm id _).mem_iff]
  simp only [List.mem_filter, mentioned, mem_dedup, List.mem_flatMap, Bool.not_eq_true', List.contains_eq_mem,
    decide_eq_false_iff_not, List.mem_append, not_or]
  constructor
  · rintro ⟨h1, ⟨⟨⟨h2, h3⟩, h4⟩, h5⟩⟩; exact ⟨h1, h2, h3, h4, h5⟩
  · rintro ⟨h1, h2, h3, h4, h5⟩; exact ⟨h1, ⟨⟨⟨h2, h3⟩, h4⟩, h5⟩⟩

/-- the missing-variable list is sorted by name (so its index map is `enumerate(sorted(names))`) -/
theorem missing_sorted (m : Model) : (missingVariables m).Pairwise (fun a b => a ≤ b) := by
  unfold missingVariables sortNames
  exact sortByName_sorted id _

/-- the assignments of a restricted model are assignments of the full model -/
theorem restrict_assigns (m : Model) (keep : Name → Bool) (a : Name × Expr) (h : a ∈ (restrict m keep).assigns) :
    a ∈ m.assigns := by
  unfold Model.assigns restrict at *
  simp only [List.mem_append, List.mem_filter, List.mem_map] at h ⊢
  rcases h with h | ⟨d, hd, rfl⟩
  · exact Or.inl h.1
  · exact Or.inr ⟨d, hd.1, rfl⟩

/-- **Gluing.** A solution `ρ` of the full model is a solution of any sub-model obtained by
restriction, provided the sub-model's input arrays hold `ρ`'s values for its states,
parameters and *missing variables* (fed from the other part's `missing_values` or from the full
model).  By uniqueness of solutions the generated rhs / monitors / schemes of the part then
return the full model's values for its names. -/
theorem split_glue {α} (N : Num α) (m : Model) (L L' : Layout) (inp inp' : Inputs α) (t : α) (ρ : Env α)
    (keep : Name → Bool) (hsol : Solution N m L inp t ρ)
    (hs : ∀ i x, L'.state[i]? = some x → ρ x = inp' .states i)
    (hp : ∀ i x, L'.param[i]? = some x → ρ x = inp' .params i)
    (hm : ∀ i x, L'.missing[i]? = some x → ρ x = inp' .missing i) :
    Solution N (restrict m keep) L' inp' t ρ :=
  ⟨hs, hp, hm, hsol.2.2.2.1, fun x e h => hsol.2.2.2.2 x e (restrict_assigns m keep (x, e) h)⟩

/-- `missing_values` returns each requested name in its requested slot (restated) -/
theorem missing_values_sound {α} (N : Num α) (m : Model) (L : Layout) (inp : Inputs α) (t : α)
    (ρ : Env α) (req : List Name) (p : List Stmt) (s' : St α)
    (hchk : checkMissingValues m L req p = true) (hsol : Solution N m L inp t ρ) (hok : ExprOK N m ρ p)
    (hx : exec N inp (initRhs t) p = some s') :
    ∀ i x, req[i]? = some x → (ρ x).isSome ∧ s'.result i = ρ x :=
  checkMissingValues_sound N m L inp t ρ req p s' hchk hsol hok hx

/-- states are partitioned when no atom is shared: a name kept by exactly one of two
complementary predicates is a state of exactly one part -/
theorem states_partition (m : Model) (keep : Name → Bool) (s : Name × Expr) (h : s ∈ m.states) :
    (s ∈ (restrict m keep).states ∧ s ∉ (restrict m (fun x => !keep x)).states) ∨
    (s ∉ (restrict m keep).states ∧ s ∈ (restrict m (fun x => !keep x)).states) := by
  unfold restrict
  simp only [List.mem_filter, h, true_and, Bool.not_eq_true']
  cases keep s.1 <;> simp

/-- C template: the index function for missing variables carries its own name (extracted) -/
theorem c_missing_index_name : Generated.cIndexNames.lookup "missing_index" = some "missing" ∧
    (Generated.cIndexNames.map (·.2)).Nodup := by decide +kernel

end Gx.C13
