import GotranxProofs.Validate
import GotranxModel.Diff
/-!
# C14 — generated NumPy functions are vectorised: columns are independent
-/
namespace Gx.C14

theorem allSome_map {β γ} (l : List γ) (f : γ → Option β) (out : List β) (h : allSome (l.map f) = some out) :
    out.length = l.length ∧ ∀ j, j < l.length → (l[j]?.bind f) = out[j]? := by
  induction l generalizing out with
  | nil => simp [allSome] at h; subst h; simp
  | cons x rest ih =>
    simp only [List.map_cons] at h
    cases hx : f x with
    | none => simp [hx, allSome] at h
    | some v =>
      simp only [hx, allSome, Option.map_eq_some_iff] at h
      obtain ⟨out', ho, rfl⟩ := h
      obtain ⟨hl, hj⟩ := ih out' ho
      refine ⟨by simp [hl], ?_⟩
      intro j hjlt
      cases j with
      | zero => simp [hx]
      | succ k => simpa using hj k (by simpa using hjlt)

/-- **Columns are independent.** For an expression without scalar-only constructs, column `j`
of the batch value is the scalar value computed from column `j` alone — for every
interpretation of the primitives and any number of columns. -/
theorem evalVec_pointwise {α} (N : Num α) (cols : List (Env α)) (e : Expr) (out : List α)
    (hs : scalarOnly e = false) (h : evalVec N false cols e = some out) :
    out.length = cols.length ∧ ∀ j, j < cols.length → (cols[j]?.bind fun ρ => eval N ρ e) = out[j]? := by
  simp only [evalVec, hs, Bool.or_self, Bool.false_and, Bool.false_eq_true, if_false] at h
  exact allSome_map cols (fun ρ => eval N ρ e) out h

/-- a Python-level construct (`not`, `and`, `or`, a conditional expression) is *not*
vectorised: with more than one column the batch call fails. -/
theorem scalarOnly_fails {α} (N : Num α) (cols : List (Env α)) (e : Expr)
    (hn : cols.length > 1) : evalVec N true cols e = none := by
  simp [evalVec, hn]

/-- every source construct is printed with elementwise NumPy functions: no expression is
scalar-only by itself -/
theorem no_source_construct_scalarOnly (e : Expr) : scalarOnly e = false := by
  induction e <;> simp_all [scalarOnly]

/-- …while on a single column it still evaluates (so unit tests on 1-D states do not see it) -/
theorem scalarOnly_single {α} (N : Num α) (b : Bool) (ρ : Env α) (e : Expr) :
    evalVec N b [ρ] e = (eval N ρ e).map fun v => [v] := by
  simp only [evalVec, List.length_cons, List.length_nil, Nat.lt_irrefl, decide_false, Bool.and_false,
    Bool.false_eq_true, if_false, List.map_cons, List.map_nil, gt_iff_lt, Nat.zero_add]
  cases eval N ρ e <;> simp [allSome]

example : scalarOnly (diff "x" (.fn .abs (.var "x"))) = false := by decide

end Gx.C14
