import GotranxModel
/-!
# C15 — importing a Myokit / CellML model preserves its dynamics (partial)

Lean covers only the renaming function of `myokit_to_gotran`: every Myokit variable is imported
under its unique name (`uname`), with `_` appended when that name is one of sympy's public names.
Theorem: the imported names are pairwise distinct whenever Myokit's unique names are and no
variable is already called like the suffixed form of a reserved one.  Myokit's file formats, its
expression evaluator and the three `xreplace` passes over sympy expressions are *not* modelled;
they are exercised by the differential run (generated .mmt models with nested variables, clashes
with sympy names, `if` / `piecewise`; the repository's .mmt / CellML files), with Myokit's
`evaluate_derivatives` as the oracle.
-/
namespace Gx.C15

/-- the gotranx name of a Myokit variable with unique name `u` -/
def gname (reserved : List Name) (u : Name) : Name := if reserved.contains u then u ++ "_" else u

theorem append_underscore_inj (u v : Name) (h : u ++ "_" = v ++ "_") : u = v := by
  have := congrArg String.toList h
  simp only [String.toList_append] at this
  exact String.toList_inj.mp (List.append_cancel_right this)

/-- **Unique names stay unique.** -/
theorem gname_injective (reserved : List Name) (us : List Name)
    (hno : ∀ u ∈ us, reserved.contains u = true → ∀ v ∈ us, v ≠ u ++ "_") :
    ∀ u ∈ us, ∀ v ∈ us, gname reserved u = gname reserved v → u = v := by
  intro u hu v hv h
  unfold gname at h
  by_cases hru : reserved.contains u = true <;> by_cases hrv : reserved.contains v = true
  · simp only [hru, hrv, if_true] at h; exact append_underscore_inj u v h
  · simp only [hru, hrv, if_true] at h
    exact absurd h.symm (hno u hu hru v hv)
  · simp only [hru, hrv, if_true] at h
    exact absurd h (hno v hv hrv u hu)
  · simp only [hru, hrv] at h; exact h

/-- the time variable is the only one dropped on import -/
def imported (reserved : List Name) (us : List Name) : List Name :=
  (us.map (gname reserved)).filter (· != "time")

theorem imported_nodup (reserved us : List Name) (hn : us.Nodup)
    (hno : ∀ u ∈ us, reserved.contains u = true → ∀ v ∈ us, v ≠ u ++ "_") :
    (imported reserved us).Nodup := by
  unfold imported
  have hmap : (us.map (gname reserved)).Nodup := by
    unfold List.Nodup
    rw [List.pairwise_map]
    exact List.Pairwise.imp_of_mem (fun {a b} ha hb hab heq => hab (gname_injective reserved us hno a ha b hb heq)) hn
  exact List.Pairwise.sublist List.filter_sublist hmap

example : imported ["beta", "E"] ["V", "beta", "E", "time", "m"] = ["V", "beta_", "E_", "m"] := by decide +kernel

end Gx.C15
