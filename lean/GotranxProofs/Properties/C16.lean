import GotranxProofs.Validate
/-!
# C16 — singularity removal changes a model only at its removable singular points
-/
namespace Gx.C16
open Impl

/-- no singular point is hit -/
def NoneHit {α} (N : Num α) (ρ : Env α) (sing : List (Name × Expr × Expr)) : Prop :=
  ∀ s ∈ sing, ∃ k, eval N ρ (.rel .eq (.var s.1) s.2.1) = some k ∧ N.truthy k = false

theorem eval_cond_eq {α} (N : Num α) (ρ : Env α) (c a b : Expr) :
    eval N ρ (.cond c a b) = (do
      let k ← eval N ρ c; let x ← eval N ρ a; let y ← eval N ρ b
      pure (if N.truthy k then x else y)) := rfl

/-- **What the property asks for (nested conditionals).** If all pieces evaluate and no singular
point is hit, the repaired expression has the value of the original — for any number of
singularities, in one or several states. -/
theorem nested_regular {α} (N : Num α) (ρ : Env α) (e : Expr) (v : α) (he : eval N ρ e = some v)
    (sing : List (Name × Expr × Expr)) (hn : NoneHit N ρ sing)
    (hr : ∀ s ∈ sing, (eval N ρ s.2.2).isSome) :
    eval N ρ (removeSingNested e sing) = some v := by
  induction sing with
  | nil => simpa [removeSingNested] using he
  | cons s rest ih =>
    obtain ⟨k, hk, hf⟩ := hn s (by simp)
    obtain ⟨r, hr'⟩ := Option.isSome_iff_exists.mp (hr s (by simp))
    have ih' := ih (fun s' hs' => hn s' (List.mem_cons_of_mem _ hs')) (fun s' hs' => hr s' (List.mem_cons_of_mem _ hs'))
    show eval N ρ (.cond (.rel .eq (.var s.1) s.2.1) s.2.2 (removeSingNested e rest)) = some v
    rw [eval_cond_eq, hk, hr', ih']
    simp [hf]

/-- at the first singular point that is hit, the repaired expression has that point's replacement -/
theorem nested_at_singular {α} (N : Num α) (ρ : Env α) (e : Expr) (s : Name × Expr × Expr)
    (rest : List (Name × Expr × Expr)) (k r w : α)
    (hk : eval N ρ (.rel .eq (.var s.1) s.2.1) = some k) (ht : N.truthy k = true)
    (hr : eval N ρ s.2.2 = some r) (hrest : eval N ρ (removeSingNested e rest) = some w) :
    eval N ρ (removeSingNested e (s :: rest)) = some r := by
  show eval N ρ (.cond (.rel .eq (.var s.1) s.2.1) s.2.2 (removeSingNested e rest)) = some r
  rw [eval_cond_eq, hk, hr, hrest]
  simp [ht]

/-- **The code that exists** (`piecewise_fold(sum(Conditional(Eq(x_i, v_i), r_i, expr)))`) agrees with
the nested form for at most one singularity … -/
theorem asCoded_le_one (e : Expr) (sing : List (Name × Expr × Expr)) (h : sing.length ≤ 1) :
    removeSingAsCoded e sing = removeSingNested e sing := by
  match sing, h with
  | [], _ => rfl
  | [s], _ => rfl

/-- … and for two singularities it *doubles* the value at every regular point (float64 witness:
original value 1.5, repaired value 3.0).  This is the known finding recorded for C16. -/
def ρW : Env Float := fun x => if x = "x" then some 1.0 else if x = "y" then some 1.0 else if x = "z" then some 1.5 else none
def singW : List (Name × Expr × Expr) := [("x", .num 0 0, .num 7 0), ("y", .num 0 0, .num 8 0)]
theorem asCoded_two_doubles :
    (eval NumFloat ρW (removeSingAsCoded (.var "z") singW)).map Float.toBits = some (3.0 : Float).toBits ∧
    (eval NumFloat ρW (removeSingNested (.var "z") singW)).map Float.toBits = some (1.5 : Float).toBits := by
  decide +kernel

end Gx.C16
