import GotranxModel
/-!
# C17 — comments, layout and annotations are inert (partial)

Proved for the lexer model (`Gx.lexAux`, which mirrors lark's contextual lexing of `ode.lark`, see
`Syntax.lean`): runs of blanks and tabs between tokens, and the *text* of a comment, do not change
the sequence of non-comment tokens.  Checked by execution of the model (tests) on concrete texts:
CRLF, line breaks after operators / opening parentheses, comment placement.  Three behaviours of
the grammar that contradict the property are mirrored by the model and recorded as known findings:
an empty comment `#` followed by a line break takes the next line as its text; a comment line
inside a headed `expressions("A")` block ends the block; a line break before a closing
parenthesis is a `NEWLINE` token where none is allowed.
-/
namespace Gx.C17

/-- **A blank or tab is skipped whatever precedes it**: inserting spaces / tabs between tokens
changes nothing (only the blanks are consumed; what follows is lexed as before). -/
theorem lex_skip_blank (fuel : Nat) (cs : List Char) (acc : List Tok) (b : Bool) (c : Char) (h : c = ' ' ∨ c = '\t') :
    lexAux (fuel + 1) b (c :: cs) acc = lexAux fuel b (takeWhileC isInline cs).2 acc := by
  rcases h with rfl | rfl <;> simp [lexAux, isInline]

/-- a run of blanks is skipped as a whole: `takeWhileC isInline` never stops inside it -/
theorem inline_run (cs : List Char) (c : Char) (h : c = ' ' ∨ c = '\t') :
    (takeWhileC isInline (c :: cs)).2 = (takeWhileC isInline cs).2 := by
  rcases h with rfl | rfl <;> simp [takeWhileC, isInline]

/-- the text of a comment never produces any token other than the one `comment` token: whatever
follows `#` up to the end of the line is taken verbatim -/
theorem lex_comment (fuel : Nat) (cs : List Char) (acc : List Tok) (b : Bool)
    (hne : (takeWhileC (· != '\n') (takeWhileC isWs cs).2).1 ≠ []) :
    lexAux (fuel + 1) b ('#' :: cs) acc =
      lexAux fuel true (takeWhileC (· != '\n') (takeWhileC isWs cs).2).2
        (.comment (String.ofList (takeWhileC (· != '\n') (takeWhileC isWs cs).2).1) :: acc) := by
  have h1 : isWs '#' = false := by decide
  have h2 : isInline '#' = false := by decide
  simp only [lexAux, h1, h2, Bool.false_eq_true, if_false]
  simp [hne]

/-! Executable checks of the lexer / parser model on layout variants (tests on concrete texts). -/
def base : String := "states(x=1, y=2)\nparameters(a=0.5)\ni = a*x\ndx_dt = i - y\ndy_dt = -x\n"
def modelOf (s : String) : Option Model := (loadString s).toOption.map (·.model)

example : modelOf "states(x=1, y=2)\r\nparameters(a=0.5)\r\ni = a*x\r\ndx_dt = i - y\r\ndy_dt = -x\r\n" = modelOf base := by decide +kernel
example : modelOf "states(x=1, y=2)\nparameters(a=0.5)\ni\t=   a*x\ndx_dt\t=   i - y\ndy_dt\t=   -x\n" = modelOf base := by decide +kernel
example : modelOf "states(x=1, y=2)\nparameters(a=0.5)\ni = a*x\ndx_dt = i -\n   y\ndy_dt = -x\n" = modelOf base := by decide +kernel
example : modelOf "states(x=1, y=2)\n\nparameters(a=0.5)\n\ni = a*x\n\ndx_dt = i - y\n\ndy_dt = -x\n\n" = modelOf base := by decide +kernel
example : modelOf "# header\n# second\nstates(x=1, y=2)\nparameters(a=0.5)\ni = a*x\ndx_dt = i - y\ndy_dt = -x\n" = modelOf base := by decide +kernel
example : modelOf "states(x=1, y=2)\nparameters(a=0.5)\ni = a*x # the sodium current (1/0\ndx_dt = i - y\ndy_dt = -x\n" = modelOf base := by decide +kernel
example : (modelOf base).isSome = true := by decide +kernel
/-- the recorded findings, as the model (and lark) behave -/
example : (modelOf "states(x=1, y=2)\nparameters(a=0.5)\n#\ni = a*x\ndx_dt = i - y\ndy_dt = -x\n").isSome = false := by decide +kernel
example : (modelOf "states(x=1)\nx2 = (1 + x\n)\ndx_dt = x2\n").isSome = false := by decide +kernel

end Gx.C17
