import GotranxModel
/-!
# C17 — comments, layout and annotations are inert (partial)

Proved for the lexer model (`Gx.lexAux`, which mirrors lark's contextual lexing of `ode.lark`, see
`Syntax.lean`): runs of blanks and tabs between tokens, and the *text* of a comment, do not change
the sequence of non-comment tokens; a CRLF line end is lexed exactly as LF, a blank line (LF or CRLF) is absorbed, and
inside an expression a line break with any indentation is white space (`lex_crlf`, `lex_blank_line`,
`lex_blank_line_crlf`, `lex_continuation_indent`, `lex_continuation_break`: one lexer step each, same fuel, any context).
Checked by execution of the model (tests) on concrete texts:
CRLF, line breaks after operators / opening parentheses, comment placement.  Three behaviours of
the grammar that contradict the property are mirrored by the model and recorded as known findings:
an empty comment `#` followed by a line break takes the next line as its text; a comment line
inside a headed `expressions("A")` block ends the block; a line break before a closing
parenthesis is a `NEWLINE` token where none is allowed.
-/
namespace Gx.C17

/-- **A blank or tab is skipped whatever precedes it**: inserting spaces / tabs between tokens
changes nothing (only the blanks are consumed; what follows is lexed as before). -/
theorem lex_skip_blank (fuel : Nat) (cs : List Char) (acc : List Tok) (b : Bool) (c : Char) (h : c = ' ' ∨ c = '\t') :
    lexAux (fuel + 1) b (c :: cs) acc = lexAux fuel b (takeWhileC isInline cs).2 acc := by
  rcases h with rfl | rfl <;> simp [lexAux, isInline]

/-- a run of blanks is skipped as a whole: `takeWhileC isInline` never stops inside it -/
theorem inline_run (cs : List Char) (c : Char) (h : c = ' ' ∨ c = '\t') :
    (takeWhileC isInline (c :: cs)).2 = (takeWhileC isInline cs).2 := by
  rcases h with rfl | rfl <;> simp [takeWhileC, isInline]

/-- the text of a comment never produces any token other than the one `comment` token: whatever
follows `#` up to the end of the line is taken verbatim -/
theorem lex_comment (fuel : Nat) (cs : List Char) (acc : List Tok) (b : Bool)
    (hne : (takeWhileC (· != '\n') (takeWhileC isWs cs).2).1 ≠ []) :
    lexAux (fuel + 1) b ('#' :: cs) acc =
      lexAux fuel true (takeWhileC (· != '\n') (takeWhileC isWs cs).2).2
        (.comment (String.ofList (takeWhileC (· != '\n') (takeWhileC isWs cs).2).1) :: acc) := by
  have h1 : isWs '#' = false := by decide
  have h2 : isInline '#' = false := by decide
  simp only [lexAux, h1, h2, Bool.false_eq_true, if_false]
  simp [hne]

/-- **A CRLF line end is lexed exactly as LF**, whatever precedes it and whatever follows (same fuel, same
accumulated tokens): as a `NEWLINE` token when the previous token can end an operand, as white space otherwise. -/
theorem lex_crlf (fuel : Nat) (b : Bool) (cs : List Char) (acc : List Tok) :
    lexAux (fuel + 1) b ('\r' :: '\n' :: cs) acc = lexAux (fuel + 1) b ('\n' :: cs) acc := by
  have h1 : isInline '\r' = false := by decide
  have h2 : isInline '\n' = false := by decide
  have h3 : isWs '\r' = true := by decide
  have h4 : isWs '\n' = true := by decide
  cases b <;> simp [lexAux, h1, h2, h3, h4, startsNewline, takeNewlines, takeWhileC]

/-- **A blank line changes nothing**: a second line break directly after a line break is absorbed
(`NEWLINE` is `(\r?\n)+`; between operands both are white space). -/
theorem lex_blank_line (fuel : Nat) (b : Bool) (cs : List Char) (acc : List Tok) :
    lexAux (fuel + 1) b ('\n' :: '\n' :: cs) acc = lexAux (fuel + 1) b ('\n' :: cs) acc := by
  have h2 : isInline '\n' = false := by decide
  have h4 : isWs '\n' = true := by decide
  cases b <;> simp [lexAux, h2, h4, startsNewline, takeNewlines, takeWhileC]

/-- … also when the blank line ends in CRLF -/
theorem lex_blank_line_crlf (fuel : Nat) (b : Bool) (cs : List Char) (acc : List Tok) :
    lexAux (fuel + 1) b ('\n' :: '\r' :: '\n' :: cs) acc = lexAux (fuel + 1) b ('\n' :: cs) acc := by
  have h2 : isInline '\n' = false := by decide
  have h4 : isWs '\n' = true := by decide
  have h5 : isWs '\r' = true := by decide
  cases b <;> simp [lexAux, h2, h4, h5, startsNewline, takeNewlines, takeWhileC]

/-- **Line continuation inside an expression**: after a token that cannot end an operand (an operator, an opening
parenthesis, a comma, `=`) a line break followed by indentation - blanks, tabs, further line breaks - is the same as
the line break alone, which in turn is the same as nothing at all. -/
theorem lex_continuation_indent (fuel : Nat) (c : Char) (hc : isWs c = true) (cs : List Char) (acc : List Tok) :
    lexAux (fuel + 1) false ('\n' :: c :: cs) acc = lexAux (fuel + 1) false ('\n' :: cs) acc := by
  have h2 : isInline '\n' = false := by decide
  have h4 : isWs '\n' = true := by decide
  simp [lexAux, h2, h4, takeWhileC, hc]

theorem lex_continuation_break (fuel : Nat) (cs : List Char) (acc : List Tok) :
    lexAux (fuel + 1) false ('\n' :: cs) acc = lexAux fuel false (takeWhileC isWs cs).2 acc := by
  have h2 : isInline '\n' = false := by decide
  have h4 : isWs '\n' = true := by decide
  simp [lexAux, h2, h4]

/-! Executable checks of the lexer / parser model on layout variants (tests on concrete texts). -/
def base : String := "states(x=1, y=2)\nparameters(a=0.5)\ni = a*x\ndx_dt = i - y\ndy_dt = -x\n"
def modelOf (s : String) : Option Model := (loadString s).toOption.map (·.model)

example : modelOf "states(x=1, y=2)\r\nparameters(a=0.5)\r\ni = a*x\r\ndx_dt = i - y\r\ndy_dt = -x\r\n" = modelOf base := by decide +kernel
example : modelOf "states(x=1, y=2)\nparameters(a=0.5)\ni\t=   a*x\ndx_dt\t=   i - y\ndy_dt\t=   -x\n" = modelOf base := by decide +kernel
example : modelOf "states(x=1, y=2)\nparameters(a=0.5)\ni = a*x\ndx_dt = i -\n   y\ndy_dt = -x\n" = modelOf base := by decide +kernel
example : modelOf "states(x=1, y=2)\n\nparameters(a=0.5)\n\ni = a*x\n\ndx_dt = i - y\n\ndy_dt = -x\n\n" = modelOf base := by decide +kernel
example : modelOf "# header\n# second\nstates(x=1, y=2)\nparameters(a=0.5)\ni = a*x\ndx_dt = i - y\ndy_dt = -x\n" = modelOf base := by decide +kernel
example : modelOf "states(x=1, y=2)\nparameters(a=0.5)\ni = a*x # the sodium current (1/0\ndx_dt = i - y\ndy_dt = -x\n" = modelOf base := by decide +kernel
example : (modelOf base).isSome = true := by decide +kernel
/-- the recorded findings, as the model (and lark) behave -/
example : (modelOf "states(x=1, y=2)\nparameters(a=0.5)\n#\ni = a*x\ndx_dt = i - y\ndy_dt = -x\n").isSome = false := by decide +kernel
example : (modelOf "states(x=1)\nx2 = (1 + x\n)\ndx_dt = x2\n").isSome = false := by decide +kernel

end Gx.C17
