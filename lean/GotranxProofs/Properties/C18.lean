import GotranxProofs.Pins
/-!
# C18 — the command line writes what the API generates and honours its options (partial)

The Lean part covers the option plumbing, as extracted from `cli/__init__.py`, `gotran2py.py`,
`gotran2c.py` on every run: every user-visible option of `ode2py` / `ode2c` is forwarded to
`main(...)`, and `main` forwards every code-generation option to `get_code(...)` under the same
name.  Composition of the two tables gives, field by field and hence for every combination of
option values, "the keyword arguments that reach `get_code` are the (config-overridden) command
line values".  typer's parsing and the file system are outside the model and are exercised by
the differential run only.
-/
namespace Gx.C18
open Generated

/-- the variable that reaches `get_code(kw=…)` when the command is given option `opt`:
compose `command → main` with `main → get_code` -/
def reaches (cmdForward mainForward : List (String × String)) (kw : String) : Option String :=
  (mainForward.lookup kw).bind fun v => (cmdForward.lookup v)

/-- **ode2py**: each code-generation keyword of `get_code` receives the option of the same name -/
theorem ode2py_plumbing :
    ["scheme", "format", "remove_unused", "stiff_states", "delta", "backend"].all
      (fun kw => reaches cli_ode2py_forward mainForward_py kw == some kw) = true := by decide +kernel

/-- **ode2c**: likewise, including `format` (the option that used to be dropped) -/
theorem ode2c_plumbing :
    ["scheme", "format", "remove_unused", "stiff_states", "delta"].all
      (fun kw => reaches cli_ode2c_forward mainForward_c kw == some kw) = true ∧
    cli_ode2c_forward.lookup "suffix" = some "to" := by decide +kernel

/-- no user-visible option is parsed and then dropped -/
theorem no_option_dropped :
    Pins.forwardsAll cli_ode2py_options cli_ode2py_forward = true ∧
    Pins.forwardsAll cli_ode2c_options cli_ode2c_forward = true := by decide +kernel

/-- the configuration keys each command reads (config overrides the command line, docs/config.md) -/
theorem config_keys :
    cli_ode2py_config = ["config_data:verbose", "config_data:delta", "config_data:stiff_states", "config_data:scheme",
      "config_data:python", "py_config:format", "py_config:backend"] ∧
    cli_ode2c_config = ["config_data:verbose", "config_data:delta", "config_data:stiff_states", "config_data:scheme",
      "config_data:c", "c_config:to", "c_config:format"] := by decide +kernel

/-- **every scheme receives exactly the options its function accepts, unchanged**: for each member
of `Scheme`, the keyword arguments `cli.utils.add_schemes` hands to `codegen.scheme` (observed by
running that function with a recording stub on every run) are the `delta` / `stiff_states`
parameters of the function `get_scheme` resolves the member to — so `--delta` reaches both
Rush–Larsen schemes under every accepted name and `--stiff-states` reaches the hybrid scheme. -/
theorem scheme_options_reach_schemes :
    schemeKwargsPassed = schemeKwargsAccepted ∧
    schemeKwargsValues.all (fun p => p.2 == "unchanged") = true ∧
    schemeKwargsPassed.map (·.1) = schemeMembers.map (·.2) := by decide +kernel

/-- effective value of an option: the configuration file overrides the command line -/
def effective {β} (cli : β) (cfg : Option β) : β := cfg.getD cli

theorem effective_cfg {β} (cli v : β) : effective cli (some v) = v := rfl
theorem effective_cli {β} (cli : β) : effective cli none = cli := rfl

end Gx.C18
