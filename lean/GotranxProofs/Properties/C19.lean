import GotranxProofs.Validate
/-!
# C19 — model identifiers never collide with names the generated code uses itself (partial)

Proved: renaming identifiers consistently does not change the meaning of an expression, of a
straight-line program, or the verdict of the scoping validator — *provided the renaming is
injective on the names in play*.  A collision with a name the generated code uses for itself
(`dt`, `t`, `values`, `states`, …) is exactly a non-injective situation: the template's own
binding and the model's binding share one name; `capture_witness` shows the effect.
Not proved: the set of names each template reserves (it is extracted and exercised by the
differential run, identifier by identifier).
-/
namespace Gx.C19

/-- **Renaming does not change values.** If `ρ'` gives to `f x` what `ρ` gives to `x` for every
name of `e`, then the renamed expression has the same value. -/
theorem eval_rename {α} (N : Num α) (f : Name → Name) (ρ ρ' : Env α) (e : Expr)
    (h : ∀ x ∈ fv e, ρ' (f x) = ρ x) : eval N ρ' (rename f e) = eval N ρ e := by
  induction e with
  | num m e => rfl
  | var x => simpa [rename, subst, eval] using h x (by simp [fv])
  | pi => rfl
  | neg a ih | fn g a ih | not a ih =>
    have := ih (fun x hx => h x (by simpa [fv] using hx))
    simp only [rename] at this
    simp only [rename, subst, eval, this]
  | add a b iha ihb | sub a b iha ihb | mul a b iha ihb | div a b iha ihb | pow a b iha ihb
  | mod a b iha ihb | and a b iha ihb | or a b iha ihb | rel r a b iha ihb =>
    have ha := iha (fun x hx => h x (by simp [fv, hx]))
    have hb := ihb (fun x hx => h x (by simp [fv, hx]))
    simp only [rename] at ha hb
    simp only [rename, subst, eval, ha, hb]
  | cond c a b ihc iha ihb =>
    have hc := ihc (fun x hx => h x (by simp [fv, hx]))
    have ha := iha (fun x hx => h x (by simp [fv, hx]))
    have hb := ihb (fun x hx => h x (by simp [fv, hx]))
    simp only [rename] at hc ha hb
    simp only [rename, subst, eval, hc, ha, hb]
  | ccond r x y a b s ihx ihy iha ihb ihs =>
    have hx := ihx (fun z hz => h z (by simp [fv, hz]))
    have hy := ihy (fun z hz => h z (by simp [fv, hz]))
    have ha := iha (fun z hz => h z (by simp [fv, hz]))
    have hb := ihb (fun z hz => h z (by simp [fv, hz]))
    have hs := ihs (fun z hz => h z (by simp [fv, hz]))
    simp only [rename] at hx hy ha hb hs
    simp only [rename, subst, eval, hx, hy, ha, hb, hs]

/-- the names of a renamed expression are the renamed names -/
theorem fv_rename (f : Name → Name) (e : Expr) : fv (rename f e) = (fv e).map f := by
  induction e with
  | num m e => rfl
  | var x => simp [rename, subst, fv]
  | pi => rfl
  | neg a ih | fn g a ih | not a ih => simpa [rename, subst, fv] using ih
  | add a b iha ihb | sub a b iha ihb | mul a b iha ihb | div a b iha ihb | pow a b iha ihb
  | mod a b iha ihb | and a b iha ihb | or a b iha ihb | rel r a b iha ihb =>
    simp only [rename] at iha ihb
    simp [rename, subst, fv, iha, ihb]
  | cond c a b ihc iha ihb =>
    simp only [rename] at ihc iha ihb
    simp [rename, subst, fv, ihc, iha, ihb]
  | ccond r x y a b s ihx ihy iha ihb ihs =>
    simp only [rename] at ihx ihy iha ihb ihs
    simp [rename, subst, fv, ihx, ihy, iha, ihb, ihs]

def renameStmt (f : Name → Name) : Stmt → Stmt
  | .unpack x a i => .unpack (f x) a i
  | .define x e => .define (f x) (rename f e)
  | .store i e => .store i (rename f e)

/-- an injective renaming keeps a program well scoped: nothing is captured -/
theorem wellScoped_rename (f : Name → Name) (hinj : ∀ a b, f a = f b → a = b) :
    ∀ (p : List Stmt) (bound : List Name), wellScoped bound p = true →
      wellScoped (bound.map f) (p.map (renameStmt f)) = true := by
  intro p
  induction p with
  | nil => intro _ _; rfl
  | cons st rest ih =>
    intro bound h
    have hcontains : ∀ x, (bound.map f).contains (f x) = bound.contains x := by
      intro x
      simp only [List.contains_eq_mem, List.mem_map, decide_eq_decide]
      constructor
      · rintro ⟨y, hy, hxy⟩; rw [← hinj y x hxy]; exact hy
      · intro hx; exact ⟨x, hx, rfl⟩
    cases st with
    | unpack x a i =>
      simp only [wellScoped, Bool.and_eq_true, Bool.not_eq_true'] at h
      simp only [List.map_cons, renameStmt, wellScoped, hcontains, h.1, Bool.not_false, Bool.true_and]
      exact ih (x :: bound) h.2
    | define x e =>
      simp only [wellScoped, Bool.and_eq_true, Bool.not_eq_true', List.all_eq_true] at h
      simp only [List.map_cons, renameStmt, wellScoped, hcontains, h.1.1, Bool.not_false, Bool.true_and, Bool.and_eq_true,
        List.all_eq_true, fv_rename]
      refine ⟨?_, ih (x :: bound) h.2⟩
      intro y hy
      obtain ⟨z, hz, rfl⟩ := List.mem_map.mp hy
      rw [hcontains]; exact h.1.2 z hz
    | store i e =>
      simp only [wellScoped, Bool.and_eq_true, List.all_eq_true] at h
      simp only [List.map_cons, renameStmt, wellScoped, Bool.and_eq_true, List.all_eq_true, fv_rename]
      refine ⟨?_, ih bound h.2⟩
      intro y hy
      obtain ⟨z, hz, rfl⟩ := List.mem_map.mp hy
      rw [hcontains]; exact h.1 z hz

/-- **Capture witness.** A parameter called `dt`: the scheme's own `dt` argument is bound first, the
model's `dt = parameters[0]` rebinds it — the program is no longer single-assignment (the validator
rejects it), while the same model with the parameter renamed is accepted. -/
def schemeProg (p : Name) : List Stmt :=
  [.unpack "x" .states 0, .unpack p .params 0, .define "dx_dt" (.mul (.var p) (.var "x")),
   .store 0 (.add (.var "x") (.mul (.var "dt") (.var "dx_dt")))]
theorem capture_witness :
    wellScoped initBoundScheme (schemeProg "dt") = false ∧ wellScoped initBoundScheme (schemeProg "k") = true := by
  decide

end Gx.C19
