import GotranxProofs.Validate
import GotranxProofs.Pins
import GotranxProofs.Analysis
/-!
# C20 — symbolic right-hand side and Jacobian are those of the model
-/
namespace Gx.C20
open Impl

/-- substitution of names by their defining expressions does not change the value at an
environment that satisfies those definitions -/
theorem eval_subst {α} (N : Num α) (ρ : Env α) (σ : Name → Option Expr)
    (hσ : ∀ x e, σ x = some e → ρ x = eval N ρ e) (e0 : Expr) :
    eval N ρ (subst σ e0) = eval N ρ e0 := by
  induction e0 with
  | num m e => rfl
  | var x =>
    simp only [subst]
    cases h : σ x with
    | none => rfl
    | some e => simp only [eval]; exact (hσ x e h).symm
  | pi => rfl
  | neg a ih | fn f a ih | not a ih => simp only [subst, eval, ih]
  | add a b iha ihb | sub a b iha ihb | mul a b iha ihb | div a b iha ihb | pow a b iha ihb
  | mod a b iha ihb | and a b iha ihb | or a b iha ihb | rel r a b iha ihb =>
    simp only [subst, eval, iha, ihb]
  | cond c a b ihc iha ihb => simp only [subst, eval, ihc, iha, ihb]
  | ccond r x y a b s ihx ihy iha ihb ihs => simp only [subst, eval, ihx, ihy, iha, ihb, ihs]

/-- **rhs_matrix is sound.** Whatever number of rounds it runs, if `rhsMatrixLoop` returns a
list then (1) it has one entry per derivative, (2) no entry mentions an intermediate any more and
(3) each entry has, at every solution `ρ` of the model's intermediate equations, the value of the
corresponding derivative expression — every intermediate expanded, to any depth. -/
theorem rhsMatrixLoop_sound {α} (N : Num α) (ρ : Env α) (σ : Name → Option Expr) (isInter : Name → Bool)
    (hσ : ∀ x e, σ x = some e → ρ x = eval N ρ e) :
    ∀ (fuel : Nat) (rhs out : List Expr), rhsMatrixLoop σ isInter fuel rhs = some out →
      out.length = rhs.length ∧ hasInter isInter out = false ∧
      ∀ i : Nat, (out[i]?.bind (eval N ρ)) = (rhs[i]?.bind (eval N ρ)) := by
  intro fuel
  induction fuel with
  | zero =>
    intro rhs out h
    simp only [rhsMatrixLoop] at h
    by_cases hh : hasInter isInter rhs = true
    · simp [hh] at h
    · simp only [hh] at h
      injection h with h; subst h
      exact ⟨rfl, by simpa using hh, fun _ => rfl⟩
  | succ n ih =>
    intro rhs out h
    simp only [rhsMatrixLoop] at h
    by_cases hh : hasInter isInter rhs = true
    · simp only [hh, if_true] at h
      obtain ⟨h1, h2, h3⟩ := ih (rhs.map (subst σ)) out h
      refine ⟨by simpa using h1, h2, ?_⟩
      intro i
      rw [h3 i]
      simp only [List.getElem?_map]
      cases rhs[i]? with
      | none => rfl
      | some e => simp [eval_subst N ρ σ hσ e]
    · simp only [hh] at h
      injection h with h; subst h
      exact ⟨rfl, by simpa using hh, fun _ => rfl⟩

/-- the substitution the model uses maps every intermediate to its defining expression, so a
solution of the model satisfies its hypotheses -/
theorem sigma_of_solution {α} (N : Num α) (m : Model) (L : Layout) (inp : Inputs α) (t : α) (ρ : Env α)
    (hsol : Solution N m L inp t ρ) :
    ∀ x e, lookup m.inters x = some e → ρ x = eval N ρ e := by
  intro x e h
  have hmem : (x, e) ∈ m.inters := lookup_mem _ _ _ h
  exact (hsol.2.2.2.2 x e (by unfold Model.assigns; simp [hmem])).1

/-- the state order of the symbolic matrices is the order of the generated code's `state_index` -/
theorem states_order (m : Model) (π : DepOrder) (L : Layout) (h : layout m π = some L) :
    sortedStates m π = some L.state := by
  unfold layout at h
  cases hs : sortedStates m π with
  | none => simp [hs] at h
  | some st =>
    cases hm : sortedAssignments m π false with
    | none => simp [hs, hm] at h
    | some mon =>
      simp only [hs, hm, Option.bind_eq_bind, Option.bind_some, Option.pure_def, Option.some.injEq] at h
      subst h; rfl

/-- **Jacobian entries are partial derivatives.** Each entry of `Impl.jacobian` is `diff s r` of an
expanded right-hand side `r`; on the smooth fragment its value is the derivative of
`v ↦ ⟦r⟧ρ[s ↦ v]` at `ρ s` — through all intermediates, because `r` has none left. -/
theorem jacobian_entry_correct (ρ : Name → ℝ) (s : Name) (r : Expr) (h : Smooth ρ s r) :
    HasDerivAt (fun v => evalR (upd ρ s v) r) (evalR ρ (diff s r)) (ρ s) := diff_correct ρ s r h

theorem jacobian_shape (m : Model) (π : DepOrder) (k : Nat) (J : List (List Expr)) (rhs : List Expr) (sts : List Name)
    (hr : rhsMatrix m π k = some rhs) (hs : sortedStates m π = some sts) (hJ : jacobian m π k = some J) :
    J = rhs.map fun e => sts.map fun s => diff s e := by
  unfold jacobian at hJ
  simp only [hr, hs, Option.bind_eq_bind, Option.bind_some, Option.pure_def, Option.some.injEq] at hJ
  exact hJ.symm

/-- rounds: the loop never fails when no intermediate is mentioned -/
theorem loop_done (σ : Name → Option Expr) (isInter : Name → Bool) (fuel : Nat) (rhs : List Expr)
    (h : hasInter isInter rhs = false) : rhsMatrixLoop σ isInter fuel rhs = some rhs := by
  cases fuel <;> simp [rhsMatrixLoop, h]

/-! A chain of 25 intermediates (deeper than the former fixed bound of 20) is expanded with the
default bound `#intermediates + 1` (executable check of the model = test). -/
def chain : Nat → List (Name × Expr)
  | 0 => [("i0", .mul (.var "p") (.var "x"))]
  | n + 1 => chain n ++ [(s!"i{n + 1}", .add (.mul (.var s!"i{n}") (.num 5 (-1))) (.var "x"))]
def mChain (n : Nat) : Model :=
  { states := [("x", .num 1 0)], params := [("p", .num 2 0)], inters := chain n,
    derivs := [("dx_dt", "x", .var s!"i{n}")] }
example : (rhsMatrix (mChain 25) defaultDeps (defaultMaxTries (mChain 25))).isSome = true := by decide +kernel
example : (rhsMatrix (mChain 25) defaultDeps 20).isSome = false := by decide +kernel

end Gx.C20
