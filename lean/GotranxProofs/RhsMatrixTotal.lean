import GotranxProofs.EndToEnd
/-!
# `rhs_matrix` is produced for any acyclic dependency depth

`Impl.rhsMatrix m π (defaultMaxTries m)` (the model of `sympytools.rhs_matrix` with its default
bound `#intermediates + 1`) returns a matrix for **every** well-formed acyclic model.
Measure: the intermediates, in the order the sort gives them (`I = [i₀, …, i_{n-1}]`); an expression
is *at level k* when every intermediate it mentions is among the first `k`.  One round of
simultaneous substitution takes level `k + 1` to level `k`, because the expression that defines
`i_j` only mentions intermediates that come before `i_j`.  The right-hand sides start at level `n`.
-/
namespace Gx
namespace RhsMatrixTotal
open Impl Kahn GenValid

theorem fv_subst (σ : Name → Option Expr) (e : Expr) (z : Name) (hz : z ∈ fv (subst σ e)) :
    (z ∈ fv e ∧ σ z = none) ∨ ∃ y e', y ∈ fv e ∧ σ y = some e' ∧ z ∈ fv e' := by
  induction e with
  | num m x => simp [subst, fv] at hz
  | pi => simp [subst, fv] at hz
  | var x =>
    simp only [subst] at hz
    cases h : σ x with
    | none => simp only [h, fv, List.mem_singleton] at hz; subst hz; exact Or.inl ⟨by simp [fv], h⟩
    | some e' => simp only [h] at hz; exact Or.inr ⟨x, e', by simp [fv], h, hz⟩
  | neg a ih | fn f a ih | not a ih =>
    simp only [subst, fv] at hz
    rcases ih hz with h | ⟨y, e', h1, h2, h3⟩
    · exact Or.inl (by simpa [fv] using h)
    · exact Or.inr ⟨y, e', by simpa [fv] using h1, h2, h3⟩
  | add a b iha ihb | sub a b iha ihb | mul a b iha ihb | div a b iha ihb | pow a b iha ihb
  | mod a b iha ihb | and a b iha ihb | or a b iha ihb | rel r a b iha ihb =>
    simp only [subst, fv, List.mem_append] at hz
    rcases hz with hz | hz
    · rcases iha hz with h | ⟨y, e', h1, h2, h3⟩
      · exact Or.inl ⟨by simp [fv, h.1], h.2⟩
      · exact Or.inr ⟨y, e', by simp [fv, h1], h2, h3⟩
    · rcases ihb hz with h | ⟨y, e', h1, h2, h3⟩
      · exact Or.inl ⟨by simp [fv, h.1], h.2⟩
      · exact Or.inr ⟨y, e', by simp [fv, h1], h2, h3⟩
  | cond c a b ihc iha ihb =>
    simp only [subst, fv, List.mem_append] at hz
    rcases hz with (hz | hz) | hz
    · rcases ihc hz with h | ⟨y, e', h1, h2, h3⟩
      · exact Or.inl ⟨by simp [fv, h.1], h.2⟩
      · exact Or.inr ⟨y, e', by simp [fv, h1], h2, h3⟩
    · rcases iha hz with h | ⟨y, e', h1, h2, h3⟩
      · exact Or.inl ⟨by simp [fv, h.1], h.2⟩
      · exact Or.inr ⟨y, e', by simp [fv, h1], h2, h3⟩
    · rcases ihb hz with h | ⟨y, e', h1, h2, h3⟩
      · exact Or.inl ⟨by simp [fv, h.1], h.2⟩
      · exact Or.inr ⟨y, e', by simp [fv, h1], h2, h3⟩
  | ccond r x y a b s ihx ihy iha ihb ihs =>
    simp only [subst, fv, List.mem_append] at hz
    rcases hz with (((hz | hz) | hz) | hz) | hz
    · rcases ihx hz with h | ⟨w, e', h1, h2, h3⟩
      · exact Or.inl ⟨by simp [fv, h.1], h.2⟩
      · exact Or.inr ⟨w, e', by simp [fv, h1], h2, h3⟩
    · rcases ihy hz with h | ⟨w, e', h1, h2, h3⟩
      · exact Or.inl ⟨by simp [fv, h.1], h.2⟩
      · exact Or.inr ⟨w, e', by simp [fv, h1], h2, h3⟩
    · rcases iha hz with h | ⟨w, e', h1, h2, h3⟩
      · exact Or.inl ⟨by simp [fv, h.1], h.2⟩
      · exact Or.inr ⟨w, e', by simp [fv, h1], h2, h3⟩
    · rcases ihb hz with h | ⟨w, e', h1, h2, h3⟩
      · exact Or.inl ⟨by simp [fv, h.1], h.2⟩
      · exact Or.inr ⟨w, e', by simp [fv, h1], h2, h3⟩
    · rcases ihs hz with h | ⟨w, e', h1, h2, h3⟩
      · exact Or.inl ⟨by simp [fv, h.1], h.2⟩
      · exact Or.inr ⟨w, e', by simp [fv, h1], h2, h3⟩

/-- every intermediate mentioned is among the first `k` of `I` -/
def Level (isInter : Name → Bool) (I : List Name) (k : Nat) (e : Expr) : Prop :=
  ∀ y ∈ fv e, isInter y = true → y ∈ I.take k

/-- an element that comes before a member of the first `k + 1` elements is among the first `k` -/
theorem before_take (I : List Name) (hnd : I.Nodup) (z y : Name) (k : Nat)
    (hb : Before I z y) (hy : y ∈ I.take (k + 1)) : z ∈ I.take k := by
  obtain ⟨pre, post, rfl, hz⟩ := hb
  have hlen : pre.length < k + 1 := by
    apply Nat.lt_of_not_le
    intro hle
    have : (pre ++ y :: post).take (k + 1) = pre.take (k + 1) := by
      rw [List.take_append_of_le_length hle]
    rw [this] at hy
    have hyp : y ∈ pre := List.mem_of_mem_take hy
    have := List.nodup_append.mp hnd
    exact this.2.2 y hyp y (by simp) rfl
  have : (pre ++ y :: post).take k = pre ++ (y :: post).take (k - pre.length) := by
    rw [List.take_append]
    congr 1
    exact List.take_of_length_le (by omega)
  rw [this]
  exact List.mem_append.mpr (Or.inl hz)

/-- one round of substitution lowers the level -/
theorem level_subst (σ : Name → Option Expr) (isInter : Name → Bool) (I : List Name) (hnd : I.Nodup)
    (hiff : ∀ y, isInter y = (σ y).isSome)
    (hdef : ∀ y e', σ y = some e' → ∀ z ∈ fv e', isInter z = true → Before I z y)
    (k : Nat) (e : Expr) (h : Level isInter I (k + 1) e) : Level isInter I k (subst σ e) := by
  intro z hz hzi
  rcases fv_subst σ e z hz with ⟨_, hnone⟩ | ⟨y, e', hy, hσy, hze⟩
  · rw [hiff z, hnone] at hzi; simp at hzi
  · have hyi : isInter y = true := by rw [hiff y, hσy]; rfl
    exact before_take I hnd z y k (hdef y e' hσy z hze hzi) (h y hy hyi)

/-- at level 0 nothing is left to substitute -/
theorem hasInter_of_level_zero (isInter : Name → Bool) (I : List Name) (rhs : List Expr)
    (h : ∀ e ∈ rhs, Level isInter I 0 e) : hasInter isInter rhs = false := by
  unfold hasInter
  rw [Bool.eq_false_iff]
  intro hc
  simp only [List.any_eq_true] at hc
  obtain ⟨e, he, y, hy, hyi⟩ := hc
  have := h e he y hy hyi
  simp at this

/-- the loop returns a matrix when the remaining tries cover the level -/
theorem loop_total (σ : Name → Option Expr) (isInter : Name → Bool) (I : List Name) (hnd : I.Nodup)
    (hiff : ∀ y, isInter y = (σ y).isSome)
    (hdef : ∀ y e', σ y = some e' → ∀ z ∈ fv e', isInter z = true → Before I z y) :
    ∀ (k remaining : Nat) (rhs : List Expr), k ≤ remaining → (∀ e ∈ rhs, Level isInter I k e) →
      (rhsMatrixLoop σ isInter remaining rhs).isSome = true := by
  intro k
  induction k with
  | zero =>
    intro remaining rhs _ h
    have := hasInter_of_level_zero isInter I rhs h
    cases remaining <;> simp [rhsMatrixLoop, this]
  | succ k ih =>
    intro remaining rhs hle h
    obtain ⟨r, rfl⟩ : ∃ r, remaining = r + 1 := ⟨remaining - 1, by omega⟩
    simp only [rhsMatrixLoop]
    by_cases hh : hasInter isInter rhs = true
    · simp only [hh, if_true]
      apply ih r (rhs.map (subst σ)) (by omega)
      intro e he
      obtain ⟨e0, he0, rfl⟩ := List.mem_map.mp he
      exact level_subst σ isInter I hnd hiff hdef k e0 (h e0 he0)
    · simp [hh]

/-- **`rhs_matrix` is total.** For every well-formed acyclic model the symbolic right-hand side is
produced with the default bound `#intermediates + 1`, whatever the depth of the dependency chains. -/
theorem rhsMatrix_total (m : Model) (π : DepOrder) (rank : Name → Nat) (hwf : ModelWF m) (hr : Ranked m rank)
    (hcover : ∀ a ∈ m.assigns, ∀ y ∈ fv a.2, y ∈ π a.1 a.2)
    (hexact : ∀ a ∈ m.assigns, ∀ y ∈ π a.1 a.2, y ∈ fv a.2) :
    (rhsMatrix m π (defaultMaxTries m)).isSome = true := by
  obtain ⟨order, hord⟩ := Option.isSome_iff_exists.mp (EndToEnd.sortedAssignments_total m π false rank hr hexact)
  obtain ⟨hnd, hmem, hbef⟩ := sorted_facts m π false order hwf.assigns_nodup hcover hord
  unfold rhsMatrix
  rw [hord]
  show (rhsMatrixLoop (fun x => lookup m.inters x) (fun x => (lookup m.inters x).isSome) (defaultMaxTries m) _).isSome = true
  -- the intermediates in sorted order
  let isI : Name → Bool := fun x => (lookup m.inters x).isSome
  let I := order.filter isI
  have hInd : I.Nodup := hnd.sublist List.filter_sublist
  have hinterNames : (m.inters.map (·.1)).Nodup := by
    have := hwf.assigns_nodup
    rw [assignNames_eq] at this
    exact (List.nodup_append.mp this).1
  -- `lookup m.inters` agrees with `rhsOf` on intermediates
  have hlook : ∀ y e', lookup m.inters y = some e' → m.rhsOf y = some e' := by
    intro y e' h
    have hmemI := lookup_mem _ _ _ h
    exact lookup_of_mem_nodup m.assigns y e' hwf.assigns_nodup (List.mem_append.mpr (Or.inl hmemI))
  have hIlen : I.length ≤ m.inters.length := by
    have hsub : ∀ x ∈ I, x ∈ m.inters.map (·.1) := by
      intro x hx
      have hx' := (List.mem_filter.mp hx).2
      obtain ⟨e', he'⟩ := Option.isSome_iff_exists.mp hx'
      exact List.mem_map.mpr ⟨(x, e'), lookup_mem _ _ _ he', rfl⟩
    have := (List.subperm_of_subset hInd hsub).length_le
    simpa using this
  have hdef : ∀ y e', lookup m.inters y = some e' → ∀ z ∈ fv e', isI z = true → Before I z y := by
    intro y e' hy z hz hzi
    have hyo : y ∈ order := by
      rw [hmem y]
      exact List.mem_map.mpr ⟨(y, e'), List.mem_append.mpr (Or.inl (by simpa using lookup_mem _ _ _ hy)), rfl⟩
    have hzk : z ∈ (keptAssigns m false).map (·.1) := by
      obtain ⟨ez, hez⟩ := Option.isSome_iff_exists.mp hzi
      exact List.mem_map.mpr ⟨(z, ez), List.mem_append.mpr (Or.inl (by simpa using lookup_mem _ _ _ hez)), rfl⟩
    have hb := hbef y e' z hyo (hlook y e' hy) hz hzk
    exact before_filter order isI z y hb hzi (by show (lookup m.inters y).isSome = true; rw [hy]; rfl)
  apply loop_total (fun x => lookup m.inters x) isI I hInd (fun _ => rfl) hdef I.length (defaultMaxTries m)
  · unfold defaultMaxTries; omega
  · intro e he y hy hyi
    rw [List.take_length]
    -- every intermediate is in the sorted order
    refine List.mem_filter.mpr ⟨?_, hyi⟩
    obtain ⟨ey, hey⟩ := Option.isSome_iff_exists.mp hyi
    rw [hmem y]
    exact List.mem_map.mpr ⟨(y, ey), List.mem_append.mpr (Or.inl (by simpa using lookup_mem _ _ _ hey)), rfl⟩

end RhsMatrixTotal
end Gx
